(* Proofs about D2/Announce.v: the tracked announcement set is the fold of the event history (for every history,
   by induction), published snapshots are never written afterwards, the service definition in force
   is the last well-formed service payload.                                     *)
From Coq Require Import List Bool Arith Lia QArith.
From Coq.Strings Require Import Byte.
From GR Require Import Base.Bytes D2.Announce.
Import ListNotations.
Local Open Scope nat_scope.

(* ------------------------------------------------------------------------------------------- specification *)

(* What a ZooKeeper event says about znode key k (the event's path minus the zkPath prefix):
   [] = nothing, [None] = "k is gone", [Some u] = "k now announces u".  Written from the property text, not from
   the code: deletions remove, well-formed announcements with at least one weight are written, malformed and
   weight-less payloads and events for the root path itself say nothing. *)
Definition word (zk k : bytes) (e : zevent) : list (option ann) :=
  match e with
  | Removed p => if bytes_eqb (trim_prefix zk p) k then [None] else []
  | Added p (PDecoded (x :: u)) | Updated p (PDecoded (x :: u)) =>
      if bytes_eqb (trim_prefix zk p) k then [Some (x :: u)] else []
  | _ => []
  end.

(* the fold of a history: for each key the LAST word wins; keys nobody spoke about keep their initial value *)
Definition fold_spec (zk : bytes) (init : umap) (hist : list zevent) (k : bytes) : option ann :=
  if is_nil k then alookup k init
  else match flat_map (word zk k) (rev hist) with
       | x :: _ => x
       | [] => alookup k init
       end.

(* ------------------------------------------------------------------------------------------- association lists *)

Lemma alookup_aremove {A} k k' (m : list (bytes * A)) :
  alookup k (aremove k' m) = if bytes_eqb k k' then None else alookup k m.
Proof.
  induction m as [|[k0 v] m IH]; simpl.
  - destruct (bytes_eqb k k'); reflexivity.
  - destruct (bytes_eqb k' k0) eqn:E0.
    + apply bytes_eqb_eq in E0. subst k0. rewrite IH.
      destruct (bytes_eqb k k') eqn:E; reflexivity.
    + simpl. destruct (bytes_eqb k k0) eqn:E1.
      * destruct (bytes_eqb k k') eqn:E; [|reflexivity].
        apply bytes_eqb_eq in E. apply bytes_eqb_eq in E1. subst.
        rewrite bytes_eqb_refl in E0. discriminate.
      * exact IH.
Qed.

Lemma alookup_aset {A} k k' (v : A) m :
  alookup k (aset k' v m) = if bytes_eqb k k' then Some v else alookup k m.
Proof.
  unfold aset. simpl. destruct (bytes_eqb k k') eqn:E; [reflexivity|].
  rewrite alookup_aremove, E. reflexivity.
Qed.

Lemma in_keys_aremove {A} k k' (m : list (bytes * A)) :
  In k (map fst (aremove k' m)) -> In k (map fst m) /\ k <> k'.
Proof.
  induction m as [|[k0 v] m IH]; simpl; [tauto|].
  destruct (bytes_eqb k' k0) eqn:E0.
  - intros H. apply IH in H. tauto.
  - simpl. intros [H|H].
    + subst k0. split; [left; reflexivity|]. intros ->. rewrite bytes_eqb_refl in E0. discriminate.
    + apply IH in H. tauto.
Qed.

Lemma nodup_aremove {A} k' (m : list (bytes * A)) : NoDup (map fst m) -> NoDup (map fst (aremove k' m)).
Proof.
  induction m as [|[k0 v] m IH]; simpl; intros H; [constructor|].
  inversion H as [|? ? Hn Hd]; subst.
  destruct (bytes_eqb k' k0); [apply IH; exact Hd|].
  simpl. constructor; [|apply IH; exact Hd].
  intros Hin. apply in_keys_aremove in Hin. tauto.
Qed.

Lemma nodup_aset {A} k' (v : A) m : NoDup (map fst m) -> NoDup (map fst (aset k' v m)).
Proof.
  intros H. unfold aset. simpl. constructor; [|apply nodup_aremove; exact H].
  intros Hin. apply in_keys_aremove in Hin. tauto.
Qed.

(* ------------------------------------------------------------------------------------------- heap *)

Lemma update_nth_length {A} n (f : A -> A) l : length (update_nth n f l) = length l.
Proof. revert n; induction l as [|x l IH]; intros [|n]; simpl; auto. Qed.

Lemma nth_error_update_nth_eq {A} n (f : A -> A) l :
  nth_error (update_nth n f l) n = option_map f (nth_error l n).
Proof. revert n; induction l as [|x l IH]; intros [|n]; simpl; auto. Qed.

Lemma nth_error_update_nth_neq {A} n m (f : A -> A) l :
  n <> m -> nth_error (update_nth n f l) m = nth_error l m.
Proof.
  revert n m; induction l as [|x l IH]; intros [|n] [|m] H; simpl; auto; try congruence.
Qed.

Lemma read_alloc_old c s a : a < length (heap s) -> read a (snd (alloc c s)) = read a s.
Proof. intros H. unfold read, alloc. simpl. apply nth_error_app1. exact H. Qed.

Lemma read_alloc_new c s : read (fst (alloc c s)) (snd (alloc c s)) = Some c.
Proof. unfold read, alloc. simpl. rewrite nth_error_app2 by lia. rewrite Nat.sub_diag. reflexivity. Qed.

Lemma read_write_other a b f s : a <> b -> read a (write b f s) = read a s.
Proof. intros H. unfold read, write. simpl. apply nth_error_update_nth_neq. congruence. Qed.

Lemma read_write_same b f s :
  read b (write b f s) = option_map (fun c => Cell (c_zk c) (f (c_uris c))) (read b s).
Proof. unfold read, write. simpl. apply nth_error_update_nth_eq. Qed.

Lemma read_valid a s c : read a s = Some c -> a < length (heap s).
Proof. unfold read. intros H. apply nth_error_Some. congruence. Qed.

(* the footprint of one step: no cell that existed before is changed; every cell written is new *)
Definition extends (s s' : st) : Prop :=
  length (heap s) <= length (heap s') /\
  (forall a, a < length (heap s) -> read a s' = read a s) /\
  exists l, wlog s' = wlog s ++ l /\ Forall (fun a => length (heap s) <= a) l.

Lemma extends_refl s : extends s s.
Proof. split; [lia|]. split; [auto|]. exists []. rewrite app_nil_r. split; [reflexivity|constructor]. Qed.

Lemma extends_trans s1 s2 s3 : extends s1 s2 -> extends s2 s3 -> extends s1 s3.
Proof.
  intros (L1 & R1 & l1 & W1 & F1) (L2 & R2 & l2 & W2 & F2).
  split; [lia|]. split.
  - intros a Ha. rewrite R2 by lia. apply R1. exact Ha.
  - exists (l1 ++ l2). split; [rewrite W2, W1, app_assoc; reflexivity|].
    apply Forall_app. split; [exact F1|].
    eapply Forall_impl; [|exact F2]. simpl. intros a Ha. lia.
Qed.

(* copy then mutate the copy: the common part of the delete and the write branch *)
Lemma copy_write_spec w s c f :
  read w s = Some c ->
  let a := length (heap s) in
  let s' := write a f (snd (alloc (Cell (c_zk c) (c_uris c)) s)) in
  extends s s' /\ read a s' = Some (Cell (c_zk c) (f (c_uris c))).
Proof.
  intros Hr a s'. split.
  - split; [|split].
    + unfold s', write, alloc. simpl. rewrite update_nth_length, app_length. simpl. lia.
    + intros b Hb. unfold s'. rewrite read_write_other by (unfold a; lia).
      apply read_alloc_old. exact Hb.
    + exists [a; a]. split.
      * unfold s', write, alloc. simpl. rewrite <- app_assoc. reflexivity.
      * repeat constructor; unfold a; lia.
  - unfold s'. rewrite read_write_same.
    change a with (fst (alloc (Cell (c_zk c) (c_uris c)) s)). rewrite read_alloc_new. reflexivity.
Qed.

(* what one call of handleUriUpdate does, for the property's vocabulary of events *)
Lemma handle_spec zk init w s e :
  read w s = Some (Cell zk init) -> NoDup (map fst init) ->
  exists w' s' m,
    handle_uri_update w (to_tce e) s = Done (w', s') /\
    extends s s' /\
    read w' s' = Some (Cell zk m) /\ NoDup (map fst m) /\
    forall k, alookup k m =
              if is_nil k then alookup k init
              else match word zk k e with x :: _ => x | [] => alookup k init end.
Proof.
  intros Hr Hnd.
  assert (Same : forall k, (word zk k e = [] \/ is_nil k = true) ->
                      alookup k init = if is_nil k then alookup k init
                                       else match word zk k e with x :: _ => x | [] => alookup k init end).
  { intros k H. destruct (is_nil k) eqn:N; [reflexivity|].
    destruct H as [-> | ?]; [reflexivity|congruence]. }
  unfold handle_uri_update. rewrite Hr. simpl c_zk.
  set (path := trim_prefix zk (ev_path (to_tce e))).
  assert (Hpath : forall p, ev_path (to_tce e) = p -> path = trim_prefix zk p) by (intros p <-; reflexivity).
  destruct (is_nil path) eqn:Np.
  - (* root path: nothing *)
    exists w, s, init. split; [reflexivity|]. split; [apply extends_refl|]. split; [exact Hr|]. split; [exact Hnd|].
    intros k. apply Same.
    destruct (is_nil k) eqn:Nk; [right; reflexivity|left].
    assert (Hne : bytes_eqb path k = false).
    { destruct path; [|discriminate]. destruct k; [discriminate|reflexivity]. }
    destruct e as [p d|p d|p]; simpl in *; unfold path in Hne; simpl in Hne;
      try (destruct d as [part|[|x u]]); simpl; try rewrite Hne; reflexivity.
  - assert (Hstep : forall f,
               (forall k, alookup k (f init) =
                          if is_nil k then alookup k init
                          else match word zk k e with x :: _ => x | [] => alookup k init end) ->
               NoDup (map fst (f init)) ->
               exists w' s' m,
                 match copy w s with
                 | Panic => Panic
                 | Done (w', s') => Done (w', write w' f s')
                 end = Done (w', s') /\ extends s s' /\ read w' s' = Some (Cell zk m) /\ NoDup (map fst m) /\
                 forall k, alookup k m =
                           if is_nil k then alookup k init
                           else match word zk k e with x :: _ => x | [] => alookup k init end).
    { intros f Hf Hn. unfold copy. rewrite Hr.
      destruct (copy_write_spec w s (Cell zk init) f Hr) as [Hext Hread]. simpl in Hext, Hread.
      eexists _, _, (f init). split; [reflexivity|]. cbn [c_zk c_uris].
      split; [exact Hext|]. split; [exact Hread|]. split; [exact Hn|exact Hf]. }
    assert (Hkey : forall k, is_nil k = true -> bytes_eqb k path = false).
    { intros k Hk. destruct k; [|discriminate]. destruct path; [discriminate|reflexivity]. }
    destruct e as [p d|p d|p]; simpl to_tce in *; simpl ev_data; simpl ev_path in *.
    + (* Added *)
      destruct d as [part|u]; [|destruct u as [|x u]]; simpl is_nil.
      * exists w, s, init. split; [reflexivity|]. split; [apply extends_refl|]. split; [exact Hr|]. split; [exact Hnd|].
        intros k. apply Same. left. reflexivity.
      * exists w, s, init. split; [reflexivity|]. split; [apply extends_refl|]. split; [exact Hr|]. split; [exact Hnd|].
        intros k. apply Same. left. reflexivity.
      * apply Hstep; [|apply nodup_aset; exact Hnd].
        intros k. rewrite alookup_aset. simpl word. fold path.
        destruct (is_nil k) eqn:Nk; [rewrite (Hkey k Nk); reflexivity|].
        destruct (bytes_eqb k path) eqn:E.
        -- apply bytes_eqb_eq in E. subst k. rewrite bytes_eqb_refl. reflexivity.
        -- assert (E' : bytes_eqb path k = false).
           { apply bytes_eqb_neq. apply bytes_eqb_neq in E. congruence. }
           rewrite E'. reflexivity.
    + (* Updated *)
      destruct d as [part|u]; [|destruct u as [|x u]]; simpl is_nil.
      * exists w, s, init. split; [reflexivity|]. split; [apply extends_refl|]. split; [exact Hr|]. split; [exact Hnd|].
        intros k. apply Same. left. reflexivity.
      * exists w, s, init. split; [reflexivity|]. split; [apply extends_refl|]. split; [exact Hr|]. split; [exact Hnd|].
        intros k. apply Same. left. reflexivity.
      * apply Hstep; [|apply nodup_aset; exact Hnd].
        intros k. rewrite alookup_aset. simpl word. fold path.
        destruct (is_nil k) eqn:Nk; [rewrite (Hkey k Nk); reflexivity|].
        destruct (bytes_eqb k path) eqn:E.
        -- apply bytes_eqb_eq in E. subst k. rewrite bytes_eqb_refl. reflexivity.
        -- assert (E' : bytes_eqb path k = false).
           { apply bytes_eqb_neq. apply bytes_eqb_neq in E. congruence. }
           rewrite E'. reflexivity.
    + (* Removed *)
      apply Hstep; [|apply nodup_aremove; exact Hnd].
      intros k. rewrite alookup_aremove. simpl word. fold path.
      destruct (is_nil k) eqn:Nk; [rewrite (Hkey k Nk); reflexivity|].
      destruct (bytes_eqb k path) eqn:E.
      * apply bytes_eqb_eq in E. subst k. rewrite bytes_eqb_refl. reflexivity.
      * assert (E' : bytes_eqb path k = false).
        { apply bytes_eqb_neq. apply bytes_eqb_neq in E. congruence. }
        rewrite E'. reflexivity.
Qed.

Lemma fold_spec_cons zk init m1 e r k :
  alookup k m1 = (if is_nil k then alookup k init
                  else match word zk k e with x :: _ => x | [] => alookup k init end) ->
  fold_spec zk m1 r k = fold_spec zk init (e :: r) k.
Proof.
  intros H. unfold fold_spec. destruct (is_nil k) eqn:Nk; [exact H|].
  simpl rev. rewrite flat_map_app. simpl flat_map. rewrite app_nil_r.
  destruct (flat_map (word zk k) (rev r)) as [|x l]; simpl.
  - rewrite H. reflexivity.
  - reflexivity.
Qed.

(* ------------------------------------------------------------------------------------------- main theorems *)

(* For every history: the loop never panics, and the published snapshot is a well-formed map (no duplicate keys)
   that answers every lookup like the fold of the history. *)
Theorem uris_is_fold : forall (hist : list zevent) zk init w s,
  read w s = Some (Cell zk init) -> NoDup (map fst init) ->
  exists w' s' m,
    run (map to_tce hist) w s = Done (w', s') /\
    read w' s' = Some (Cell zk m) /\ NoDup (map fst m) /\
    forall k, alookup k m = fold_spec zk init hist k.
Proof.
  induction hist as [|e r IH]; intros zk init w s Hr Hnd.
  - exists w, s, init. simpl. repeat split; try assumption.
    intros k. unfold fold_spec. simpl. destruct (is_nil k); reflexivity.
  - destruct (handle_spec zk init w s e Hr Hnd) as (w1 & s1 & m1 & Hh & _ & Hr1 & Hn1 & Hl1).
    destruct (IH zk m1 w1 s1 Hr1 Hn1) as (w' & s' & m & Hrun & Hr' & Hn' & Hl').
    exists w', s', m. simpl. rewrite Hh. repeat split; try assumption.
    intros k. rewrite Hl'. apply fold_spec_cons. apply Hl1.
Qed.

Lemma handle_extends w e s w' s' :
  handle_uri_update w e s = Done (w', s') -> w < length (heap s) ->
  extends s s' /\ w' < length (heap s').
Proof.
  unfold handle_uri_update. destruct (read w s) as [c|] eqn:Hr; [|discriminate].
  assert (Hcw : forall f w' s',
             match copy w s with Panic => Panic | Done (w1, s1) => Done (w1, write w1 f s1) end = Done (w', s') ->
             extends s s' /\ w' < length (heap s')).
  { intros f w1 s1. unfold copy. rewrite Hr. intros H. injection H as <- <-.
    destruct (copy_write_spec w s c f Hr) as [Hext Hread]. simpl in Hext, Hread.
    split; [exact Hext|]. simpl. apply (read_valid _ _ _ Hread). }
  destruct (is_nil (trim_prefix (c_zk c) (ev_path e))).
  - intros H Hw. injection H as <- <-. split; [apply extends_refl|exact Hw].
  - destruct (ev_data e) as [[part|u]|].
    + intros H Hw. injection H as <- <-. split; [apply extends_refl|exact Hw].
    + destruct (is_nil u).
      * intros H Hw. injection H as <- <-. split; [apply extends_refl|exact Hw].
      * intros H _. eapply Hcw. exact H.
    + intros H _. eapply Hcw. exact H.
Qed.

Lemma run_extends hist : forall w s w' s',
  run hist w s = Done (w', s') -> w < length (heap s) -> extends s s' /\ w' < length (heap s').
Proof.
  induction hist as [|e r IH]; intros w s w' s' H Hw; simpl in H.
  - injection H as <- <-. split; [apply extends_refl|exact Hw].
  - destruct (handle_uri_update w e s) as [[w1 s1]|] eqn:Hh; [|discriminate].
    destruct (handle_extends _ _ _ _ _ Hh Hw) as [E1 V1].
    destruct (IH _ _ _ _ H V1) as [E2 V2].
    split; [eapply extends_trans; eassumption|exact V2].
Qed.

Lemma run_app h1 h2 w s :
  run (h1 ++ h2) w s = match run h1 w s with Panic => Panic | Done (w1, s1) => run h2 w1 s1 end.
Proof.
  revert w s; induction h1 as [|e r IH]; intros w s; simpl; [reflexivity|].
  destruct (handle_uri_update w e s) as [[w1 s1]|]; [apply IH|reflexivity].
Qed.

(* Snapshots handed out earlier are never modified afterwards: split any history anywhere; the snapshot published
   at the split point (indeed every cell that existed then) reads the same after the rest of the history, and
   every cell written by the rest of the history did not exist at the split point. *)
Theorem snapshots_immutable : forall h1 h2 w0 s0 w2 s2,
  w0 < length (heap s0) ->
  run (h1 ++ h2) w0 s0 = Done (w2, s2) ->
  exists w1 s1,
    run h1 w0 s0 = Done (w1, s1) /\
    w1 < length (heap s1) /\
    read w1 s2 = read w1 s1 /\
    (forall a, a < length (heap s1) -> read a s2 = read a s1) /\
    exists written, wlog s2 = wlog s1 ++ written /\ Forall (fun a => ~ a < length (heap s1)) written.
Proof.
  intros h1 h2 w0 s0 w2 s2 Hw H. rewrite run_app in H.
  destruct (run h1 w0 s0) as [[w1 s1]|] eqn:H1; [|discriminate].
  destruct (run_extends _ _ _ _ _ H1 Hw) as [_ V1].
  destruct (run_extends _ _ _ _ _ H V1) as [(L & R & l & Wl & F) _].
  exists w1, s1. split; [reflexivity|]. split; [exact V1|]. split; [apply R; exact V1|].
  split; [exact R|]. exists l. split; [exact Wl|].
  eapply Forall_impl; [|exact F]. simpl. intros a Ha. lia.
Qed.

(* Both together: the snapshot published after any prefix still answers like the fold of that prefix, whatever
   happens later. *)
Theorem old_snapshot_is_fold_of_prefix : forall (h1 h2 : list zevent) zk init w0 s0,
  read w0 s0 = Some (Cell zk init) -> NoDup (map fst init) ->
  exists w1 s1 w2 s2 m,
    run (map to_tce h1) w0 s0 = Done (w1, s1) /\
    run (map to_tce (h1 ++ h2)) w0 s0 = Done (w2, s2) /\
    read w1 s2 = Some (Cell zk m) /\ NoDup (map fst m) /\
    forall k, alookup k m = fold_spec zk init h1 k.
Proof.
  intros h1 h2 zk init w0 s0 Hr Hnd.
  destruct (uris_is_fold h1 zk init w0 s0 Hr Hnd) as (w1 & s1 & m & Hrun1 & Hr1 & Hn1 & Hl1).
  destruct (uris_is_fold h2 zk m w1 s1 Hr1 Hn1) as (w2 & s2 & m2 & Hrun2 & _).
  exists w1, s1, w2, s2, m. split; [exact Hrun1|].
  assert (Hall : run (map to_tce (h1 ++ h2)) w0 s0 = Done (w2, s2)).
  { rewrite map_app, run_app, Hrun1. exact Hrun2. }
  split; [exact Hall|].
  rewrite map_app in Hall.
  destruct (snapshots_immutable _ _ _ _ _ _ (read_valid _ _ _ Hr) Hall) as (w1' & s1' & Hrun1' & _ & Hsame & _).
  rewrite Hrun1 in Hrun1'. injection Hrun1' as <- <-.
  rewrite Hsame. repeat split; assumption.
Qed.

Lemma last_cons {A} (l : list A) : forall x d, last (x :: l) d = last l x.
Proof.
  induction l as [|a l IH]; intros x d; [reflexivity|].
  change (last (x :: a :: l) d) with (last (a :: l) d). rewrite (IH a d), (IH a x). reflexivity.
Qed.

(* run_trace publishes exactly the snapshots of the prefixes *)
(* however the history is cut into bursts, the loop ends where it ends on the whole history *)
Lemma last_cons_default {A} (l : list A) : forall (a d : A), last (a :: l) d = last l a.
Proof.
  induction l as [|x l IH]; intros a d; [reflexivity|].
  change (last (a :: x :: l) d) with (last (x :: l) d). rewrite (IH x d), (IH x a). reflexivity.
Qed.

Lemma run_bursts_concat bursts : forall w s,
  match run_bursts bursts w s with
  | Panic => run (map to_tce (concat bursts)) w s = Panic
  | Done (ws, s') => run (map to_tce (concat bursts)) w s = Done (last ws w, s')
  end.
Proof.
  induction bursts as [|b r IH]; intros w s; simpl; [reflexivity|].
  rewrite map_app, run_app.
  destruct (run (map to_tce b) w s) as [[w1 s1]|]; [|reflexivity].
  specialize (IH w1 s1). destruct (run_bursts r w1 s1) as [[ws s']|]; [|exact IH].
  rewrite IH. rewrite last_cons_default. reflexivity.
Qed.

Theorem bursts_publish_fold : forall (bursts : list (list zevent)) zk init w s,
  read w s = Some (Cell zk init) -> NoDup (map fst init) ->
  exists ws s' m,
    run_bursts bursts w s = Done (ws, s') /\
    read (last ws w) s' = Some (Cell zk m) /\ NoDup (map fst m) /\
    forall k, alookup k m = fold_spec zk init (concat bursts) k.
Proof.
  intros bursts zk init w s Hr Hnd.
  destruct (uris_is_fold (concat bursts) zk init w s Hr Hnd) as (w' & s' & m & Hrun & Hread & Hn & Hf).
  pose proof (run_bursts_concat bursts w s) as H.
  destruct (run_bursts bursts w s) as [[ws s2]|]; [|congruence].
  rewrite Hrun in H. injection H as -> ->.
  exists ws, s2, m. repeat split; assumption.
Qed.

Lemma run_trace_run hist : forall w s,
  match run_trace hist w s with
  | Panic => run hist w s = Panic
  | Done (ws, s') => run hist w s = Done (last ws w, s') /\ length ws = length hist
  end.
Proof.
  induction hist as [|e r IH]; intros w s; simpl; [split; reflexivity|].
  destruct (handle_uri_update w e s) as [[w1 s1]|]; [|reflexivity].
  specialize (IH w1 s1). destruct (run_trace r w1 s1) as [[ws s']|]; [|exact IH].
  destruct IH as [IH1 IH2]. split; [|simpl; congruence].
  rewrite IH1. rewrite last_cons. reflexivity.
Qed.

(* ------------------------------------------------------------------------------------------- services *)

(* the last WELL-FORMED payload for the service's own path: "malformed updates are ignored" *)
Definition last_good_service (path : bytes) (hist : list stce) (init : option service) : option service :=
  match flat_map (fun e => if bytes_eqb (sev_path e) path
                           then match sev_data e with Some (SDecoded s) => [s] | _ => [] end
                           else []) (rev hist) with
  | s :: _ => Some s
  | [] => init
  end.

(* for every history of service events: removals, other paths and payloads that do not decode are ignored; the last
   well-formed definition is in force *)
Theorem service_is_last_good : forall path hist init,
  run_service path hist init = last_good_service path hist init.
Proof.
  intros path hist. induction hist as [|e r IH]; intros init; [reflexivity|].
  simpl run_service. unfold last_good_service. simpl rev. rewrite flat_map_app. simpl flat_map.
  rewrite app_nil_r. unfold handle_service_update.
  destruct (bytes_eqb (sev_path e) path); simpl negb; cbv iota.
  - destruct (sev_data e) as [[p|s0]|]; rewrite IH; unfold last_good_service;
      destruct (flat_map _ (rev r)); reflexivity.
  - rewrite IH. unfold last_good_service. destruct (flat_map _ (rev r)); reflexivity.
Qed.
