(* Second layer of invariants of the LazyMap model: agreement of racing callers and stores not lost. *)
From Coq Require Import List Bool Arith Lia.
From Hammer Require Import Tactics.
From GR Require Import D2.LazyMap Proofs.LazyMapProofs.
Import ListNotations.

(* ------------------------------------------------------------------------------------------------ agreement, stores *)

Definition no_store_inv (h : list event) (k : key) : Prop := forall t v, ~ In (EInv t (OStore k v)) h.

Definition stored (s : state) (k : key) (v : val) : Prop :=
  (exists t r, In (ERes t (OStore k v) r) (hist s)) \/
  (exists t p rest, owns (threads s t) p /\ tops (threads s t) = OStore k v :: rest).

Record Inv2 (prog : program) (s : state) (pend : pid -> val) : Prop := {
  i_prog : forall t o, In o (tops (threads s t)) -> In o (prog t);
  i_invoked : forall t, tpc (threads s t) <> PStart ->
     exists o rest, tops (threads s t) = o :: rest /\ In (EInv t o) (hist s);
  i_agree_res : forall k, no_store_inv (hist s) k ->
     forall t o v, In (ERes t o (RVal v)) (hist s) -> op_key o = k -> abs s pend k = Some v;
  i_agree_thr : forall k, no_store_inv (hist s) k ->
     forall t o rest, tops (threads s t) = o :: rest -> op_key o = k ->
       match tpc (threads s t) with
       | PWait q => abs s pend k = Some (pend q)
       | PDone p v => abs s pend k = Some v
       | _ => True
       end;
  i_store : forall k v, (forall t v', In (OStore k v') (prog t) -> v' = v) -> stored s k v -> abs s pend k = Some v
}.

Lemma inv2_init : forall prog, Inv2 prog (init prog) (fun _ => 0).
Proof.
  intros. constructor; simpl; auto.
  - intros t H. congruence.
  - intros k _ t o v [].
  - intros k v _ [[t [r []]]|[t [p [rest [H _]]]]]. inversion H.
Qed.

Lemma no_store_inv_app : forall h e k, no_store_inv (h ++ e) k -> no_store_inv h k.
Proof. unfold no_store_inv. intros h e k H t v Hin. apply (H t v). apply in_or_app. auto. Qed.

Lemma step_inv2_prog : forall prog s hl pend t s', Inv s hl pend -> Inv2 prog s pend -> step s t = Some s' ->
  forall t0 o, In o (tops (threads s' t0)) -> In o (prog t0).
Proof.
  intros prog s hl pend t s' I [Jprog Jinv Jres Jthr Jst] H. prelude I H.
  all: intros t0 o0 Hin; destruct (Nat.eq_dec t0 t) as [E|E]; [subst t0|]; upd_simp; auto.
  all: simpl in Hin; apply Jprog; rewrite Hops; simpl; auto.
Qed.

Lemma step_inv2_invoked : forall prog s hl pend t s', Inv s hl pend -> Inv2 prog s pend -> step s t = Some s' ->
  forall t0, tpc (threads s' t0) <> PStart ->
     exists o rest, tops (threads s' t0) = o :: rest /\ In (EInv t0 o) (hist s').
Proof.
  intros prog s hl pend t s' I [Jprog Jinv Jres Jthr Jst] H. prelude I H.
  all: intros t0 Hne; destruct (Nat.eq_dec t0 t) as [E|E]; [subst t0|]; upd_simp; simpl in *; try congruence.
  all: try (destruct (Jinv t0 Hne) as [o0 [r0 [Ha Hb]]]; exists o0, r0; split; auto; apply in_or_app; auto).
  all: try solve [do 2 eexists; split; [reflexivity|]; apply in_or_app; simpl; auto].
  all: destruct (Jinv t) as [o0 [r0 [Ha Hb]]]; [congruence|]; rewrite Hops in Ha; inversion Ha; subst;
       do 2 eexists; split; [reflexivity|]; apply in_or_app; auto.
Qed.

Lemma abs_fresh : forall s hl pend v k, Inv s hl pend ->
  abs s (upd pend (ncells s) v) k = abs s pend k.
Proof.
  intros s hl pend v k I. unfold abs. destruct (smap s k) as [[p|x]|] eqn:E; auto.
  destruct (inv_map _ _ _ I _ _ E). rewrite upd_other by lia. auto.
Qed.

Lemma step_inv2_agree_res : forall prog s hl pend t s', Inv s hl pend -> Inv2 prog s pend -> step s t = Some s' ->
  forall k, no_store_inv (hist s') k ->
     forall t0 o v, In (ERes t0 o (RVal v)) (hist s') -> op_key o = k -> abs s' (gpend s pend t) k = Some v.
Proof.
  intros prog s hl pend t s' I J H. pose proof I as I'. destruct J as [Jprog Jinv Jres Jthr Jst]. prelude I H.
  all: ghost_simp; intros k0 Hns t0 o0 v0 Hin Hk; pose proof (no_store_inv_app _ _ _ Hns) as Hns0; subst k0.
  all: apply in_app_or in Hin; destruct Hin as [Hin|Hin].
  (* an earlier response *)
  all: try (pose proof (Jres _ Hns0 _ _ _ Hin eq_refl) as Hold).
  all: unfold owner_facts in Hme; simpl in Hme; split_ands.
  all: try solve [unfold abs in *; simpl; upd_cases; simpl; auto; try congruence;
                  try (rewrite Hm in Hold; congruence);
                  try (match goal with Hx : smap _ _ = Some _ |- _ => rewrite Hx in Hold end; congruence);
                  try (destruct (smap s (op_key o0)) as [[p'|]|] eqn:E0; auto; destruct (Imap _ _ E0); rewrite upd_other by lia; auto);
                  try (exfalso; destruct (Jinv t) as [o' [r' [Ha Hb]]]; [congruence|]; rewrite Hops in Ha; inversion Ha; subst;
                       eapply Hns0; eauto)].
  (* the response this step adds *)
  all: simpl in Hin; repeat (destruct Hin as [Hin|Hin]; try discriminate; try contradiction).
  all: try (unfold cell_ret in Hin; rewrite (Idone wq) in Hin by tauto).
  all: try (inversion Hin; subst; clear Hin).
  all: try solve [unfold abs; simpl; rewrite Hm; auto].
  all: try (match goal with Hx : tops (threads _ ?tt) = _ :: _ |- _ =>
              pose proof (Jthr _ Hns0 tt _ _ Hx eq_refl) as Hthr; rewrite Hpc in Hthr; simpl in Hthr end).
  all: try solve [unfold abs in *; simpl; auto].
Qed.


Ltac old_abs Hold Jinv Hns0 :=
  solve [unfold abs in *; simpl; upd_cases; simpl; auto; try congruence;
         try (match goal with Hx : smap _ _ = None |- _ => rewrite Hx in Hold end; congruence);
         try (match goal with Hx : smap _ _ = Some _ |- _ => rewrite Hx in Hold end; congruence);
         try (match goal with Im : (forall k p, smap _ k = Some (Placeholder p) -> _) |- context [smap ?s0 ?kk] =>
                destruct (smap s0 kk) as [[p'|]|] eqn:E0; auto; destruct (Im _ _ E0); rewrite upd_other by lia; auto end);
         try (exfalso; match goal with Ho : tops (threads _ ?tt) = OStore _ _ :: _, Hp : tpc (threads _ ?tt) = PRaw |- _ =>
                destruct (Jinv tt) as [o' [r' [Ha Hb]]]; [congruence|]; rewrite Ho in Ha; inversion Ha; subst;
                eapply Hns0; eauto end)].

Lemma step_inv2_agree_thr : forall prog s hl pend t s', Inv s hl pend -> Inv2 prog s pend -> step s t = Some s' ->
  forall k, no_store_inv (hist s') k ->
     forall t0 o rest, tops (threads s' t0) = o :: rest -> op_key o = k ->
       match tpc (threads s' t0) with
       | PWait q => abs s' (gpend s pend t) k = Some (gpend s pend t q)
       | PDone p v => abs s' (gpend s pend t) k = Some v
       | _ => True
       end.
Proof.
  intros prog s hl pend t s' I J H. pose proof I as I'. destruct J as [Jprog Jinv Jres Jthr Jst]. prelude I H.
  all: ghost_simp; intros k0 Hns t0 o0 rest0 Hops0 Hk; pose proof (no_store_inv_app _ _ _ Hns) as Hns0; subst k0.
  all: unfold owner_facts in Hme; simpl in Hme; split_ands.
  all: destruct (Nat.eq_dec t0 t) as [E|E]; [subst t0|]; upd_simp; simpl in Hops0 |- *; auto.
  (* the goroutine that moved *)
  all: try solve [inversion Hops0; subst; unfold abs; simpl; upd_simp; simpl;
                  repeat match goal with Hx : smap _ _ = Some _ |- _ => rewrite Hx end; auto].
  (* the others *)
  all: pose proof (Jthr _ Hns0 t0 _ _ Hops0 eq_refl) as Hold; pose proof (Hts2 t0) as Ho; unfold thr_ok in Ho;
       rewrite Hops0 in Ho.
  all: destruct (tpc (threads s t0)) as [|wq0|p0|p0 pv0|p0 pv0|p0 pv0|] eqn:Hpc0; auto; split_ands.
  all: try (rewrite (upd_other _ pend (ncells s) _ wq0) by lia).
  all: try old_abs Hold Jinv Hns0.
Qed.


Lemma step_inv2_store : forall prog s hl pend t s', Inv s hl pend -> Inv2 prog s pend -> step s t = Some s' ->
  forall k v, (forall t0 v', In (OStore k v') (prog t0) -> v' = v) -> stored s' k v -> abs s' (gpend s pend t) k = Some v.
Proof.
  intros prog s hl pend t s' I J H. pose proof I as I'. destruct J as [Jprog Jinv Jres Jthr Jst]. prelude I H.
  all: ghost_simp; intros k0 v0 Hall Hst.
  all: unfold owner_facts in Hme; simpl in Hme; split_ands.
  all: assert (Hold : stored s k0 v0
                      \/ (tpc (threads s t) = PRaw /\ exists r', tops (threads s t) = OStore k0 v0 :: r')
                      \/ (tpc (threads s t) = PStart /\ smap s k0 = None /\ exists r', tops (threads s t) = OStore k0 v0 :: r')).
  all: try (destruct Hst as [[t1 [r1 Hin]]|[t1 [p1 [rest1 [Hown Htops]]]]];
       [ simpl in Hin; apply in_app_or in Hin; destruct Hin as [Hin|Hin];
         [ left; left; eauto
         | simpl in Hin; repeat (destruct Hin as [Hin|Hin]; try discriminate; try contradiction);
           try (inversion Hin; subst; clear Hin) ]
       | simpl in Hown, Htops; destruct (Nat.eq_dec t1 t) as [E|E]; [subst t1|]; upd_simp;
         [ unfold owns in Hown; simpl in Hown, Htops; try contradiction; try (inversion Htops; subst; clear Htops)
         | left; right; eauto ] ]).
  all: try solve [left; right; match goal with Ho : tops (threads _ ?tt) = _ |- _ => exists tt end; do 2 eexists;
                  unfold owns; split; [rewrite Hpc; reflexivity | eassumption]].
  all: try solve [right; left; split; [assumption | eauto]].
  all: try solve [right; right; repeat split; eauto].
  all: destruct Hold as [Hs | [[Hp [r' Hr]] | [Hp [Hn [r' Hr]]]]].
  all: try (rewrite Hpc in Hp; discriminate).
  all: try solve [rewrite Hops in Hr; inversion Hr; subst; try congruence; unfold abs; simpl; upd_simp; simpl; upd_simp; auto].
  all: pose proof (Jst _ _ Hall Hs) as Hold.
  all: try solve [unfold abs in *; simpl; upd_cases; simpl; auto; try congruence;
         try (match goal with Hx : smap _ _ = None |- _ => rewrite Hx in Hold end; congruence);
         try (match goal with Hx : smap _ _ = Some _ |- _ => rewrite Hx in Hold end; congruence);
         try (match goal with Im : (forall k p, smap _ k = Some (Placeholder p) -> _) |- context [smap ?s0 ?kk] =>
                destruct (smap s0 kk) as [[p'|]|] eqn:E0; auto; destruct (Im _ _ E0); rewrite upd_other by lia; auto end);
         try (f_equal; eapply Hall; apply Jprog; rewrite Hops; left; reflexivity)].
Qed.




Lemma step_inv2 : forall prog s hl pend t s',
  Inv s hl pend -> Inv2 prog s pend -> step s t = Some s' -> Inv2 prog s' (gpend s pend t).
Proof.
  intros prog s hl pend t s' I J H. constructor.
  - eapply step_inv2_prog; eauto.
  - eapply step_inv2_invoked; eauto.
  - eapply step_inv2_agree_res; eauto.
  - eapply step_inv2_agree_thr; eauto.
  - eapply step_inv2_store; eauto.
Qed.

Lemma run_inv2 : forall prog sched s hl pend, Inv s hl pend -> Inv2 prog s pend ->
  exists hl' pend', Inv (run s sched) hl' pend' /\ Inv2 prog (run s sched) pend'.
Proof.
  induction sched as [|t r IH]; intros s hl pend I J; simpl.
  - eauto.
  - unfold sstep. destruct (step s t) as [s'|] eqn:E.
    + eapply IH. eapply step_inv; eauto. eapply step_inv2; eauto.
    + eapply IH; eauto.
Qed.

Lemma reachable_inv2 : forall prog s, reachable prog s -> exists hl pend, Inv s hl pend /\ Inv2 prog s pend.
Proof. intros prog s [sched <-]. eapply run_inv2. apply inv_init. apply inv2_init. Qed.

(* As long as no Store on k has been invoked, every value returned for k so far is the same (it is the value of the
   single computation for k). *)
Theorem racing_callers_agree : forall prog s k, reachable prog s ->
  (forall t v, ~ In (EInv t (OStore k v)) (hist s)) ->
  forall t1 o1 v1 t2 o2 v2,
    In (ERes t1 o1 (RVal v1)) (hist s) -> In (ERes t2 o2 (RVal v2)) (hist s) ->
    op_key o1 = k -> op_key o2 = k -> v1 = v2.
Proof.
  intros prog s k R Hns t1 o1 v1 t2 o2 v2 H1 H2 K1 K2.
  destruct (reachable_inv2 _ _ R) as [hl [pend [I J]]].
  pose proof (i_agree_res _ _ _ J k Hns _ _ _ H1 K1) as A1.
  pose proof (i_agree_res _ _ _ J k Hns _ _ _ H2 K2) as A2. congruence.
Qed.

Theorem store_not_lost : forall prog s k v, reachable prog s ->
  (forall t v', In (OStore k v') (prog t) -> v' = v) ->
  (exists t r, In (ERes t (OStore k v) r) (hist s)) ->
  match smap s k with Some (Val v') => v' = v | Some (Placeholder _) => ~ final s | None => False end.
Proof.
  intros prog s k v R Hall Hres. destruct (reachable_inv2 _ _ R) as [hl [pend [I J]]].
  assert (A : abs s pend k = Some v) by (apply (i_store _ _ _ J k v Hall); left; exact Hres).
  unfold abs in A. destruct (smap s k) as [[p|v']|] eqn:Hk; try congruence.
  intros Hfin. destruct (inv_map _ _ _ I _ _ Hk) as [Hlt Hd]. destruct (inv_owner _ _ _ I p Hlt Hd) as [t Hown].
  destruct (inv_thr _ _ _ I) as [ts [_ Hts]]. pose proof (Hts t) as Ht. unfold thr_ok, owns in *. rewrite (Hfin t) in Ht.
  destruct (tpc (threads s t)); contradiction.
Qed.

(* [load_does_not_block_after_return] with the "owner" predicate spelled out *)
Theorem load_does_not_block_after_return' : forall prog s t q, reachable prog s ->
  tpc (threads s t) = PWait q ->
  (forall t', match tpc (threads s t') with PCall p | PWrite p _ | PInner p _ | PDone p _ => p <> q | _ => True end) ->
  step s t <> None.
Proof.
  intros prog s t q R Hpc Hno. apply (load_does_not_block_after_return prog s t q R Hpc).
  intros t' Hown. specialize (Hno t'). unfold owns in Hown. destruct (tpc (threads s t')); auto.
Qed.
