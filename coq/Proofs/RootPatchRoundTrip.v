(* RootPatchRoundTrip (C11, partial updates of the ROOT module generation): what MarshalRestLiPatch / MarshalRestLi of the root
   bindings write for a partial update (Codec/RootPatch.v root_enc_patch_at / root_enc_patch, no excluded fields), turned into the
   JSON tree the reader sees (ConformProofs.to_jdoc), is read back by UnmarshalRestLiPatch / UnmarshalRestLi into the SAME partial
   update - the set values with the schema defaults filled in, as any decoded value (Ror2RoundTrip.expect) - leaving the reader's
   scope and missing-field list as they were.

   Built on the value-level JSON round trip (JsonRoundTrip.json_tree_roundtrip); the float oracle premises are those of C01. *)
From Coq Require Import List Bool Arith ZArith NArith Lia Permutation.
From Coq.Strings Require Import Byte.
From GR Require Import Base.Bytes Base.Res Base.Dec Codec.Schema Codec.Doc Codec.Tracker Codec.Encode Codec.Json Codec.Decode
  Codec.RootPatch Proofs.PathSpecProofs Proofs.ValidityProofs Proofs.ConformProofs Proofs.Ror2RoundTrip Proofs.JsonRoundTrip
  Proofs.RootPatchProofs.
Import ListNotations.

(* the recursion budget UnmarshalRestLiPatch needs: one unit per level of nested partial updates, then the size of the set value *)
Fixpoint rpsize (p : rpatch) : nat :=
  match p with
  | RPatch _ ss ns =>
      S (Nat.max (list_max (map (fun o : option value => match o with Some v => vsize v | None => 0 end) ss))
                 (list_max (map (fun o : option rpatch => match o with Some q => rpsize q | None => 0 end) ns)))
  end.

(* no field is called "$set" or "$delete" (Pegasus field names are identifiers) *)
Definition names_plain (e : env) : Prop :=
  forall n incs fs, lookup e n = Some (DRecord incs fs) -> Forall (fun fd => is_patch_op (f_name fd) = false) fs.

Section Expect.
  Variable parseF : nat -> bytes -> option N.
  Variable e : env.
  Variable wc : bytes.
  Variable ignore : nat.

  (* the struct UnmarshalRestLiPatch with budget [fuel] yields for the document of p: the same flags and nested structs; every set
     value as the value decoder (budget fuel - 1) returns it, i.e. with the defaults of its records filled in *)
  Fixpoint rexpect (fuel : nat) (n : nat) (p : rpatch) {struct p} : rpatch :=
    match p with
    | RPatch ds ss ns =>
        match lookup e n with
        | Some (DRecord _ fs) =>
            RPatch ds
                   ((fix go (fs : list field) (ss : list (option value)) {struct ss} : list (option value) :=
                       match fs, ss with
                       | fd :: fs', s :: ss' =>
                           (match s with Some v => Some (expect parseF e wc ignore v (pred fuel) (f_ty fd)) | None => None end) :: go fs' ss'
                       | _, _ => ss
                       end) fs ss)
                   ((fix go (fs : list field) (ns : list (option rpatch)) {struct ns} : list (option rpatch) :=
                       match fs, ns with
                       | fd :: fs', np :: ns' =>
                           (match np, root_rec_of e (f_ty fd) with
                            | Some q, Some m => Some (rexpect (pred fuel) m q)
                            | _, _ => np
                            end) :: go fs' ns'
                       | _, _ => ns
                       end) fs ns)
        | _ => p
        end
    end.
End Expect.

(* every set value, at every depth of nested partial updates, is in the domain of the value-level round trip (C01):
   Ror2RoundTrip.typed - integers in range, floats not NaN, distinct map keys, known enum constants.  [rtpatch] only fixes the Go
   SHAPE of the struct (its set values are ValidityProofs.typed: any int32 / float bit pattern / map), and e.g. an out-of-range
   VInt or a NaN is written but not read back as itself. *)
Inductive rsets_typed (e : env) : nat -> rpatch -> Prop :=
| rsty_rec n fs ds ss ns :
    lookup e n = Some (DRecord [] fs) -> rstyfields e fs ss ns -> rsets_typed e n (RPatch ds ss ns)
with rstyfields (e : env) : list field -> list (option value) -> list (option rpatch) -> Prop :=
| rstyf_nil : rstyfields e [] [] []
| rstyf_cons fd fs s ss np ns :
    (forall v, s = Some v -> Ror2RoundTrip.typed e (f_ty fd) v) ->
    (forall q m, np = Some q -> root_rec_of e (f_ty fd) = Some m -> rsets_typed e m q) ->
    rstyfields e fs ss ns -> rstyfields e (fd :: fs) (s :: ss) (np :: ns).

(* ---------------------------------------------------------------------------------------------------------------------------
   STATEMENTS (to be proved below; do not change them without saying so)
   --------------------------------------------------------------------------------------------------------------------------- *)
Definition root_patch_body_roundtrip_statement : Prop :=
  forall fmtF parseF e wc ignore,
    json_float_oracle_ok fmtF parseF -> wf_env e -> names_plain e ->
    forall fe fd scope n p d tr,
      rtpatch e n p -> rsets_typed e n p ->
      root_enc_patch_at e wc ps_empty fe scope n p = Ok d ->
      rpsize p <= fd ->
      root_dec_patch_at e wc ps_empty ignore parseF fd n (to_jdoc fmtF d) (root_zero_patch e n) tr
      = Ok (rexpect parseF e wc ignore fd n p, tr).

(* the whole envelope, at the start of a partial_update body (leadingScopeToIgnore arbitrary: nothing is excluded) *)
Definition root_patch_roundtrip_statement : Prop :=
  forall fmtF parseF e wc ignore,
    json_float_oracle_ok fmtF parseF -> wf_env e -> names_plain e ->
    forall fe fd n p d,
      rtpatch e n p -> rsets_typed e n p ->
      root_enc_patch e wc ps_empty fe n p = Ok d ->
      rpsize p <= fd ->
      root_finish_patch true (root_dec_patch e wc ps_empty ignore parseF fd n (to_jdoc fmtF d) tracker0)
      = Ok (rexpect parseF e wc ignore fd n p).

(* ---------------------------------------------------------------------------------------------------------------------------
   PROOFS
   --------------------------------------------------------------------------------------------------------------------------- *)
From GR Require Import Proofs.SortProofs.

(* ---- 1. lists: slot-wise description of "every entry of a list sets its own slot", in any order ---- *)
Lemma rp_nth_error_ext {A} : forall (a b : list A), (forall j, nth_error a j = nth_error b j) -> a = b.
Proof.
  induction a as [|x a IH]; intros [|y b] H.
  - reflexivity.
  - specialize (H 0). discriminate.
  - specialize (H 0). discriminate.
  - pose proof (H 0) as H0. simpl in H0. inversion H0; subst. f_equal. apply IH. intros j. exact (H (S j)).
Qed.

Lemma rp_set_nth_len {A} : forall (l : list A) j y, length (set_nth j y l) = length l.
Proof. induction l as [|x l IH]; intros [|j] y; simpl; auto. Qed.

Lemma rp_set_nth_other {A} : forall (l : list A) j i y, i <> j -> nth_error (set_nth j y l) i = nth_error l i.
Proof.
  induction l as [|x l IH]; intros [|j] [|i] y H; simpl; try reflexivity; try congruence.
  apply IH. lia.
Qed.

(* [cur] is [cur0] after the slots [idxs] were overwritten with what [ex] holds there *)
Definition rcovered {A} (idxs : list nat) (cur0 cur ex : list A) : Prop :=
  length cur = length ex /\
  forall j, (nth_error cur j = nth_error cur0 j /\ ~ In j idxs) \/ nth_error cur j = nth_error ex j.

Lemma rcovered_nil {A} (cur0 ex : list A) : length cur0 = length ex -> rcovered [] cur0 cur0 ex.
Proof. intros H. split; [exact H|]. intros j. left. split; [reflexivity|]. intros F. exact F. Qed.

Lemma rcovered_step {A} (idxs : list nat) (cur0 cur ex : list A) ja x :
  length cur0 = length ex -> nth_error ex ja = Some x ->
  rcovered idxs (set_nth ja x cur0) cur ex -> rcovered (ja :: idxs) cur0 cur ex.
Proof.
  intros Hlen Hx [Hl Hc]. split; [exact Hl|]. intros j. destruct (Hc j) as [[H1 H2]|H]; [|right; exact H].
  destruct (Nat.eq_dec j ja) as [->|Hne].
  - right. rewrite H1, nth_error_set_nth, Hx; [reflexivity|]. rewrite Hlen. apply nth_error_Some. congruence.
  - left. split; [rewrite H1; apply rp_set_nth_other; exact Hne|]. intros [E|E]; [congruence | exact (H2 E)].
Qed.

Lemma rcovered_final {A} (idxs : list nat) (cur0 cur ex : list A) :
  rcovered idxs cur0 cur ex -> (forall j, ~ In j idxs -> nth_error cur0 j = nth_error ex j) -> cur = ex.
Proof.
  intros [_ Hc] Hfin. apply rp_nth_error_ext. intros j. destruct (Hc j) as [[H1 H2]|H]; [|exact H].
  rewrite H1. apply Hfin. exact H2.
Qed.

Lemma rp_Forall_ex {A B} (Q : A -> B -> Prop) (l : list A) :
  Forall (fun a => exists b, Q a b) l -> exists bs, Forall2 Q l bs.
Proof.
  induction 1 as [|a l [b Hb] _ [bs IH]]; [exists []; constructor|]. exists (b :: bs). constructor; assumption.
Qed.

Lemma rp_Forall2_in {A B} (Q : A -> B -> Prop) (l : list A) (bs : list B) a :
  Forall2 Q l bs -> In a l -> exists b, In b bs /\ Q a b.
Proof.
  induction 1 as [|a0 b0 l bs H0 _ IH]; intros Hin; [contradiction|]. destruct Hin as [->|Hin].
  - exists b0. split; [left; reflexivity | exact H0].
  - destruct (IH Hin) as [b [Hb Hq]]. exists b. split; [right; exact Hb | exact Hq].
Qed.

Lemma rp_nth_none_false : forall (fs : list field) j, nth_error (map (fun _ : field => false) fs) j = option_map (fun _ => false) (nth_error fs j).
Proof. intros. apply nth_error_map. Qed.

Lemma rp_all_false : forall (fs : list field) (ds : list bool),
  length ds = length fs -> existsb (fun b => b) ds = false -> ds = map (fun _ => false) fs.
Proof.
  induction fs as [|fd fs IH]; intros [|d ds] Hl He; simpl in *; try discriminate; [reflexivity|].
  apply orb_false_elim in He as [-> He]. f_equal. apply IH; [lia | exact He].
Qed.

Lemma rp_all_none {A} : forall (fs : list field) (ss : list (option A)),
  length ss = length fs -> existsb rsome ss = false -> ss = map (fun _ => None) fs.
Proof.
  induction fs as [|fd fs IH]; intros [|s ss] Hl He; simpl in *; try discriminate; [reflexivity|].
  apply orb_false_elim in He as [Hs He]. destruct s; [discriminate|]. f_equal. apply IH; [lia | exact He].
Qed.

(* ---- 2. typed patches slot by slot; the expected struct slot by slot ---- *)
Lemma rtfields_len e : forall fs ds ss ns, rtfields e fs ds ss ns ->
  length ds = length fs /\ length ss = length fs /\ length ns = length fs.
Proof.
  intros fs ds ss ns H. induction H as [|fd fs d ds s ss np ns H1 H2 H3 H4 Ht IH]; [repeat split; reflexivity|].
  destruct IH as [A [B C]]. simpl. repeat split; lia.
Qed.

Lemma rtfields_nth e : forall fs ds ss ns, rtfields e fs ds ss ns ->
  forall j fd, nth_error fs j = Some fd ->
  exists d s np, nth_error ds j = Some d /\ nth_error ss j = Some s /\ nth_error ns j = Some np /\
    (deletable fd = false -> d = false) /\
    (np <> None -> root_rec_of e (f_ty fd) <> None) /\
    (forall q m, np = Some q -> root_rec_of e (f_ty fd) = Some m -> rtpatch e m q).
Proof.
  intros fs ds ss ns H. induction H as [|fd0 fs d ds s ss np ns H1 H2 H3 H4 Ht IH]; intros j fd Hj; [destruct j; discriminate|].
  destruct j as [|j]; simpl in Hj.
  - inversion Hj; subst fd0. exists d, s, np. repeat split; assumption.
  - exact (IH j fd Hj).
Qed.

Section Expected.
  Variable parseF : nat -> bytes -> option N.
  Variable e : env.
  Variable wc : bytes.
  Variable ignore : nat.

  Fixpoint rex_sets (f : nat) (fs : list field) (ss : list (option value)) {struct ss} : list (option value) :=
    match fs, ss with
    | fd :: fs', s :: ss' =>
        (match s with Some v => Some (expect parseF e wc ignore v f (f_ty fd)) | None => None end) :: rex_sets f fs' ss'
    | _, _ => ss
    end.

  Fixpoint rex_nested (R : nat -> rpatch -> rpatch) (fs : list field) (ns : list (option rpatch)) {struct ns} : list (option rpatch) :=
    match fs, ns with
    | fd :: fs', np :: ns' =>
        (match np, root_rec_of e (f_ty fd) with
         | Some q, Some m => Some (R m q)
         | _, _ => np
         end) :: rex_nested R fs' ns'
    | _, _ => ns
    end.

  Lemma rexpect_eq fuel n incs fs ds ss ns : lookup e n = Some (DRecord incs fs) ->
    rexpect parseF e wc ignore fuel n (RPatch ds ss ns)
    = RPatch ds (rex_sets (pred fuel) fs ss) (rex_nested (rexpect parseF e wc ignore (pred fuel)) fs ns).
  Proof.
    intros H. cbn [rexpect]. rewrite H. f_equal.
    - clear H. revert ss. induction fs as [|fd fs IH]; intros [|s ss]; try reflexivity.
      cbn [rex_sets]. rewrite <- IH. reflexivity.
    - clear H. revert ns. induction fs as [|fd fs IH]; intros [|s ns]; try reflexivity.
      cbn [rex_nested]. rewrite <- IH. reflexivity.
  Qed.

  Lemma rex_sets_len f : forall fs ss, length (rex_sets f fs ss) = length ss.
  Proof. induction fs as [|fd fs IH]; intros [|s ss]; simpl; auto. Qed.

  Lemma rex_sets_nth f : forall fs ss j fd s, nth_error fs j = Some fd -> nth_error ss j = Some s ->
    nth_error (rex_sets f fs ss) j = Some (match s with Some v => Some (expect parseF e wc ignore v f (f_ty fd)) | None => None end).
  Proof.
    induction fs as [|fd0 fs IH]; intros [|s0 ss] j fd s Hf Hs; try (destruct j; discriminate).
    destruct j as [|j]; simpl in Hf, Hs |- *.
    - inversion Hf; inversion Hs; subst. reflexivity.
    - apply IH; assumption.
  Qed.

  Lemma rex_sets_rsome f : forall fs ss, map rsome (rex_sets f fs ss) = map rsome ss.
  Proof. induction fs as [|fd fs IH]; intros [|s ss]; simpl; try reflexivity. rewrite IH. destruct s; reflexivity. Qed.

  Lemma rex_nested_len R : forall fs ns, length (rex_nested R fs ns) = length ns.
  Proof. induction fs as [|fd fs IH]; intros [|s ss]; simpl; auto. Qed.

  Lemma rex_nested_nth R : forall fs ns j fd np, nth_error fs j = Some fd -> nth_error ns j = Some np ->
    nth_error (rex_nested R fs ns) j
    = Some (match np, root_rec_of e (f_ty fd) with Some q, Some m => Some (R m q) | _, _ => np end).
  Proof.
    induction fs as [|fd0 fs IH]; intros [|s0 ss] j fd s Hf Hs; try (destruct j; discriminate).
    destruct j as [|j]; simpl in Hf, Hs |- *.
    - inversion Hf; inversion Hs; subst. reflexivity.
    - apply IH; assumption.
  Qed.

  Lemma rex_nested_rsome R : forall fs ns, map rsome (rex_nested R fs ns) = map rsome ns.
  Proof.
    induction fs as [|fd fs IH]; intros [|s ss]; simpl; try reflexivity. rewrite IH.
    destruct s; [|reflexivity]. destruct (root_rec_of e (f_ty fd)); reflexivity.
  Qed.

  (* checkAllFields looks at the exclusion predicate pointwise and at which slots are non-nil *)
  Lemma root_check_field_ext exc exc' name d s p acc : exc name = exc' name ->
    root_check_field exc name d s p acc = root_check_field exc' name d s p acc.
  Proof. intros H. unfold root_check_field. rewrite H. reflexivity. Qed.

  Lemma root_check_own_ext exc exc' : (forall k, exc k = exc' k) ->
    forall fs ds ss ns ss' ns' acc, map rsome ss = map rsome ss' -> map rsome ns = map rsome ns' ->
    root_check_own e exc fs ds ss ns acc = root_check_own e exc' fs ds ss' ns' acc.
  Proof.
    intros Hx. induction fs as [|fd fs IH]; intros ds ss ns ss' ns' acc Hs Hn.
    - destruct ds, ss, ns, ss', ns'; simpl in Hs, Hn |- *; try discriminate; reflexivity.
    - destruct ds as [|d ds], ss as [|s ss], ns as [|np ns], ss' as [|s' ss'], ns' as [|np' ns']; simpl in Hs, Hn |- *;
        try discriminate; try reflexivity.
      injection Hs as Hs0 Hs. injection Hn as Hn0 Hn. rewrite Hs0, Hn0.
      rewrite (root_check_field_ext exc exc' _ _ _ _ acc (Hx (f_name fd))).
      destruct (root_check_field exc' (f_name fd) _ _ _ acc) as [a|y|]; simpl; [|reflexivity|reflexivity].
      apply IH; assumption.
  Qed.
End Expected.

Lemma rstyfields_nth e : forall fs ss ns, rstyfields e fs ss ns ->
  forall j fd s np, nth_error fs j = Some fd -> nth_error ss j = Some s -> nth_error ns j = Some np ->
    (forall v, s = Some v -> typed e (f_ty fd) v) /\
    (forall q m, np = Some q -> root_rec_of e (f_ty fd) = Some m -> rsets_typed e m q).
Proof.
  intros fs ss ns H. induction H as [|fd0 fs s0 ss np0 ns H1 H2 Ht IH]; intros j fd s np Hf Hs Hn; [destruct j; discriminate|].
  destruct j as [|j]; simpl in Hf, Hs, Hn.
  - inversion Hf; inversion Hs; inversion Hn; subst. split; assumption.
  - exact (IH j fd s np Hf Hs Hn).
Qed.

(* ---- 3. what the writer emits, entry by entry (nothing excluded) ---- *)
Section Emitted.
  Variable e : env.
  Variable wc : bytes.

  Lemma rp_excluded_empty scope : excluded wc ps_empty scope = false.
  Proof. unfold excluded. apply ps_matches_empty. Qed.

  Lemma root_set_entries_in fu scope : forall fs ss ents, root_set_entries e wc ps_empty fu scope fs ss = Ok ents ->
    forall k d, In (k, d) ents ->
    exists j fd v, nth_error fs j = Some fd /\ k = f_name fd /\ nth_error ss j = Some (Some v) /\
                   enc e wc ps_empty fu (scope ++ [k]) (f_ty fd) v = Ok d.
  Proof.
    induction fs as [|fd fs IH]; intros [|s ss] ents H k d Hin; cbn [root_set_entries] in H; try discriminate.
    - inversion H; subst. contradiction.
    - apply bind_ok' in H as [here [Hh H]]. apply bind_ok' in H as [rest [Hr H]]. inversion H; subst ents. clear H.
      apply in_app_or in Hin as [Hin|Hin].
      + destruct s as [v|]; [|inversion Hh; subst; contradiction].
        unfold root_enc_key in Hh. rewrite rp_excluded_empty in Hh. apply bind_ok' in Hh as [d0 [Hd Hh]].
        inversion Hh; subst here. destruct Hin as [E|[]]. inversion E; subst k d0.
        exists 0, fd, v. repeat split; try reflexivity. exact Hd.
      + destruct (IH ss rest Hr k d Hin) as [j [fd' [v [A [B [C D]]]]]]. exists (S j), fd', v. repeat split; assumption.
  Qed.

  Lemma root_set_entries_has fu scope : forall fs ss ents, root_set_entries e wc ps_empty fu scope fs ss = Ok ents ->
    forall j fd v, nth_error fs j = Some fd -> nth_error ss j = Some (Some v) -> exists d, In (f_name fd, d) ents.
  Proof.
    induction fs as [|fd0 fs IH]; intros [|s ss] ents H j fd v Hf Hs; cbn [root_set_entries] in H; try discriminate;
      try (destruct j; discriminate).
    apply bind_ok' in H as [here [Hh H]]. apply bind_ok' in H as [rest [Hr H]]. inversion H; subst ents. clear H.
    destruct j as [|j]; simpl in Hf, Hs.
    - inversion Hf; inversion Hs; subst. unfold root_enc_key in Hh. rewrite rp_excluded_empty in Hh.
      apply bind_ok' in Hh as [d0 [Hd Hh]]. inversion Hh; subst here. exists d0. left. reflexivity.
    - destruct (IH ss rest Hr j fd v Hf Hs) as [d Hd]. exists d. apply in_or_app. right. exact Hd.
  Qed.

  Variable rec : list bytes -> nat -> rpatch -> res doc.

  Lemma root_nested_entries_in scope : forall fs ns nst, root_nested_entries e wc ps_empty rec scope fs ns = Ok nst ->
    forall k d, In (k, d) nst ->
    exists j fd m q, nth_error fs j = Some fd /\ k = f_name fd /\ root_rec_of e (f_ty fd) = Some m /\
                     nth_error ns j = Some (Some q) /\ rec (scope ++ [k]) m q = Ok d.
  Proof.
    induction fs as [|fd fs IH]; intros [|np ns] nst H k d Hin; cbn [root_nested_entries] in H; try discriminate.
    - inversion H; subst. contradiction.
    - apply bind_ok' in H as [here [Hh H]]. apply bind_ok' in H as [rest [Hr H]]. inversion H; subst nst. clear H.
      apply in_app_or in Hin as [Hin|Hin].
      + destruct (root_rec_of e (f_ty fd)) as [m|] eqn:Em; [|inversion Hh; subst; contradiction].
        destruct np as [q|]; [|inversion Hh; subst; contradiction].
        rewrite rp_excluded_empty in Hh. apply bind_ok' in Hh as [d0 [Hd Hh]].
        inversion Hh; subst here. destruct Hin as [E|[]]. inversion E; subst k d0.
        exists 0, fd, m, q. repeat split; try reflexivity; assumption.
      + destruct (IH ns rest Hr k d Hin) as [j [fd' [m [q [A [B [C [D E]]]]]]]]. exists (S j), fd', m, q. repeat split; assumption.
  Qed.

  Lemma root_nested_entries_has scope : forall fs ns nst, root_nested_entries e wc ps_empty rec scope fs ns = Ok nst ->
    forall j fd m q, nth_error fs j = Some fd -> root_rec_of e (f_ty fd) = Some m -> nth_error ns j = Some (Some q) ->
    exists d, In (f_name fd, d) nst.
  Proof.
    induction fs as [|fd0 fs IH]; intros [|np ns] nst H j fd m q Hf Hm Hs; cbn [root_nested_entries] in H; try discriminate;
      try (destruct j; discriminate).
    apply bind_ok' in H as [here [Hh H]]. apply bind_ok' in H as [rest [Hr H]]. inversion H; subst nst. clear H.
    destruct j as [|j]; simpl in Hf, Hs.
    - inversion Hf; inversion Hs; subst. rewrite Hm, rp_excluded_empty in Hh.
      apply bind_ok' in Hh as [d0 [Hd Hh]]. inversion Hh; subst here. exists d0. left. reflexivity.
    - destruct (IH ns rest Hr j fd m q Hf Hm Hs) as [d Hd]. exists d. apply in_or_app. right. exact Hd.
  Qed.

  (* the names of the $delete array *)
  Definition rdel_gen (fd_d : field * bool) : list (bytes * unit) :=
    if deletable (fst fd_d) && snd fd_d then [(f_name (fst fd_d), tt)] else [].

  Lemma rdel_gen_in : forall fs ds s u, In (s, u) (flat_map rdel_gen (combine fs ds)) ->
    exists j fd, nth_error fs j = Some fd /\ nth_error ds j = Some true /\ deletable fd = true /\ f_name fd = s.
  Proof.
    induction fs as [|fd fs IH]; intros [|d ds] s u Hin; simpl in Hin; try contradiction.
    apply in_app_or in Hin as [Hin|Hin].
    - unfold rdel_gen in Hin. cbn [fst snd] in Hin. destruct (deletable fd) eqn:Ed; [|contradiction].
      destruct d; [|contradiction]. destruct Hin as [E|[]]. inversion E; subst. exists 0, fd. repeat split; assumption.
    - destruct (IH ds s u Hin) as [j [fd' [A [B [C D]]]]]. exists (S j), fd'. repeat split; assumption.
  Qed.

  Lemma rdel_gen_has : forall fs ds j fd, nth_error fs j = Some fd -> nth_error ds j = Some true -> deletable fd = true ->
    In (f_name fd, tt) (flat_map rdel_gen (combine fs ds)).
  Proof.
    induction fs as [|fd0 fs IH]; intros [|d ds] j fd Hf Hd Hx; try (destruct j; discriminate).
    simpl. apply in_or_app. destruct j as [|j]; simpl in Hf, Hd.
    - inversion Hf; inversion Hd; subst. left. unfold rdel_gen. cbn [fst snd]. rewrite Hx. left. reflexivity.
    - right. exact (IH ds j fd Hf Hd Hx).
  Qed.

  Lemma root_delete_names_in fs ds s :
    In s (root_delete_names fs ds) <-> exists u, In (s, u) (flat_map rdel_gen (combine fs ds)).
  Proof.
    unfold root_delete_names. fold rdel_gen. split.
    - intros H. apply (Permutation_in _ (sort_entries_keys_perm _)) in H. apply in_map_iff in H as [[s' u] [E H]].
      simpl in E. subst s'. exists u. exact H.
    - intros [u H]. apply (Permutation_in _ (Permutation_sym (sort_entries_keys_perm _))).
      apply in_map_iff. exists (s, u). split; [reflexivity | exact H].
  Qed.
End Emitted.

(* ---- 4. the loops of the reader, named ---- *)
Section ReaderLoops.
  Variable fmtF : bool -> N -> bytes.
  Variable parseF : nat -> bytes -> option N.
  Variable e : env.
  Variable wc : bytes.
  Variable ignore : nat.
  Local Notation J := (to_jdoc fmtF).
  Local Notation jent := (jent fmtF).
  Local Notation DecJ := (decJ e wc ps_empty ignore parseF).
  Local Notation DecP := (root_dec_patch_at e wc ps_empty ignore parseF).

  Definition rdel_loop (fs : list field) (tr : tracker) :=
    fix go (l : list jdoc) (ds : list bool) : res (list bool * tracker) :=
      match l with
      | [] => Ok (ds, tr)
      | it :: r => do s <- jstring it; do ds' <- root_unmarshal_delete fs ds s; go r ds'
      end.

  Lemma root_dec_deletes_arr fs items ds tr : root_dec_deletes fs (JArr items) ds tr = rdel_loop fs tr items ds.
  Proof. reflexivity. Qed.

  Definition rsets_loop (f : nat) (fs : list field) :=
    fix go (l : list (bytes * jdoc)) (ss : list (option value)) (tr : tracker) : res (list (option value) * tracker) :=
      match l with
      | [] => Ok (ss, tr)
      | (k, y) :: r =>
          match y with
          | JNull => go r ss tr
          | _ => do tr1 <- enter_map wc ps_empty ignore k tr;
                 do u <- match index_of k (map f_name fs) 0 with
                         | Some j =>
                             match nth_error fs j with
                             | Some fd =>
                                 do rr <- DecJ f false (f_ty fd) y tr1;
                                 let '(v, tr') := rr in Ok (set_nth j (Some v) ss, tr')
                             | None => Err EType
                             end
                         | None => Ok (ss, tr1)
                         end;
                 let '(ss', tr2) := u in go r ss' (pop tr2)
          end
      end.

  Lemma root_dec_sets_obj f fs es ss tr :
    root_dec_sets e wc ps_empty ignore parseF f fs (JObj es) ss tr =
    do r <- rsets_loop f fs es ss tr; let '(ss', tr') := r in Ok (ss', record_missing wc ps_empty ignore [] tr').
  Proof. reflexivity. Qed.

  Lemma rsets_loop_cons f fs k y r ss tr j fd : is_jnull y = false ->
    index_of k (map f_name fs) 0 = Some j -> nth_error fs j = Some fd ->
    rsets_loop f fs ((k, y) :: r) ss tr =
    do rr <- DecJ f false (f_ty fd) y (push (SKey k) tr);
    let '(v, tr') := rr in rsets_loop f fs r (set_nth j (Some v) ss) (pop tr').
  Proof.
    intros Hy Hi Hn. destruct y; try discriminate; cbn [rsets_loop]; rewrite enter_map_ok; cbn [bind]; rewrite Hi, Hn;
      match goal with |- bind (bind ?X _) _ = _ => destruct X as [[v tr']|x|] end; reflexivity.
  Qed.

  Definition rp_loop (f : nat) (fs : list field) :=
    fix go (l : list (bytes * jdoc)) (p : rpatch) (tr : tracker) : res (rpatch * tracker) :=
      match l with
      | [] => Ok (p, tr)
      | (k, x) :: r =>
          match x with
          | JNull => go r p tr
          | _ => do tr1 <- enter_map wc ps_empty ignore k tr;
                 do u <- (match p with
                          | RPatch ds ss ns =>
                              if bytes_eqb k op_delete then
                                do a <- root_dec_deletes fs x ds tr1; Ok (RPatch (fst a) ss ns, snd a)
                              else if bytes_eqb k op_set then
                                do a <- root_dec_sets e wc ps_empty ignore parseF f fs x ss tr1; Ok (RPatch ds (fst a) ns, snd a)
                              else
                                do a <- root_dec_nested e (DecP f) fs k x ns tr1;
                                Ok (RPatch ds ss (fst a), snd a)
                          end);
                 let '(p', tr2) := u in go r p' (pop tr2)
          end
      end.

  Lemma root_dec_patch_at_S f n fd fs es p tr : lookup e n = Some (DRecord [] (fd :: fs)) ->
    DecP (S f) n (JObj es) p tr =
    do r <- rp_loop f (fd :: fs) es p tr;
    let '(p1, tr1) := r in
    do _ <- root_check_fields e n (fun k => is_key_excluded wc ps_empty ignore k tr1) p1;
    Ok (p1, tr1).
  Proof. intros H. cbn [root_dec_patch_at]. rewrite H. reflexivity. Qed.

  Lemma rp_loop_cons f fs k x r ds ss ns tr : is_jnull x = false ->
    rp_loop f fs ((k, x) :: r) (RPatch ds ss ns) tr =
    do u <- (if bytes_eqb k op_delete then
               do a <- root_dec_deletes fs x ds (push (SKey k) tr); Ok (RPatch (fst a) ss ns, snd a)
             else if bytes_eqb k op_set then
               do a <- root_dec_sets e wc ps_empty ignore parseF f fs x ss (push (SKey k) tr); Ok (RPatch ds (fst a) ns, snd a)
             else
               do a <- root_dec_nested e (DecP f) fs k x ns (push (SKey k) tr);
               Ok (RPatch ds ss (fst a), snd a));
    let '(p', tr2) := u in rp_loop f fs r p' (pop tr2).
  Proof. intros Hx. destruct x; try discriminate; cbn [rp_loop]; rewrite enter_map_ok; reflexivity. Qed.
End ReaderLoops.

(* ---- 5. each loop reads back what the writer emitted, whatever the order of the members ---- *)
Section LoopsOk.
  Variable fmtF : bool -> N -> bytes.
  Variable parseF : nat -> bytes -> option N.
  Variable e : env.
  Variable wc : bytes.
  Variable ignore : nat.
  Local Notation J := (to_jdoc fmtF).
  Local Notation jent := (jent fmtF).
  Local Notation DecJ := (decJ e wc ps_empty ignore parseF).
  Local Notation DecP := (root_dec_patch_at e wc ps_empty ignore parseF).
  Local Notation rsets_loop := (rsets_loop parseF e wc ignore).
  Local Notation rp_loop := (rp_loop parseF e wc ignore).

  Lemma rdel_loop_cons fs tr s r ds :
    rdel_loop fs tr (JStr s :: r) ds = do ds' <- root_unmarshal_delete fs ds s; rdel_loop fs tr r ds'.
  Proof. reflexivity. Qed.

  Lemma rdel_loop_ok fs tr exd : forall names idxs ds0,
    length ds0 = length exd ->
    Forall2 (fun s j => exists fd, index_of s (map f_name fs) 0 = Some j /\ nth_error fs j = Some fd /\
                                   deletable fd = true /\ nth_error exd j = Some true) names idxs ->
    exists ds', rdel_loop fs tr (map JStr names) ds0 = Ok (ds', tr) /\ rcovered idxs ds0 ds' exd.
  Proof.
    intros names idxs ds0 Hlen HF. revert ds0 Hlen.
    induction HF as [|s j names idxs [fd [Hi [Hn [Hd Hx]]]] _ IH]; intros ds0 Hlen.
    - exists ds0. split; [reflexivity | apply rcovered_nil; exact Hlen].
    - cbn [map]. rewrite rdel_loop_cons. unfold root_unmarshal_delete. rewrite Hi, Hn, Hd. cbn [bind].
      destruct (IH (set_nth j true ds0)) as [ds' [Hl Hc]]; [rewrite rp_set_nth_len; exact Hlen|].
      exists ds'. split; [exact Hl|]. eapply rcovered_step; eassumption.
  Qed.

  Lemma root_dec_deletes_rt fs ds tr : NoDup (map f_name fs) -> length ds = length fs ->
    (forall j fd, nth_error fs j = Some fd -> deletable fd = false -> nth_error ds j = Some false) ->
    root_dec_deletes fs (J (root_enc_deletes fs ds)) (map (fun _ => false) fs) tr = Ok (ds, tr).
  Proof.
    intros Hnd Hlen Hreq. unfold root_enc_deletes. rewrite J_arr, map_map.
    rewrite (map_ext (fun s => J (rstr_leaf s)) JStr) by reflexivity.
    rewrite root_dec_deletes_arr.
    assert (HF : Forall (fun s => exists j, exists fd, index_of s (map f_name fs) 0 = Some j /\ nth_error fs j = Some fd /\
                                   deletable fd = true /\ nth_error ds j = Some true) (root_delete_names fs ds)).
    { apply Forall_forall. intros s Hs. apply root_delete_names_in in Hs as [u Hs].
      apply rdel_gen_in in Hs as [j [fd [A [B [C D]]]]]. exists j, fd. subst s.
      repeat split; [eapply rindex_of_nodup; eassumption | exact A | exact C | exact B]. }
    apply rp_Forall_ex in HF as [idxs HF].
    destruct (rdel_loop_ok fs tr ds (root_delete_names fs ds) idxs (map (fun _ => false) fs)) as [ds' [Hl Hc]];
      [rewrite map_length; symmetry; exact Hlen | exact HF |].
    rewrite Hl. f_equal. f_equal. eapply rcovered_final; [exact Hc|].
    intros j Hni. rewrite nth_error_map. destruct (nth_error fs j) as [fd|] eqn:Ef; simpl.
    - destruct (nth_error ds j) as [b|] eqn:Ed.
      2:{ exfalso. apply nth_error_None in Ed. assert (j < length fs) by (apply nth_error_Some; congruence). lia. }
      destruct b; [|reflexivity]. exfalso. apply Hni.
      destruct (deletable fd) eqn:Edel.
      2:{ rewrite (Hreq j fd Ef Edel) in Ed. discriminate. }
      pose proof (rdel_gen_has fs ds j fd Ef Ed Edel) as Hin.
      assert (Hin' : In (f_name fd) (root_delete_names fs ds)) by (apply root_delete_names_in; exists tt; exact Hin).
      destruct (rp_Forall2_in _ _ _ _ HF Hin') as [j' [Hj' [fd' [Hi _]]]].
      rewrite (rindex_of_nodup fs j fd Hnd Ef) in Hi. inversion Hi; subst. exact Hj'.
    - symmetry. apply nth_error_None. rewrite Hlen. apply nth_error_None. exact Ef.
  Qed.

  Lemma rsets_loop_ok f fs tr exs : forall l idxs ss0,
    length ss0 = length exs ->
    Forall2 (fun (kd : bytes * doc) j => exists fd x,
                index_of (fst kd) (map f_name fs) 0 = Some j /\ nth_error fs j = Some fd /\
                (forall tr', DecJ f false (f_ty fd) (J (snd kd)) tr' = Ok (x, tr')) /\ nth_error exs j = Some (Some x)) l idxs ->
    exists ss', rsets_loop f fs (map jent l) ss0 tr = Ok (ss', tr) /\ rcovered idxs ss0 ss' exs.
  Proof.
    intros l idxs ss0 Hlen HF. revert ss0 Hlen.
    induction HF as [|[k d] j l idxs [fd [x [Hi [Hn [Hd Hx]]]]] _ IH]; intros ss0 Hlen.
    - exists ss0. split; [reflexivity | apply rcovered_nil; exact Hlen].
    - cbn [fst snd] in Hi, Hd. cbn [map]. change (jent (k, d)) with (k, J d).
      rewrite (rsets_loop_cons parseF e wc ignore f fs k (J d) (map jent l) ss0 tr j fd (J_nonnull fmtF d) Hi Hn).
      rewrite Hd. cbn [bind]. rewrite pop_push.
      destruct (IH (set_nth j (Some x) ss0)) as [ss' [Hl Hc]]; [rewrite rp_set_nth_len; exact Hlen|].
      exists ss'. split; [exact Hl|]. eapply rcovered_step; eassumption.
  Qed.

  Lemma rp_loop_nested_ok f fs ds ss tr exn : forall l idxs ns0,
    length ns0 = length exn ->
    Forall2 (fun (kd : bytes * doc) j => exists fd m q',
                index_of (fst kd) (map f_name fs) 0 = Some j /\ nth_error fs j = Some fd /\
                is_patch_op (fst kd) = false /\ root_rec_of e (f_ty fd) = Some m /\
                (forall tr', DecP f m (J (snd kd)) (root_zero_patch e m) tr' = Ok (q', tr')) /\
                nth_error exn j = Some (Some q')) l idxs ->
    exists ns', rp_loop f fs (map jent l) (RPatch ds ss ns0) tr = Ok (RPatch ds ss ns', tr) /\ rcovered idxs ns0 ns' exn.
  Proof.
    intros l idxs ns0 Hlen HF. revert ns0 Hlen.
    induction HF as [|[k d] j l idxs [fd [m [q' [Hi [Hn [Hop [Hm [Hd Hx]]]]]]]] _ IH]; intros ns0 Hlen.
    - exists ns0. split; [reflexivity | apply rcovered_nil; exact Hlen].
    - cbn [fst snd] in Hi, Hd, Hop. cbn [map]. change (jent (k, d)) with (k, J d).
      rewrite (rp_loop_cons parseF e wc ignore f fs k (J d) (map jent l) ds ss ns0 tr (J_nonnull fmtF d)).
      unfold is_patch_op in Hop. apply orb_false_elim in Hop as [Hs Hdl]. rewrite Hdl, Hs.
      unfold root_dec_nested. rewrite Hi, Hn, Hm, Hd. cbn [bind fst snd]. rewrite pop_push.
      destruct (IH (set_nth j (Some q') ns0)) as [ns' [Hl Hc]]; [rewrite rp_set_nth_len; exact Hlen|].
      exists ns'. split; [exact Hl|]. eapply rcovered_step; eassumption.
  Qed.
End LoopsOk.

(* ---- 6. the round trip ---- *)
Section Main.
  Variable fmtF : bool -> N -> bytes.
  Variable parseF : nat -> bytes -> option N.
  Variable e : env.
  Variable wc : bytes.
  Variable ignore : nat.
  Hypothesis O64 : forall b, (b < 2 ^ 64)%N -> Render.classify_float false b <> Render.FNaN -> parseF 0 (float_text fmtF false b) = Some b.
  Hypothesis O32 : forall b, (b < 2 ^ 32)%N -> Render.classify_float true b <> Render.FNaN -> parseF 2 (float_text fmtF true b) = Some b.
  Hypothesis Hwf : wf_env e.
  Hypothesis Hnp : names_plain e.
  Local Notation J := (to_jdoc fmtF).
  Local Notation jent := (jent fmtF).
  Local Notation DecJ := (decJ e wc ps_empty ignore parseF).
  Local Notation DecP := (root_dec_patch_at e wc ps_empty ignore parseF).
  Local Notation rp_loop := (rp_loop parseF e wc ignore).
  Local Notation rex_sets := (rex_sets parseF e wc ignore).
  Local Notation rexpect := (rexpect parseF e wc ignore).

  Lemma rp_wf_rec n fs : lookup e n = Some (DRecord [] fs) ->
    NoDup (map f_name fs) /\ Forall (fun fd => wf_ty (f_ty fd)) fs.
  Proof.
    intros Hl. destruct Hwf as [Hr _]. destruct (Hr n [] fs Hl) as (_ & Hnd & HP). split; [|exact HP].
    cbn [names] in Hnd. rewrite Hl in Hnd. exact Hnd.
  Qed.

  Lemma rex_sets_none f : forall fs ss, existsb rsome ss = false -> rex_sets f fs ss = ss.
  Proof.
    induction fs as [|fd fs IH]; intros [|s ss] H; try reflexivity. simpl in H. apply orb_false_elim in H as [Hs H].
    destruct s; [discriminate|]. cbn [RootPatchRoundTrip.rex_sets]. rewrite IH by exact H. reflexivity.
  Qed.

  Lemma root_dec_sets_rt fu scope f fs ss ents tr :
    NoDup (map f_name fs) -> Forall (fun fd => wf_ty (f_ty fd)) fs -> length ss = length fs ->
    (forall j fd v, nth_error fs j = Some fd -> nth_error ss j = Some (Some v) -> typed e (f_ty fd) v /\ vsize v <= f) ->
    root_set_entries e wc ps_empty fu scope fs ss = Ok ents ->
    root_dec_sets e wc ps_empty ignore parseF f fs (J (DObj (sort_entries ents))) (map (fun _ => None) fs) tr
    = Ok (rex_sets f fs ss, tr).
  Proof.
    intros Hnd HP Hlen Hty Hents. rewrite J_obj, root_dec_sets_obj.
    assert (HF : Forall (fun kd : bytes * doc => exists j, exists fd x,
                index_of (fst kd) (map f_name fs) 0 = Some j /\ nth_error fs j = Some fd /\
                (forall tr', DecJ f false (f_ty fd) (J (snd kd)) tr' = Ok (x, tr')) /\
                nth_error (rex_sets f fs ss) j = Some (Some x)) (sort_entries ents)).
    { apply Forall_forall. intros [k d] Hin. apply (Permutation_in _ (sort_entries_perm ents)) in Hin.
      destruct (root_set_entries_in e wc fu scope fs ss ents Hents k d Hin) as [j [fd [v [Hj [Hk [Hs Hd]]]]]].
      destruct (Hty j fd v Hj Hs) as [Htv Hsz].
      exists j, fd, (expect parseF e wc ignore v f (f_ty fd)). cbn [fst snd]. subst k. repeat split.
      - exact (rindex_of_nodup fs j fd Hnd Hj).
      - exact Hj.
      - intros tr'. apply (json_tree_roundtrip fmtF parseF e wc ignore O64 O32 Hwf fu (scope ++ [f_name fd]) (f_ty fd) v d f false tr').
        + rewrite Forall_forall in HP. apply HP. eapply nth_error_In; exact Hj.
        + exact Htv.
        + exact Hd.
        + exact Hsz.
        + left. reflexivity.
      - rewrite (rex_sets_nth parseF e wc ignore f fs ss j fd (Some v) Hj Hs). reflexivity. }
    apply rp_Forall_ex in HF as [idxs HF].
    destruct (rsets_loop_ok fmtF parseF e wc ignore f fs tr (rex_sets f fs ss) (sort_entries ents) idxs (map (fun _ => None) fs))
      as [ss' [Hl Hc]]; [rewrite map_length, rex_sets_len; symmetry; exact Hlen | exact HF |].
    rewrite Hl. cbn [bind]. rewrite record_missing_nil. f_equal. f_equal. eapply rcovered_final; [exact Hc|].
    intros j Hni. rewrite nth_error_map. destruct (nth_error fs j) as [fd|] eqn:Ef; simpl.
    - destruct (nth_error ss j) as [s|] eqn:Es.
      2:{ exfalso. apply nth_error_None in Es. assert (j < length fs) by (apply nth_error_Some; congruence). lia. }
      rewrite (rex_sets_nth parseF e wc ignore f fs ss j fd s Ef Es). destruct s as [v|]; [|reflexivity].
      exfalso. apply Hni. destruct (root_set_entries_has e wc fu scope fs ss ents Hents j fd v Ef Es) as [d Hin].
      apply (Permutation_in _ (Permutation_sym (sort_entries_perm ents))) in Hin.
      destruct (rp_Forall2_in _ _ _ _ HF Hin) as [j' [Hj' [fd' [x [Hi _]]]]]. cbn [fst] in Hi.
      rewrite (rindex_of_nodup fs j fd Hnd Ef) in Hi. inversion Hi; subst. exact Hj'.
    - symmetry. apply nth_error_None. rewrite rex_sets_len, Hlen. apply nth_error_None. exact Ef.
  Qed.

  Lemma rp_body : forall fd fe scope n p d tr,
    rtpatch e n p -> rsets_typed e n p -> root_enc_patch_at e wc ps_empty fe scope n p = Ok d -> rpsize p <= fd ->
    DecP fd n (J d) (root_zero_patch e n) tr = Ok (rexpect fd n p, tr).
  Proof.
    induction fd as [|f IH]; intros fe scope n p d tr Ht Hst He Hsz.
    { destruct p; simpl in Hsz; lia. }
    inversion Ht as [n0 fs ds ss ns Hl Hf]; subst.
    inversion Hst as [n1 fs1 ds1 ss1 ns1 Hl1 Hsf]; subst. rewrite Hl in Hl1. inversion Hl1; subst fs1. clear Hl1.
    destruct fe as [|fe]; [discriminate|].
    rewrite (rexpect_eq parseF e wc ignore (S f) n [] fs ds ss ns Hl). cbn [pred].
    destruct fs as [|fd0 fs0].
    { rewrite (root_enc_patch_at_empty e wc ps_empty fe scope n ds ss ns Hl) in He. inversion He; subst d.
      inversion Hf; subst. rewrite J_obj. cbn [map]. cbn [root_dec_patch_at]. rewrite Hl. cbn [bind].
      unfold root_zero_patch. rewrite Hl. reflexivity. }
    rewrite (root_enc_patch_at_S e wc ps_empty fe scope n fd0 fs0 ds ss ns Hl) in He.
    apply bind_ok' in He as [hs [Hc He]]. apply bind_ok' in He as [del [Hdel He]]. apply bind_ok' in He as [set [Hset He]].
    apply bind_ok' in He as [nst [Hn He]]. inversion He; subst d. clear He.
    rewrite J_obj. rewrite (root_dec_patch_at_S parseF e wc ignore f n fd0 fs0 _ _ tr Hl).
    unfold root_zero_patch. rewrite Hl.
    remember (fd0 :: fs0) as FS eqn:EFS.
    destruct (rp_wf_rec n FS Hl) as [Hnd HP].
    destruct (rtfields_len e FS ds ss ns Hf) as [Lds [Lss Lns]].
    destruct (root_check_own_ok e _ FS ds ss ns (false, false) hs Hf Hc) as [_ Ehs]. cbn [fst snd orb] in Ehs. subst hs.
    cbn [fst snd] in Hdel, Hset. rewrite rp_excluded_empty in Hdel, Hset.
    cbn [rpsize] in Hsz. apply le_S_n in Hsz. apply Nat.max_lub_iff in Hsz as [Hvs Hps].
    set (EXS := rex_sets f FS ss). set (EXN := rex_nested e (rexpect f) FS ns).
    (* $delete *)
    assert (HD : forall rest ss0 ns0,
               rp_loop f FS (map jent del ++ rest) (RPatch (map (fun _ => false) FS) ss0 ns0) tr
               = rp_loop f FS rest (RPatch ds ss0 ns0) tr).
    { intros rest ss0 ns0. destruct (existsb (fun b => b) ds) eqn:Ex; inversion Hdel; subst del.
      - cbn [map app]. unfold JsonRoundTrip.jent at 1. cbn [fst snd].
        rewrite (rp_loop_cons parseF e wc ignore f FS op_delete _ rest _ ss0 ns0 tr (J_nonnull fmtF _)).
        rewrite bytes_eqb_refl. rewrite (root_dec_deletes_rt fmtF FS ds (push (SKey op_delete) tr) Hnd Lds).
        + cbn [bind fst snd]. rewrite pop_push. reflexivity.
        + intros j fd Hj Hdl. destruct (rtfields_nth e FS ds ss ns Hf j fd Hj) as [d0 [s0 [np0 [A [_ [_ [B _]]]]]]].
          rewrite A, (B Hdl). reflexivity.
      - cbn [map app]. rewrite <- (rp_all_false FS ds Lds Ex). reflexivity. }
    (* $set *)
    assert (HS : forall rest ns0,
               rp_loop f FS (map jent set ++ rest) (RPatch ds (map (fun _ => None) FS) ns0) tr
               = rp_loop f FS rest (RPatch ds EXS ns0) tr).
    { intros rest ns0. destruct (existsb rsome ss) eqn:Ex.
      - apply bind_ok' in Hset as [dset [Hds Hset]]. inversion Hset; subst set. unfold root_enc_sets in Hds.
        apply bind_ok' in Hds as [ents [Hents Hds]]. inversion Hds; subst dset.
        cbn [map app]. unfold JsonRoundTrip.jent at 1. cbn [fst snd].
        rewrite (rp_loop_cons parseF e wc ignore f FS op_set _ rest ds _ ns0 tr (J_nonnull fmtF _)).
        replace (bytes_eqb op_set op_delete) with false by reflexivity. rewrite bytes_eqb_refl.
        rewrite (root_dec_sets_rt fe (scope ++ [op_set]) f FS ss ents (push (SKey op_set) tr) Hnd HP Lss); [| |exact Hents].
        + cbn [bind fst snd]. rewrite pop_push. reflexivity.
        + intros j fd v Hj Hs. destruct (rtfields_nth e FS ds ss ns Hf j fd Hj) as [d0 [s0 [np0 [_ [A [B _]]]]]].
          destruct (rstyfields_nth e FS ss ns Hsf j fd s0 np0 Hj A B) as [Hty _]. split.
          * apply Hty. congruence.
          * pose proof (rlist_max_opt vsize ss v (nth_error_In _ _ Hs)) as Hle. lia.
      - inversion Hset; subst set. cbn [map app]. unfold EXS. rewrite (rex_sets_none f FS ss Ex).
        rewrite <- (rp_all_none FS ss Lss Ex). reflexivity. }
    (* the nested partial updates *)
    assert (HN : rp_loop f FS (map jent (sort_entries nst)) (RPatch ds EXS (map (fun _ => None) FS)) tr
                 = Ok (RPatch ds EXS EXN, tr)).
    { assert (HF : Forall (fun kd : bytes * doc => exists j, exists fd m q',
                index_of (fst kd) (map f_name FS) 0 = Some j /\ nth_error FS j = Some fd /\
                is_patch_op (fst kd) = false /\ root_rec_of e (f_ty fd) = Some m /\
                (forall tr', DecP f m (J (snd kd)) (root_zero_patch e m) tr' = Ok (q', tr')) /\
                nth_error EXN j = Some (Some q')) (sort_entries nst)).
      { apply Forall_forall. intros [k d] Hin. apply (Permutation_in _ (sort_entries_perm nst)) in Hin.
        destruct (root_nested_entries_in e wc _ scope FS ns nst Hn k d Hin) as [j [fd [m [q [Hj [Hk [Hm [Hq Hd]]]]]]]].
        destruct (rtfields_nth e FS ds ss ns Hf j fd Hj) as [d0 [s0 [np0 [_ [A [B [_ [_ Hrt]]]]]]]].
        destruct (rstyfields_nth e FS ss ns Hsf j fd s0 np0 Hj A B) as [_ Hrs].
        assert (Enp : np0 = Some q) by congruence.
        exists j, fd, m, (rexpect f m q). cbn [fst snd]. subst k. repeat split.
        - exact (rindex_of_nodup FS j fd Hnd Hj).
        - exact Hj.
        - pose proof (Hnp n [] FS Hl) as Hpl. rewrite Forall_forall in Hpl. apply Hpl. eapply nth_error_In; exact Hj.
        - exact Hm.
        - intros tr'. apply (IH fe (scope ++ [f_name fd]) m q d tr' (Hrt q m Enp Hm) (Hrs q m Enp Hm) Hd).
          pose proof (rlist_max_opt rpsize ns q (nth_error_In _ _ Hq)) as Hle. lia.
        - unfold EXN. rewrite (rex_nested_nth e (rexpect f) FS ns j fd (Some q) Hj Hq), Hm. reflexivity. }
      apply rp_Forall_ex in HF as [idxs HF].
      destruct (rp_loop_nested_ok fmtF parseF e wc ignore f FS ds EXS tr EXN (sort_entries nst) idxs (map (fun _ => None) FS))
        as [ns' [Hlp Hcv]]; [unfold EXN; rewrite map_length, rex_nested_len; symmetry; exact Lns | exact HF |].
      rewrite Hlp. f_equal. f_equal. f_equal. eapply rcovered_final; [exact Hcv|].
      intros j Hni. rewrite nth_error_map. destruct (nth_error FS j) as [fd|] eqn:Ef; simpl.
      - destruct (rtfields_nth e FS ds ss ns Hf j fd Ef) as [d0 [s0 [np0 [_ [_ [B [_ [Hrr _]]]]]]]].
        unfold EXN. rewrite (rex_nested_nth e (rexpect f) FS ns j fd np0 Ef B). destruct np0 as [q|]; [|reflexivity].
        destruct (root_rec_of e (f_ty fd)) as [m|] eqn:Em; [|exfalso; apply Hrr; [discriminate | reflexivity]].
        exfalso. apply Hni. destruct (root_nested_entries_has e wc _ scope FS ns nst Hn j fd m q Ef Em B) as [d Hin].
        apply (Permutation_in _ (Permutation_sym (sort_entries_perm nst))) in Hin.
        destruct (rp_Forall2_in _ _ _ _ HF Hin) as [j' [Hj' [fd' [m' [q' [Hi _]]]]]]. cbn [fst] in Hi.
        rewrite (rindex_of_nodup FS j fd Hnd Ef) in Hi. inversion Hi; subst. exact Hj'.
      - symmetry. apply nth_error_None. unfold EXN. rewrite rex_nested_len, Lns. apply nth_error_None. exact Ef. }
    rewrite !map_app, HD, HS, HN. cbn [bind].
    unfold root_check_fields. rewrite Hl.
    rewrite <- (root_check_own_ext e (fun k => excluded wc ps_empty (scope ++ [k]))
                  (fun k => is_key_excluded wc ps_empty ignore k tr)) with (ss := ss) (ns := ns).
    - rewrite Hc. reflexivity.
    - intros k. rewrite rp_excluded_empty. unfold is_key_excluded. rewrite enter_map_ok. reflexivity.
    - unfold EXS. symmetry. apply rex_sets_rsome.
    - unfold EXN. symmetry. apply rex_nested_rsome.
  Qed.
End Main.

Theorem root_patch_body_roundtrip : root_patch_body_roundtrip_statement.
Proof.
  intros fmtF parseF e wc ignore (_ & O64 & O32) Hwf Hnp fe fd scope n p d tr Ht Hst He Hsz.
  exact (rp_body fmtF parseF e wc ignore O64 O32 Hwf Hnp fd fe scope n p d tr Ht Hst He Hsz).
Qed.

Theorem root_patch_roundtrip : root_patch_roundtrip_statement.
Proof.
  intros fmtF parseF e wc ignore (_ & O64 & O32) Hwf Hnp fe fd n p d Ht Hst He Hsz.
  unfold root_enc_patch in He. rewrite rp_excluded_empty in He. apply bind_ok' in He as [d0 [Hd He]]. inversion He; subst d. clear He.
  rewrite J_obj. cbn [map]. unfold jent at 1. cbn [fst snd].
  unfold root_dec_patch. cbn [bind].
  pose proof (J_nonnull fmtF d0) as Hnn.
  pose proof (rp_body fmtF parseF e wc ignore O64 O32 Hwf Hnp fd fe [] n p d0 (push (SKey root_patch_key) tracker0) Ht Hst Hd Hsz) as Hb.
  destruct (to_jdoc fmtF d0) eqn:Ej; try discriminate Hnn;
    rewrite enter_map_ok; cbn [bind]; rewrite bytes_eqb_refl, Hb; cbn [bind]; rewrite pop_push;
    replace (remove_bytes root_patch_key [root_patch_key]) with (@nil bytes) by reflexivity;
    rewrite record_missing_nil; reflexivity.
Qed.

(* the added premise is satisfiable: the partial update of RootPatchProofs.root_patch_roundtrip_example *)
Lemma rsets_typed_example : rsets_typed rrx_env 3 rex_patch.
Proof.
  assert (H0 : rsets_typed rrx_env 0 rex_inner).
  { eapply rsty_rec; [reflexivity|]. repeat constructor; try (intros; discriminate).
    intros v Hv. inversion Hv; subst. constructor. reflexivity. }
  eapply rsty_rec; [reflexivity|]. repeat constructor; try (intros; discriminate).
  - intros q m Hq Hm. inversion Hq; inversion Hm; subst. exact H0.
  - intros v Hv. inversion Hv; subst. constructor. reflexivity.
Qed.

Print Assumptions root_patch_body_roundtrip.
Print Assumptions root_patch_roundtrip.
