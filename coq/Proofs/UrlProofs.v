(* Proofs for C15 (request URL construction).  Model: Http/UrlModel.v (net/url, modelled), Http/Url.v (formatQueryUrl). *)
From Coq Require Import List Bool Arith NArith ZArith Lia.
From Coq.Strings Require Import Byte.
From GR Require Import Base.Bytes Gen.TablesUrl Gen.TablesTunnel Http.UrlModel Http.Url Http.UrlEnc.
Import ListNotations.

(* ------------------------------------------------------------------------------------------------ per-byte facts *)

Lemma byte_eqb_sym a b : Byte.eqb a b = Byte.eqb b a.
Proof.
  destruct (Byte.eqb a b) eqn:E.
  - apply byte_eqb_eq in E. subst. symmetry. apply byte_eqb_refl.
  - symmetry. apply byte_eqb_neq. apply byte_eqb_neq in E. congruence.
Qed.

Definition path_byte_facts (c : byte) : bool :=
  implb (valid_encoded_byte c)
        (negb (is_ctl c) && negb (Byte.eqb c c_qmark) && negb (Byte.eqb c c_hash)).
Lemma path_byte_facts_all : forall c, path_byte_facts c = true.
Proof. apply forall_bytes. vm_compute. reflexivity. Qed.

Definition scheme_byte_facts (c : byte) : bool :=
  implb (scheme_tail_byte c)
        (negb (is_ctl c) && negb (Byte.eqb c c_qmark) && negb (Byte.eqb c c_hash) && negb (is_upper c)
         && negb (Byte.eqb c c_colon) && (is_alpha c || is_digit c || mem_byte c scheme_punct)).
Lemma scheme_byte_facts_all : forall c, scheme_byte_facts c = true.
Proof. apply forall_bytes. vm_compute. reflexivity. Qed.

Definition host_byte (c : byte) : bool := hostname_byte c || is_digit c || Byte.eqb c c_colon.
Definition host_byte_facts (c : byte) : bool :=
  implb (host_byte c)
        (negb (is_ctl c) && negb (Byte.eqb c c_qmark) && negb (Byte.eqb c c_hash) && negb (Byte.eqb c c_slash)
         && negb (Byte.eqb c c_at) && negb (Byte.eqb c c_pct) && negb (Byte.eqb c c_lbrack)
         && negb (should_escape_host c)).
Lemma host_byte_facts_all : forall c, host_byte_facts c = true.
Proof. apply forall_bytes. vm_compute. reflexivity. Qed.

Definition hostname_byte_facts (c : byte) : bool := implb (hostname_byte c) (negb (Byte.eqb c c_colon) && negb (Byte.eqb c c_lbrack)).
Lemma hostname_byte_facts_all : forall c, hostname_byte_facts c = true.
Proof. apply forall_bytes. vm_compute. reflexivity. Qed.

Definition digit_byte_facts (c : byte) : bool := implb (is_digit c) (negb (Byte.eqb c c_colon)).
Lemma digit_byte_facts_all : forall c, digit_byte_facts c = true.
Proof. apply forall_bytes. vm_compute. reflexivity. Qed.

Definition lower_is_scheme_tail (c : byte) : bool := implb (is_lower c) (scheme_tail_byte c && is_alpha c).
Lemma lower_is_scheme_tail_all : forall c, lower_is_scheme_tail c = true.
Proof. apply forall_bytes. vm_compute. reflexivity. Qed.

(* the table obligations: every byte the ROR2 path writer can emit is accepted by Go's validEncoded (so EscapedPath
   returns the encoder's text verbatim instead of re-encoding it); every byte the query writer can emit survives
   url.Parse (no control byte, no fragment delimiter) *)
Definition path_table_ok (tab : bytes) : bool :=
  forallb (fun c => implb (encoded_path_byte tab c) (valid_encoded_byte c)) all_bytes.
Definition query_table_ok (tab : bytes) : bool :=
  forallb (fun c => implb (encoded_query_byte tab c) (query_byte_ok c)) all_bytes.

Lemma v2_path_table_ok : path_table_ok v2_unescaped_path_characters = true.
Proof. vm_compute. reflexivity. Qed.
Lemma root_path_table_ok : path_table_ok root_unescaped_path_characters = true.
Proof. vm_compute. reflexivity. Qed.
Lemma v2_query_table_ok : query_table_ok v2_unescaped_query_characters = true.
Proof. vm_compute. reflexivity. Qed.
Lemma root_query_table_ok : query_table_ok root_unescaped_query_characters = true.
Proof. vm_compute. reflexivity. Qed.

Lemma forallb_impl {A} (P Q : A -> bool) l : (forall x, P x = true -> Q x = true) -> forallb P l = true -> forallb Q l = true.
Proof. intros H. induction l as [|x l IH]; simpl; [reflexivity|]. intros E. apply andb_true_iff in E as [E1 E2]. rewrite (H _ E1), (IH E2). reflexivity. Qed.

Lemma encoded_path_valid tab root rpath :
  path_table_ok tab = true -> encoded_path tab root rpath = true -> valid_path root rpath = true.
Proof.
  intros HT H. unfold encoded_path in H. unfold valid_path.
  apply andb_true_iff in H as [H H3]. apply andb_true_iff in H as [H1 H2].
  rewrite H1, H3. simpl. rewrite andb_true_r. unfold valid_encoded.
  eapply forallb_impl; [|exact H2]. intros c Hc.
  pose proof (forall_bytes _ HT c) as F. simpl in F. rewrite Hc in F. exact F.
Qed.

Lemma encoded_query_valid tab q :
  query_table_ok tab = true -> encoded_query tab q = true -> valid_query q = true.
Proof.
  intros HT H. destruct q as [s|]; [|reflexivity]. simpl in *.
  eapply forallb_impl; [|exact H]. intros c Hc.
  pose proof (forall_bytes _ HT c) as F. simpl in F. rewrite Hc in F. exact F.
Qed.

(* ------------------------------------------------------------------------------------------------ lists of bytes *)

Lemma mem_byte_app c a b : mem_byte c (a ++ b) = mem_byte c a || mem_byte c b.
Proof. induction a as [|x a IH]; simpl; [reflexivity|]. rewrite IH. apply orb_assoc. Qed.

Lemma forallb_not_mem (P : byte -> bool) x s :
  (forall c, P c = true -> Byte.eqb c x = false) -> forallb P s = true -> mem_byte x s = false.
Proof.
  intros H. induction s as [|c s IH]; simpl; [reflexivity|]. intros E. apply andb_true_iff in E as [E1 E2].
  rewrite (H _ E1), (IH E2). reflexivity.
Qed.

Lemma forallb_no_exists (P Q : byte -> bool) s :
  (forall c, P c = true -> Q c = false) -> forallb P s = true -> existsb Q s = false.
Proof.
  intros H. induction s as [|c s IH]; simpl; [reflexivity|]. intros E. apply andb_true_iff in E as [E1 E2].
  rewrite (H _ E1), (IH E2). reflexivity.
Qed.

Lemma existsb_app' {A} (f : A -> bool) a b : existsb f (a ++ b) = existsb f a || existsb f b.
Proof. apply existsb_app. Qed.

Lemma cut_byte_nomem c s : mem_byte c s = false -> cut_byte c s = (s, None).
Proof.
  induction s as [|x s IH]; simpl; [reflexivity|]. intros E. apply orb_false_iff in E as [E1 E2].
  rewrite E1, (IH E2). reflexivity.
Qed.

Lemma cut_byte_app c p r : mem_byte c p = false -> cut_byte c (p ++ c :: r) = (p, Some r).
Proof.
  induction p as [|x p IH]; simpl.
  - intros _. rewrite byte_eqb_refl. reflexivity.
  - intros E. apply orb_false_iff in E as [E1 E2]. rewrite E1, (IH E2). reflexivity.
Qed.

Lemma count_byte_app c a b : count_byte c (a ++ b) = (count_byte c a + count_byte c b)%nat.
Proof. induction a as [|x a IH]; simpl; [reflexivity|]. rewrite IH. lia. Qed.

Lemma count_byte_nomem c s : mem_byte c s = false -> count_byte c s = 0%nat.
Proof.
  induction s as [|x s IH]; simpl; [reflexivity|]. intros E. apply orb_false_iff in E as [E1 E2].
  rewrite E1, (IH E2). reflexivity.
Qed.

Lemma count_byte_mem c s : mem_byte c s = true -> (1 <= count_byte c s)%nat.
Proof.
  induction s as [|x s IH]; simpl; [discriminate|]. destruct (Byte.eqb x c); simpl; [lia|]. intros E. apply IH in E. lia.
Qed.

Lemma last_in (q : bytes) d : q <> [] -> In (last q d) q.
Proof.
  induction q as [|x q IH]; [congruence|]. intros _. destruct q as [|y q]; [left; reflexivity|].
  right. apply IH. discriminate.
Qed.

Lemma last_app_ne (a b : bytes) d : b <> [] -> last (a ++ b) d = last b d.
Proof.
  intros Hb. induction a as [|x a IH]; [reflexivity|]. simpl app.
  destruct (a ++ b) as [|y l] eqn:E; [apply app_eq_nil in E as [_ E]; contradiction|].
  change (last (x :: y :: l) d) with (last (y :: l) d). exact IH.
Qed.

Lemma has_suffix1_last c s : has_suffix [c] s = true -> s <> [] /\ last s c = c.
Proof.
  intros H. apply has_suffix_spec in H as [r ->]. split; [destruct r; discriminate|]. apply last_last.
Qed.

Lemma has_suffix1_app c r : has_suffix [c] (r ++ [c]) = true.
Proof. apply has_suffix_spec. exists r. reflexivity. Qed.

Lemma firstn_app_exact {A} (a b : list A) : firstn (length a) (a ++ b) = a.
Proof. rewrite firstn_app, firstn_all, Nat.sub_diag. simpl. apply app_nil_r. Qed.

Lemma skipn_app_exact {A} (a b : list A) : skipn (length a) (a ++ b) = b.
Proof. rewrite skipn_app, skipn_all, Nat.sub_diag. reflexivity. Qed.

(* url.Parse's query split on  path ++ "?" ++ q  when the path holds no '?' *)
Lemma split_query_some p q : mem_byte c_qmark p = false -> split_query (p ++ c_qmark :: q) = (p, q, null q).
Proof.
  intros Hp. unfold split_query.
  destruct q as [|y q].
  - rewrite has_suffix1_app.
    assert (C : count_byte c_qmark (p ++ [c_qmark]) = 1%nat).
    { rewrite count_byte_app, (count_byte_nomem _ _ Hp). reflexivity. }
    rewrite C. simpl andb. cbv iota.
    rewrite app_length. simpl length. replace (length p + 1 - 1)%nat with (length p) by lia. rewrite firstn_app_exact. reflexivity.
  - destruct (has_suffix [c_qmark] (p ++ c_qmark :: y :: q) && Nat.eqb (count_byte c_qmark (p ++ c_qmark :: y :: q)) 1) eqn:E.
    + exfalso. apply andb_true_iff in E as [E1 E2]. apply has_suffix1_last in E1 as [_ E1].
      rewrite last_app_ne in E1 by discriminate.
      change (c_qmark :: y :: q) with ([c_qmark] ++ (y :: q)) in E1. rewrite last_app_ne in E1 by discriminate.
      assert (M : mem_byte c_qmark (y :: q) = true). { apply mem_byte_In. rewrite <- E1 at 1. apply last_in. discriminate. }
      apply count_byte_mem in M. apply Nat.eqb_eq in E2. rewrite count_byte_app, (count_byte_nomem _ _ Hp) in E2.
      change (count_byte c_qmark (c_qmark :: y :: q)) with (S (count_byte c_qmark (y :: q))) in E2.
      lia.
    + rewrite (cut_byte_app _ _ _ Hp). reflexivity.
Qed.

Lemma split_query_none p : mem_byte c_qmark p = false -> split_query p = (p, [], false).
Proof.
  intros Hp. unfold split_query. rewrite (count_byte_nomem _ _ Hp). rewrite andb_false_r. rewrite (cut_byte_nomem _ _ Hp). reflexivity.
Qed.

(* ------------------------------------------------------------------------------------------------ unescape *)

Lemma unescape_app a b a' b' : unescape a = Some a' -> unescape b = Some b' -> unescape (a ++ b) = Some (a' ++ b').
Proof.
  remember (length a) as n eqn:Hn. revert a a' Hn. induction n as [n IH] using lt_wf_ind. intros a a' Hn Ha Hb.
  destruct a as [|c t].
  - simpl in Ha. injection Ha as <-. exact Hb.
  - simpl in Ha. destruct (Byte.eqb c c_pct) eqn:Ec.
    + destruct t as [|h1 [|h2 r]]; try discriminate.
      destruct (ishex h1 && ishex h2) eqn:Eh; [|discriminate].
      destruct (unescape r) as [r'|] eqn:Er; [|discriminate]. simpl in Ha. injection Ha as <-.
      change ((c :: h1 :: h2 :: r) ++ b) with (c :: h1 :: h2 :: (r ++ b)).
      cbn [unescape]. rewrite Ec, Eh.
      rewrite (IH (length r)) with (a' := r'); [reflexivity| simpl in Hn; lia | reflexivity | exact Er | exact Hb].
    + destruct (unescape t) as [t'|] eqn:Et; [|discriminate]. simpl in Ha. injection Ha as <-.
      change ((c :: t) ++ b) with (c :: (t ++ b)). cbn [unescape]. rewrite Ec.
      rewrite (IH (length t)) with (a' := t'); [reflexivity| simpl in Hn; lia | reflexivity | exact Et | exact Hb].
Qed.

Lemma unescape_slash_cons t : unescape (c_slash :: t) = option_map (cons c_slash) (unescape t).
Proof. reflexivity. Qed.

Lemma valid_encoded_app a b : valid_encoded (a ++ b) = valid_encoded a && valid_encoded b.
Proof. apply forallb_app. Qed.

(* EscapedPath gives back the text setPath was given, when that text is a valid encoding *)
Lemma escaped_path_set_path (p d : bytes) u :
  valid_encoded p = true -> unescape p = Some d -> bytes_eqb d [c_star] = false ->
  u_path u = d -> u_rawpath u = (if bytes_eqb p (escape_path d) then [] else p) ->
  escaped_path u = p.
Proof.
  intros Hv Hu Hs Hp Hr. unfold escaped_path. rewrite Hp, Hr.
  destruct (bytes_eqb p (escape_path d)) eqn:E.
  - simpl. rewrite Hs. apply bytes_eqb_eq in E. congruence.
  - assert (Hn : null p = false).
    { destruct p; [|reflexivity]. simpl in Hu. injection Hu as <-. simpl in E. discriminate. }
    rewrite Hn, Hv, Hu. simpl. rewrite bytes_eqb_refl. reflexivity.
Qed.

Lemma unescape_starts_slash t d : unescape (c_slash :: t) = Some d -> bytes_eqb d [c_star] = false.
Proof.
  rewrite unescape_slash_cons. destruct (unescape t); simpl; [|discriminate]. intros H. injection H as <-. reflexivity.
Qed.

(* ------------------------------------------------------------------------------------------------ url.Parse(path?query) *)

Lemma get_scheme_slash t : get_scheme (c_slash :: t) = GsNone.
Proof. reflexivity. Qed.

Lemma contains_ctl_app a b : contains_ctl (a ++ b) = contains_ctl a || contains_ctl b.
Proof. apply existsb_app. Qed.

Lemma valid_encoded_no_ctl s : valid_encoded s = true -> contains_ctl s = false.
Proof.
  apply forallb_no_exists. intros c Hc. pose proof (path_byte_facts_all c) as F. unfold path_byte_facts in F.
  rewrite Hc in F. simpl in F. apply andb_true_iff in F as [F _]. apply andb_true_iff in F as [F _]. apply negb_true_iff in F. exact F.
Qed.

Lemma valid_encoded_no_qmark s : valid_encoded s = true -> mem_byte c_qmark s = false.
Proof.
  apply forallb_not_mem. intros c Hc. pose proof (path_byte_facts_all c) as F. unfold path_byte_facts in F.
  rewrite Hc in F. simpl in F. apply andb_true_iff in F as [F _]. apply andb_true_iff in F as [_ F]. apply negb_true_iff in F. exact F.
Qed.

Lemma valid_encoded_no_hash s : valid_encoded s = true -> mem_byte c_hash s = false.
Proof.
  apply forallb_not_mem. intros c Hc. pose proof (path_byte_facts_all c) as F. unfold path_byte_facts in F.
  rewrite Hc in F. simpl in F. apply andb_true_iff in F as [_ F]. apply negb_true_iff in F. exact F.
Qed.

Lemma query_no_ctl s : forallb query_byte_ok s = true -> contains_ctl s = false.
Proof.
  apply forallb_no_exists. intros c Hc. unfold query_byte_ok in Hc. apply andb_true_iff in Hc as [F _]. apply negb_true_iff in F. exact F.
Qed.

Lemma query_no_hash s : forallb query_byte_ok s = true -> mem_byte c_hash s = false.
Proof.
  apply forallb_not_mem. intros c Hc. unfold query_byte_ok in Hc. apply andb_true_iff in Hc as [_ F]. apply negb_true_iff in F. exact F.
Qed.

Definition query_suffix (q : option bytes) : bytes := match q with Some p => c_qmark :: p | None => [] end.

Lemma query_suffix_no_ctl q : valid_query q = true -> contains_ctl (query_suffix q) = false.
Proof. destruct q as [p|]; simpl; [|reflexivity]. intros H. change (is_ctl c_qmark) with false. simpl. apply query_no_ctl. exact H. Qed.

Lemma query_suffix_no_hash q : valid_query q = true -> mem_byte c_hash (query_suffix q) = false.
Proof. destruct q as [p|]; simpl; [|reflexivity]. intros H. change (Byte.eqb c_qmark c_hash) with false. simpl. apply query_no_hash. exact H. Qed.

Lemma split_query_suffix p q :
  mem_byte c_qmark p = false -> split_query (p ++ query_suffix q) = (p, raw_query_of q, force_query_of q).
Proof.
  intros Hp. destruct q as [s|]; simpl.
  - rewrite (split_query_some _ _ Hp). destruct s; reflexivity.
  - rewrite app_nil_r. apply split_query_none. exact Hp.
Qed.

(* the shape of an encoder-produced path: "/" ++ first byte of root (not a slash) ... *)
Lemma path_shape root rpath :
  root_ok root = true -> path_has_root root rpath = true ->
  exists r0 t, rpath = c_slash :: r0 :: t /\ Byte.eqb c_slash r0 = false.
Proof.
  intros Hr Hp. unfold root_ok in Hr. apply andb_true_iff in Hr as [Hr1 Hr2].
  unfold path_has_root in Hp. apply andb_true_iff in Hp as [Hp _]. apply has_prefix_spec in Hp as [tail ->].
  destruct root as [|r0 root']; [discriminate|]. exists r0, (root' ++ tail). split; [reflexivity|].
  unfold no_slash in Hr2. apply negb_true_iff in Hr2. simpl in Hr2. apply orb_false_iff in Hr2 as [Hr2 _].
  rewrite byte_eqb_sym. exact Hr2.
Qed.

(* parse of  J ++ "?" ++ q  for an escaped absolute path J whose second byte is not a slash: no scheme, no authority *)
Lemma parse_rest_path J x t q d :
  J = c_slash :: x :: t -> Byte.eqb c_slash x = false -> valid_encoded J = true -> unescape J = Some d ->
  parse_rest [] (J ++ query_suffix q) =
  UOk {| u_scheme := []; u_host := []; u_path := d; u_rawpath := (if bytes_eqb J (escape_path d) then [] else J);
         u_forcequery := force_query_of q; u_rawquery := raw_query_of q; u_omithost := false |}.
Proof.
  intros Hshape Hx Hve Hd. unfold parse_rest.
  rewrite (split_query_suffix _ _ (valid_encoded_no_qmark _ Hve)).
  assert (H1 : has_prefix [c_slash] J = true) by (rewrite Hshape; reflexivity).
  assert (H2 : has_prefix [c_slash; c_slash] J = false).
  { rewrite Hshape. simpl. rewrite Hx. reflexivity. }
  cbv beta iota zeta. rewrite H1, H2, !andb_false_r. cbn [negb null andb orb].
  unfold set_path. rewrite Hd. reflexivity.
Qed.

Lemma parse_path J x t q d :
  J = c_slash :: x :: t -> Byte.eqb c_slash x = false -> valid_encoded J = true -> unescape J = Some d ->
  valid_query q = true ->
  parse (J ++ query_suffix q) =
  UOk {| u_scheme := []; u_host := []; u_path := d; u_rawpath := (if bytes_eqb J (escape_path d) then [] else J);
         u_forcequery := force_query_of q; u_rawquery := raw_query_of q; u_omithost := false |}.
Proof.
  intros Hshape Hx Hve Hd Hq. unfold parse.
  rewrite cut_byte_nomem by (rewrite mem_byte_app, (valid_encoded_no_hash _ Hve), (query_suffix_no_hash _ Hq); reflexivity).
  unfold parse_nofrag.
  rewrite contains_ctl_app, (valid_encoded_no_ctl _ Hve), (query_suffix_no_ctl _ Hq). simpl orb. cbv iota.
  assert (Hstar : bytes_eqb (J ++ query_suffix q) [c_star] = false) by (rewrite Hshape; reflexivity).
  rewrite Hstar.
  assert (Hgs : get_scheme (J ++ query_suffix q) = GsNone) by (rewrite Hshape; reflexivity).
  rewrite Hgs. eapply parse_rest_path; eassumption.
Qed.

Lemma parse_resource root rpath q d :
  root_ok root = true -> valid_path root rpath = true -> valid_query q = true -> unescape rpath = Some d ->
  parse (rpath ++ query_suffix q) =
  UOk {| u_scheme := []; u_host := []; u_path := d; u_rawpath := (if bytes_eqb rpath (escape_path d) then [] else rpath);
         u_forcequery := force_query_of q; u_rawquery := raw_query_of q; u_omithost := false |}.
Proof.
  intros Hroot Hvp Hq Hd. unfold valid_path in Hvp. apply andb_true_iff in Hvp as [Hvp _]. apply andb_true_iff in Hvp as [Hpr Hve].
  destruct (path_shape _ _ Hroot Hpr) as (r0 & t & Hshape & Hr0).
  eapply parse_path; eassumption.
Qed.

(* ------------------------------------------------------------------------------------------------ context paths *)

Definition R (segs : list bytes) : bytes := concat (map (cons c_slash) segs).

Lemma render_ctx_R segs tr : render_ctx segs tr = R segs ++ (if tr then [c_slash] else []).
Proof. reflexivity. Qed.

Lemma R_cons s l : R (s :: l) = c_slash :: s ++ R l.
Proof. reflexivity. Qed.

Lemma R_app a b : R (a ++ b) = R a ++ R b.
Proof. unfold R. rewrite map_app, concat_app. reflexivity. Qed.

Lemma R_nil_inv l : R l = [] -> l = [].
Proof. destruct l; [reflexivity|discriminate]. Qed.

Definition seg_plain (s : bytes) : Prop := s <> [] /\ mem_byte c_slash s = false.

Lemma seg_ok_plain s : seg_ok s = true -> seg_plain s.
Proof.
  unfold seg_ok, no_slash. intros H. apply andb_true_iff in H as [H _]. apply andb_true_iff in H as [H H3].
  apply andb_true_iff in H as [H1 _]. split; [destruct s; [discriminate|discriminate]|]. apply negb_true_iff in H3. exact H3.
Qed.

Lemma segs_ok_plain segs : forallb seg_ok segs = true -> Forall seg_plain segs.
Proof. intros H. apply Forall_forall. intros s Hs. apply seg_ok_plain. rewrite forallb_forall in H. apply H, Hs. Qed.

Definition ends_ns (l : bytes) : Prop := exists x c, l = x ++ [c] /\ Byte.eqb c c_slash = false.

Lemma ends_ns_seg s : seg_plain s -> ends_ns s.
Proof.
  intros [Hn Hm]. destruct (exists_last Hn) as (x & c & ->). exists x, c. split; [reflexivity|].
  rewrite mem_byte_app in Hm. apply orb_false_iff in Hm as [_ Hm]. simpl in Hm. apply orb_false_iff in Hm as [Hm _]. exact Hm.
Qed.

Lemma ends_ns_app a b : ends_ns b -> ends_ns (a ++ b).
Proof. intros (x & c & -> & H). exists (a ++ x), c. rewrite app_assoc. split; [reflexivity|exact H]. Qed.

Lemma ends_ns_R l : l <> [] -> Forall seg_plain l -> ends_ns (R l).
Proof.
  intros Hn HF. destruct (exists_last Hn) as (pre & s & ->). rewrite R_app. apply ends_ns_app.
  rewrite R_cons. change (R []) with (@nil byte). rewrite app_nil_r.
  apply (ends_ns_app [c_slash]). apply ends_ns_seg. apply Forall_app in HF as [_ HF]. inversion HF; assumption.
Qed.

Lemma trim_suffix_snoc c y : trim_suffix [c] (y ++ [c]) = y.
Proof.
  unfold trim_suffix. rewrite has_suffix1_app. rewrite app_length. simpl length.
  replace (length y + 1 - 1)%nat with (length y) by lia. apply firstn_app_exact.
Qed.

Lemma trim_suffix_ends_ns x : ends_ns x -> trim_suffix [c_slash] x = x.
Proof.
  intros (y & c & -> & Hc). unfold trim_suffix. destruct (has_suffix [c_slash] (y ++ [c])) eqn:E; [|reflexivity].
  apply has_suffix_spec in E as [r E]. apply app_inj_tail in E as [_ E]. subst c. discriminate.
Qed.

Lemma strip_trailing_slash_snoc y : strip_trailing_slash (y ++ [c_slash]) = y.
Proof. unfold strip_trailing_slash. rewrite rev_app_distr. simpl. apply rev_involutive. Qed.

Lemma strip_trailing_slash_ends_ns x : ends_ns x -> strip_trailing_slash x = x.
Proof. intros (y & c & -> & Hc). unfold strip_trailing_slash. rewrite rev_app_distr. simpl. rewrite Hc. reflexivity. Qed.

Lemma strip_trailing_slash_render segs tr :
  Forall seg_plain segs -> strip_trailing_slash (render_ctx segs tr) = R segs.
Proof.
  intros HF. rewrite render_ctx_R. destruct tr.
  - apply strip_trailing_slash_snoc.
  - rewrite app_nil_r. destruct segs as [|s l]; [reflexivity|]. apply strip_trailing_slash_ends_ns. apply ends_ns_R; [discriminate|exact HF].
Qed.

Lemma R_join l : R l = join_with [c_slash] ([] :: l).
Proof.
  induction l as [|s l IH]; [reflexivity|]. rewrite R_cons.
  change (join_with [c_slash] ([] :: s :: l)) with (c_slash :: join_with [c_slash] (s :: l)). f_equal.
  destruct l as [|s2 l]; [apply app_nil_r|]. rewrite IH. reflexivity.
Qed.

Lemma split_R l : Forall seg_plain l -> split_on c_slash (R l) = [] :: l.
Proof.
  intros HF. rewrite R_join. apply split_join_no_sep; [discriminate|].
  constructor; [reflexivity|]. eapply Forall_impl; [|exact HF]. intros s [_ H]. exact H.
Qed.

Lemma cut_last_root_cons_nil root l :
  root <> [] -> cut_last_root root ([] :: l) = option_map (cons []) (cut_last_root root l).
Proof. intros Hr. simpl. destruct (cut_last_root root l); [reflexivity|]. destruct root; [congruence|reflexivity]. Qed.

Definition spec_segs (root : bytes) (segs : list bytes) : list bytes :=
  match cut_last_root root segs with Some p => p | None => segs end.

(* the specification on a rendered context: the kept segments, rendered *)
Lemma context_render root segs tr :
  root <> [] -> Forall seg_plain segs -> context (render_ctx segs tr) root = R (spec_segs root segs).
Proof.
  intros Hr HF. unfold context. rewrite (strip_trailing_slash_render _ _ HF), (split_R _ HF).
  rewrite (cut_last_root_cons_nil _ _ Hr). unfold spec_segs.
  destruct (cut_last_root root segs) as [p|]; simpl option_map; cbv iota; symmetry; apply R_join.
Qed.

Lemma cut_last_root_prefix root l p : cut_last_root root l = Some p -> exists rest, l = p ++ rest.
Proof.
  revert p. induction l as [|s l IH]; intros p H; [discriminate|]. simpl in H.
  destruct (cut_last_root root l) as [p'|].
  - injection H as <-. destruct (IH _ eq_refl) as [rest ->]. exists rest. reflexivity.
  - destruct (bytes_eqb s root); [|discriminate]. injection H as <-. exists (s :: l). reflexivity.
Qed.

Lemma cut_last_root_none root l : Forall (fun s => s <> root) l -> cut_last_root root l = None.
Proof.
  induction 1 as [|s l Hs _ IH]; [reflexivity|]. simpl. rewrite IH. apply bytes_eqb_neq in Hs. rewrite Hs. reflexivity.
Qed.

Lemma cut_last_root_snoc root pre : cut_last_root root (pre ++ [root]) = Some pre.
Proof.
  induction pre as [|x pre IH]; simpl; [rewrite bytes_eqb_refl; reflexivity|]. rewrite IH. reflexivity.
Qed.

Lemma cut_last_root_shorter root l p : cut_last_root root l = Some p -> (length p < length l)%nat.
Proof.
  revert p. induction l as [|s l IH]; intros p H; [discriminate|]. simpl in H. destruct (cut_last_root root l) as [p'|].
  - injection H as <-. simpl. specialize (IH _ eq_refl). lia.
  - destruct (bytes_eqb s root); [|discriminate]. injection H as <-. simpl. lia.
Qed.

Lemma cut_last_root_no_root root l p : cut_last_root root l = Some p -> root_only_final root l = true -> Forall (fun s => s <> root) p.
Proof.
  intros H HF. destruct (cut_last_root_prefix _ _ _ H) as [rest ->].
  destruct rest as [|r rest].
  - apply cut_last_root_shorter in H. rewrite app_nil_r in H. lia.
  - unfold root_only_final in HF. rewrite forallb_forall in HF. apply Forall_forall. intros s Hs.
    assert (Hin : In s (removelast (p ++ r :: rest))).
    { rewrite removelast_app by discriminate. apply in_or_app. left. exact Hs. }
    specialize (HF _ Hin). apply negb_true_iff in HF. apply bytes_eqb_neq in HF. exact HF.
Qed.

(* ------------------------------------------------------------------------------------------------ the code's string surgery *)

Lemma last_index_skip r w b :
  (forall c, In c w -> Byte.eqb c_slash c = false) ->
  last_index (c_slash :: r) (w ++ b) = option_map (plus (length w)) (last_index (c_slash :: r) b).
Proof.
  induction w as [|c w IH]; intros Hw.
  - simpl. destruct (last_index (c_slash :: r) b); reflexivity.
  - simpl app. cbn [last_index]. rewrite IH by (intros c' Hc'; apply Hw; right; exact Hc').
    destruct (last_index (c_slash :: r) b) as [i|]; simpl option_map.
    + reflexivity.
    + cbn [has_prefix]. rewrite (Hw c (or_introl eq_refl)). reflexivity.
Qed.

Lemma has_prefix_seg root s rest :
  mem_byte c_slash root = false -> (rest = [] \/ exists t, rest = c_slash :: t) ->
  has_prefix root (s ++ rest) = has_prefix root s.
Proof.
  revert s. induction root as [|a root IH]; intros s Hr Hrest; [reflexivity|].
  simpl in Hr. apply orb_false_iff in Hr as [Ha Hr].
  destruct s as [|b s].
  - simpl. destruct Hrest as [->|[t ->]]; [reflexivity|]. simpl. rewrite Ha. reflexivity.
  - simpl. rewrite (IH s Hr Hrest). reflexivity.
Qed.

Lemma R_head l : R l = [] \/ exists t, R l = c_slash :: t.
Proof. destruct l as [|s l]; [left; reflexivity|right]. rewrite R_cons. eexists. reflexivity. Qed.

Lemma seg_plain_no_slash s : seg_plain s -> forall c, In c s -> Byte.eqb c_slash c = false.
Proof.
  intros [_ H] c Hc. rewrite byte_eqb_sym. destruct (Byte.eqb c c_slash) eqn:E; [|reflexivity].
  apply byte_eqb_eq in E. subst c. apply mem_byte_In in Hc. congruence.
Qed.

Lemma li_render root segs :
  mem_byte c_slash root = false -> Forall seg_plain segs ->
  match last_index (c_slash :: root) (R segs) with
  | None => Forall (fun s => has_prefix root s = false) segs
  | Some idx => exists pre seg post, segs = pre ++ seg :: post /\ idx = length (R pre) /\ has_prefix root seg = true
                                    /\ Forall (fun s => has_prefix root s = false) post
  end.
Proof.
  intros Hroot HF. induction HF as [|s more Hs HF IH].
  - simpl. constructor.
  - rewrite R_cons. cbn [last_index]. rewrite (last_index_skip _ _ _ (seg_plain_no_slash _ Hs)).
    destruct (last_index (c_slash :: root) (R more)) as [idx|]; simpl option_map.
    + destruct IH as (pre & seg & post & -> & -> & Hp & Hpost).
      exists (s :: pre), seg, post. repeat split; [| exact Hp | exact Hpost]. rewrite R_cons. simpl. rewrite app_length. lia.
    + cbn [has_prefix]. rewrite byte_eqb_refl. simpl andb. rewrite (has_prefix_seg _ _ _ Hroot (R_head more)).
      destruct (has_prefix root s) eqn:E.
      * exists [], s, more. repeat split; [exact E | exact IH].
      * constructor; [exact E | exact IH].
Qed.

Lemma has_prefix_refl (s : bytes) : has_prefix s s = true.
Proof. apply has_prefix_spec. exists []. symmetry. apply app_nil_r. Qed.

Lemma no_prefix_not_root root l : Forall (fun s => has_prefix root s = false) l -> Forall (fun s => s <> root) l.
Proof. apply Forall_impl. intros s H E. subst. rewrite has_prefix_refl in H. discriminate. Qed.

Lemma nth_error_app_exact {A} (a b : list A) : nth_error (a ++ b) (length a) = nth_error b 0.
Proof. rewrite nth_error_app2 by lia. rewrite Nat.sub_diag. reflexivity. Qed.

(* strings.LastIndex + the boundary test of formatQueryUrl agree with the specification on every context of the grammar *)
Lemma strip_root_render root segs :
  root_ok root = true -> Forall seg_plain segs -> root_only_final root segs = true ->
  strip_root (R segs) root = R (spec_segs root segs).
Proof.
  intros Hroot HF Hfin. unfold root_ok, no_slash in Hroot. apply andb_true_iff in Hroot as [Hne Hns]. apply negb_true_iff in Hns.
  pose proof (li_render root segs Hns HF) as L. unfold strip_root, spec_segs.
  destruct (last_index (c_slash :: root) (R segs)) as [idx|].
  - destruct L as (pre & seg & post & -> & -> & Hp & Hpost).
    apply has_prefix_spec in Hp as [w ->].
    assert (Hlen : length (R (pre ++ (root ++ w) :: post)) = (length (R pre) + length root + 1 + length w + length (R post))%nat).
    { rewrite R_app, R_cons, !app_length. simpl. rewrite !app_length. lia. }
    assert (Hnth : nth_byte (length (R pre) + length root + 1) (R (pre ++ (root ++ w) :: post)) = nth_error (w ++ R post) 0).
    { unfold nth_byte. rewrite R_app, R_cons.
      replace (length (R pre) + length root + 1)%nat with (length (R pre ++ c_slash :: root)) by (rewrite app_length; simpl; lia).
      replace (R pre ++ c_slash :: (root ++ w) ++ R post) with ((R pre ++ c_slash :: root) ++ (w ++ R post)).
      - apply nth_error_app_exact.
      - rewrite <- (app_assoc (R pre)). simpl. rewrite <- (app_assoc root). reflexivity. }
    unfold bytes in *. rewrite Hlen. rewrite Hnth. destruct w as [|c w].
    + (* the segment IS the root name: by the grammar it is the last one *)
      rewrite app_nil_r in *. destruct post as [|p post].
      * simpl length. rewrite Nat.add_0_r, Nat.add_0_r. rewrite Nat.eqb_refl. simpl orb. cbv iota.
        rewrite cut_last_root_snoc. rewrite R_app. apply firstn_app_exact.
      * exfalso. unfold root_only_final in Hfin. rewrite forallb_forall in Hfin.
        assert (Hin : In root (removelast (pre ++ root :: p :: post))).
        { rewrite removelast_app by discriminate. apply in_or_app. right. simpl. left. reflexivity. }
        specialize (Hfin _ Hin). rewrite bytes_eqb_refl in Hfin. discriminate.
    + (* a segment that merely starts with the root name: nothing is stripped *)
      simpl app. cbn [nth_error]. apply Forall_app in HF as [HFpre HFseg]. inversion HFseg as [|? ? Hseg HFpost]; subst.
      assert (Hc : Byte.eqb c c_slash = false).
      { destruct Hseg as [_ Hm]. rewrite mem_byte_app in Hm. apply orb_false_iff in Hm as [_ Hm]. simpl in Hm.
        apply orb_false_iff in Hm as [Hm _]. exact Hm. }
      rewrite Hc. simpl length.
      replace (Nat.eqb (length (R pre) + length root + 1 + S (length w) + length (R post)) (length (R pre) + length root + 1)) with false
        by (symmetry; apply Nat.eqb_neq; lia).
      simpl orb. cbv iota.
      rewrite cut_last_root_none; [reflexivity|].
      apply Forall_app. split.
      * apply Forall_forall. intros s Hs. unfold root_only_final in Hfin. rewrite forallb_forall in Hfin.
        assert (Hin : In s (removelast (pre ++ (root ++ c :: w) :: post))).
        { rewrite removelast_app by discriminate. apply in_or_app. left. exact Hs. }
        specialize (Hfin _ Hin). apply negb_true_iff in Hfin. apply bytes_eqb_neq in Hfin. exact Hfin.
      * constructor.
        -- intros E. apply (f_equal (@length byte)) in E. rewrite app_length in E. simpl in E. lia.
        -- apply no_prefix_not_root. exact Hpost.
  - rewrite cut_last_root_none; [reflexivity|]. apply no_prefix_not_root. exact L.
Qed.

(* ------------------------------------------------------------------------------------------------ the base URL *)

Lemma seg_ok_parts s : seg_ok s = true -> valid_encoded s = true /\ exists d, unescape s = Some d.
Proof.
  unfold seg_ok, pct_ok. intros H. apply andb_true_iff in H as [H H4]. apply andb_true_iff in H as [H _].
  apply andb_true_iff in H as [_ H2]. split; [exact H2|]. destruct (unescape s) as [d|]; [exists d; reflexivity|discriminate].
Qed.

Lemma R_valid l : forallb seg_ok l = true -> valid_encoded (R l) = true.
Proof.
  induction l as [|s l IH]; [reflexivity|]. simpl forallb. intros H. apply andb_true_iff in H as [Hs Hl].
  rewrite R_cons. change (valid_encoded (c_slash :: s ++ R l)) with (valid_encoded_byte c_slash && valid_encoded (s ++ R l)).
  rewrite valid_encoded_app, (IH Hl). destruct (seg_ok_parts _ Hs) as [-> _]. reflexivity.
Qed.

Lemma R_unescape l : forallb seg_ok l = true -> exists d, unescape (R l) = Some d.
Proof.
  induction l as [|s l IH]; [exists []; reflexivity|]. simpl forallb. intros H. apply andb_true_iff in H as [Hs Hl].
  destruct (IH Hl) as [dl Hdl]. destruct (seg_ok_parts _ Hs) as [_ [ds Hds]].
  exists (c_slash :: ds ++ dl). rewrite R_cons, unescape_slash_cons, (unescape_app _ _ _ _ Hds Hdl). reflexivity.
Qed.

Lemma render_valid segs tr : forallb seg_ok segs = true -> valid_encoded (render_ctx segs tr) = true.
Proof. intros H. rewrite render_ctx_R, valid_encoded_app, (R_valid _ H). destruct tr; reflexivity. Qed.

Lemma render_unescape segs tr : forallb seg_ok segs = true -> exists d, unescape (render_ctx segs tr) = Some d.
Proof.
  intros H. destruct (R_unescape _ H) as [d Hd]. rewrite render_ctx_R. destruct tr.
  - exists (d ++ [c_slash]). apply unescape_app; [exact Hd|reflexivity].
  - exists d. rewrite app_nil_r. exact Hd.
Qed.

Lemma render_head segs tr : render_ctx segs tr = [] \/ exists t, render_ctx segs tr = c_slash :: t.
Proof.
  rewrite render_ctx_R. destruct segs as [|s l].
  - destruct tr; [right; exists []; reflexivity | left; reflexivity].
  - right. rewrite R_cons. eexists. reflexivity.
Qed.

Lemma mk_base_fields scheme host bp p rp :
  set_path bp = Some (p, rp) ->
  mk_base scheme host bp = {| u_scheme := scheme; u_host := host; u_path := p; u_rawpath := rp; u_forcequery := false;
                              u_rawquery := []; u_omithost := false |}.
Proof. intros H. unfold mk_base. rewrite H. reflexivity. Qed.

Lemma escaped_path_base scheme host segs tr :
  forallb seg_ok segs = true -> escaped_path (mk_base scheme host (render_ctx segs tr)) = render_ctx segs tr.
Proof.
  intros H. destruct (render_unescape segs tr H) as [d Hd].
  assert (Hsp : set_path (render_ctx segs tr) = Some (d, if bytes_eqb (render_ctx segs tr) (escape_path d) then [] else render_ctx segs tr)).
  { unfold set_path. rewrite Hd. reflexivity. }
  rewrite (mk_base_fields _ _ _ _ _ Hsp).
  apply escaped_path_set_path with (d := d); [apply render_valid; exact H | exact Hd | | reflexivity | reflexivity].
  destruct (render_head segs tr) as [E|[t E]]; rewrite E in Hd.
  - simpl in Hd. injection Hd as <-. reflexivity.
  - eapply unescape_starts_slash. exact Hd.
Qed.

Lemma trim_prefix1_cons c t : trim_prefix [c] (c :: t) = t.
Proof. unfold trim_prefix. simpl. rewrite byte_eqb_refl. reflexivity. Qed.

Lemma resolved_path_base scheme host segs tr :
  forallb seg_ok segs = true ->
  resolved_path (mk_base scheme host (render_ctx segs tr)) = match segs with [] => [c_slash] | _ => R segs end.
Proof.
  intros H. unfold resolved_path. rewrite (escaped_path_base _ _ _ _ H). rewrite render_ctx_R.
  destruct segs as [|s more].
  - destruct tr; reflexivity.
  - rewrite R_cons. change ((c_slash :: s ++ R more) ++ (if tr then [c_slash] else [])) with (c_slash :: (s ++ R more) ++ (if tr then [c_slash] else [])).
    rewrite trim_prefix1_cons. f_equal.
    assert (E : ends_ns (s ++ R more)).
    { pose proof (segs_ok_plain _ H) as HF. inversion HF as [|? ? Hs HFm]; subst. destruct more as [|m more].
      - change (R []) with (@nil byte). rewrite app_nil_r. apply ends_ns_seg. exact Hs.
      - apply ends_ns_app. apply ends_ns_R; [discriminate|exact HFm]. }
    destruct tr.
    + apply trim_suffix_snoc.
    + rewrite app_nil_r. apply trim_suffix_ends_ns. exact E.
Qed.

Lemma spec_segs_ok root segs : forallb seg_ok segs = true -> forallb seg_ok (spec_segs root segs) = true.
Proof.
  intros H. unfold spec_segs. destruct (cut_last_root root segs) as [p|] eqn:E; [|exact H].
  destruct (cut_last_root_prefix _ _ _ E) as [rest ->]. rewrite forallb_app in H. apply andb_true_iff in H as [H _]. exact H.
Qed.

(* ------------------------------------------------------------------------------------------------ formatQueryUrl *)

Definition joined_url (scheme host ctx dpath rpath : bytes) (q : option bytes) : URL :=
  {| u_scheme := scheme; u_host := host; u_path := dpath; u_rawpath := ctx ++ rpath;
     u_forcequery := force_query_of q; u_rawquery := raw_query_of q; u_omithost := false |}.

Lemma valid_path_parts root rpath :
  valid_path root rpath = true -> path_has_root root rpath = true /\ valid_encoded rpath = true /\ exists d, unescape rpath = Some d.
Proof.
  unfold valid_path, pct_ok. intros H. apply andb_true_iff in H as [H H3]. apply andb_true_iff in H as [H1 H2].
  repeat split; try assumption. destruct (unescape rpath) as [d|]; [exists d; reflexivity|discriminate].
Qed.

Lemma in_grammar_parts scheme host segs root :
  in_grammar scheme host segs root = true ->
  scheme_ok scheme = true /\ (null host || host_ok host) = true /\ forallb seg_ok segs = true /\ root_ok root = true
  /\ root_only_final root segs = true.
Proof.
  unfold in_grammar. intros H. apply andb_true_iff in H as [H H5]. apply andb_true_iff in H as [H H4].
  apply andb_true_iff in H as [H H3]. apply andb_true_iff in H as [H1 H2]. repeat split; assumption.
Qed.

Lemma format_query_url_grammar scheme host segs tr root rpath q :
  in_grammar scheme host segs root = true -> valid_path root rpath = true -> valid_query q = true ->
  exists dctx d, unescape (R (spec_segs root segs)) = Some dctx /\ unescape rpath = Some d /\
  format_query_url (mk_base scheme host (render_ctx segs tr)) root rpath q =
  UOk (joined_url scheme host (R (spec_segs root segs)) (dctx ++ d) rpath q).
Proof.
  intros HG HP HQ. destruct (in_grammar_parts _ _ _ _ HG) as (Hsch & Hhost & Hsegs & Hroot & Hfin).
  destruct (valid_path_parts _ _ HP) as (Hpr & Hve & d & Hd).
  destruct (R_unescape _ (spec_segs_ok root _ Hsegs)) as [dctx Hdctx].
  exists dctx, d. split; [exact Hdctx|]. split; [exact Hd|].
  unfold format_query_url. change (match q with Some params => c_qmark :: params | None => [] end) with (query_suffix q).
  rewrite (parse_resource _ _ _ _ Hroot HP HQ Hd). rewrite (resolved_path_base _ _ _ _ Hsegs).
  destruct (render_unescape segs tr Hsegs) as [dbp Hdbp].
  assert (Hsp : set_path (render_ctx segs tr) = Some (dbp, if bytes_eqb (render_ctx segs tr) (escape_path dbp) then [] else render_ctx segs tr)).
  { unfold set_path. rewrite Hdbp. reflexivity. }
  rewrite (mk_base_fields _ _ _ _ _ Hsp).
  destruct (path_shape _ _ Hroot Hpr) as (r0 & t & Hshape & Hr0).
  assert (Hep : forall u, u_path u = d -> u_rawpath u = (if bytes_eqb rpath (escape_path d) then [] else rpath) -> escaped_path u = rpath).
  { intros u H1 H2. apply escaped_path_set_path with (d := d); try assumption. rewrite Hshape in Hd. eapply unescape_starts_slash. exact Hd. }
  assert (Hjoin : forall ctx dc, unescape ctx = Some dc ->
     join_context_and_resource_path
       {| u_scheme := scheme; u_host := host; u_path := dbp;
          u_rawpath := (if bytes_eqb (render_ctx segs tr) (escape_path dbp) then [] else render_ctx segs tr);
          u_forcequery := false; u_rawquery := []; u_omithost := false |} ctx
       {| u_scheme := []; u_host := []; u_path := d; u_rawpath := (if bytes_eqb rpath (escape_path d) then [] else rpath);
          u_forcequery := force_query_of q; u_rawquery := raw_query_of q; u_omithost := false |}
     = UOk (joined_url scheme host ctx (dc ++ d) rpath q)).
  { intros ctx dc Hc. unfold join_context_and_resource_path. rewrite Hc. rewrite Hep by reflexivity. reflexivity. }
  destruct segs as [|s more].
  - change (bytes_eqb [c_slash] [c_slash]) with true. cbv iota.
    unfold spec_segs in *. simpl cut_last_root in *. cbv iota in *. apply Hjoin. exact Hdctx.
  - assert (Hne : bytes_eqb (R (s :: more)) [c_slash] = false).
    { rewrite R_cons. pose proof (segs_ok_plain _ Hsegs) as HF. inversion HF as [|? ? [Hs _] _].
      destruct s as [|s0 s']; [congruence|]. reflexivity. }
    rewrite Hne. rewrite (strip_root_render _ _ Hroot (segs_ok_plain _ Hsegs) Hfin). apply Hjoin. exact Hdctx.
Qed.

(* ------------------------------------------------------------------------------------------------ hosts and schemes *)

Lemma cut_byte_spec c s a b :
  cut_byte c s = (a, b) -> mem_byte c a = false /\ s = a ++ match b with Some r => c :: r | None => [] end.
Proof.
  revert a b. induction s as [|x s IH]; intros a b H; simpl in H.
  - injection H as <- <-. split; reflexivity.
  - destruct (Byte.eqb x c) eqn:E.
    + injection H as <- <-. apply byte_eqb_eq in E. subst. split; reflexivity.
    + destruct (cut_byte c s) as [a' b'] eqn:E2. injection H as <- <-. destruct (IH _ _ eq_refl) as [H1 H2].
      split; [simpl; rewrite E, H1; reflexivity|]. simpl. rewrite <- H2. reflexivity.
Qed.

Lemma last_index_app_some sub a b i : last_index sub b = Some i -> last_index sub (a ++ b) = Some (length a + i)%nat.
Proof. intros H. induction a as [|x a IH]; [exact H|]. simpl app. cbn [last_index]. rewrite IH. reflexivity. Qed.

Lemma last_index1_nomem c s : mem_byte c s = false -> last_index [c] s = None.
Proof.
  induction s as [|x s IH]; [reflexivity|]. simpl mem_byte. intros H. apply orb_false_iff in H as [H1 H2].
  cbn [last_index]. rewrite (IH H2). cbn [has_prefix]. rewrite byte_eqb_sym, H1. reflexivity.
Qed.

Lemma last_index1_found c a d : mem_byte c d = false -> last_index [c] (a ++ c :: d) = Some (length a).
Proof.
  intros H. rewrite (last_index_app_some _ _ _ 0%nat); [f_equal; lia|].
  cbn [last_index]. rewrite (last_index1_nomem _ _ H). cbn [has_prefix]. rewrite byte_eqb_refl. reflexivity.
Qed.

Lemma trim_suffix1_other c y x : Byte.eqb x c = false -> trim_suffix [c] (y ++ [x]) = y ++ [x].
Proof.
  intros Hc. unfold trim_suffix. destruct (has_suffix [c] (y ++ [x])) eqn:E; [|reflexivity].
  apply has_suffix_spec in E as [r E]. apply app_inj_tail in E as [_ E]. subst x. rewrite byte_eqb_refl in Hc. discriminate.
Qed.

Record host_facts (h : bytes) : Prop := {
  hf_bytes : forallb host_byte h = true;
  hf_authority : parse_authority h = UOk h;
  hf_port : remove_empty_port h = h }.

Lemma host_byte_fact c : host_byte c = true ->
  is_ctl c = false /\ Byte.eqb c c_qmark = false /\ Byte.eqb c c_hash = false /\ Byte.eqb c c_slash = false
  /\ Byte.eqb c c_at = false /\ Byte.eqb c c_pct = false /\ Byte.eqb c c_lbrack = false /\ should_escape_host c = false.
Proof.
  intros H. pose proof (host_byte_facts_all c) as F. unfold host_byte_facts in F. rewrite H in F. simpl in F.
  repeat (apply andb_true_iff in F as [F ?]). repeat split; apply negb_true_iff; assumption.
Qed.

Lemma host_no (x : byte) h : forallb host_byte h = true -> (forall c, host_byte c = true -> Byte.eqb c x = false) -> mem_byte x h = false.
Proof. intros H F. eapply forallb_not_mem; [exact F|exact H]. Qed.

Lemma host_ok_facts h : (null h || host_ok h) = true -> host_facts h.
Proof.
  intros H. destruct h as [|h0 h'].
  - split; reflexivity.
  - simpl in H. unfold host_ok in H. destruct (cut_byte c_colon (h0 :: h')) as [name port] eqn:EC.
    destruct (cut_byte_spec _ _ _ _ EC) as [Hnc Hh]. rewrite Hh. clear EC Hh.
    apply andb_true_iff in H as [H Hport]. apply andb_true_iff in H as [Hne Hname].
    assert (Hname' : forallb host_byte name = true).
    { eapply forallb_impl; [|exact Hname]. intros c Hc. unfold host_byte. rewrite Hc. reflexivity. }
    assert (Hb : forallb host_byte (name ++ match port with Some r => c_colon :: r | None => [] end) = true).
    { rewrite forallb_app, Hname'. destruct port as [dg|]; [|reflexivity]. simpl. apply andb_true_iff in Hport as [_ Hd].
      eapply forallb_impl; [|exact Hd]. intros c Hc. unfold host_byte. rewrite Hc. rewrite orb_true_r. reflexivity. }
    assert (Hmem : forall x, (forall c, host_byte c = true -> Byte.eqb c x = false) ->
                             mem_byte x (name ++ match port with Some r => c_colon :: r | None => [] end) = false).
    { intros x F. eapply host_no; eassumption. }
    split.
    + exact Hb.
    + unfold parse_authority. rewrite (Hmem c_at) by (intros c Hc; apply (host_byte_fact c Hc)).
      unfold parse_host.
      assert (Hlb : has_prefix [c_lbrack] (name ++ match port with Some r => c_colon :: r | None => [] end) = false).
      { destruct name as [|n0 name']; [discriminate|]. simpl. simpl in Hname. apply andb_true_iff in Hname as [Hn0 _].
        pose proof (hostname_byte_facts_all n0) as F. unfold hostname_byte_facts in F. rewrite Hn0 in F. simpl in F.
        apply andb_true_iff in F as [_ F]. apply negb_true_iff in F. rewrite byte_eqb_sym, F. reflexivity. }
      rewrite Hlb.
      assert (Hpo : match last_index [c_colon] (name ++ match port with Some r => c_colon :: r | None => [] end) with
                    | Some i => valid_optional_port (skipn i (name ++ match port with Some r => c_colon :: r | None => [] end))
                    | None => true end = true).
      { destruct port as [dg|].
        - apply andb_true_iff in Hport as [_ Hd].
          assert (Hdc : mem_byte c_colon dg = false).
          { eapply forallb_not_mem; [|exact Hd]. intros c Hc. pose proof (digit_byte_facts_all c) as F. unfold digit_byte_facts in F.
            rewrite Hc in F. simpl in F. apply negb_true_iff in F. exact F. }
          rewrite (last_index1_found _ _ _ Hdc), skipn_app_exact. simpl. exact Hd.
        - rewrite app_nil_r, (last_index1_nomem _ _ Hnc). reflexivity. }
      rewrite Hpo. simpl negb. cbv iota.
      rewrite (Hmem c_pct) by (intros c Hc; apply (host_byte_fact c Hc)).
      rewrite (forallb_no_exists host_byte); [reflexivity| |exact Hb].
      intros c Hc. destruct (host_byte_fact c Hc) as (_ & _ & _ & _ & _ & _ & _ & F). rewrite F. apply andb_false_r.
    + unfold remove_empty_port. destruct port as [dg|].
      * assert (Hm : mem_byte c_colon (name ++ c_colon :: dg) = true) by (apply mem_byte_In, in_or_app; right; left; reflexivity).
        rewrite Hm.
        apply andb_true_iff in Hport as [Hdn Hd]. destruct dg as [|d0 dg']; [discriminate|].
        assert (Hx : (d0 :: dg') <> []) by discriminate. destruct (exists_last Hx) as (y & x & Hyx). rewrite Hyx.
        replace (name ++ c_colon :: y ++ [x]) with ((name ++ c_colon :: y) ++ [x]) by (rewrite <- app_assoc; reflexivity).
        apply trim_suffix1_other.
        rewrite Hyx in Hd. rewrite forallb_app in Hd. apply andb_true_iff in Hd as [_ Hd]. simpl in Hd. rewrite andb_true_r in Hd.
        pose proof (digit_byte_facts_all x) as F. unfold digit_byte_facts in F. rewrite Hd in F. simpl in F. apply negb_true_iff in F. exact F.
      * rewrite app_nil_r, Hnc. reflexivity.
Qed.

Lemma scheme_byte_fact c : scheme_tail_byte c = true ->
  is_ctl c = false /\ Byte.eqb c c_qmark = false /\ Byte.eqb c c_hash = false /\ is_upper c = false
  /\ Byte.eqb c c_colon = false /\ (is_alpha c || is_digit c || mem_byte c scheme_punct) = true.
Proof.
  intros H. pose proof (scheme_byte_facts_all c) as F. unfold scheme_byte_facts in F. rewrite H in F. simpl in F.
  repeat (apply andb_true_iff in F as [F ?]). repeat split; try (apply negb_true_iff; assumption). assumption.
Qed.

Lemma get_scheme_from_tail pre s r :
  forallb scheme_tail_byte s = true -> get_scheme_from false pre (s ++ c_colon :: r) = GsSome (pre ++ s) r.
Proof.
  revert pre. induction s as [|c s IH]; intros pre H.
  - simpl. rewrite app_nil_r. reflexivity.
  - simpl in H. apply andb_true_iff in H as [Hc Hs]. destruct (scheme_byte_fact c Hc) as (_ & _ & _ & _ & _ & F).
    simpl app. cbn [get_scheme_from]. destruct (is_alpha c) eqn:Ea.
    + rewrite (IH _ Hs). rewrite <- app_assoc. reflexivity.
    + cbn [orb] in F. rewrite F. rewrite (IH _ Hs). rewrite <- app_assoc. reflexivity.
Qed.

Lemma scheme_ok_tail c s : scheme_ok (c :: s) = true -> forallb scheme_tail_byte (c :: s) = true /\ is_alpha c = true.
Proof.
  simpl. intros H. apply andb_true_iff in H as [Hc Hs]. pose proof (lower_is_scheme_tail_all c) as F. unfold lower_is_scheme_tail in F.
  rewrite Hc in F. simpl in F. apply andb_true_iff in F as [F1 F2]. rewrite F1, Hs. split; [reflexivity|exact F2].
Qed.

Lemma get_scheme_ok c s r : scheme_ok (c :: s) = true -> get_scheme ((c :: s) ++ c_colon :: r) = GsSome (c :: s) r.
Proof.
  intros H. destruct (scheme_ok_tail _ _ H) as [Ht Ha]. simpl in Ht. apply andb_true_iff in Ht as [_ Hs].
  unfold get_scheme. simpl app. cbn [get_scheme_from]. rewrite Ha. simpl app. apply (get_scheme_from_tail [c] s r Hs).
Qed.

Lemma to_lower_scheme s : forallb scheme_tail_byte s = true -> to_lower s = s.
Proof.
  induction s as [|c s IH]; [reflexivity|]. simpl. intros H. apply andb_true_iff in H as [Hc Hs].
  destruct (scheme_byte_fact c Hc) as (_ & _ & _ & Hu & _). unfold to_lower_byte. rewrite Hu. rewrite (IH Hs). reflexivity.
Qed.

(* ------------------------------------------------------------------------------------------------ String() and the second Parse *)

Record J_facts (J dJ : bytes) : Prop := {
  jf_shape : exists x t, J = c_slash :: x :: t /\ Byte.eqb c_slash x = false;
  jf_valid : valid_encoded J = true;
  jf_unesc : unescape J = Some dJ }.

Lemma escaped_path_raw u J dJ :
  u_rawpath u = J -> u_path u = dJ -> J_facts J dJ -> escaped_path u = J.
Proof.
  intros H1 H2 [(x & t & Hs & _) Hv Hu]. unfold escaped_path. rewrite H1, H2, Hv, Hu. rewrite Hs at 1. simpl. rewrite bytes_eqb_refl. reflexivity.
Qed.

Definition authority_prefix (scheme host : bytes) : bytes :=
  (if null scheme then [] else scheme ++ [c_colon])
  ++ (if negb (null scheme) || negb (null host) then c_slash :: c_slash :: host else []).

Lemma unescape_nonempty J dJ : (exists x t, J = c_slash :: x :: t /\ Byte.eqb c_slash x = false) -> unescape J = Some dJ -> null dJ = false.
Proof.
  intros (x & t & -> & _). rewrite unescape_slash_cons. destruct (unescape (x :: t)); simpl; [|discriminate]. intros H. injection H as <-. reflexivity.
Qed.

Lemma url_string_joined scheme host J dJ q u :
  host_facts host -> J_facts J dJ ->
  u_scheme u = scheme -> u_host u = host -> u_path u = dJ -> escaped_path u = J -> u_forcequery u = force_query_of q ->
  u_rawquery u = raw_query_of q -> u_omithost u = false ->
  url_string u = UOk (authority_prefix scheme host ++ J ++ query_suffix q).
Proof.
  intros HH HJ E1 E2 E3 E4 E5 E6 E7. unfold url_string. rewrite E4. rewrite E1, E2, E3, E5, E6, E7.
  rewrite (forallb_no_exists host_byte _ host); [| intros c Hc; apply (host_byte_fact c Hc) | apply (hf_bytes _ HH)].
  pose proof (unescape_nonempty _ _ (jf_shape _ _ HJ) (jf_unesc _ _ HJ)) as Hnd.
  destruct (jf_shape _ _ HJ) as (x & t & HJs & Hx).
  assert (Hq : (if force_query_of q || negb (null (raw_query_of q)) then c_qmark :: raw_query_of q else []) = query_suffix q).
  { destruct q as [[|c s]|]; reflexivity. }
  rewrite Hq, Hnd. unfold authority_prefix. rewrite HJs.
  destruct scheme as [|c0 sch]; destruct host as [|h0 h']; cbn [null negb andb orb app has_prefix cut_byte fst mem_byte];
    rewrite ?byte_eqb_refl; cbn [null negb andb orb app has_prefix cut_byte fst mem_byte]; rewrite ?app_nil_r; try reflexivity;
    rewrite <- !app_assoc; reflexivity.
Qed.

Definition final_url (scheme host J dJ : bytes) (q : option bytes) : URL :=
  {| u_scheme := scheme; u_host := host; u_path := dJ; u_rawpath := (if bytes_eqb J (escape_path dJ) then [] else J);
     u_forcequery := force_query_of q; u_rawquery := raw_query_of q; u_omithost := false |}.

Lemma parse_rest_auth scheme host J dJ q :
  host_facts host -> J_facts J dJ -> (null scheme = false \/ null host = false) ->
  parse_rest scheme (c_slash :: c_slash :: host ++ J ++ query_suffix q) = UOk (final_url scheme host J dJ q).
Proof.
  intros HH HJ Hsh. destruct (jf_shape _ _ HJ) as (x & t & HJs & Hx).
  pose proof (hf_bytes _ HH) as Hb.
  assert (Hhs : mem_byte c_slash host = false) by (eapply host_no; [exact Hb| intros c Hc; apply (host_byte_fact c Hc)]).
  assert (Hhq : mem_byte c_qmark host = false) by (eapply host_no; [exact Hb| intros c Hc; apply (host_byte_fact c Hc)]).
  replace (c_slash :: c_slash :: host ++ J ++ query_suffix q) with ((c_slash :: c_slash :: host ++ J) ++ query_suffix q)
    by (simpl; rewrite <- app_assoc; reflexivity).
  unfold parse_rest. rewrite split_query_suffix.
  2:{ change (mem_byte c_qmark (c_slash :: c_slash :: host ++ J)) with (mem_byte c_qmark (host ++ J)).
      rewrite mem_byte_app, Hhq, (valid_encoded_no_qmark _ (jf_valid _ _ HJ)). reflexivity. }
  assert (H3 : (negb (null scheme) || negb (has_prefix [c_slash; c_slash; c_slash] (c_slash :: c_slash :: host ++ J))) = true).
  { destruct Hsh as [Hs|Hh]; [rewrite Hs; reflexivity|]. destruct host as [|h0 h']; [discriminate|].
    simpl in Hb. apply andb_true_iff in Hb as [Hb0 _]. destruct (host_byte_fact h0 Hb0) as (_ & _ & _ & F & _).
    change (has_prefix [c_slash; c_slash; c_slash] (c_slash :: c_slash :: (h0 :: h') ++ J)) with (Byte.eqb c_slash h0 && true).
    rewrite byte_eqb_sym, F. apply orb_true_r. }
  assert (H4 : cut_byte c_slash (skipn 2 (c_slash :: c_slash :: host ++ J)) = (host, Some (x :: t))).
  { change (skipn 2 (c_slash :: c_slash :: host ++ J)) with (host ++ J). rewrite HJs. apply cut_byte_app. exact Hhs. }
  assert (H5 : skipn (2 + length host) (c_slash :: c_slash :: host ++ J) = J).
  { change (skipn (2 + length host) (c_slash :: c_slash :: host ++ J)) with (skipn (length host) (host ++ J)). apply skipn_app_exact. }
  cbv beta iota zeta. rewrite H4. cbn [fst]. rewrite H5, H3.
  change (has_prefix [c_slash] (c_slash :: c_slash :: host ++ J)) with true.
  change (has_prefix [c_slash; c_slash] (c_slash :: c_slash :: host ++ J)) with true.
  cbn [negb andb]. rewrite (hf_authority _ HH). unfold set_path. rewrite (jf_unesc _ _ HJ). reflexivity.
Qed.

Record clean (s : bytes) : Prop := { cl_ctl : contains_ctl s = false; cl_hash : mem_byte c_hash s = false }.

Lemma clean_app a b : clean a -> clean b -> clean (a ++ b).
Proof. intros [A1 A2] [B1 B2]. split; [rewrite contains_ctl_app, A1, B1|rewrite mem_byte_app, A2, B2]; reflexivity. Qed.

Lemma clean_host h : host_facts h -> clean h.
Proof.
  intros HH. pose proof (hf_bytes _ HH) as Hb. split.
  - eapply forallb_no_exists; [|exact Hb]. intros c Hc. apply (host_byte_fact c Hc).
  - eapply host_no; [exact Hb|]. intros c Hc. apply (host_byte_fact c Hc).
Qed.

Lemma clean_scheme s : forallb scheme_tail_byte s = true -> clean s.
Proof.
  intros H. split.
  - eapply forallb_no_exists; [|exact H]. intros c Hc. apply (scheme_byte_fact c Hc).
  - eapply forallb_not_mem; [|exact H]. intros c Hc. apply (scheme_byte_fact c Hc).
Qed.

Lemma clean_J J dJ : J_facts J dJ -> clean J.
Proof. intros HJ. split; [apply valid_encoded_no_ctl|apply valid_encoded_no_hash]; apply (jf_valid _ _ HJ). Qed.

Lemma clean_query q : valid_query q = true -> clean (query_suffix q).
Proof. intros H. split; [apply query_suffix_no_ctl|apply query_suffix_no_hash]; exact H. Qed.

Lemma parse_clean s : clean s -> parse s = parse_nofrag s.
Proof. intros [_ H]. unfold parse. rewrite (cut_byte_nomem _ _ H). reflexivity. Qed.

(* net/http.NewRequestWithContext on the string of the joined URL gives back scheme, host, path and query *)
Lemma request_url_joined scheme host J dJ q :
  scheme_ok scheme = true -> host_facts host -> J_facts J dJ -> valid_query q = true ->
  request_url_of_string (authority_prefix scheme host ++ J ++ query_suffix q) = UOk (final_url scheme host J dJ q).
Proof.
  intros Hsch HH HJ HQ. unfold request_url_of_string.
  assert (HP : parse (authority_prefix scheme host ++ J ++ query_suffix q) = UOk (final_url scheme host J dJ q)).
  { destruct (jf_shape _ _ HJ) as (x & t & HJs & Hx). unfold authority_prefix.
    destruct scheme as [|c0 sch].
    - destruct (null host) eqn:Hnh.
      + destruct host; [|discriminate]. simpl app. eapply parse_path; try eassumption; [apply (jf_valid _ _ HJ) | apply (jf_unesc _ _ HJ)].
      + cbn [null negb orb]. change ([] ++ c_slash :: c_slash :: host) with (c_slash :: c_slash :: host).
        change ((c_slash :: c_slash :: host) ++ J ++ query_suffix q) with (c_slash :: c_slash :: host ++ J ++ query_suffix q).
        assert (Hc : clean (c_slash :: c_slash :: host ++ J ++ query_suffix q)).
        { apply (clean_app [c_slash; c_slash]); [split; reflexivity|]. apply clean_app; [apply clean_host; exact HH|].
          apply clean_app; [eapply clean_J; exact HJ | apply clean_query; exact HQ]. }
        rewrite (parse_clean _ Hc). unfold parse_nofrag. rewrite (cl_ctl _ Hc).
        change (bytes_eqb (c_slash :: c_slash :: host ++ J ++ query_suffix q) [c_star]) with false.
        change (get_scheme (c_slash :: c_slash :: host ++ J ++ query_suffix q)) with GsNone.
        cbv iota. apply parse_rest_auth; [exact HH|exact HJ|right; exact Hnh].
    - destruct (scheme_ok_tail _ _ Hsch) as [Ht Ha].
      cbn [null negb orb].
      replace (((c0 :: sch) ++ [c_colon]) ++ c_slash :: c_slash :: host) with ((c0 :: sch) ++ c_colon :: c_slash :: c_slash :: host)
        by (rewrite <- app_assoc; reflexivity).
      replace (((c0 :: sch) ++ c_colon :: c_slash :: c_slash :: host) ++ J ++ query_suffix q)
        with ((c0 :: sch) ++ c_colon :: (c_slash :: c_slash :: host ++ J ++ query_suffix q))
        by (rewrite <- app_assoc; reflexivity).
      assert (Hc : clean ((c0 :: sch) ++ c_colon :: c_slash :: c_slash :: host ++ J ++ query_suffix q)).
      { apply clean_app; [apply clean_scheme; exact Ht|]. apply (clean_app [c_colon; c_slash; c_slash]); [split; reflexivity|].
        apply clean_app; [apply clean_host; exact HH|]. apply clean_app; [eapply clean_J; exact HJ | apply clean_query; exact HQ]. }
      rewrite (parse_clean _ Hc). unfold parse_nofrag. rewrite (cl_ctl _ Hc).
      assert (Hstar : bytes_eqb ((c0 :: sch) ++ c_colon :: c_slash :: c_slash :: host ++ J ++ query_suffix q) [c_star] = false).
      { simpl. destruct sch; simpl; apply andb_false_r. }
      rewrite Hstar. rewrite (get_scheme_ok _ _ _ Hsch). rewrite (to_lower_scheme _ Ht).
      apply parse_rest_auth; [exact HH|exact HJ|left; reflexivity]. }
  rewrite HP. unfold final_url. cbn [u_scheme u_host u_path u_rawpath u_forcequery u_rawquery u_omithost].
  rewrite (hf_port _ HH). reflexivity.
Qed.


(* ------------------------------------------------------------------------------------------------ the property *)

Lemma J_facts_joined root segs rpath dctx d :
  forallb seg_ok segs = true -> root_ok root = true -> valid_path root rpath = true ->
  unescape (R segs) = Some dctx -> unescape rpath = Some d -> J_facts (R segs ++ rpath) (dctx ++ d).
Proof.
  intros Hsegs Hroot HP Hdc Hd. destruct (valid_path_parts _ _ HP) as (Hpr & Hve & _).
  destruct (path_shape _ _ Hroot Hpr) as (r0 & t & Hshape & Hr0). split.
  - destruct segs as [|s more].
    + exists r0, t. split; [exact Hshape|exact Hr0].
    + pose proof (segs_ok_plain _ Hsegs) as HF. inversion HF as [|? ? Hs _]. destruct s as [|s0 s']; [destruct Hs; congruence|].
      exists s0, (s' ++ R more ++ rpath). split.
      * rewrite R_cons. simpl. rewrite <- app_assoc. reflexivity.
      * apply (seg_plain_no_slash _ Hs). left. reflexivity.
  - rewrite valid_encoded_app, (R_valid _ Hsegs), Hve. reflexivity.
  - apply unescape_app; assumption.
Qed.

Lemma escaped_path_final scheme host J dJ q : J_facts J dJ -> escaped_path (final_url scheme host J dJ q) = J.
Proof.
  intros HJ. apply escaped_path_set_path with (d := dJ); try reflexivity; [apply (jf_valid _ _ HJ) | apply (jf_unesc _ _ HJ) |].
  destruct (jf_shape _ _ HJ) as (x & t & HJs & _). pose proof (jf_unesc _ _ HJ) as Hu. rewrite HJs in Hu.
  eapply unescape_starts_slash. exact Hu.
Qed.

(* everything the property says about the URL of the request, for every base of the grammar *)
Lemma request_url_grammar scheme host segs tr root rpath q :
  in_grammar scheme host segs root = true -> valid_path root rpath = true -> valid_query q = true ->
  exists u,
    new_request_url (mk_base scheme host (render_ctx segs tr)) root rpath q = UOk u /\
    u_scheme u = scheme /\ u_host u = host /\
    escaped_path u = context (render_ctx segs tr) root ++ rpath /\
    u_rawquery u = raw_query_of q /\ u_forcequery u = force_query_of q /\
    request_uri u = context (render_ctx segs tr) root ++ rpath ++ query_suffix q /\
    url_string u = UOk (authority_prefix scheme host ++ (context (render_ctx segs tr) root ++ rpath) ++ query_suffix q).
Proof.
  intros HG HP HQ. destruct (in_grammar_parts _ _ _ _ HG) as (Hsch & Hhost & Hsegs & Hroot & Hfin).
  destruct (format_query_url_grammar scheme host segs tr root rpath q HG HP HQ) as (dctx & d & Hdc & Hd & HF).
  pose proof (host_ok_facts _ Hhost) as HH.
  assert (Hrne : root <> []). { unfold root_ok in Hroot. destruct root; [discriminate|discriminate]. }
  rewrite (context_render root segs tr Hrne (segs_ok_plain _ Hsegs)).
  set (ctx := R (spec_segs root segs)) in *.
  pose proof (J_facts_joined root (spec_segs root segs) rpath dctx d (spec_segs_ok root _ Hsegs) Hroot HP Hdc Hd) as HJ.
  fold ctx in HJ.
  exists (final_url scheme host (ctx ++ rpath) (dctx ++ d) q).
  assert (Hep : escaped_path (final_url scheme host (ctx ++ rpath) (dctx ++ d) q) = ctx ++ rpath) by (apply escaped_path_final; exact HJ).
  split.
  - unfold new_request_url. rewrite HF.
    rewrite (url_string_joined scheme host (ctx ++ rpath) (dctx ++ d) q); try reflexivity; try assumption.
    + apply request_url_joined; assumption.
    + eapply escaped_path_raw; [reflexivity|reflexivity|exact HJ].
  - repeat split; try reflexivity; try exact Hep.
    + unfold request_uri. rewrite Hep.
      assert (Hn : null (ctx ++ rpath) = false) by (destruct (jf_shape _ _ HJ) as (x & t & -> & _); reflexivity).
      rewrite Hn. cbn [final_url u_forcequery u_rawquery].
      assert (Hq : (if force_query_of q || negb (null (raw_query_of q)) then c_qmark :: raw_query_of q else []) = query_suffix q).
      { destruct q as [[|c s]|]; reflexivity. }
      rewrite Hq. rewrite app_assoc. reflexivity.
    + apply (url_string_joined scheme host (ctx ++ rpath) (dctx ++ d) q); try reflexivity; try assumption.
Qed.

Lemma cut_last_root_none_inv root l : cut_last_root root l = None -> Forall (fun s => s <> root) l.
Proof.
  induction l as [|s l IH]; [constructor|]. simpl. destruct (cut_last_root root l); [discriminate|].
  destruct (bytes_eqb s root) eqn:E; [discriminate|]. intros _. constructor; [apply bytes_eqb_neq; exact E | apply IH; reflexivity].
Qed.

Lemma spec_segs_no_root root segs : root_only_final root segs = true -> Forall (fun s => s <> root) (spec_segs root segs).
Proof.
  intros H. unfold spec_segs. destruct (cut_last_root root segs) as [p|] eqn:E.
  - eapply cut_last_root_no_root; eassumption.
  - apply cut_last_root_none_inv. exact E.
Qed.

(* the root resource segment occurs exactly once at the junction: the context that was kept holds no complete root
   segment, and it is followed by "/root" and then by the end of the path or a slash *)
Lemma root_once_grammar scheme host segs tr root rpath :
  in_grammar scheme host segs root = true -> valid_path root rpath = true ->
  ~ In root (split_on c_slash (context (render_ctx segs tr) root)) /\
  exists tail, rpath = c_slash :: root ++ tail /\ (tail = [] \/ exists t, tail = c_slash :: t).
Proof.
  intros HG HP. destruct (in_grammar_parts _ _ _ _ HG) as (Hsch & Hhost & Hsegs & Hroot & Hfin).
  assert (Hrne : root <> []). { unfold root_ok in Hroot. destruct root; [discriminate|discriminate]. }
  split.
  - rewrite (context_render root segs tr Hrne (segs_ok_plain _ Hsegs)).
    rewrite split_R by (apply segs_ok_plain, spec_segs_ok; exact Hsegs).
    intros [E|Hin]; [congruence|]. pose proof (spec_segs_no_root root segs Hfin) as F. rewrite Forall_forall in F.
    apply (F _ Hin). reflexivity.
  - destruct (valid_path_parts _ _ HP) as (Hpr & _). unfold path_has_root in Hpr. apply andb_true_iff in Hpr as [H1 H2].
    apply has_prefix_spec in H1 as [tail ->]. exists tail. split; [reflexivity|].
    replace (skipn (S (length root)) ((c_slash :: root) ++ tail)) with tail in H2
      by (symmetry; apply (skipn_app_exact (c_slash :: root) tail)).
    destruct tail as [|c t]; [left; reflexivity|right]. apply byte_eqb_eq in H2. subst. exists t. reflexivity.
Qed.

(* ------------------------------------------------------------------------------------------------ with the encoders' tables *)

Definition module_tables : list (bytes * bytes) :=
  [ (v2_unescaped_path_characters, v2_unescaped_query_characters);
    (root_unescaped_path_characters, root_unescaped_query_characters) ].

Lemma module_tables_ok ptab qtab : In (ptab, qtab) module_tables -> path_table_ok ptab = true /\ query_table_ok qtab = true.
Proof.
  intros [E|[E|[]]]; injection E as <- <-; split;
    [apply v2_path_table_ok | apply v2_query_table_ok | apply root_path_table_ok | apply root_query_table_ok].
Qed.

Lemma url_preserves_base_and_path ptab qtab scheme host segs trailing root rpath q :
  In (ptab, qtab) module_tables ->
  in_grammar scheme host segs root = true -> encoded_path ptab root rpath = true -> encoded_query qtab q = true ->
  exists u,
    new_request_url (mk_base scheme host (render_ctx segs trailing)) root rpath q = UOk u /\
    u_scheme u = scheme /\ u_host u = host /\
    escaped_path u = context (render_ctx segs trailing) root ++ rpath /\
    u_rawquery u = raw_query_of q /\ u_forcequery u = force_query_of q.
Proof.
  intros HT HG HP HQ. destruct (module_tables_ok _ _ HT) as [T1 T2].
  destruct (request_url_grammar scheme host segs trailing root rpath q HG (encoded_path_valid _ _ _ T1 HP) (encoded_query_valid _ _ T2 HQ))
    as (u & H1 & H2 & H3 & H4 & H5 & H6 & _).
  exists u. repeat split; assumption.
Qed.

Lemma root_segment_once ptab qtab scheme host segs trailing root rpath q u :
  In (ptab, qtab) module_tables ->
  in_grammar scheme host segs root = true -> encoded_path ptab root rpath = true -> encoded_query qtab q = true ->
  new_request_url (mk_base scheme host (render_ctx segs trailing)) root rpath q = UOk u ->
  exists tail,
    escaped_path u = context (render_ctx segs trailing) root ++ c_slash :: root ++ tail /\
    (tail = [] \/ exists t, tail = c_slash :: t) /\
    ~ In root (split_on c_slash (context (render_ctx segs trailing) root)).
Proof.
  intros HT HG HP HQ HU. destruct (module_tables_ok _ _ HT) as [T1 T2].
  pose proof (encoded_path_valid _ _ _ T1 HP) as HP'.
  destruct (request_url_grammar scheme host segs trailing root rpath q HG HP' (encoded_query_valid _ _ T2 HQ))
    as (u' & H1 & _ & _ & H4 & _).
  rewrite HU in H1. injection H1 as <-.
  destruct (root_once_grammar scheme host segs trailing root rpath HG HP') as (Hno & tail & Hr & Ht).
  exists tail. rewrite H4, Hr. repeat split; assumption.
Qed.

Lemma no_normalisation ptab qtab scheme host segs trailing root rpath q u :
  In (ptab, qtab) module_tables ->
  in_grammar scheme host segs root = true -> encoded_path ptab root rpath = true -> encoded_query qtab q = true ->
  new_request_url (mk_base scheme host (render_ctx segs trailing)) root rpath q = UOk u ->
  (exists ctx, escaped_path u = ctx ++ rpath /\
               request_uri u = ctx ++ rpath ++ query_suffix q /\
               url_string u = UOk (authority_prefix scheme host ++ (ctx ++ rpath) ++ query_suffix q)) /\
  u_rawquery u = raw_query_of q /\ u_forcequery u = force_query_of q.
Proof.
  intros HT HG HP HQ HU. destruct (module_tables_ok _ _ HT) as [T1 T2].
  destruct (request_url_grammar scheme host segs trailing root rpath q HG (encoded_path_valid _ _ _ T1 HP) (encoded_query_valid _ _ T2 HQ))
    as (u' & H1 & _ & _ & H4 & H5 & H6 & H7 & H8).
  rewrite HU in H1. injection H1 as <-.
  split; [exists (context (render_ctx segs trailing) root); repeat split; assumption|]. split; assumption.
Qed.

(* a stronger form of the grammar premise is not needed for totality: the request is always built *)
Lemma request_always_built ptab qtab scheme host segs trailing root rpath q :
  In (ptab, qtab) module_tables ->
  in_grammar scheme host segs root = true -> encoded_path ptab root rpath = true -> encoded_query qtab q = true ->
  exists u, new_request_url (mk_base scheme host (render_ctx segs trailing)) root rpath q = UOk u.
Proof.
  intros HT HG HP HQ. destruct (url_preserves_base_and_path _ _ _ _ _ trailing _ _ _ HT HG HP HQ) as (u & H & _). exists u. exact H.
Qed.

Lemma strip_agrees_with_specification root segs :
  root_ok root = true -> forallb seg_ok segs = true -> root_only_final root segs = true ->
  strip_root (concat (map (cons c_slash) segs)) root = context (render_ctx segs false) root.
Proof.
  intros Hr Hs Hf. rewrite (context_render root segs false).
  - exact (strip_root_render root segs Hr (segs_ok_plain _ Hs) Hf).
  - unfold root_ok in Hr. destruct root; discriminate.
  - exact (segs_ok_plain _ Hs).
Qed.

(* ------------------------------------------------------------------------------------------------ tunnelled requests *)

(* the threshold test of either module generation (transcribed from the current source) only fires for a positive
   threshold and a longer - hence non-empty - query *)
Lemma tunnel_test_positive v2 th n : tunnel_test v2 th n = true -> (0 < th /\ th < n)%Z.
Proof.
  unfold tunnel_test, tunnel_condition, tunnel_condition_root. destruct v2; rewrite andb_true_iff, !Z.gtb_lt; tauto.
Qed.

(* u.RawQuery = "" on the joined URL of a tunnelled request gives the joined URL of the same request without query *)
Lemma tunnel_url_joined v2 th scheme host ctx dpath rpath q :
  tunnel_url v2 th (joined_url scheme host ctx dpath rpath q) =
  joined_url scheme host ctx dpath rpath (if tunnels v2 th q then None else q).
Proof.
  unfold tunnel_url, tunnels. cbn [joined_url u_rawquery].
  destruct (tunnel_test v2 th (Z.of_nat (length (raw_query_of q)))) eqn:E; [|reflexivity].
  apply tunnel_test_positive in E. destruct q as [[|c s]|].
  - simpl in E. lia.
  - reflexivity.
  - simpl in E. lia.
Qed.

Lemma request_url_t_grammar v2 th scheme host segs tr root rpath q :
  in_grammar scheme host segs root = true -> valid_path root rpath = true -> valid_query q = true ->
  new_request_url_t v2 th (mk_base scheme host (render_ctx segs tr)) root rpath q =
  new_request_url (mk_base scheme host (render_ctx segs tr)) root rpath (if tunnels v2 th q then None else q).
Proof.
  intros HG HP HQ.
  destruct (format_query_url_grammar scheme host segs tr root rpath q HG HP HQ) as (dctx & d & Hdc & Hd & HF).
  assert (HQ' : valid_query (if tunnels v2 th q then None else q) = true) by (destruct (tunnels v2 th q); [reflexivity|exact HQ]).
  destruct (format_query_url_grammar scheme host segs tr root rpath _ HG HP HQ') as (dctx' & d' & Hdc' & Hd' & HF').
  rewrite Hdc in Hdc'. injection Hdc' as <-. rewrite Hd in Hd'. injection Hd' as <-.
  unfold new_request_url_t, new_request_url. rewrite HF, HF', tunnel_url_joined. reflexivity.
Qed.

Lemma tunnelled_url_preserves_base_and_path v2 th ptab qtab scheme host segs trailing root rpath q :
  In (ptab, qtab) module_tables ->
  in_grammar scheme host segs root = true -> encoded_path ptab root rpath = true -> encoded_query qtab q = true ->
  exists u,
    new_request_url_t v2 th (mk_base scheme host (render_ctx segs trailing)) root rpath q = UOk u /\
    u_scheme u = scheme /\ u_host u = host /\
    escaped_path u = context (render_ctx segs trailing) root ++ rpath /\
    u_rawquery u = (if tunnels v2 th q then [] else raw_query_of q) /\
    u_forcequery u = (if tunnels v2 th q then false else force_query_of q) /\
    url_string u = UOk (authority_prefix scheme host ++ (context (render_ctx segs trailing) root ++ rpath)
                        ++ (if tunnels v2 th q then [] else query_suffix q)).
Proof.
  intros HT HG HP HQ. destruct (module_tables_ok _ _ HT) as [T1 T2].
  pose proof (encoded_path_valid _ _ _ T1 HP) as HP'. pose proof (encoded_query_valid _ _ T2 HQ) as HQ'.
  rewrite (request_url_t_grammar v2 th scheme host segs trailing root rpath q HG HP' HQ').
  assert (HQ2 : valid_query (if tunnels v2 th q then None else q) = true) by (destruct (tunnels v2 th q); [reflexivity|exact HQ']).
  destruct (request_url_grammar scheme host segs trailing root rpath _ HG HP' HQ2) as (u & H1 & H2 & H3 & H4 & H5 & H6 & _ & H8).
  exists u. destruct (tunnels v2 th q); repeat split; assumption.
Qed.

(* a client keeps nothing between requests: the URL of the request made after any history is the URL of that request alone *)
Lemma url_of_request_history_independent v2 th before r after :
  nth_error (client_urls v2 th (before ++ r :: after)) (length before) = Some (request_url v2 th r).
Proof.
  unfold client_urls. rewrite map_app, nth_error_app2; rewrite map_length; [|lia]. rewrite Nat.sub_diag. reflexivity.
Qed.

Lemma history_urls_pointwise v2 th history i r :
  nth_error history i = Some r -> nth_error (client_urls v2 th history) i = Some (request_url v2 th r).
Proof. intros H. unfold client_urls. apply map_nth_error. exact H. Qed.
