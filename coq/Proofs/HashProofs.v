(* C10 / C16: Equals is an equivalence on well-formed values, coincides with "the same value", and equal values have equal
   FNV-1a hashes (models Hash/Fnv.v, Hash/Equals.v; vocabulary Hash/HashSpec.v). *)
From Coq Require Import List Bool Arith ZArith NArith Lia Permutation Sorting.Sorted.
From Coq.Strings Require Import Byte.
From GR Require Import Base.Bytes Codec.Schema Gen.TablesFnv Hash.Fnv Hash.Equals Hash.HashSpec.
Import ListNotations.

(* ---------------------------------------------------------------------------------------------------------------- *)
(* 1. the two modules carry the same hasher *)
Lemma fnv_modules_agree : root_params = v2_params.
Proof. reflexivity. Qed.

(* ---------------------------------------------------------------------------------------------------------------- *)
(* 2. sorting forgets the order *)
Lemma insertN_perm : forall x l, Permutation (insertN x l) (x :: l).
Proof.
  intros x l. induction l as [|y r IH]; simpl.
  - apply Permutation_refl.
  - destruct (x <=? y)%N.
    + apply Permutation_refl.
    + eapply Permutation_trans; [apply perm_skip; exact IH | apply perm_swap].
Qed.

Lemma sortN_perm_self : forall l, Permutation (sortN l) l.
Proof.
  induction l as [|x r IH]; simpl.
  - apply perm_nil.
  - eapply Permutation_trans; [apply insertN_perm | apply perm_skip; exact IH].
Qed.

Lemma insertN_sorted : forall x l, StronglySorted N.le l -> StronglySorted N.le (insertN x l).
Proof.
  intros x l. induction l as [|y r IH]; simpl; intros Hs.
  - constructor; [constructor | constructor].
  - inversion Hs as [|y' r' Hr Hy]; subst.
    destruct (N.leb_spec x y) as [Hle|Hlt].
    + constructor; [exact Hs|]. constructor; [exact Hle|].
      eapply Forall_impl; [|exact Hy]. intros z Hz. simpl in Hz. lia.
    + constructor; [apply IH; exact Hr|].
      apply Forall_forall. intros z Hz.
      apply (Permutation_in _ (insertN_perm x r)) in Hz. destruct Hz as [Hz|Hz].
      * subst. lia.
      * rewrite Forall_forall in Hy. apply Hy. exact Hz.
Qed.

Lemma sortN_sorted : forall l, StronglySorted N.le (sortN l).
Proof.
  induction l as [|x r IH]; simpl; [constructor | apply insertN_sorted; exact IH].
Qed.

Lemma sorted_perm_eq : forall l1 l2 : list N,
  StronglySorted N.le l1 -> StronglySorted N.le l2 -> Permutation l1 l2 -> l1 = l2.
Proof.
  induction l1 as [|x r1 IH]; intros l2 H1 H2 Hp.
  - apply Permutation_nil in Hp. subst. reflexivity.
  - destruct l2 as [|y r2].
    + apply Permutation_sym, Permutation_nil in Hp. discriminate.
    + inversion H1 as [|x' r1' Hs1 Hx]; subst. inversion H2 as [|y' r2' Hs2 Hy]; subst.
      assert (Hxy : x = y).
      { assert (Hin1 : In x (y :: r2)) by (apply (Permutation_in _ Hp); left; reflexivity).
        assert (Hin2 : In y (x :: r1)) by (apply (Permutation_in _ (Permutation_sym Hp)); left; reflexivity).
        rewrite Forall_forall in Hx, Hy.
        destruct Hin1 as [E|Hin1]; [symmetry; exact E|].
        destruct Hin2 as [E|Hin2]; [exact E|].
        specialize (Hx _ Hin2). specialize (Hy _ Hin1). simpl in Hx, Hy. lia. }
      subst y. f_equal. apply IH; [exact Hs1 | exact Hs2 |].
      eapply Permutation_cons_inv. exact Hp.
Qed.

Lemma sortN_perm : forall l l', Permutation l l' -> sortN l = sortN l'.
Proof.
  intros l l' Hp. apply sorted_perm_eq; [apply sortN_sorted | apply sortN_sorted |].
  eapply Permutation_trans; [apply sortN_perm_self|].
  eapply Permutation_trans; [exact Hp|]. apply Permutation_sym, sortN_perm_self.
Qed.

(* ---------------------------------------------------------------------------------------------------------------- *)
(* The bodies of the three mutual fixpoints with the recursive calls abstracted (R = equalsV e f, W = wfV e f,
   A = addV P e f, H = hashV P e f): every local loop of the models becomes a top-level function. *)
Section EqHelpers.
  Variable R : hty -> value -> value -> bool.
  Definition opt_eq (t' : hty) (oa ob : option value) : bool :=
    match oa, ob with
    | None, None => true
    | Some x, Some y => R t' x y
    | _, _ => false
    end.
  Fixpoint incs_eq (is : list nat) (x y : list value) : bool :=
    match is, x, y with
    | i :: is', p :: x', q :: y' => R (HRef i) p q && incs_eq is' x' y'
    | [], [], [] => true
    | _, _, _ => false
    end.
  Fixpoint flds_eq (fs : list hfield) (x y : list (option value)) : bool :=
    match fs, x, y with
    | fd :: fs', p :: x', q :: y' => opt_eq (hf_ty fd) p q && flds_eq fs' x' y'
    | [], [], [] => true
    | _, _, _ => false
    end.
  Fixpoint mems_eq (mts : list hty) (x y : list (option value)) : bool :=
    match mts, x, y with
    | mt :: mts', p :: x', q :: y' => opt_eq mt p q && mems_eq mts' x' y'
    | [], [], [] => true
    | _, _, _ => false
    end.
End EqHelpers.

Section ArrHelpers.
  Variable Rv : value -> value -> bool.
  Fixpoint arr_eq (x y : list value) : bool :=
    match x, y with
    | p :: x', q :: y' => Rv p q && arr_eq x' y'
    | _, _ => true
    end.
  Definition map_eq (ea eb : list (bytes * value)) : bool :=
    forallb (fun kv => match map_get (fst kv) eb with
                       | Some rv => Rv (snd kv) rv
                       | None => false
                       end) ea.
End ArrHelpers.

Definition eq_body (e : henv) (R : hty -> value -> value -> bool) (t : hty) (a b : value) : bool :=
  match t, a, b with
  | HPrim p, _, _ => prim_equal p a b
  | HTyperef p, _, _ => prim_equal p a b
  | HEnum n, VEnum x, VEnum y => enum_valid n x && enum_valid n y && Nat.eqb x y
  | HFixed _, VFixed x, VFixed y => bytes_eqb x y
  | HArray t', VArr la, VArr lb => Nat.eqb (length la) (length lb) && arr_eq (R t') la lb
  | HMap t', VMap ea, VMap eb => Nat.eqb (length ea) (length eb) && map_eq (R t') ea eb
  | HRef n, VRec ia fa, VRec ib fb =>
      match hlookup e n with
      | Some (HRecord incs fs) => incs_eq R incs ia ib && flds_eq R fs fa fb
      | _ => false
      end
  | HRef n, VUnion ma, VUnion mb =>
      match hlookup e n with
      | Some (HUnion mts) => mems_eq R mts ma mb
      | _ => false
      end
  | _, _, _ => false
  end.

Lemma equalsV_S : forall e f t a b, equalsV e (S f) t a b = eq_body e (equalsV e f) t a b.
Proof. intros e f t a b. destruct t, a, b; reflexivity. Qed.

Section WfHelpers.
  Variable W : hty -> value -> bool.
  Definition opt_wf (t' : hty) (ov : option value) : bool :=
    match ov with None => true | Some x => W t' x end.
  Fixpoint incs_wf (is : list nat) (x : list value) : bool :=
    match is, x with
    | i :: is', p :: x' => W (HRef i) p && incs_wf is' x'
    | [], [] => true
    | _, _ => false
    end.
  Fixpoint flds_wf (fs : list hfield) (x : list (option value)) : bool :=
    match fs, x with
    | fd :: fs', p :: x' =>
        (hf_ptr fd || match p with Some _ => true | None => false end) && opt_wf (hf_ty fd) p && flds_wf fs' x'
    | [], [] => true
    | _, _ => false
    end.
  Fixpoint mems_wf (mts : list hty) (x : list (option value)) : bool :=
    match mts, x with
    | mt :: mts', p :: x' => opt_wf mt p && mems_wf mts' x'
    | [], [] => true
    | _, _ => false
    end.
End WfHelpers.

Definition wf_body (e : henv) (W : hty -> value -> bool) (t : hty) (v : value) : bool :=
  match t, v with
  | HPrim p, _ => prim_wf p v
  | HTyperef p, _ => prim_wf p v
  | HEnum n, VEnum k => enum_valid n k
  | HFixed n, VFixed s => Nat.eqb (length s) n
  | HArray t', VArr l => forallb (W t') l
  | HMap t', VMap es => nodup_keys es && forallb (fun kv => W t' (snd kv)) es
  | HRef n, VRec ia fa =>
      match hlookup e n with
      | Some (HRecord incs fs) => incs_wf W incs ia && flds_wf W fs fa
      | _ => false
      end
  | HRef n, VUnion ms =>
      match hlookup e n with
      | Some (HUnion mts) => mems_wf W mts ms
      | _ => false
      end
  | _, _ => false
  end.

Lemma wfV_S : forall e f t v, wfV e (S f) t v = wf_body e (wfV e f) t v.
Proof. intros e f t v. destruct t, v; reflexivity. Qed.

Section HashHelpers.
  Variable P : fnv_params.
  Variable A : hty -> value -> N -> N.
  Variable H : hty -> value -> N.
  Definition opt_add (t' : hty) (ov : option value) (h : N) : N :=
    match ov with None => h | Some v' => A t' v' h end.
  Fixpoint incs_hash (is : list nat) (vs : list value) (h : N) : N :=
    match is, vs with
    | i :: is', iv :: vs' => incs_hash is' vs' (add_hash P h (H (HRef i) iv))
    | _, _ => h
    end.
  Fixpoint flds_hash (fs : list hfield) (vs : list (option value)) (h : N) : N :=
    match fs, vs with
    | fd :: fs', ov :: vs' => flds_hash fs' vs' (opt_add (hf_ty fd) ov h)
    | _, _ => h
    end.
  Fixpoint mems_hash (mts : list hty) (vs : list (option value)) (h : N) : N :=
    match mts, vs with
    | mt :: mts', ov :: vs' => mems_hash mts' vs' (opt_add mt ov h)
    | _, _ => h
    end.
  Definition kv_hash (t' : hty) (kv : bytes * value) : N :=
    A t' (snd kv) (add_bytes P zero_hash (fst kv)).

  Definition add_body (t : hty) (v : value) (h : N) : N :=
    match t, v with
    | HPrim p, _ => add_prim P p v h
    | HArray t', VArr l => fold_left (fun h x => A t' x h) l h
    | HMap t', VMap es => add_map_hashes P h (map (kv_hash t') es)
    | HArray _, _ | HMap _, _ => h
    | _, _ => add_hash P h (H t v)
    end.

  Definition hash_body (e : henv) (t : hty) (v : value) : N :=
    match t, v with
    | HPrim p, _ => add_prim P p v (new_hash P)
    | HTyperef p, _ => add_prim P p v (new_hash P)
    | HEnum n, VEnum k => if enum_valid n k then add_i32 P (new_hash P) (Z.of_nat k) else zero_hash
    | HFixed _, VFixed s => add_bytes P (new_hash P) s
    | HRef n, VRec ivs fvs =>
        match hlookup e n with
        | Some (HRecord incs fs) => flds_hash fs fvs (incs_hash incs ivs (new_hash P))
        | _ => zero_hash
        end
    | HRef n, VUnion ms =>
        match hlookup e n with
        | Some (HUnion mts) => mems_hash mts ms (new_hash P)
        | _ => zero_hash
        end
    | HArray _, _ | HMap _, _ => A t v (new_hash P)
    | _, _ => zero_hash
    end.
End HashHelpers.

Lemma addV_S : forall P e f t v h,
  addV P e (S f) t v h = add_body P (addV P e f) (hashV P e f) t v h.
Proof. intros P e f t v h. destruct t, v; reflexivity. Qed.

Lemma hashV_S : forall P e f t v,
  hashV P e (S f) t v = hash_body P (addV P e f) (hashV P e f) e t v.
Proof. intros P e f t v. destruct t, v; reflexivity. Qed.

(* ---------------------------------------------------------------------------------------------------------------- *)
(* Primitives *)
(* the bit-pattern tests are never computed symbolically *)
Local Opaque is_nan32 is_nan64 is_zero32 is_zero64.
Lemma feq32_refl : forall x, is_nan32 x = false -> feq32 x x = true.
Proof. intros x H. unfold feq32. rewrite H, N.eqb_refl. reflexivity. Qed.
Lemma feq64_refl : forall x, is_nan64 x = false -> feq64 x x = true.
Proof. intros x H. unfold feq64. rewrite H, N.eqb_refl. reflexivity. Qed.

Lemma feq32_sym : forall x y, feq32 x y = feq32 y x.
Proof.
  intros x y. unfold feq32. rewrite (N.eqb_sym x y).
  destruct (is_nan32 x), (is_nan32 y), (N.eqb y x), (is_zero32 x), (is_zero32 y); reflexivity.
Qed.
Lemma feq64_sym : forall x y, feq64 x y = feq64 y x.
Proof.
  intros x y. unfold feq64. rewrite (N.eqb_sym x y).
  destruct (is_nan64 x), (is_nan64 y), (N.eqb y x), (is_zero64 x), (is_zero64 y); reflexivity.
Qed.

Lemma feq32_trans : forall x y z, feq32 x y = true -> feq32 y z = true -> feq32 x z = true.
Proof.
  unfold feq32. intros x y z H1 H2.
  apply andb_true_iff in H1 as [H1 H1c]. apply andb_true_iff in H1 as [H1a H1b].
  apply andb_true_iff in H2 as [H2 H2c]. apply andb_true_iff in H2 as [H2a H2b].
  rewrite H1a, H2b. rewrite !andb_true_l.
  apply orb_true_iff in H1c as [E1|Z1]; apply orb_true_iff in H2c as [E2|Z2].
  - apply N.eqb_eq in E1. apply N.eqb_eq in E2. subst. rewrite N.eqb_refl. reflexivity.
  - apply N.eqb_eq in E1. subst. rewrite Z2. apply orb_true_r.
  - apply N.eqb_eq in E2. subst. rewrite Z1. apply orb_true_r.
  - apply andb_true_iff in Z1 as [Z1 _]. apply andb_true_iff in Z2 as [_ Z2]. rewrite Z1, Z2. apply orb_true_r.
Qed.
Lemma feq64_trans : forall x y z, feq64 x y = true -> feq64 y z = true -> feq64 x z = true.
Proof.
  unfold feq64. intros x y z H1 H2.
  apply andb_true_iff in H1 as [H1 H1c]. apply andb_true_iff in H1 as [H1a H1b].
  apply andb_true_iff in H2 as [H2 H2c]. apply andb_true_iff in H2 as [H2a H2b].
  rewrite H1a, H2b. rewrite !andb_true_l.
  apply orb_true_iff in H1c as [E1|Z1]; apply orb_true_iff in H2c as [E2|Z2].
  - apply N.eqb_eq in E1. apply N.eqb_eq in E2. subst. rewrite N.eqb_refl. reflexivity.
  - apply N.eqb_eq in E1. subst. rewrite Z2. apply orb_true_r.
  - apply N.eqb_eq in E2. subst. rewrite Z1. apply orb_true_r.
  - apply andb_true_iff in Z1 as [Z1 _]. apply andb_true_iff in Z2 as [_ Z2]. rewrite Z1, Z2. apply orb_true_r.
Qed.

Lemma feq32_nan_l : forall x y, feq32 x y = true -> is_nan32 x = false.
Proof. unfold feq32. intros x y H. destruct (is_nan32 x); [discriminate | reflexivity]. Qed.
Lemma feq32_nan_r : forall x y, feq32 x y = true -> is_nan32 y = false.
Proof. intros x y H. rewrite feq32_sym in H. eapply feq32_nan_l; exact H. Qed.
Lemma feq64_nan_l : forall x y, feq64 x y = true -> is_nan64 x = false.
Proof. unfold feq64. intros x y H. destruct (is_nan64 x); [discriminate | reflexivity]. Qed.
Lemma feq64_nan_r : forall x y, feq64 x y = true -> is_nan64 y = false.
Proof. intros x y H. rewrite feq64_sym in H. eapply feq64_nan_l; exact H. Qed.

Lemma feq32_norm : forall P x y, fp_norm32 P = true -> feq32 x y = true -> norm32 P x = norm32 P y.
Proof.
  intros P x y Hn H. unfold norm32. rewrite Hn. rewrite !andb_true_l. unfold feq32 in H.
  apply andb_true_iff in H as [_ H]. apply orb_true_iff in H as [E|Z].
  - apply N.eqb_eq in E. subst. reflexivity.
  - apply andb_true_iff in Z as [Z1 Z2]. rewrite Z1, Z2. reflexivity.
Qed.
Lemma feq64_norm : forall P x y, fp_norm64 P = true -> feq64 x y = true -> norm64 P x = norm64 P y.
Proof.
  intros P x y Hn H. unfold norm64. rewrite Hn. rewrite !andb_true_l. unfold feq64 in H.
  apply andb_true_iff in H as [_ H]. apply orb_true_iff in H as [E|Z].
  - apply N.eqb_eq in E. subst. reflexivity.
  - apply andb_true_iff in Z as [Z1 Z2]. rewrite Z1, Z2. reflexivity.
Qed.

Lemma prim_equal_refl : forall p v, prim_wf p v = true -> prim_equal p v v = true.
Proof.
  intros p v H. destruct p; destruct v; simpl in H; try discriminate; simpl.
  - apply Z.eqb_refl.
  - apply Z.eqb_refl.
  - apply feq32_refl. apply negb_true_iff. exact H.
  - apply feq64_refl. apply negb_true_iff. exact H.
  - apply Bool.eqb_reflx.
  - apply bytes_eqb_refl.
  - apply bytes_eqb_refl.
Qed.

Lemma bytes_eqb_sym : forall a b, bytes_eqb a b = bytes_eqb b a.
Proof.
  intros a b. destruct (bytes_eqb a b) eqn:E1; destruct (bytes_eqb b a) eqn:E2; try reflexivity.
  - apply bytes_eqb_eq in E1. subst. rewrite bytes_eqb_refl in E2. discriminate.
  - apply bytes_eqb_eq in E2. subst. rewrite bytes_eqb_refl in E1. discriminate.
Qed.

Lemma prim_equal_sym : forall p a b, prim_equal p a b = prim_equal p b a.
Proof.
  intros p a b. destruct p; destruct a; destruct b; simpl; try reflexivity;
    first [apply Z.eqb_sym | apply feq32_sym | apply feq64_sym | apply bytes_eqb_sym | idtac].
  destruct b, b0; reflexivity.
Qed.

Lemma prim_equal_trans : forall p a b c, prim_equal p a b = true -> prim_equal p b c = true -> prim_equal p a c = true.
Proof.
  intros p a b c H1 H2.
  destruct p; destruct a; simpl in H1; try discriminate; destruct b; simpl in H1; try discriminate;
    destruct c; simpl in H2; try discriminate; simpl.
  - apply Z.eqb_eq in H1. apply Z.eqb_eq in H2. subst. apply Z.eqb_refl.
  - apply Z.eqb_eq in H1. apply Z.eqb_eq in H2. subst. apply Z.eqb_refl.
  - eapply feq32_trans; eassumption.
  - eapply feq64_trans; eassumption.
  - apply Bool.eqb_prop in H1. apply Bool.eqb_prop in H2. subst. apply Bool.eqb_reflx.
  - apply bytes_eqb_eq in H1. apply bytes_eqb_eq in H2. subst. apply bytes_eqb_refl.
  - apply bytes_eqb_eq in H1. apply bytes_eqb_eq in H2. subst. apply bytes_eqb_refl.
Qed.

Lemma prim_equal_wf_l : forall p a b, prim_equal p a b = true -> prim_wf p a = true.
Proof.
  intros p a b H. destruct p; destruct a; simpl in H; try discriminate; destruct b; simpl in H; try discriminate;
    simpl; try reflexivity.
  - apply negb_true_iff. eapply feq32_nan_l; exact H.
  - apply negb_true_iff. eapply feq64_nan_l; exact H.
Qed.

Lemma prim_equal_same : forall p a b, prim_equal p a b = true -> same a b.
Proof.
  intros p a b H. destruct p; destruct a; simpl in H; try discriminate; destruct b; simpl in H; try discriminate.
  - apply Z.eqb_eq in H. subst. constructor.
  - apply Z.eqb_eq in H. subst. constructor.
  - constructor. exact H.
  - constructor. exact H.
  - apply Bool.eqb_prop in H. subst. constructor.
  - apply bytes_eqb_eq in H. subst. constructor.
  - apply bytes_eqb_eq in H. subst. constructor.
Qed.

Lemma same_prim_equal : forall p a b, same a b -> prim_wf p a = true -> prim_equal p a b = true.
Proof.
  intros p a b Hs Hw. destruct p; destruct a; simpl in Hw; try discriminate; inversion Hs; subst; simpl.
  - apply Z.eqb_refl.
  - apply Z.eqb_refl.
  - assumption.
  - assumption.
  - apply Bool.eqb_reflx.
  - apply bytes_eqb_refl.
  - apply bytes_eqb_refl.
Qed.

Lemma prim_equal_add : forall P p a b h, fp_norm32 P = true -> fp_norm64 P = true ->
  prim_equal p a b = true -> add_prim P p a h = add_prim P p b h.
Proof.
  intros P p a b h Hn32 Hn64 H.
  destruct p; destruct a; simpl in H; try discriminate; destruct b; simpl in H; try discriminate; simpl.
  - apply Z.eqb_eq in H. subst. reflexivity.
  - apply Z.eqb_eq in H. subst. reflexivity.
  - unfold add_f32. rewrite (feq32_norm P _ _ Hn32 H). reflexivity.
  - unfold add_f64. rewrite (feq64_norm P _ _ Hn64 H). reflexivity.
  - apply Bool.eqb_prop in H. subst. reflexivity.
  - apply bytes_eqb_eq in H. subst. reflexivity.
  - apply bytes_eqb_eq in H. subst. reflexivity.
Qed.

(* ---------------------------------------------------------------------------------------------------------------- *)
(* Association lists *)
Lemma map_get_In : forall A k (v : A) es, map_get k es = Some v -> In (k, v) es.
Proof.
  intros A k v es. induction es as [|[k' x] r IH]; simpl; [discriminate|].
  destruct (bytes_eqb k k') eqn:E.
  - intros H. injection H as <-. apply bytes_eqb_eq in E. subst. left. reflexivity.
  - intros H. right. apply IH. exact H.
Qed.

Lemma map_get_None : forall A k (es : list (bytes * A)), map_get k es = None <-> ~ In k (map fst es).
Proof.
  intros A k es. induction es as [|[k' x] r IH]; simpl.
  - split; [intros _ F; exact F | reflexivity].
  - destruct (bytes_eqb k k') eqn:E.
    + apply bytes_eqb_eq in E. subst. split; [discriminate|]. intros H. exfalso. apply H. left. reflexivity.
    + apply bytes_eqb_neq in E. rewrite IH. split.
      * intros H [H1|H1]; [apply E; symmetry; exact H1 | exact (H H1)].
      * intros H H1. apply H. right. exact H1.
Qed.

Lemma nodup_keys_NoDup : forall A (es : list (bytes * A)), nodup_keys es = true <-> NoDup (map fst es).
Proof.
  intros A es. induction es as [|[k x] r IH]; simpl.
  - split; [intros _; constructor | reflexivity].
  - destruct (map_get k r) eqn:G.
    + split; [discriminate|]. intros H. inversion H as [|k0 r0 Hni Hnd]; subst.
      apply map_get_None in Hni. rewrite Hni in G. discriminate.
    + rewrite IH. split.
      * intros H. constructor; [apply map_get_None; exact G | exact H].
      * intros H. inversion H; subst. assumption.
Qed.

Lemma In_map_get : forall A k (v : A) es, nodup_keys es = true -> In (k, v) es -> map_get k es = Some v.
Proof.
  intros A k v es. induction es as [|[k' x] r IH]; simpl; intros Hn Hin; [contradiction|].
  destruct (map_get k' r) eqn:G; [discriminate|].
  destruct Hin as [Hin|Hin].
  - injection Hin as -> ->. rewrite bytes_eqb_refl. reflexivity.
  - destruct (bytes_eqb k k') eqn:E.
    + apply bytes_eqb_eq in E. subst. apply map_get_None in G. exfalso. apply G.
      apply (in_map fst) in Hin. exact Hin.
    + apply IH; assumption.
Qed.

Lemma Forall2_In_r : forall A B (Q : A -> B -> Prop) l l' y, Forall2 Q l l' -> In y l' -> exists x, In x l /\ Q x y.
Proof.
  intros A B Q l l' y HF. induction HF as [|x0 y0 l l' HQ HF IH]; intros Hin; [contradiction|].
  destruct Hin as [->|Hin].
  - exists x0. split; [left; reflexivity | exact HQ].
  - destruct (IH Hin) as [x [Hx HQx]]. exists x. split; [right; exact Hx | exact HQx].
Qed.

Lemma Forall2_len : forall A B (Q : A -> B -> Prop) l l', Forall2 Q l l' -> length l = length l'.
Proof. intros A B Q l l' HF. induction HF; simpl; [reflexivity | f_equal; assumption]. Qed.

(* two maps compared equal entry by entry (any order): the left one is a permutation of a list that lines up with the right *)
Definition aligned (Rv : value -> value -> bool) (ea eb : list (bytes * value)) : Prop :=
  exists es1, Permutation ea es1 /\
    Forall2 (fun x y => fst x = fst y /\ Rv (snd x) (snd y) = true /\ In x ea /\ In y eb) es1 eb.

Lemma map_eq_spec : forall Rv ea eb, map_eq Rv ea eb = true ->
  forall k v, In (k, v) ea -> exists v', map_get k eb = Some v' /\ Rv v v' = true.
Proof.
  intros Rv ea eb H k v Hin. unfold map_eq in H. rewrite forallb_forall in H. specialize (H _ Hin). simpl in H.
  destruct (map_get k eb) as [rv|]; [|discriminate]. exists rv. split; [reflexivity | exact H].
Qed.

Lemma map_eq_keys_back : forall Rv ea eb, nodup_keys ea = true -> length ea = length eb -> map_eq Rv ea eb = true ->
  forall k, In k (map fst eb) -> In k (map fst ea).
Proof.
  intros Rv ea eb Hna Hlen Heq.
  apply (NoDup_length_incl (l := map fst ea) (l' := map fst eb)).
  - apply nodup_keys_NoDup. exact Hna.
  - rewrite !map_length. lia.
  - intros k Hk. apply in_map_iff in Hk as [[k' v] [Hk Hin]]. simpl in Hk. subst k'.
    destruct (map_eq_spec _ _ _ Heq _ _ Hin) as [v' [Hg _]]. apply map_get_In in Hg.
    apply (in_map fst) in Hg. exact Hg.
Qed.

Lemma map_eq_aligned : forall Rv ea eb, nodup_keys ea = true -> nodup_keys eb = true -> length ea = length eb ->
  map_eq Rv ea eb = true -> aligned Rv ea eb.
Proof.
  intros Rv ea eb Hna Hnb Hlen Heq.
  pose proof (map_eq_keys_back _ _ _ Hna Hlen Heq) as Hback.
  set (g := fun kv' : bytes * value =>
              (fst kv', match map_get (fst kv') ea with Some v => v | None => snd kv' end)).
  (* every entry of eb has its partner in ea *)
  assert (Hpart : forall k v', In (k, v') eb -> exists v, In (k, v) ea /\ g (k, v') = (k, v) /\ Rv v v' = true).
  { intros k v' Hin. assert (Hk : In k (map fst ea)) by (apply Hback; apply (in_map fst) in Hin; exact Hin).
    apply in_map_iff in Hk as [[k' v] [Hk Hina]]. simpl in Hk. subst k'.
    exists v. split; [exact Hina|]. split.
    - unfold g. simpl. rewrite (In_map_get _ _ _ _ Hna Hina). reflexivity.
    - destruct (map_eq_spec _ _ _ Heq _ _ Hina) as [v'' [Hg HR]].
      rewrite (In_map_get _ _ _ _ Hnb Hin) in Hg. injection Hg as <-. exact HR. }
  exists (map g eb). split.
  - apply NoDup_Permutation.
    + apply (NoDup_map_inv fst). apply nodup_keys_NoDup. exact Hna.
    + apply (NoDup_map_inv fst). rewrite map_map. simpl. apply nodup_keys_NoDup. exact Hnb.
    + intros [k v]. split.
      * intros Hin. destruct (map_eq_spec _ _ _ Heq _ _ Hin) as [v' [Hg _]]. apply map_get_In in Hg.
        apply in_map_iff. exists (k, v'). split; [|exact Hg].
        unfold g. simpl. rewrite (In_map_get _ _ _ _ Hna Hin). reflexivity.
      * intros Hin. apply in_map_iff in Hin as [[k' v'] [Hg Hin]].
        destruct (Hpart _ _ Hin) as [v0 [Hina [Hg0 _]]]. rewrite Hg0 in Hg. injection Hg as <- <-. exact Hina.
  - assert (Hgen : forall l, incl l eb ->
      Forall2 (fun x y => fst x = fst y /\ Rv (snd x) (snd y) = true /\ In x ea /\ In y eb) (map g l) l).
    { induction l as [|[k v'] l IH]; intros Hincl; simpl; [constructor|].
      constructor.
      - assert (Hin : In (k, v') eb) by (apply Hincl; left; reflexivity).
        destruct (Hpart _ _ Hin) as [v [Hina [Hg HR]]]. fold (g (k, v')). rewrite Hg. simpl.
        split; [reflexivity|]. split; [exact HR|]. split; [exact Hina | exact Hin].
      - apply IH. intros z Hz. apply Hincl. right. exact Hz. }
    apply Hgen. apply incl_refl.
Qed.

Lemma aligned_len : forall Rv ea eb, aligned Rv ea eb -> length ea = length eb.
Proof.
  intros Rv ea eb [es1 [Hp HF]]. rewrite (Permutation_length Hp). eapply Forall2_len. exact HF.
Qed.

(* from an alignment back to the entry-by-entry comparison, in the other direction *)
Lemma aligned_map_eq_rev : forall Rv Rv' ea eb, nodup_keys ea = true -> aligned Rv ea eb ->
  (forall x y, In x ea -> In y eb -> Rv (snd x) (snd y) = true -> Rv' (snd y) (snd x) = true) ->
  map_eq Rv' eb ea = true.
Proof.
  intros Rv Rv' ea eb Hna [es1 [Hp HF]] Himp. unfold map_eq. apply forallb_forall. intros y Hy.
  destruct (Forall2_In_r _ _ _ _ _ _ HF Hy) as [x [_ [Hk [HR [Hxa _]]]]].
  destruct x as [k v]. destruct y as [k' v']. simpl in *. subst k'.
  rewrite (In_map_get _ _ _ _ Hna Hxa). apply (Himp (k, v) (k, v')); assumption.
Qed.

(* ---------------------------------------------------------------------------------------------------------------- *)
(* 3. reflexivity *)
Section Refl.
  Variable e : henv.
  Variable W : hty -> value -> bool.
  Variable R : hty -> value -> value -> bool.
  Hypothesis IH : forall t v, W t v = true -> R t v v = true.

  Lemma opt_refl : forall t p, opt_wf W t p = true -> opt_eq R t p p = true.
  Proof. intros t [v|]; simpl; intros H; [apply IH; exact H | reflexivity]. Qed.

  Lemma arr_refl : forall t l, forallb (W t) l = true -> arr_eq (R t) l l = true.
  Proof.
    intros t l. induction l as [|v l IHl]; simpl; intros H; [reflexivity|].
    apply andb_true_iff in H as [H1 H2]. rewrite (IH _ _ H1), (IHl H2). reflexivity.
  Qed.

  Lemma map_refl : forall t es, nodup_keys es = true -> forallb (fun kv => W t (snd kv)) es = true ->
    map_eq (R t) es es = true.
  Proof.
    intros t es Hn Hw. unfold map_eq. rewrite forallb_forall in Hw. apply forallb_forall. intros [k v] Hin. simpl.
    rewrite (In_map_get _ _ _ _ Hn Hin). apply IH. apply (Hw _ Hin).
  Qed.

  Lemma incs_refl : forall is x, incs_wf W is x = true -> incs_eq R is x x = true.
  Proof.
    induction is as [|i is IHs]; intros [|p x]; simpl; intros H; try discriminate; try reflexivity.
    apply andb_true_iff in H as [H1 H2]. rewrite (IH _ _ H1), (IHs _ H2). reflexivity.
  Qed.

  Lemma mems_refl : forall mts x, mems_wf W mts x = true -> mems_eq R mts x x = true.
  Proof.
    induction mts as [|mt mts IHs]; intros [|p x]; simpl; intros H; try discriminate; try reflexivity.
    apply andb_true_iff in H as [H1 H2]. rewrite (opt_refl _ _ H1), (IHs _ H2). reflexivity.
  Qed.

  Lemma flds_refl : forall fs x, flds_wf W fs x = true -> flds_eq R fs x x = true.
  Proof.
    induction fs as [|fd fs IHs]; intros [|p x]; simpl; intros H; try discriminate; try reflexivity.
    apply andb_true_iff in H as [H1 H2]. apply andb_true_iff in H1 as [_ H1].
    rewrite (opt_refl _ _ H1), (IHs _ H2). reflexivity.
  Qed.

  Lemma body_refl : forall t v, wf_body e W t v = true -> eq_body e R t v v = true.
  Proof.
    intros t v H. destruct t; destruct v; simpl in H; try discriminate; simpl;
      try (apply prim_equal_refl; exact H).
    - rewrite H, Nat.eqb_refl. reflexivity.
    - apply bytes_eqb_refl.
    - destruct (hlookup e n) as [[rincs rfs|umts]|]; try discriminate.
      apply andb_true_iff in H as [H1 H2]. rewrite (incs_refl _ _ H1), (flds_refl _ _ H2). reflexivity.
    - destruct (hlookup e n) as [[rincs rfs|umts]|]; try discriminate. apply mems_refl. exact H.
    - rewrite Nat.eqb_refl. simpl. apply arr_refl. exact H.
    - apply andb_true_iff in H as [H1 H2]. rewrite Nat.eqb_refl. simpl. apply map_refl; assumption.
  Qed.
End Refl.

Lemma equals_refl : forall e f t v, wfV e f t v = true -> equalsV e f t v v = true.
Proof.
  intros e f. induction f as [|f IHf]; intros t v H; [discriminate|].
  rewrite wfV_S in H. rewrite equalsV_S. eapply body_refl; [exact IHf | exact H].
Qed.

(* ---------------------------------------------------------------------------------------------------------------- *)
(* 4. symmetry *)
Section Sym.
  Variable e : henv.
  Variable W : hty -> value -> bool.
  Variable R : hty -> value -> value -> bool.
  Hypothesis IH : forall t a b, W t a = true -> W t b = true -> R t a b = true -> R t b a = true.

  Lemma opt_sym : forall t p q, opt_wf W t p = true -> opt_wf W t q = true -> opt_eq R t p q = true -> opt_eq R t q p = true.
  Proof. intros t [a|] [b|]; simpl; intros Ha Hb H; try discriminate; try reflexivity. apply IH; assumption. Qed.

  Lemma arr_sym : forall t x y, forallb (W t) x = true -> forallb (W t) y = true ->
    arr_eq (R t) x y = true -> arr_eq (R t) y x = true.
  Proof.
    intros t. induction x as [|p x IHx]; intros [|q y]; simpl; intros Hx Hy H; try reflexivity.
    apply andb_true_iff in Hx as [Hx1 Hx2]. apply andb_true_iff in Hy as [Hy1 Hy2]. apply andb_true_iff in H as [H1 H2].
    rewrite (IH _ _ _ Hx1 Hy1 H1), (IHx _ Hx2 Hy2 H2). reflexivity.
  Qed.

  Lemma map_sym : forall t ea eb, nodup_keys ea = true -> nodup_keys eb = true -> length ea = length eb ->
    forallb (fun kv => W t (snd kv)) ea = true -> forallb (fun kv => W t (snd kv)) eb = true ->
    map_eq (R t) ea eb = true -> map_eq (R t) eb ea = true.
  Proof.
    intros t ea eb Hna Hnb Hlen Hwa Hwb H.
    apply (aligned_map_eq_rev (R t) (R t) ea eb Hna).
    - apply map_eq_aligned; assumption.
    - intros x y Hx Hy HR. rewrite forallb_forall in Hwa, Hwb. apply IH; [apply (Hwa _ Hx) | apply (Hwb _ Hy) | exact HR].
  Qed.

  Lemma incs_sym : forall is x y, incs_wf W is x = true -> incs_wf W is y = true ->
    incs_eq R is x y = true -> incs_eq R is y x = true.
  Proof.
    induction is as [|i is IHs]; intros [|p x] [|q y]; simpl; intros Hx Hy H; try discriminate; try reflexivity.
    apply andb_true_iff in Hx as [Hx1 Hx2]. apply andb_true_iff in Hy as [Hy1 Hy2]. apply andb_true_iff in H as [H1 H2].
    rewrite (IH _ _ _ Hx1 Hy1 H1), (IHs _ _ Hx2 Hy2 H2). reflexivity.
  Qed.

  Lemma mems_sym : forall mts x y, mems_wf W mts x = true -> mems_wf W mts y = true ->
    mems_eq R mts x y = true -> mems_eq R mts y x = true.
  Proof.
    induction mts as [|mt mts IHs]; intros [|p x] [|q y]; simpl; intros Hx Hy H; try discriminate; try reflexivity.
    apply andb_true_iff in Hx as [Hx1 Hx2]. apply andb_true_iff in Hy as [Hy1 Hy2]. apply andb_true_iff in H as [H1 H2].
    rewrite (opt_sym _ _ _ Hx1 Hy1 H1), (IHs _ _ Hx2 Hy2 H2). reflexivity.
  Qed.

  Lemma flds_sym : forall fs x y, flds_wf W fs x = true -> flds_wf W fs y = true ->
    flds_eq R fs x y = true -> flds_eq R fs y x = true.
  Proof.
    induction fs as [|fd fs IHs]; intros [|p x] [|q y]; simpl; intros Hx Hy H; try discriminate; try reflexivity.
    apply andb_true_iff in Hx as [Hx1 Hx2]. apply andb_true_iff in Hy as [Hy1 Hy2]. apply andb_true_iff in H as [H1 H2].
    apply andb_true_iff in Hx1 as [_ Hx1]. apply andb_true_iff in Hy1 as [_ Hy1].
    rewrite (opt_sym _ _ _ Hx1 Hy1 H1), (IHs _ _ Hx2 Hy2 H2). reflexivity.
  Qed.

  Lemma body_sym : forall t a b, wf_body e W t a = true -> wf_body e W t b = true ->
    eq_body e R t a b = true -> eq_body e R t b a = true.
  Proof.
    intros t a b Ha Hb H.
    destruct t; destruct a; simpl in Ha; try discriminate; destruct b; simpl in Hb; try discriminate;
      simpl in H; simpl; try (rewrite prim_equal_sym; exact H); try discriminate.
    - apply andb_true_iff in H as [H H3]. apply andb_true_iff in H as [H1 H2].
      rewrite H1, H2, Nat.eqb_sym, H3. reflexivity.
    - rewrite bytes_eqb_sym. exact H.
    - destruct (hlookup e n) as [[rincs rfs|umts]|]; try discriminate.
      apply andb_true_iff in Ha as [Ha1 Ha2]. apply andb_true_iff in Hb as [Hb1 Hb2]. apply andb_true_iff in H as [H1 H2].
      rewrite (incs_sym _ _ _ Ha1 Hb1 H1), (flds_sym _ _ _ Ha2 Hb2 H2). reflexivity.
    - destruct (hlookup e n) as [[rincs rfs|umts]|]; try discriminate. apply mems_sym; assumption.
    - apply andb_true_iff in H as [H1 H2]. rewrite Nat.eqb_sym, H1. simpl. apply arr_sym; assumption.
    - apply andb_true_iff in H as [H1 H2]. apply andb_true_iff in Ha as [Ha1 Ha2]. apply andb_true_iff in Hb as [Hb1 Hb2].
      rewrite Nat.eqb_sym, H1. simpl. apply Nat.eqb_eq in H1. apply map_sym; assumption.
  Qed.
End Sym.

Lemma equals_sym_imp : forall e f t a b, wfV e f t a = true -> wfV e f t b = true ->
  equalsV e f t a b = true -> equalsV e f t b a = true.
Proof.
  intros e f. induction f as [|f IHf]; intros t a b Ha Hb H; [discriminate|].
  rewrite wfV_S in Ha, Hb. rewrite equalsV_S in H. rewrite equalsV_S.
  eapply body_sym; [exact IHf | exact Ha | exact Hb | exact H].
Qed.

Lemma equals_sym : forall e f t a b, wfV e f t a = true -> wfV e f t b = true ->
  equalsV e f t a b = equalsV e f t b a.
Proof.
  intros e f t a b Ha Hb.
  destruct (equalsV e f t a b) eqn:E1; destruct (equalsV e f t b a) eqn:E2; try reflexivity.
  - rewrite (equals_sym_imp _ _ _ _ _ Ha Hb E1) in E2. discriminate.
  - rewrite (equals_sym_imp _ _ _ _ _ Hb Ha E2) in E1. discriminate.
Qed.

(* ---------------------------------------------------------------------------------------------------------------- *)
(* 5. transitivity *)
Section Trans.
  Variable e : henv.
  Variable R : hty -> value -> value -> bool.
  Hypothesis IH : forall t a b c, R t a b = true -> R t b c = true -> R t a c = true.

  Lemma opt_trans : forall t p q r, opt_eq R t p q = true -> opt_eq R t q r = true -> opt_eq R t p r = true.
  Proof. intros t [a|] [b|] [c|]; simpl; intros H1 H2; try discriminate; try reflexivity. eapply IH; eassumption. Qed.

  Lemma arr_trans : forall t x y z, length x = length y -> length y = length z ->
    arr_eq (R t) x y = true -> arr_eq (R t) y z = true -> arr_eq (R t) x z = true.
  Proof.
    intros t. induction x as [|p x IHx]; intros [|q y] [|r z]; simpl; intros L1 L2 H1 H2; try discriminate; try reflexivity.
    apply andb_true_iff in H1 as [H1a H1b]. apply andb_true_iff in H2 as [H2a H2b].
    rewrite (IH _ _ _ _ H1a H2a). simpl. apply (IHx y z); [lia | lia | assumption | assumption].
  Qed.

  Lemma map_trans : forall t ea eb ec, map_eq (R t) ea eb = true -> map_eq (R t) eb ec = true -> map_eq (R t) ea ec = true.
  Proof.
    intros t ea eb ec H1 H2. unfold map_eq. apply forallb_forall. intros [k v] Hin. simpl.
    destruct (map_eq_spec _ _ _ H1 _ _ Hin) as [v' [Hg HR]]. apply map_get_In in Hg.
    destruct (map_eq_spec _ _ _ H2 _ _ Hg) as [v'' [Hg' HR']]. rewrite Hg'. eapply IH; eassumption.
  Qed.

  Lemma incs_trans : forall is x y z, incs_eq R is x y = true -> incs_eq R is y z = true -> incs_eq R is x z = true.
  Proof.
    induction is as [|i is IHs]; intros [|p x] [|q y] [|r z]; simpl; intros H1 H2; try discriminate; try reflexivity.
    apply andb_true_iff in H1 as [H1a H1b]. apply andb_true_iff in H2 as [H2a H2b].
    rewrite (IH _ _ _ _ H1a H2a), (IHs _ _ _ H1b H2b). reflexivity.
  Qed.

  Lemma mems_trans : forall mts x y z, mems_eq R mts x y = true -> mems_eq R mts y z = true -> mems_eq R mts x z = true.
  Proof.
    induction mts as [|mt mts IHs]; intros [|p x] [|q y] [|r z]; simpl; intros H1 H2; try discriminate; try reflexivity.
    apply andb_true_iff in H1 as [H1a H1b]. apply andb_true_iff in H2 as [H2a H2b].
    rewrite (opt_trans _ _ _ _ H1a H2a), (IHs _ _ _ H1b H2b). reflexivity.
  Qed.

  Lemma flds_trans : forall fs x y z, flds_eq R fs x y = true -> flds_eq R fs y z = true -> flds_eq R fs x z = true.
  Proof.
    induction fs as [|fd fs IHs]; intros [|p x] [|q y] [|r z]; simpl; intros H1 H2; try discriminate; try reflexivity.
    apply andb_true_iff in H1 as [H1a H1b]. apply andb_true_iff in H2 as [H2a H2b].
    rewrite (opt_trans _ _ _ _ H1a H2a), (IHs _ _ _ H1b H2b). reflexivity.
  Qed.

  Lemma body_trans : forall t a b c, eq_body e R t a b = true -> eq_body e R t b c = true -> eq_body e R t a c = true.
  Proof.
    intros t a b c H1 H2.
    destruct t; try (simpl in *; eapply prim_equal_trans; eassumption);
      destruct a; simpl in H1; try discriminate; destruct b; simpl in H1; try discriminate;
      destruct c; simpl in H2; try discriminate; simpl.
    - apply andb_true_iff in H1 as [H1 H1c]. apply andb_true_iff in H1 as [H1a H1b].
      apply andb_true_iff in H2 as [H2 H2c]. apply andb_true_iff in H2 as [H2a H2b].
      rewrite H1a, H2b. apply Nat.eqb_eq in H1c. apply Nat.eqb_eq in H2c. subst. rewrite Nat.eqb_refl. reflexivity.
    - apply bytes_eqb_eq in H1. apply bytes_eqb_eq in H2. subst. apply bytes_eqb_refl.
    - destruct (hlookup e n) as [[rincs rfs|umts]|]; try discriminate.
      apply andb_true_iff in H1 as [H1a H1b]. apply andb_true_iff in H2 as [H2a H2b].
      rewrite (incs_trans _ _ _ _ H1a H2a), (flds_trans _ _ _ _ H1b H2b). reflexivity.
    - destruct (hlookup e n) as [[rincs rfs|umts]|]; try discriminate. eapply mems_trans; eassumption.
    - apply andb_true_iff in H1 as [H1a H1b]. apply andb_true_iff in H2 as [H2a H2b].
      apply Nat.eqb_eq in H1a. apply Nat.eqb_eq in H2a.
      apply andb_true_iff. split; [apply Nat.eqb_eq; lia|]. eapply arr_trans; eassumption.
    - apply andb_true_iff in H1 as [H1a H1b]. apply andb_true_iff in H2 as [H2a H2b].
      apply Nat.eqb_eq in H1a. apply Nat.eqb_eq in H2a.
      apply andb_true_iff. split; [apply Nat.eqb_eq; lia|]. eapply map_trans; eassumption.
  Qed.
End Trans.

Lemma equals_trans : forall e f t a b c, equalsV e f t a b = true -> equalsV e f t b c = true -> equalsV e f t a c = true.
Proof.
  intros e f. induction f as [|f IHf]; intros t a b c H1 H2; [discriminate|].
  rewrite equalsV_S in H1, H2. rewrite equalsV_S. eapply body_trans; [exact IHf | exact H1 | exact H2].
Qed.

(* ---------------------------------------------------------------------------------------------------------------- *)
(* 6. "the same value" implies Equals (and preserves well-formedness) *)
Lemma esames_keys : forall l l', esames l l' -> map fst l = map fst l'.
Proof. intros l l' H. induction H; simpl; [reflexivity | f_equal; assumption]. Qed.

Lemma esames_len : forall l l', esames l l' -> length l = length l'.
Proof. intros l l' H. induction H; simpl; [reflexivity | f_equal; assumption]. Qed.

Lemma esames_In_l : forall l l', esames l l' -> forall k v, In (k, v) l -> exists v', In (k, v') l' /\ same v v'.
Proof.
  intros l l' H. induction H as [|k0 x y l l' Hs He IH]; intros k v Hin; [contradiction|].
  destruct Hin as [Hin|Hin].
  - injection Hin as <- <-. exists y. split; [left; reflexivity | exact Hs].
  - destruct (IH _ _ Hin) as [v' [Hin' Hs']]. exists v'. split; [right; exact Hin' | exact Hs'].
Qed.

Lemma esames_In_r : forall l l', esames l l' -> forall k v', In (k, v') l' -> exists v, In (k, v) l /\ same v v'.
Proof.
  intros l l' H. induction H as [|k0 x y l l' Hs He IH]; intros k v' Hin; [contradiction|].
  destruct Hin as [Hin|Hin].
  - injection Hin as <- <-. exists x. split; [left; reflexivity | exact Hs].
  - destruct (IH _ _ Hin) as [v [Hin' Hs']]. exists v. split; [right; exact Hin' | exact Hs'].
Qed.

Lemma same_prim_wf : forall p a b, same a b -> prim_wf p a = true -> prim_wf p b = true.
Proof.
  intros p a b Hs Hw. apply (prim_equal_wf_l p b a). rewrite prim_equal_sym. apply same_prim_equal; assumption.
Qed.

Section SameEq.
  Variable e : henv.
  Variable W : hty -> value -> bool.
  Variable R : hty -> value -> value -> bool.
  Hypothesis IH : forall t a b, same a b -> W t a = true -> R t a b = true.
  Hypothesis IHw : forall t a b, same a b -> W t a = true -> W t b = true.

  Lemma same_arr : forall t x y, sames x y -> forallb (W t) x = true ->
    length x = length y /\ arr_eq (R t) x y = true /\ forallb (W t) y = true.
  Proof.
    intros t x y Hs. induction Hs as [|p q x y Hpq Hs IHs]; simpl; intros Hw; [repeat split; reflexivity|].
    apply andb_true_iff in Hw as [Hw1 Hw2]. destruct (IHs Hw2) as [L [E Wy]].
    rewrite (IH _ _ _ Hpq Hw1), (IHw _ _ _ Hpq Hw1), E, Wy, L. repeat split; reflexivity.
  Qed.

  Lemma same_map : forall t es es1 es', Permutation es es1 -> esames es1 es' ->
    nodup_keys es = true -> forallb (fun kv => W t (snd kv)) es = true ->
    length es = length es' /\ map_eq (R t) es es' = true /\
    nodup_keys es' = true /\ forallb (fun kv => W t (snd kv)) es' = true.
  Proof.
    intros t es es1 es' Hp He Hn Hw. rewrite forallb_forall in Hw.
    assert (Hn' : nodup_keys es' = true).
    { apply nodup_keys_NoDup. rewrite <- (esames_keys _ _ He).
      apply (Permutation_NoDup (Permutation_map fst Hp)). apply nodup_keys_NoDup. exact Hn. }
    split; [rewrite (Permutation_length Hp); apply esames_len; exact He|].
    split; [|split; [exact Hn'|]].
    - unfold map_eq. apply forallb_forall. intros [k v] Hin. simpl.
      destruct (esames_In_l _ _ He k v (Permutation_in _ Hp Hin)) as [v' [Hin' Hs]].
      rewrite (In_map_get _ _ _ _ Hn' Hin'). apply IH; [exact Hs | apply (Hw _ Hin)].
    - apply forallb_forall. intros [k v'] Hin'. simpl.
      destruct (esames_In_r _ _ He k v' Hin') as [v [Hin Hs]].
      apply (Permutation_in _ (Permutation_sym Hp)) in Hin. apply (IHw _ _ _ Hs). apply (Hw _ Hin).
  Qed.

  Lemma same_incs : forall is x y, sames x y -> incs_wf W is x = true ->
    incs_eq R is x y = true /\ incs_wf W is y = true.
  Proof.
    intros is x y Hs. revert is. induction Hs as [|p q x y Hpq Hs IHs]; intros [|i is]; simpl; intros Hw;
      try discriminate; [split; reflexivity|].
    apply andb_true_iff in Hw as [Hw1 Hw2]. destruct (IHs _ Hw2) as [E Wy].
    rewrite (IH _ _ _ Hpq Hw1), (IHw _ _ _ Hpq Hw1), E, Wy. split; reflexivity.
  Qed.

  Lemma same_mems : forall mts x y, osames x y -> mems_wf W mts x = true ->
    mems_eq R mts x y = true /\ mems_wf W mts y = true.
  Proof.
    intros mts x y Hs. revert mts. induction Hs as [|x y Hs IHs|p q x y Hpq Hs IHs]; intros [|mt mts]; simpl; intros Hw;
      try discriminate; try (split; reflexivity).
    - apply IHs. exact Hw.
    - apply andb_true_iff in Hw as [Hw1 Hw2]. destruct (IHs _ Hw2) as [E Wy].
      rewrite (IH _ _ _ Hpq Hw1), (IHw _ _ _ Hpq Hw1), E, Wy. split; reflexivity.
  Qed.

  Lemma same_flds : forall fs x y, osames x y -> flds_wf W fs x = true ->
    flds_eq R fs x y = true /\ flds_wf W fs y = true.
  Proof.
    intros fs x y Hs. revert fs. induction Hs as [|x y Hs IHs|p q x y Hpq Hs IHs]; intros [|fd fs]; simpl; intros Hw;
      try discriminate; try (split; reflexivity).
    - apply andb_true_iff in Hw as [Hw1 Hw2]. destruct (IHs _ Hw2) as [E Wy]. rewrite E, Wy, Hw1. split; reflexivity.
    - apply andb_true_iff in Hw as [Hw1 Hw2]. apply andb_true_iff in Hw1 as [Hw0 Hw1]. destruct (IHs _ Hw2) as [E Wy].
      rewrite (IH _ _ _ Hpq Hw1), (IHw _ _ _ Hpq Hw1), E, Wy, Hw0. split; reflexivity.
  Qed.

  Lemma body_same_eq_wf : forall t a b, same a b -> wf_body e W t a = true ->
    eq_body e R t a b = true /\ wf_body e W t b = true.
  Proof.
    intros t a b Hs Hw.
    destruct t; try (simpl in *; split; [apply same_prim_equal | eapply same_prim_wf]; eassumption);
      destruct a; simpl in Hw; try discriminate; inversion Hs; subst; simpl.
    - rewrite Hw, Nat.eqb_refl. split; reflexivity.
    - rewrite bytes_eqb_refl. split; [reflexivity | exact Hw].
    - destruct (hlookup e n) as [[rincs rfs|umts]|]; try discriminate.
      apply andb_true_iff in Hw as [Hw1 Hw2].
      match goal with Hi : sames _ _, Hf : osames _ _ |- _ =>
        destruct (same_incs _ _ _ Hi Hw1) as [E1 W1]; destruct (same_flds _ _ _ Hf Hw2) as [E2 W2] end.
      rewrite E1, E2, W1, W2. split; reflexivity.
    - destruct (hlookup e n) as [[rincs rfs|umts]|]; try discriminate.
      match goal with Hf : osames _ _ |- _ => apply (same_mems _ _ _ Hf Hw) end.
    - match goal with Hi : sames _ _ |- _ => destruct (same_arr _ _ _ Hi Hw) as [L [E Wy]] end.
      rewrite L, Nat.eqb_refl, E, Wy. split; reflexivity.
    - apply andb_true_iff in Hw as [Hw1 Hw2].
      match goal with Hp : Permutation _ _, He : esames _ _ |- _ =>
        destruct (same_map _ _ _ _ Hp He Hw1 Hw2) as [L [E [N' Wy]]] end.
      rewrite L, Nat.eqb_refl, E, N', Wy. split; reflexivity.
  Qed.
End SameEq.

Lemma same_equals_wf : forall e f t a b, same a b -> wfV e f t a = true ->
  equalsV e f t a b = true /\ wfV e f t b = true.
Proof.
  intros e f. induction f as [|f IHf]; intros t a b Hs Hw; [discriminate|].
  rewrite wfV_S in Hw. rewrite equalsV_S, wfV_S.
  eapply body_same_eq_wf; [| | exact Hs | exact Hw].
  - intros t' a' b' Hs' Hw'. apply (IHf t' a' b' Hs' Hw').
  - intros t' a' b' Hs' Hw'. apply (IHf t' a' b' Hs' Hw').
Qed.

Lemma same_equals : forall e f t a b, same a b -> wfV e f t a = true -> equalsV e f t a b = true.
Proof. intros e f t a b Hs Hw. apply (same_equals_wf e f t a b Hs Hw). Qed.

Lemma same_wf : forall e f t a b, same a b -> wfV e f t a = true -> wfV e f t b = true.
Proof. intros e f t a b Hs Hw. apply (same_equals_wf e f t a b Hs Hw). Qed.

(* ---------------------------------------------------------------------------------------------------------------- *)
(* 7. Equals implies "the same value" *)
Section EqSame.
  Variable e : henv.
  Variable W : hty -> value -> bool.
  Variable R : hty -> value -> value -> bool.
  Hypothesis IH : forall t a b, W t a = true -> W t b = true -> R t a b = true -> same a b.

  Lemma eq_same_arr : forall t x y, length x = length y -> forallb (W t) x = true -> forallb (W t) y = true ->
    arr_eq (R t) x y = true -> sames x y.
  Proof.
    intros t. induction x as [|p x IHx]; intros [|q y]; simpl; intros L Hx Hy H; try discriminate; [constructor|].
    apply andb_true_iff in Hx as [Hx1 Hx2]. apply andb_true_iff in Hy as [Hy1 Hy2]. apply andb_true_iff in H as [H1 H2].
    constructor; [apply (IH _ _ _ Hx1 Hy1 H1) | apply IHx; [lia | assumption | assumption | assumption]].
  Qed.

  Lemma eq_same_aligned : forall t ea eb,
    forallb (fun kv => W t (snd kv)) ea = true -> forallb (fun kv => W t (snd kv)) eb = true ->
    aligned (R t) ea eb -> exists es1, Permutation ea es1 /\ esames es1 eb.
  Proof.
    intros t ea eb Hwa Hwb [es1 [Hp HF]]. exists es1. split; [exact Hp|].
    rewrite forallb_forall in Hwa, Hwb. clear Hp.
    induction HF as [|[k v] [k' v'] l l' [Hk [HR [Hx Hy]]] HF IHF]; [constructor|].
    simpl in Hk, HR. subst k'. constructor; [|exact IHF].
    apply (IH t); [apply (Hwa _ Hx) | apply (Hwb _ Hy) | exact HR].
  Qed.

  Lemma eq_same_incs : forall is x y, incs_wf W is x = true -> incs_wf W is y = true ->
    incs_eq R is x y = true -> sames x y.
  Proof.
    induction is as [|i is IHs]; intros [|p x] [|q y]; simpl; intros Hx Hy H; try discriminate; [constructor|].
    apply andb_true_iff in Hx as [Hx1 Hx2]. apply andb_true_iff in Hy as [Hy1 Hy2]. apply andb_true_iff in H as [H1 H2].
    constructor; [apply (IH _ _ _ Hx1 Hy1 H1) | apply (IHs _ _ Hx2 Hy2 H2)].
  Qed.

  Lemma eq_same_mems : forall mts x y, mems_wf W mts x = true -> mems_wf W mts y = true ->
    mems_eq R mts x y = true -> osames x y.
  Proof.
    induction mts as [|mt mts IHs]; intros [|p x] [|q y]; simpl; intros Hx Hy H; try discriminate; [constructor|].
    apply andb_true_iff in Hx as [Hx1 Hx2]. apply andb_true_iff in Hy as [Hy1 Hy2]. apply andb_true_iff in H as [H1 H2].
    destruct p as [p|]; destruct q as [q|]; simpl in H1; try discriminate.
    - constructor; [apply (IH _ _ _ Hx1 Hy1 H1) | apply (IHs _ _ Hx2 Hy2 H2)].
    - constructor. apply (IHs _ _ Hx2 Hy2 H2).
  Qed.

  Lemma eq_same_flds : forall fs x y, flds_wf W fs x = true -> flds_wf W fs y = true ->
    flds_eq R fs x y = true -> osames x y.
  Proof.
    induction fs as [|fd fs IHs]; intros [|p x] [|q y]; simpl; intros Hx Hy H; try discriminate; [constructor|].
    apply andb_true_iff in Hx as [Hx1 Hx2]. apply andb_true_iff in Hy as [Hy1 Hy2]. apply andb_true_iff in H as [H1 H2].
    apply andb_true_iff in Hx1 as [_ Hx1]. apply andb_true_iff in Hy1 as [_ Hy1].
    destruct p as [p|]; destruct q as [q|]; simpl in H1; try discriminate.
    - constructor; [apply (IH _ _ _ Hx1 Hy1 H1) | apply (IHs _ _ Hx2 Hy2 H2)].
    - constructor. apply (IHs _ _ Hx2 Hy2 H2).
  Qed.

  Lemma body_eq_same : forall t a b, wf_body e W t a = true -> wf_body e W t b = true ->
    eq_body e R t a b = true -> same a b.
  Proof.
    intros t a b Ha Hb H.
    destruct t; try (simpl in *; eapply prim_equal_same; eassumption);
      destruct a; simpl in Ha; try discriminate; destruct b; simpl in Hb; try discriminate; simpl in H; try discriminate.
    - apply andb_true_iff in H as [_ H]. apply Nat.eqb_eq in H. subst. constructor.
    - apply bytes_eqb_eq in H. subst. constructor.
    - destruct (hlookup e n) as [[rincs rfs|umts]|]; try discriminate.
      apply andb_true_iff in Ha as [Ha1 Ha2]. apply andb_true_iff in Hb as [Hb1 Hb2]. apply andb_true_iff in H as [H1 H2].
      constructor; [eapply eq_same_incs; eassumption | eapply eq_same_flds; eassumption].
    - destruct (hlookup e n) as [[rincs rfs|umts]|]; try discriminate.
      constructor. eapply eq_same_mems; eassumption.
    - apply andb_true_iff in H as [H1 H2]. apply Nat.eqb_eq in H1. constructor. eapply eq_same_arr; eassumption.
    - apply andb_true_iff in H as [H1 H2]. apply Nat.eqb_eq in H1.
      apply andb_true_iff in Ha as [Ha1 Ha2]. apply andb_true_iff in Hb as [Hb1 Hb2].
      destruct (eq_same_aligned t es es0 Ha2 Hb2) as [es1 [Hp He]]; [apply map_eq_aligned; assumption|].
      econstructor; eassumption.
  Qed.
End EqSame.

Lemma equals_same : forall e f t a b, wfV e f t a = true -> wfV e f t b = true -> equalsV e f t a b = true -> same a b.
Proof.
  intros e f. induction f as [|f IHf]; intros t a b Ha Hb H; [discriminate|].
  rewrite wfV_S in Ha, Hb. rewrite equalsV_S in H. eapply body_eq_same; [exact IHf | exact Ha | exact Hb | exact H].
Qed.

(* ---------------------------------------------------------------------------------------------------------------- *)
(* 8. equal values have equal hashes.  The generated code folds a named-type field with h.Add(v.ComputeHash()), so the model's
   addV at fuel S f calls hashV at fuel f on the SAME value: the induction is on the fuel of the hash, for any larger fuel of
   the well-formedness/equality premises. *)
Section HashStep.
  Variable P : fnv_params.
  Variable e : henv.
  Variable W : hty -> value -> bool.
  Variable R : hty -> value -> value -> bool.
  Variable A : hty -> value -> N -> N.
  Variable H : hty -> value -> N.
  Hypothesis Hn32 : fp_norm32 P = true.
  Hypothesis Hn64 : fp_norm64 P = true.
  Hypothesis Hsort : fp_map_sorted P = true.
  Hypothesis IH1 : forall t a b, W t a = true -> W t b = true -> R t a b = true ->
    H t a = H t b /\ forall h, A t a h = A t b h.
  Hypothesis IH2 : forall t a b, wf_body e W t a = true -> wf_body e W t b = true -> eq_body e R t a b = true ->
    H t a = H t b /\ forall h, A t a h = A t b h.

  Lemma hash_opt : forall t p q, opt_wf W t p = true -> opt_wf W t q = true -> opt_eq R t p q = true ->
    forall h, opt_add A t p h = opt_add A t q h.
  Proof.
    intros t [a|] [b|]; simpl; intros Ha Hb HR h; try discriminate; try reflexivity.
    apply (IH1 _ _ _ Ha Hb HR).
  Qed.

  Lemma hash_arr : forall t x y, length x = length y -> forallb (W t) x = true -> forallb (W t) y = true ->
    arr_eq (R t) x y = true -> forall h, fold_left (fun h v => A t v h) x h = fold_left (fun h v => A t v h) y h.
  Proof.
    intros t. induction x as [|p x IHx]; intros [|q y]; simpl; intros L Hx Hy HR h; try discriminate; [reflexivity|].
    apply andb_true_iff in Hx as [Hx1 Hx2]. apply andb_true_iff in Hy as [Hy1 Hy2]. apply andb_true_iff in HR as [H1 H2].
    destruct (IH1 _ _ _ Hx1 Hy1 H1) as [_ E]. rewrite E. apply IHx; [lia | assumption | assumption | assumption].
  Qed.

  Lemma hash_map : forall t ea eb,
    forallb (fun kv => W t (snd kv)) ea = true -> forallb (fun kv => W t (snd kv)) eb = true ->
    aligned (R t) ea eb -> Permutation (map (kv_hash P A t) ea) (map (kv_hash P A t) eb).
  Proof.
    intros t ea eb Hwa Hwb [es1 [Hp HF]].
    eapply Permutation_trans; [apply Permutation_map; exact Hp|].
    assert (E : map (kv_hash P A t) es1 = map (kv_hash P A t) eb); [|rewrite E; apply Permutation_refl].
    rewrite forallb_forall in Hwa, Hwb. clear Hp.
    induction HF as [|[k v] [k' v'] l l' [Hk [HR [Hx Hy]]] HF IHF]; [reflexivity|].
    simpl in Hk, HR. subst k'. simpl. f_equal; [|exact IHF].
    unfold kv_hash. simpl. apply (IH1 t v v'); [apply (Hwa _ Hx) | apply (Hwb _ Hy) | exact HR].
  Qed.

  Lemma hash_incs : forall is x y, incs_wf W is x = true -> incs_wf W is y = true -> incs_eq R is x y = true ->
    forall h, incs_hash P H is x h = incs_hash P H is y h.
  Proof.
    induction is as [|i is IHs]; intros [|p x] [|q y]; simpl; intros Hx Hy HR h; try discriminate; try reflexivity.
    apply andb_true_iff in Hx as [Hx1 Hx2]. apply andb_true_iff in Hy as [Hy1 Hy2]. apply andb_true_iff in HR as [H1 H2].
    destruct (IH1 _ _ _ Hx1 Hy1 H1) as [E _]. rewrite E. apply IHs; assumption.
  Qed.

  Lemma hash_mems : forall mts x y, mems_wf W mts x = true -> mems_wf W mts y = true -> mems_eq R mts x y = true ->
    forall h, mems_hash A mts x h = mems_hash A mts y h.
  Proof.
    induction mts as [|mt mts IHs]; intros [|p x] [|q y]; simpl; intros Hx Hy HR h; try discriminate; try reflexivity.
    apply andb_true_iff in Hx as [Hx1 Hx2]. apply andb_true_iff in Hy as [Hy1 Hy2]. apply andb_true_iff in HR as [H1 H2].
    rewrite (hash_opt _ _ _ Hx1 Hy1 H1). apply IHs; assumption.
  Qed.

  Lemma hash_flds : forall fs x y, flds_wf W fs x = true -> flds_wf W fs y = true -> flds_eq R fs x y = true ->
    forall h, flds_hash A fs x h = flds_hash A fs y h.
  Proof.
    induction fs as [|fd fs IHs]; intros [|p x] [|q y]; simpl; intros Hx Hy HR h; try discriminate; try reflexivity.
    apply andb_true_iff in Hx as [Hx1 Hx2]. apply andb_true_iff in Hy as [Hy1 Hy2]. apply andb_true_iff in HR as [H1 H2].
    apply andb_true_iff in Hx1 as [_ Hx1]. apply andb_true_iff in Hy1 as [_ Hy1].
    rewrite (hash_opt _ _ _ Hx1 Hy1 H1). apply IHs; assumption.
  Qed.

  Lemma body_hash : forall t a b, wf_body e W t a = true -> wf_body e W t b = true -> eq_body e R t a b = true ->
    hash_body P A H e t a = hash_body P A H e t b /\ forall h, add_body P A H t a h = add_body P A H t b h.
  Proof.
    intros t a b Ha Hb HR. destruct (IH2 _ _ _ Ha Hb HR) as [EH EA].
    destruct t.
    - simpl in *. split; [|intros h]; apply prim_equal_add; assumption.
    - split; [simpl in *; apply prim_equal_add; assumption|].
      intros h. destruct a; destruct b; simpl; rewrite EH; reflexivity.
    - destruct a; simpl in Ha; try discriminate; destruct b; simpl in Hb; try discriminate; simpl in HR.
      apply andb_true_iff in HR as [_ HR]. apply Nat.eqb_eq in HR. subst. split; reflexivity.
    - destruct a; simpl in Ha; try discriminate; destruct b; simpl in Hb; try discriminate; simpl in HR.
      apply bytes_eqb_eq in HR. subst. split; reflexivity.
    - split; [|intros h; destruct a; destruct b; simpl; rewrite EH; reflexivity].
      destruct a; simpl in Ha; try discriminate; destruct b; simpl in Hb; try discriminate; simpl in HR; try discriminate; simpl.
      + destruct (hlookup e n) as [[rincs rfs|umts]|]; try discriminate.
        apply andb_true_iff in Ha as [Ha1 Ha2]. apply andb_true_iff in Hb as [Hb1 Hb2]. apply andb_true_iff in HR as [H1 H2].
        rewrite (hash_incs _ _ _ Ha1 Hb1 H1). apply hash_flds; assumption.
      + destruct (hlookup e n) as [[rincs rfs|umts]|]; try discriminate. apply hash_mems; assumption.
    - split; [destruct a; destruct b; simpl; apply EA|].
      intros h.
      destruct a; simpl in Ha; try discriminate; destruct b; simpl in Hb; try discriminate; simpl in HR. simpl.
      apply andb_true_iff in HR as [H1 H2]. apply Nat.eqb_eq in H1. apply hash_arr; assumption.
    - split; [destruct a; destruct b; simpl; apply EA|].
      intros h.
      destruct a; simpl in Ha; try discriminate; destruct b; simpl in Hb; try discriminate; simpl in HR. simpl.
      apply andb_true_iff in HR as [H1 H2]. apply Nat.eqb_eq in H1.
      apply andb_true_iff in Ha as [Ha1 Ha2]. apply andb_true_iff in Hb as [Hb1 Hb2].
      unfold add_map_hashes. rewrite Hsort. f_equal. apply sortN_perm.
      apply hash_map; [assumption | assumption | apply map_eq_aligned; assumption].
  Qed.
End HashStep.

Lemma equal_implies_same_hash_gen : forall P e, fp_norm32 P = true -> fp_norm64 P = true -> fp_map_sorted P = true ->
  forall f g, f <= g -> forall t a b,
  wfV e g t a = true -> wfV e g t b = true -> equalsV e g t a b = true ->
  hashV P e f t a = hashV P e f t b /\ forall h, addV P e f t a h = addV P e f t b h.
Proof.
  intros P e Hn32 Hn64 Hsort. induction f as [|f IHf]; intros g Hle t a b Ha Hb HR.
  - split; reflexivity.
  - destruct g as [|g]; [lia|].
    rewrite wfV_S in Ha, Hb. rewrite equalsV_S in HR.
    assert (E : hash_body P (addV P e f) (hashV P e f) e t a = hash_body P (addV P e f) (hashV P e f) e t b /\
                forall h, add_body P (addV P e f) (hashV P e f) t a h = add_body P (addV P e f) (hashV P e f) t b h).
    { apply (body_hash P e (wfV e g) (equalsV e g)); try assumption.
      - intros t' a' b' Ha' Hb' HR'. apply (IHf g); [lia | assumption | assumption | assumption].
      - intros t' a' b' Ha' Hb' HR'. apply (IHf (S g)); [lia | | |].
        + rewrite wfV_S. exact Ha'.
        + rewrite wfV_S. exact Hb'.
        + rewrite equalsV_S. exact HR'. }
    destruct E as [E1 E2]. split.
    + rewrite !hashV_S. exact E1.
    + intros h. rewrite !addV_S. apply E2.
Qed.

Lemma equal_implies_same_hash_add : forall P e f t a b,
  fp_norm32 P = true -> fp_norm64 P = true -> fp_map_sorted P = true ->
  wfV e f t a = true -> wfV e f t b = true -> equalsV e f t a b = true ->
  hashV P e f t a = hashV P e f t b /\ forall h, addV P e f t a h = addV P e f t b h.
Proof.
  intros P e f t a b Hn32 Hn64 Hsort Ha Hb HR.
  apply (equal_implies_same_hash_gen P e Hn32 Hn64 Hsort f f (le_n f) t a b Ha Hb HR).
Qed.

Lemma equal_implies_same_hash : forall P e f t a b,
  fp_norm32 P = true -> fp_norm64 P = true -> fp_map_sorted P = true ->
  wfV e f t a = true -> wfV e f t b = true -> equalsV e f t a b = true ->
  hashV P e f t a = hashV P e f t b.
Proof.
  intros P e f t a b Hn32 Hn64 Hsort Ha Hb HR.
  apply (equal_implies_same_hash_add P e f t a b Hn32 Hn64 Hsort Ha Hb HR).
Qed.

Lemma equal_implies_same_add : forall P e f t a b,
  fp_norm32 P = true -> fp_norm64 P = true -> fp_map_sorted P = true ->
  wfV e f t a = true -> wfV e f t b = true -> equalsV e f t a b = true ->
  forall h, addV P e f t a h = addV P e f t b h.
Proof.
  intros P e f t a b Hn32 Hn64 Hsort Ha Hb HR.
  apply (equal_implies_same_hash_add P e f t a b Hn32 Hn64 Hsort Ha Hb HR).
Qed.

(* 9 *)
Lemma hash_same : forall P e f t a b,
  fp_norm32 P = true -> fp_norm64 P = true -> fp_map_sorted P = true ->
  same a b -> wfV e f t a = true -> hashV P e f t a = hashV P e f t b.
Proof.
  intros P e f t a b Hn32 Hn64 Hsort Hs Ha.
  destruct (same_equals_wf e f t a b Hs Ha) as [HR Hb].
  apply equal_implies_same_hash; assumption.
Qed.

(* ---------------------------------------------------------------------------------------------------------------- *)
(* 10. complex keys: the key part only *)
Lemma ck_equals_refl : forall e f n v, ck_wfV e f n v = true -> ck_equalsV e f n v v = true.
Proof.
  intros e f n v. unfold ck_wfV, ck_equalsV.
  destruct (hlookup e n) as [[[|k ks] fs|mts]|]; try discriminate.
  destruct v as [| | | | | | | | |[|kv ivs] fvs| | |]; try discriminate.
  apply equals_refl.
Qed.

Lemma ck_equals_sym : forall e f n a b, ck_wfV e f n a = true -> ck_wfV e f n b = true ->
  ck_equalsV e f n a b = ck_equalsV e f n b a.
Proof.
  intros e f n a b. unfold ck_wfV, ck_equalsV.
  destruct (hlookup e n) as [[[|k ks] fs|mts]|]; try discriminate.
  destruct a as [| | | | | | | | |[|ka ia] fa| | |]; try discriminate.
  destruct b as [| | | | | | | | |[|kb ib] fb| | |]; try discriminate.
  apply equals_sym.
Qed.

Lemma ck_equals_trans : forall e f n a b c, ck_equalsV e f n a b = true -> ck_equalsV e f n b c = true ->
  ck_equalsV e f n a c = true.
Proof.
  intros e f n a b c. unfold ck_equalsV.
  destruct (hlookup e n) as [[[|k ks] fs|mts]|]; try discriminate.
  destruct a as [| | | | | | | | |[|ka ia] fa| | |]; try discriminate.
  destruct b as [| | | | | | | | |[|kb ib] fb| | |]; try discriminate.
  destruct c as [| | | | | | | | |[|kc ic] fc| | |]; try discriminate.
  apply equals_trans.
Qed.

Lemma ck_equal_implies_same_hash : forall P e f n a b,
  fp_norm32 P = true -> fp_norm64 P = true -> fp_map_sorted P = true ->
  ck_wfV e f n a = true -> ck_wfV e f n b = true -> ck_equalsV e f n a b = true ->
  ck_hashV P e f n a = ck_hashV P e f n b.
Proof.
  intros P e f n a b Hn32 Hn64 Hsort. unfold ck_wfV, ck_equalsV, ck_hashV.
  destruct (hlookup e n) as [[[|k ks] fs|mts]|]; try discriminate.
  destruct a as [| | | | | | | | |[|ka ia] fa| | |]; try discriminate.
  destruct b as [| | | | | | | | |[|kb ib] fb| | |]; try discriminate.
  apply equal_implies_same_hash; assumption.
Qed.

Lemma ck_ignores_params : forall e f n ka kb ia ib fa fb ia' ib' fa' fb',
  ck_equalsV e f n (VRec (ka :: ia) fa) (VRec (kb :: ib) fb) =
  ck_equalsV e f n (VRec (ka :: ia') fa') (VRec (kb :: ib') fb').
Proof. intros. unfold ck_equalsV. reflexivity. Qed.

Lemma ck_hash_ignores_params : forall P e f n ka ia fa ia' fa',
  ck_hashV P e f n (VRec (ka :: ia) fa) = ck_hashV P e f n (VRec (ka :: ia') fa').
Proof. intros. unfold ck_hashV. reflexivity. Qed.

(* ---------------------------------------------------------------------------------------------------------------- *)
(* 11. regression witnesses: what goes wrong without the zero normalisation / without sorting the entry hashes *)
Definition unnormalised (P : fnv_params) : fnv_params :=
  {| fp_offset := fp_offset P; fp_prime := fp_prime P; fp_mask := fp_mask P; fp_u32_shifts := fp_u32_shifts P;
     fp_u64_shifts := fp_u64_shifts P; fp_norm32 := false; fp_norm64 := false; fp_map_sorted := fp_map_sorted P |}.

Definition unsorted (P : fnv_params) : fnv_params :=
  {| fp_offset := fp_offset P; fp_prime := fp_prime P; fp_mask := fp_mask P; fp_u32_shifts := fp_u32_shifts P;
     fp_u64_shifts := fp_u64_shifts P; fp_norm32 := fp_norm32 P; fp_norm64 := fp_norm64 P; fp_map_sorted := false |}.

Lemma hash_without_normalisation_refuted : exists a b,
  wfV [] 2 (HPrim PDouble) a = true /\ wfV [] 2 (HPrim PDouble) b = true /\
  equalsV [] 2 (HPrim PDouble) a b = true /\
  hashV (unnormalised v2_params) [] 2 (HPrim PDouble) a <> hashV (unnormalised v2_params) [] 2 (HPrim PDouble) b.
Proof.
  exists (VDouble 0), (VDouble 9223372036854775808).
  split; [vm_compute; reflexivity|]. split; [vm_compute; reflexivity|]. split; [vm_compute; reflexivity|].
  vm_compute. discriminate.
Qed.

Lemma hash32_without_normalisation_refuted : exists a b,
  wfV [] 2 (HPrim PFloat) a = true /\ wfV [] 2 (HPrim PFloat) b = true /\
  equalsV [] 2 (HPrim PFloat) a b = true /\
  hashV (unnormalised v2_params) [] 2 (HPrim PFloat) a <> hashV (unnormalised v2_params) [] 2 (HPrim PFloat) b.
Proof.
  exists (VFloat 0), (VFloat 2147483648).
  split; [vm_compute; reflexivity|]. split; [vm_compute; reflexivity|]. split; [vm_compute; reflexivity|].
  vm_compute. discriminate.
Qed.

Lemma hash_unsorted_map_refuted : exists a b,
  wfV [] 3 (HMap (HPrim PInt)) a = true /\ wfV [] 3 (HMap (HPrim PInt)) b = true /\
  equalsV [] 3 (HMap (HPrim PInt)) a b = true /\
  hashV (unsorted v2_params) [] 3 (HMap (HPrim PInt)) a <> hashV (unsorted v2_params) [] 3 (HMap (HPrim PInt)) b.
Proof.
  exists (VMap [([x61], VInt 1); ([x62], VInt 2)]), (VMap [([x62], VInt 2); ([x61], VInt 1)]).
  split; [vm_compute; reflexivity|]. split; [vm_compute; reflexivity|]. split; [vm_compute; reflexivity|].
  vm_compute. discriminate.
Qed.

(* the same two witnesses hash equal with the parameters read from the code *)
Lemma hash_witnesses_agree_as_shipped :
  hashV v2_params [] 2 (HPrim PDouble) (VDouble 0) = hashV v2_params [] 2 (HPrim PDouble) (VDouble 9223372036854775808) /\
  hashV v2_params [] 3 (HMap (HPrim PInt)) (VMap [([x61], VInt 1); ([x62], VInt 2)]) =
  hashV v2_params [] 3 (HMap (HPrim PInt)) (VMap [([x62], VInt 2); ([x61], VInt 1)]).
Proof. split; vm_compute; reflexivity. Qed.
