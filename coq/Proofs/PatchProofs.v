(* PatchProofs (C11 / C07, partial updates): the generated X_PartialUpdate code (Codec/Patch.v) against an independent reading of
   "a partial update does not set-and-delete or set-and-patch the same field, delete a required field, or touch an excluded field".

   Vocabulary
     tpatch e n p          p has the shape of the Go struct X_PartialUpdate of record n (static typing): one slot per field, no delete
                           flag raised on a required field (the Go struct has no such flag: a required field cannot even be
                           REPRESENTED as deleted), nested patches only on record-typed fields, set values typed.
                           Stated for records WITHOUT included records; with includes the statements are false (section 7).
     legal e ex path n p   the property: at every depth of nested patches, every field is touched at most once (delete / set /
                           nested patch) and no touched field is excluded; [ex] is the exclusion predicate on the path of field names
                           from the patched record down to the field.
     client side           ex path = ps_matches wildcard excl path : the writer is the KeyChecker and SetScope() made the
                           directives relative to the record.
     server side           the reader is the KeyChecker; with leadingScopeToIgnore = length pre + 1 it sees the same relative paths
                           ("$set" skipped by genericMatches). *)
From Coq Require Import List Bool Arith ZArith NArith Lia.
From Coq.Strings Require Import Byte.
From GR Require Import Base.Bytes Base.Res Codec.Schema Codec.Doc Codec.Tracker Codec.Encode Codec.Json Codec.Decode Codec.Patch
  Proofs.PathSpecProofs Proofs.ValidityProofs.
Import ListNotations.

(* ==================================================================================================================== *)
(* 0. Specification                                                                                                       *)
(* ==================================================================================================================== *)
Section Spec.
  Variable e : env.

  Inductive tpatch : nat -> patch -> Prop :=
  | tp_rec n fs ds ss ns :
      lookup e n = Some (DRecord [] fs) -> tfields fs ds ss ns -> tpatch n (PPatch [] ds ss ns)
  with tfields : list field -> list bool -> list (option value) -> list (option patch) -> Prop :=
  | tf_nil : tfields [] [] [] []
  | tf_cons fd fs d ds s ss np ns :
      (is_required (f_opt fd) = true -> d = false) ->
      (forall v, s = Some v -> typed e (f_ty fd) v) ->
      (np <> None -> rec_of e (f_ty fd) <> None) ->
      (forall q m, np = Some q -> rec_of e (f_ty fd) = Some m -> tpatch m q) ->
      tfields fs ds ss ns ->
      tfields (fd :: fs) (d :: ds) (s :: ss) (np :: ns).

  Variable ex : list bytes -> bool.

  (* at most one of delete / set / nested patch *)
  Definition at_most_one (d s p : bool) : Prop := ~ (d = true /\ s = true) /\ ~ (s = true /\ p = true) /\ ~ (d = true /\ p = true).
  Definition touched (d s p : bool) : Prop := d = true \/ s = true \/ p = true.

  Inductive legal : list bytes -> nat -> patch -> Prop :=
  | lg_rec path n fs ds ss ns :
      lookup e n = Some (DRecord [] fs) -> lfields path fs ds ss ns -> legal path n (PPatch [] ds ss ns)
  with lfields : list bytes -> list field -> list bool -> list (option value) -> list (option patch) -> Prop :=
  | lf_nil path : lfields path [] [] [] []
  | lf_cons path fd fs d ds s ss np ns :
      at_most_one d (is_some s) (is_some np) ->
      (touched d (is_some s) (is_some np) -> ex (path ++ [f_name fd]) = false) ->
      (forall q m, np = Some q -> rec_of e (f_ty fd) = Some m -> legal (path ++ [f_name fd]) m q) ->
      lfields path fs ds ss ns ->
      lfields path (fd :: fs) (d :: ds) (s :: ss) (np :: ns).

  (* some touched field, at some depth, is excluded *)
  Inductive touches_excluded : list bytes -> nat -> patch -> Prop :=
  | te_here path n fs ds ss ns i fd d s np :
      lookup e n = Some (DRecord [] fs) ->
      nth_error fs i = Some fd -> nth_error ds i = Some d -> nth_error ss i = Some s -> nth_error ns i = Some np ->
      touched d (is_some s) (is_some np) -> ex (path ++ [f_name fd]) = true ->
      touches_excluded path n (PPatch [] ds ss ns)
  | te_below path n fs ds ss ns i fd q m :
      lookup e n = Some (DRecord [] fs) ->
      nth_error fs i = Some fd -> nth_error ns i = Some (Some q) -> rec_of e (f_ty fd) = Some m ->
      touches_excluded (path ++ [f_name fd]) m q ->
      touches_excluded path n (PPatch [] ds ss ns).

  (* every set value satisfies the schema constraints (unions, enums: ValidityProofs.valid) *)
  Inductive sets_valid : nat -> patch -> Prop :=
  | sv_rec n fs ds ss ns :
      lookup e n = Some (DRecord [] fs) -> svfields fs ss ns -> sets_valid n (PPatch [] ds ss ns)
  with svfields : list field -> list (option value) -> list (option patch) -> Prop :=
  | svf_nil : svfields [] [] []
  | svf_cons fd fs s ss np ns :
      (forall v, s = Some v -> valid e (f_ty fd) v) ->
      (forall q m, np = Some q -> rec_of e (f_ty fd) = Some m -> sets_valid m q) ->
      svfields fs ss ns -> svfields (fd :: fs) (s :: ss) (np :: ns).
End Spec.

(* depth of nested patches, and the largest depth of a set value: the recursion budget of the model *)
Fixpoint pdepth (p : patch) : nat :=
  match p with
  | PPatch is _ _ ns =>
      S (Nat.max (list_max (map pdepth is)) (list_max (map (fun o : option patch => match o with Some q => pdepth q | None => 0 end) ns)))
  end.
Fixpoint pvdepth (p : patch) : nat :=
  match p with
  | PPatch is _ ss ns =>
      Nat.max (list_max (map (fun o : option value => match o with Some v => vdepth v | None => 0 end) ss))
              (Nat.max (list_max (map pvdepth is))
                       (list_max (map (fun o : option patch => match o with Some q => pvdepth q | None => 0 end) ns)))
  end.
Definition fuel_ok (fuel : nat) (p : patch) : Prop := pdepth p + pvdepth p + 2 <= fuel.

(* ==================================================================================================================== *)
(* 1. CheckField / CheckFields at one level                                                                              *)
(* ==================================================================================================================== *)
Lemma check_field_ok exc name d s p acc acc' :
  check_field exc name d s p acc = Ok acc' ->
  (touched d s p -> exc name = false) /\ at_most_one d s p /\ acc' = (fst acc || d, snd acc || s).
Proof.
  unfold check_field, touched, at_most_one. intros H.
  destruct (negb (d || s || p)) eqn:E0.
  - inversion H; subst. apply negb_true_iff in E0. destruct d, s, p; try discriminate.
    split; [intros [X|[X|X]]; discriminate|]. split; [intuition discriminate|].
    destruct acc'; simpl; rewrite !orb_false_r; reflexivity.
  - destruct (exc name) eqn:Ex; [discriminate|]. destruct (d && s || d && p || s && p) eqn:E1; [discriminate|].
    inversion H; subst. split; [reflexivity|]. split; [|reflexivity].
    destruct d, s, p; simpl in E1; try discriminate; intuition discriminate.
Qed.

Lemma check_field_legal exc name d s p acc :
  (touched d s p -> exc name = false) -> at_most_one d s p ->
  check_field exc name d s p acc = Ok (fst acc || d, snd acc || s).
Proof.
  unfold check_field, touched, at_most_one. intros Hx [H1 [H2 H3]].
  destruct d, s, p; simpl; try (exfalso; tauto); try (rewrite Hx by tauto; simpl);
    destruct acc as [a b]; simpl; rewrite ?orb_false_r; reflexivity.
Qed.

Lemma check_field_err exc name d s p acc x : check_field exc name d s p acc = Err x -> x = EPatch.
Proof.
  unfold check_field. destruct (negb (d || s || p)); [discriminate|]. destruct (exc name); [congruence|].
  destruct (d && s || d && p || s && p); [congruence | discriminate].
Qed.

Lemma check_field_no_panic exc name d s p acc : check_field exc name d s p acc <> Panic.
Proof.
  unfold check_field. destruct (negb (d || s || p)); [discriminate|]. destruct (exc name); [discriminate|].
  destruct (d && s || d && p || s && p); discriminate.
Qed.

Lemma check_field_excluded exc name d s p acc : touched d s p -> exc name = true -> check_field exc name d s p acc = Err EPatch.
Proof.
  unfold check_field, touched. intros Ht Hx. rewrite Hx.
  destruct d, s, p; simpl; try reflexivity. exfalso. destruct Ht as [H|[H|H]]; discriminate.
Qed.

Section Level.
  Variable e : env.

  (* the flags the generator hands to CheckField, for a struct of the right shape, are the slots themselves *)
  Lemma flags_typed fd d (np : option patch) :
    (is_required (f_opt fd) = true -> d = false) -> (np <> None -> rec_of e (f_ty fd) <> None) ->
    (if is_required (f_opt fd) then false else d) = d /\
    (match rec_of e (f_ty fd) with Some _ => is_some np | None => false end) = is_some np.
  Proof.
    intros Hd Hn. split.
    - destruct (is_required (f_opt fd)); [symmetry; apply Hd; reflexivity | reflexivity].
    - destruct (rec_of e (f_ty fd)) eqn:E; [reflexivity|]. destruct np; [|reflexivity]. exfalso. apply Hn; [discriminate|reflexivity].
  Qed.

  Lemma check_own_err exc : forall fs ds ss ns acc x, check_own e exc fs ds ss ns acc = Err x -> x = EPatch \/ x = EType.
  Proof.
    induction fs as [|fd fs IH]; intros ds ss ns acc x H.
    - destruct ds, ss, ns; simpl in H; try discriminate; inversion H; right; reflexivity.
    - destruct ds as [|d ds], ss as [|s ss], ns as [|np ns]; simpl in H; try (inversion H; right; reflexivity).
      destruct (check_field exc (f_name fd) _ _ _ acc) as [a|y|] eqn:E; simpl in H; try discriminate.
      + eapply IH; exact H.
      + inversion H; subst. left. eapply check_field_err; exact E.
  Qed.

  (* one level of the property, for the exclusion predicate [exc] on field NAMES *)
  Inductive level_legal (exc : bytes -> bool) : list field -> list bool -> list (option value) -> list (option patch) -> Prop :=
  | ll_nil : level_legal exc [] [] [] []
  | ll_cons fd fs d ds s ss np ns :
      at_most_one d (is_some s) (is_some np) ->
      (touched d (is_some s) (is_some np) -> exc (f_name fd) = false) ->
      level_legal exc fs ds ss ns -> level_legal exc (fd :: fs) (d :: ds) (s :: ss) (np :: ns).

  Lemma check_own_ok exc : forall fs ds ss ns acc acc',
    tfields e fs ds ss ns -> check_own e exc fs ds ss ns acc = Ok acc' ->
    level_legal exc fs ds ss ns /\
    acc' = (fst acc || existsb (fun b => b) ds, snd acc || existsb is_some ss).
  Proof.
    induction fs as [|fd fs IH]; intros ds ss ns acc acc' Ht H; inversion Ht; subst.
    - simpl in H. inversion H; subst. split; [constructor|]. destruct acc'; simpl. rewrite !orb_false_r. reflexivity.
    - simpl in H.
      destruct (flags_typed fd d np) as [F1 F2]; [assumption|assumption|]. rewrite F1, F2 in H.
      destruct (check_field exc (f_name fd) d (is_some s) (is_some np) acc) as [a|y|] eqn:E; simpl in H; try discriminate.
      apply check_field_ok in E as [Hx [Hone ->]].
      destruct (IH _ _ _ _ _ ltac:(eassumption) H) as [Hl ->]. split; [constructor; assumption|].
      simpl. rewrite !orb_assoc. reflexivity.
  Qed.

  Lemma check_own_legal exc : forall fs ds ss ns acc,
    tfields e fs ds ss ns -> level_legal exc fs ds ss ns ->
    check_own e exc fs ds ss ns acc = Ok (fst acc || existsb (fun b => b) ds, snd acc || existsb is_some ss).
  Proof.
    induction fs as [|fd fs IH]; intros ds ss ns acc Ht Hl; inversion Ht; subst; inversion Hl; subst.
    - simpl. destruct acc; simpl. rewrite !orb_false_r. reflexivity.
    - simpl. destruct (flags_typed fd d np) as [F1 F2]; [assumption|assumption|]. rewrite F1, F2.
      rewrite check_field_legal by assumption. simpl. rewrite IH by assumption. simpl. rewrite !orb_assoc. reflexivity.
  Qed.

  Lemma check_own_excluded exc : forall fs ds ss ns acc i fd d s np,
    tfields e fs ds ss ns ->
    nth_error fs i = Some fd -> nth_error ds i = Some d -> nth_error ss i = Some s -> nth_error ns i = Some np ->
    touched d (is_some s) (is_some np) -> exc (f_name fd) = true ->
    check_own e exc fs ds ss ns acc = Err EPatch.
  Proof.
    induction fs as [|fd0 fs IH]; intros ds ss ns acc i fd d s np Ht Hf Hd Hs Hn Htc Hx; inversion Ht; subst.
    - destruct i; discriminate.
    - simpl. destruct (flags_typed fd0 d0 np0) as [F1 F2]; [assumption|assumption|]. rewrite F1, F2.
      destruct i as [|i]; simpl in Hf, Hd, Hs, Hn.
      + inversion Hf; inversion Hd; inversion Hs; inversion Hn; subst. rewrite check_field_excluded by assumption. reflexivity.
      + destruct (check_field exc (f_name fd0) d0 (is_some s0) (is_some np0) acc) as [a|y|] eqn:E; simpl.
        * eapply IH; eassumption.
        * apply check_field_err in E. subst. reflexivity.
        * exfalso. eapply check_field_no_panic; exact E.
  Qed.

  (* check_patch on a record without includes *)
  Lemma check_patch_S f n exc fs ds ss ns :
    lookup e n = Some (DRecord [] fs) ->
    check_patch e (S f) n exc (PPatch [] ds ss ns) = check_own e exc fs ds ss ns (false, false).
  Proof. intros H. unfold check_patch. cbn [check_fields]. rewrite H. reflexivity. Qed.
End Level.

(* CheckFields = the property at one level (typed patches, records without includes) *)
Theorem check_patch_legal_iff e f n exc fs ds ss ns :
  lookup e n = Some (DRecord [] fs) -> tfields e fs ds ss ns ->
  ((exists hs, check_patch e (S f) n exc (PPatch [] ds ss ns) = Ok hs) <-> level_legal exc fs ds ss ns).
Proof.
  intros Hl Ht. rewrite (check_patch_S e f n exc fs ds ss ns Hl). split.
  - intros [hs H]. eapply check_own_ok in H; [exact (proj1 H) | exact Ht].
  - intros H. eexists. apply check_own_legal; assumption.
Qed.

Theorem check_patch_flags e f n exc fs ds ss ns hd hs :
  lookup e n = Some (DRecord [] fs) -> tfields e fs ds ss ns ->
  check_patch e (S f) n exc (PPatch [] ds ss ns) = Ok (hd, hs) ->
  hd = existsb (fun b => b) ds /\ hs = existsb is_some ss.
Proof.
  intros Hl Ht H. rewrite (check_patch_S e f n exc fs ds ss ns Hl) in H.
  eapply check_own_ok in H; [|exact Ht]. destruct H as [_ H]. simpl in H. inversion H. split; reflexivity.
Qed.

(* ==================================================================================================================== *)
(* 2. Encoding: MarshalRestLiPatch succeeds exactly on the legal partial updates                                          *)
(* ==================================================================================================================== *)
Lemma bind_ok' {A B} (r : res A) (k : A -> res B) b : bind r k = Ok b -> exists a, r = Ok a /\ k a = Ok b.
Proof. destruct r; simpl; intros H; try discriminate. eexists; split; [reflexivity|exact H]. Qed.

Section Enc.
  Variables (e : env) (w : bytes) (x : pathspec).
  Variable scope0 : list bytes.      (* the scope of the writer handed to the outermost MarshalRestLiPatch: [] after SetScope() *)
  Definition ex0 (path : list bytes) : bool := excluded w x (scope0 ++ path).

  Lemma enc_patch_at_S f scope n fs ds ss ns :
    lookup e n = Some (DRecord [] fs) ->
    enc_patch_at e w x (S f) scope n (PPatch [] ds ss ns) =
    (do hs <- check_patch e f n (fun k => excluded w x (scope ++ [k])) (PPatch [] ds ss ns);
     do del <- (if fst hs then
                  if excluded w x (scope ++ [op_delete]) then Ok []
                  else Ok [(op_delete, DArr (map str_leaf (delete_names e n (PPatch [] ds ss ns))))]
                else Ok []);
     do set <- (if snd hs then
                  if excluded w x (scope ++ [op_set]) then Ok []
                  else do ents <- set_entries e w x f (scope ++ [op_set]) n (PPatch [] ds ss ns); Ok [(op_set, DObj (sort_entries ents))]
                else Ok []);
     do nst <- nested_entries e w x (enc_patch_at e w x f) scope fs ns;
     Ok (DObj (sort_entries (del ++ set ++ nst)))).
  Proof. intros H. cbn [enc_patch_at]. rewrite H. reflexivity. Qed.

  Lemma level_shift path fs ds ss ns :
    level_legal (fun k => excluded w x ((scope0 ++ path) ++ [k])) fs ds ss ns <->
    level_legal (fun k => ex0 (path ++ [k])) fs ds ss ns.
  Proof.
    assert (E : forall k, excluded w x ((scope0 ++ path) ++ [k]) = ex0 (path ++ [k])).
    { intros k. unfold ex0. rewrite app_assoc. reflexivity. }
    split; intros H; induction H; constructor; try assumption; intros Ht; [rewrite <- E | rewrite E]; auto.
  Qed.

  (* ---- accepted => legal ---- *)
  Lemma nested_ok_lfields (rec : list bytes -> nat -> patch -> res doc) path :
    (forall m q d, tpatch e m q -> forall name, rec ((scope0 ++ path) ++ [name]) m q = Ok d -> legal e ex0 (path ++ [name]) m q) ->
    forall fs ds ss ns nst, tfields e fs ds ss ns ->
      level_legal (fun k => ex0 (path ++ [k])) fs ds ss ns ->
      nested_entries e w x rec (scope0 ++ path) fs ns = Ok nst ->
      lfields e ex0 path fs ds ss ns.
  Proof.
    intros Hrec. induction fs as [|fd fs IH]; intros ds ss ns nst Ht Hl H; inversion Ht; subst; inversion Hl; subst.
    - constructor.
    - cbn [nested_entries] in H. apply bind_ok' in H as [here [Hh H]]. apply bind_ok' in H as [rest [Hr _]].
      constructor; [assumption|assumption| |eapply IH; eassumption].
      intros q m -> Hm. rewrite Hm in Hh.
      assert (Hx : ex0 (path ++ [f_name fd]) = false).
      { match goal with Hc : touched _ _ _ -> _ = false |- _ => apply Hc end. right. right. reflexivity. }
      unfold ex0 in Hx. rewrite app_assoc in Hx. rewrite Hx in Hh.
      apply bind_ok' in Hh as [d0 [Hd _]].
      eapply Hrec; [|exact Hd].
      match goal with Hq : forall q m, Some _ = Some q -> _ |- _ => eapply Hq; [reflexivity|exact Hm] end.
  Qed.

  Theorem enc_ok_legal : forall fuel path n p d,
    tpatch e n p -> enc_patch_at e w x fuel (scope0 ++ path) n p = Ok d -> legal e ex0 path n p.
  Proof.
    induction fuel as [|f IH]; intros path n p d Ht H; [discriminate|].
    inversion Ht as [n0 fs ds ss ns Hl Hf]; subst.
    rewrite (enc_patch_at_S f _ n fs ds ss ns Hl) in H.
    apply bind_ok' in H as [hs [Hc H]]. apply bind_ok' in H as [del [_ H]]. apply bind_ok' in H as [set [_ H]].
    apply bind_ok' in H as [nst [Hn _]].
    destruct f as [|f']; [discriminate|].
    rewrite (check_patch_S e f' n _ fs ds ss ns Hl) in Hc.
    eapply check_own_ok in Hc; [|exact Hf]. destruct Hc as [Hlev _]. apply level_shift in Hlev.
    apply (lg_rec e ex0 path n fs ds ss ns Hl).
    eapply nested_ok_lfields; [|exact Hf|exact Hlev|exact Hn].
    intros m q d0 Hq name Hd. rewrite <- app_assoc in Hd. eapply IH; eassumption.
  Qed.

  (* ---- legal (and valid set values, enough budget) => accepted ---- *)
  Lemma own_set_entries_ok F scope : forall fs ss,
    Forall2 (fun fd s => forall v, s = Some v -> typed e (f_ty fd) v /\ valid e (f_ty fd) v /\ vdepth v < F) fs ss ->
    exists ents, own_set_entries e w x F scope fs ss = Ok ents.
  Proof.
    intros fs ss H. induction H as [|fd s fs ss Hv _ IH]; [eexists; reflexivity|].
    cbn [own_set_entries]. destruct IH as [rest ->].
    destruct s as [v|]; [|eexists; reflexivity].
    destruct (Hv v eq_refl) as [Ht [Hva Hd]]. unfold enc_key.
    destruct (excluded w x (scope ++ [f_name fd])).
    - rewrite (enc_noop_valid e _ _ Hva). eexists; reflexivity.
    - destruct (valid_emitted e w x F (scope ++ [f_name fd]) _ _ Ht Hva Hd) as [d ->]. eexists; reflexivity.
  Qed.

  Lemma nested_entries_ok (rec : list bytes -> nat -> patch -> res doc) (Q : nat -> patch -> Prop) path :
    (forall name q m, tpatch e m q -> legal e ex0 (path ++ [name]) m q -> Q m q ->
                      exists d, rec ((scope0 ++ path) ++ [name]) m q = Ok d) ->
    forall fs ds ss ns, tfields e fs ds ss ns -> lfields e ex0 path fs ds ss ns ->
      Forall2 (fun fd np => forall q m, np = Some q -> rec_of e (f_ty fd) = Some m -> Q m q) fs ns ->
      exists nst, nested_entries e w x rec (scope0 ++ path) fs ns = Ok nst.
  Proof.
    intros Hrec. induction fs as [|fd fs IH]; intros ds ss ns Ht Hl HQ; inversion Ht; subst; inversion Hl; subst; inversion HQ; subst.
    - eexists; reflexivity.
    - cbn [nested_entries].
      destruct (IH _ _ _ ltac:(eassumption) ltac:(eassumption) ltac:(eassumption)) as [rest ->].
      destruct (rec_of e (f_ty fd)) as [m|] eqn:Em; [|eexists; reflexivity].
      destruct np as [q|]; [|eexists; reflexivity].
      destruct (excluded w x ((scope0 ++ path) ++ [f_name fd])); [eexists; reflexivity|].
      destruct (Hrec (f_name fd) q m) as [d9 ->]; [| | |eexists; reflexivity].
      + match goal with Hq : forall q0 m0, Some q = Some q0 -> Some m = Some m0 -> tpatch e m0 q0 |- _ => exact (Hq q m eq_refl eq_refl) end.
      + match goal with Hq : forall q0 m0, Some q = Some q0 -> Some m = Some m0 -> legal _ _ _ m0 q0 |- _ => exact (Hq q m eq_refl eq_refl) end.
      + match goal with Hq : forall q0 m0, Some q = Some q0 -> Some m = Some m0 -> Q m0 q0 |- _ => exact (Hq q m eq_refl eq_refl) end.
  Qed.

  (* depth bookkeeping *)
  Lemma sets_F2 F : forall fs ds ss ns, tfields e fs ds ss ns -> svfields e fs ss ns ->
    (forall v, In (Some v) ss -> vdepth v < F) ->
    Forall2 (fun fd s => forall v, s = Some v -> typed e (f_ty fd) v /\ valid e (f_ty fd) v /\ vdepth v < F) fs ss.
  Proof.
    induction fs as [|fd fs IH]; intros ds ss ns Ht Hs Hb; inversion Ht; subst; inversion Hs; subst; constructor.
    - intros v ->. repeat split; [auto|auto|apply Hb; left; reflexivity].
    - eapply IH; try eassumption. intros v Hv. apply Hb. right. exact Hv.
  Qed.

  Lemma nested_F2 (B : patch -> Prop) : forall fs ss ns, svfields e fs ss ns ->
    (forall q, In (Some q) ns -> B q) ->
    Forall2 (fun fd np => forall q m, np = Some q -> rec_of e (f_ty fd) = Some m -> sets_valid e m q /\ B q) fs ns.
  Proof.
    induction fs as [|fd fs IH]; intros ss ns Hs Hb; inversion Hs; subst; constructor.
    - intros q m -> Hm. split; [eauto|apply Hb; left; reflexivity].
    - eapply IH; try eassumption. intros q Hq. apply Hb. right. exact Hq.
  Qed.

  Lemma list_max_opt {A} (g : A -> nat) (l : list (option A)) a :
    In (Some a) l -> g a <= list_max (map (fun o : option A => match o with Some y => g y | None => 0 end) l).
  Proof. intros H. apply (list_max_In (g a)). apply in_map_iff. exists (Some a). split; [reflexivity|exact H]. Qed.

  Theorem legal_enc_ok : forall fuel path n p,
    tpatch e n p -> sets_valid e n p -> legal e ex0 path n p -> fuel_ok fuel p ->
    exists d, enc_patch_at e w x fuel (scope0 ++ path) n p = Ok d.
  Proof.
    induction fuel as [|f IH]; intros path n p Ht Hs Hl Hfu; [unfold fuel_ok in Hfu; lia|].
    inversion Ht as [n0 fs ds ss ns Hlk Hf]; subst.
    inversion Hs as [n1 fs1 ds1 ss1 ns1 Hlk1 Hsv]; subst. rewrite Hlk in Hlk1. inversion Hlk1; subst fs1. clear Hlk1.
    inversion Hl as [path2 n2 fs2 ds2 ss2 ns2 Hlk2 Hlf]; subst. rewrite Hlk in Hlk2. inversion Hlk2; subst fs2. clear Hlk2.
    unfold fuel_ok in Hfu. cbn [pdepth pvdepth map list_max] in Hfu.
    set (PD := list_max (map (fun o : option patch => match o with Some q => pdepth q | None => 0 end) ns)) in *.
    set (PV := list_max (map (fun o : option patch => match o with Some q => pvdepth q | None => 0 end) ns)) in *.
    set (VD := list_max (map (fun o : option value => match o with Some v => vdepth v | None => 0 end) ss)) in *.
    assert (HPD : forall q, In (Some q) ns -> pdepth q <= PD) by (intros q Hq; exact (list_max_opt pdepth ns q Hq)).
    assert (HPV : forall q, In (Some q) ns -> pvdepth q <= PV) by (intros q Hq; exact (list_max_opt pvdepth ns q Hq)).
    assert (HVD : forall v, In (Some v) ss -> vdepth v <= VD) by (intros v Hv; exact (list_max_opt vdepth ss v Hv)).
    destruct f as [|[|f2]]; [lia|lia|].
    rewrite (enc_patch_at_S (S (S f2)) _ n fs ds ss ns Hlk).
    rewrite (check_patch_S e (S f2) n _ fs ds ss ns Hlk).
    (* the level check *)
    assert (Hlev : level_legal (fun k => ex0 (path ++ [k])) fs ds ss ns).
    { clear -Hlf. induction Hlf; constructor; assumption. }
    apply level_shift in Hlev.
    rewrite (check_own_legal e _ fs ds ss ns (false, false) Hf Hlev). cbn [bind fst snd orb].
    (* $delete *)
    assert (Hdel : exists del, (if existsb (fun b => b) ds then
                                  if excluded w x ((scope0 ++ path) ++ [op_delete]) then Ok []
                                  else Ok [(op_delete, DArr (map str_leaf (delete_names e n (PPatch [] ds ss ns))))]
                                else Ok []) = Ok del :> res (list (bytes * doc))).
    { destruct (existsb _ ds); [destruct (excluded _ _ _)|]; eexists; reflexivity. }
    destruct Hdel as [del ->]. cbn [bind].
    (* $set *)
    assert (Hset : exists set, (if existsb is_some ss then
                                  if excluded w x ((scope0 ++ path) ++ [op_set]) then Ok []
                                  else do ents <- set_entries e w x (S (S f2)) ((scope0 ++ path) ++ [op_set]) n (PPatch [] ds ss ns);
                                       Ok [(op_set, DObj (sort_entries ents))]
                                else Ok []) = Ok set).
    { destruct (existsb is_some ss); [|eexists; reflexivity]. destruct (excluded _ _ _); [eexists; reflexivity|].
      cbn [set_entries]. rewrite Hlk. cbn [bind].
      destruct (own_set_entries_ok (S f2) ((scope0 ++ path) ++ [op_set]) fs ss) as [ents ->]; [|eexists; reflexivity].
      eapply sets_F2; try eassumption. intros v Hv. specialize (HVD v Hv). lia. }
    destruct Hset as [set ->]. cbn [bind].
    (* nested *)
    destruct (nested_entries_ok (enc_patch_at e w x (S (S f2))) (fun m q => sets_valid e m q /\ fuel_ok (S (S f2)) q) path) with (fs := fs) (ds := ds) (ss := ss) (ns := ns)
      as [nst ->]; [| exact Hf | exact Hlf | | eexists; reflexivity].
    - intros name q m Hq Hlq [Hsq Hfq]. rewrite <- app_assoc. apply IH; assumption.
    - apply (nested_F2 (fuel_ok (S (S f2))) fs ss ns Hsv). intros q Hq. specialize (HPD q Hq). specialize (HPV q Hq). unfold fuel_ok. lia.
  Qed.
End Enc.

(* ==================================================================================================================== *)
(* 3. The client: MarshalRestLi = {"patch": MarshalRestLiPatch(writer with an empty scope)}                              *)
(* ==================================================================================================================== *)
Definition client_ex (w : bytes) (x : pathspec) (path : list bytes) : bool := ps_matches w x path.

Theorem patch_legal_iff : forall e w x fuel n p,
  excluded w x [patch_key] = false -> tpatch e n p -> sets_valid e n p -> fuel_ok fuel p ->
  ((exists d, enc_patch e w x fuel n p = Ok d) <-> legal e (client_ex w x) [] n p).
Proof.
  intros e w x fuel n p Hp Ht Hs Hf. unfold enc_patch. rewrite Hp. split.
  - intros [d H]. apply bind_ok' in H as [d0 [H _]].
    exact (enc_ok_legal e w x [] fuel [] n p d0 Ht H).
  - intros Hl. destruct (legal_enc_ok e w x [] fuel [] n p Ht Hs Hl Hf) as [d H].
    simpl app in H. rewrite H. eexists; reflexivity.
Qed.

(* the emitted document has the protocol's shape: a single member "patch" *)
Theorem enc_patch_shape : forall e w x fuel n p d,
  excluded w x [patch_key] = false -> enc_patch e w x fuel n p = Ok d -> exists body, d = DObj [(patch_key, body)].
Proof.
  intros e w x fuel n p d Hp H. unfold enc_patch in H. rewrite Hp in H. apply bind_ok' in H as [d0 [_ H]].
  inversion H. eexists; reflexivity.
Qed.

Lemma lfields_nth e ex path : forall fs ds ss ns i fd d s np,
  lfields e ex path fs ds ss ns ->
  nth_error fs i = Some fd -> nth_error ds i = Some d -> nth_error ss i = Some s -> nth_error ns i = Some np ->
  (touched d (is_some s) (is_some np) -> ex (path ++ [f_name fd]) = false) /\
  (forall q m, np = Some q -> rec_of e (f_ty fd) = Some m -> legal e ex (path ++ [f_name fd]) m q).
Proof.
  induction fs as [|fd0 fs IH]; intros ds ss ns i fd d s np Hl Hf Hd Hs Hn; [destruct i; discriminate|].
  inversion Hl; subst. destruct i as [|i]; simpl in Hf, Hd, Hs, Hn.
  - inversion Hf; inversion Hd; inversion Hs; inversion Hn; subst. split; assumption.
  - eapply IH; eassumption.
Qed.

Lemma legal_not_touches e ex : forall path n p, touches_excluded e ex path n p -> legal e ex path n p -> False.
Proof.
  intros path n p Ht. induction Ht as [path n fs ds ss ns i fd d s np Hlk Hf Hd Hs Hn Htc Hx
                                       | path n fs ds ss ns i fd q m Hlk Hf Hn Hm Hq IH]; intros Hl;
    inversion Hl as [path2 n2 fs2 ds2 ss2 ns2 Hlk2 Hlf]; subst; rewrite Hlk in Hlk2; inversion Hlk2; subst fs2.
  - destruct (lfields_nth e ex path fs ds ss ns i fd d s np Hlf Hf Hd Hs Hn) as [H _]. rewrite (H Htc) in Hx. discriminate.
  - assert (Hlen : exists d s, nth_error ds i = Some d /\ nth_error ss i = Some s).
    { clear -Hlf Hf. revert i Hf. induction Hlf; intros i Hf; [destruct i; discriminate|].
      destruct i; [do 2 eexists; split; reflexivity | simpl in Hf |- *; eauto]. }
    destruct Hlen as [d [s [Hd Hs]]].
    destruct (lfields_nth e ex path fs ds ss ns i fd d s (Some q) Hlf Hf Hd Hs Hn) as [_ H].
    apply IH. eapply H; [reflexivity|exact Hm].
Qed.

(* C07, client side: a partial update that touches an excluded field - by $delete, by $set or through a nested partial update,
   at any depth - is never written: MarshalRestLi returns an error before anything is sent *)
Theorem excluded_patch_fails_before_send : forall e w x fuel n p,
  excluded w x [patch_key] = false -> tpatch e n p -> touches_excluded e (client_ex w x) [] n p ->
  is_ok (enc_patch e w x fuel n p) = false.
Proof.
  intros e w x fuel n p Hp Ht Hte. destruct (enc_patch e w x fuel n p) as [d|y|] eqn:E; [|reflexivity|reflexivity].
  exfalso. unfold enc_patch in E. rewrite Hp in E. apply bind_ok' in E as [d0 [H _]].
  eapply legal_not_touches; [exact Hte|]. exact (enc_ok_legal e w x [] fuel [] n p d0 Ht H).
Qed.

(* ... and when the field is touched at the outermost level the error is the IllegalPartialUpdateError raised by CheckField,
   before any key is handed to the writer *)
Theorem excluded_touch_is_illegal_partial_update : forall e w x f n fs ds ss ns i fd d s np,
  excluded w x [patch_key] = false -> lookup e n = Some (DRecord [] fs) -> tfields e fs ds ss ns ->
  nth_error fs i = Some fd -> nth_error ds i = Some d -> nth_error ss i = Some s -> nth_error ns i = Some np ->
  touched d (is_some s) (is_some np) -> client_ex w x [f_name fd] = true ->
  enc_patch e w x (S (S f)) n (PPatch [] ds ss ns) = Err EPatch.
Proof.
  intros e w x f n fs ds ss ns i fd d s np Hp Hlk Ht Hf Hd Hs Hn Htc Hx. unfold enc_patch. rewrite Hp.
  rewrite (enc_patch_at_S e w x (S f) [] n fs ds ss ns Hlk). rewrite (check_patch_S e f n _ fs ds ss ns Hlk).
  rewrite (check_own_excluded e _ fs ds ss ns (false, false) i fd d s np Ht Hf Hd Hs Hn Htc); [reflexivity|exact Hx].
Qed.

(* ==================================================================================================================== *)
(* 4. The $delete list: UnmarshalDeleteField                                                                              *)
(* ==================================================================================================================== *)
Theorem delete_list_decoding : forall e n fs ips ds ss ns name,
  lookup e n = Some (DRecord [] fs) ->
  unmarshal_delete e n (PPatch ips ds ss ns) name =
  match index_of name (map f_name fs) 0 with
  | None => Ok (PPatch ips ds ss ns)                                      (* an unknown name is tolerated *)
  | Some j =>
      match nth_error fs j with
      | Some fd => if is_required (f_opt fd) then Err EPatch               (* FieldCannotBeDeleted *)
                   else Ok (PPatch ips (set_nth j true ds) ss ns)
      | None => Ok (PPatch ips ds ss ns)
      end
  end.
Proof.
  intros e n fs ips ds ss ns name Hlk. unfold unmarshal_delete. rewrite Hlk. unfold own_unmarshal_delete.
  destruct (index_of name (map f_name fs) 0) as [j|]; [|reflexivity].
  destruct (nth_error fs j) as [fd|]; [|reflexivity]. destruct (is_required (f_opt fd)); reflexivity.
Qed.

Lemma index_of_nodup (fs : list field) j fd :
  NoDup (map f_name fs) -> nth_error fs j = Some fd -> index_of (f_name fd) (map f_name fs) 0 = Some j.
Proof.
  intros Hnd Hj. pose proof (index_of_spec (f_name fd) (map f_name fs) 0) as H.
  assert (Hm : nth_error (map f_name fs) j = Some (f_name fd)) by (rewrite nth_error_map, Hj; reflexivity).
  destruct (index_of (f_name fd) (map f_name fs) 0) as [i|].
  - destruct H as [i0 [-> [Hn _]]]. simpl. f_equal.
    apply (proj1 (NoDup_nth_error (map f_name fs)) Hnd); [apply nth_error_Some; congruence | congruence].
  - exfalso. apply H. eapply nth_error_In; exact Hm.
Qed.

Theorem delete_required_rejected : forall e n fs p j fd,
  lookup e n = Some (DRecord [] fs) -> NoDup (map f_name fs) -> nth_error fs j = Some fd -> is_required (f_opt fd) = true ->
  unmarshal_delete e n p (f_name fd) = Err EPatch.
Proof.
  intros e n fs [ips ds ss ns] j fd Hlk Hnd Hj Hr. rewrite (delete_list_decoding e n fs ips ds ss ns _ Hlk).
  rewrite (index_of_nodup fs j fd Hnd Hj), Hj, Hr. reflexivity.
Qed.

Theorem delete_unknown_tolerated : forall e n fs p name,
  lookup e n = Some (DRecord [] fs) -> ~ In name (map f_name fs) -> unmarshal_delete e n p name = Ok p.
Proof.
  intros e n fs [ips ds ss ns] name Hlk Hni. rewrite (delete_list_decoding e n fs ips ds ss ns _ Hlk).
  pose proof (index_of_spec name (map f_name fs) 0) as H. destruct (index_of name (map f_name fs) 0) as [i|]; [|reflexivity].
  exfalso. destruct H as [i0 [_ [Hn _]]]. apply Hni. eapply nth_error_In; exact Hn.
Qed.

Theorem delete_optional_sets_flag : forall e n fs ips ds ss ns j fd,
  lookup e n = Some (DRecord [] fs) -> NoDup (map f_name fs) -> nth_error fs j = Some fd -> is_required (f_opt fd) = false ->
  unmarshal_delete e n (PPatch ips ds ss ns) (f_name fd) = Ok (PPatch ips (set_nth j true ds) ss ns).
Proof.
  intros e n fs ips ds ss ns j fd Hlk Hnd Hj Hr. rewrite (delete_list_decoding e n fs ips ds ss ns _ Hlk).
  rewrite (index_of_nodup fs j fd Hnd Hj), Hj, Hr. reflexivity.
Qed.

(* a $delete array that names a required field anywhere is rejected as a whole *)
Theorem delete_array_with_required_rejected : forall e n fs items j fd,
  lookup e n = Some (DRecord [] fs) -> NoDup (map f_name fs) -> nth_error fs j = Some fd -> is_required (f_opt fd) = true ->
  In (JStr (f_name fd)) items -> forall p tr, is_ok (dec_deletes e n (JArr items) p tr) = false.
Proof.
  intros e n fs items j fd Hlk Hnd Hj Hr. unfold dec_deletes.
  induction items as [|it items IH]; intros Hin p tr; [contradiction|].
  destruct (jstring it) as [s|y|] eqn:Es; cbn [bind]; [|reflexivity|reflexivity].
  destruct Hin as [->|Hin].
  - simpl in Es. inversion Es; subst s. rewrite (delete_required_rejected e n fs p j fd Hlk Hnd Hj Hr). reflexivity.
  - destruct (unmarshal_delete e n p s) as [p'|y|]; cbn [bind]; [|reflexivity|reflexivity]. apply IH. exact Hin.
Qed.

(* ==================================================================================================================== *)
(* 5. The server: the reader is the KeyChecker                                                                            *)
(* ==================================================================================================================== *)
(* "$set" is not counted: on a path of field names, inserting the operator before the last key changes nothing *)
Lemma effective_names path r :
  Forall (fun s => is_patch_op s = false) path -> effective (path ++ r) = path ++ effective r.
Proof.
  induction 1 as [|a path Ha _ IH]; [reflexivity|]. cbn [app effective]. rewrite Ha, IH. reflexivity.
Qed.

Lemma matches_effective w p a b : effective a = effective b -> ps_matches w p a = ps_matches w p b.
Proof.
  intros E. pose proof (matches_iff_leaf w a p) as Ha. pose proof (matches_iff_leaf w b p) as Hb. rewrite E in Ha.
  destruct (ps_matches w p a), (ps_matches w p b); try reflexivity.
  - symmetry. apply Hb. apply Ha. reflexivity.
  - apply Ha. apply Hb. reflexivity.
Qed.

Theorem set_operator_skipped : forall w p path k,
  Forall (fun s => is_patch_op s = false) path -> is_patch_op k = false ->
  ps_matches w p (path ++ [op_set; k]) = ps_matches w p (path ++ [k]).
Proof.
  intros w p path k Hp Hk. apply matches_effective. rewrite !effective_names by assumption.
  cbn [effective]. rewrite Hk. reflexivity.
Qed.

(* the reader of a partial_update body (pre = [], leadingScopeToIgnore = 1) or of one entity of a batch_partial_update body
   (pre = ["entities"; key], leadingScopeToIgnore = 3), positioned at [rest] below "patch": what IsKeyExcluded / enterMapScope
   test is the path RELATIVE to the record, exactly as on the client *)
Lemma reader_relative_path w x pre rest k ms :
  is_key_excluded w x (S (length pre)) k {| t_scope := map SKey (pre ++ patch_key :: rest); t_missing := ms |}
  = ps_matches w x (rest ++ [k]).
Proof.
  unfold is_key_excluded, enter_map, push. cbn [t_scope t_missing].
  assert (Hlen : Nat.leb (length (map SKey (pre ++ patch_key :: rest) ++ [SKey k])) (S (length pre)) = false).
  { apply Nat.leb_gt. rewrite app_length, map_length, app_length. simpl. lia. }
  rewrite Hlen.
  assert (Hskip : map (seg_name w) (skipn (S (length pre)) (map SKey (pre ++ patch_key :: rest) ++ [SKey k])) = rest ++ [k]).
  { rewrite map_app. cbn [map]. rewrite <- app_assoc. cbn [app].
    replace (S (length pre)) with (length (map SKey pre ++ [SKey patch_key])) by (rewrite app_length, map_length; simpl; lia).
    replace (map SKey pre ++ SKey patch_key :: map SKey rest ++ [SKey k])
      with ((map SKey pre ++ [SKey patch_key]) ++ (map SKey rest ++ [SKey k])) by (rewrite <- app_assoc; reflexivity).
    rewrite skipn_app, Nat.sub_diag, skipn_all. cbn [skipn app]. rewrite map_app, map_map. cbn [map seg_name].
    f_equal. rewrite <- (map_id rest) at 2. apply map_ext. reflexivity. }
  rewrite Hskip. destruct (ps_matches w x (rest ++ [k])); reflexivity.
Qed.

(* entering a key of "$set", or the key of a nested partial update, raises ExcludedFieldError exactly when the field is excluded *)
Theorem server_set_key_rejected_iff : forall w x pre path k ms,
  Forall (fun s => is_patch_op s = false) path -> is_patch_op k = false ->
  ((exists s, enter_map w x (S (length pre)) k {| t_scope := map SKey (pre ++ patch_key :: path ++ [op_set]); t_missing := ms |}
              = Err (EExcluded s))
   <-> client_ex w x (path ++ [k]) = true).
Proof.
  intros w x pre path k ms Hp Hk. rewrite <- is_key_excluded_agrees. rewrite reader_relative_path.
  rewrite <- app_assoc. cbn [app]. rewrite set_operator_skipped by assumption. reflexivity.
Qed.

Theorem server_nested_key_rejected_iff : forall w x pre path k ms,
  ((exists s, enter_map w x (S (length pre)) k {| t_scope := map SKey (pre ++ patch_key :: path); t_missing := ms |}
              = Err (EExcluded s))
   <-> client_ex w x (path ++ [k]) = true).
Proof. intros w x pre path k ms. rewrite <- is_key_excluded_agrees. rewrite reader_relative_path. reflexivity. Qed.

(* the final CheckFields of UnmarshalRestLiPatch: whatever is accepted has no deleted, set or nested-patched field that the
   reader excludes at its final scope - this is the only place where a $delete of an excluded field is caught *)
Lemma check_own_untouched e exc : forall fs ds ss ns acc acc',
  check_own e exc fs ds ss ns acc = Ok acc' ->
  forall i fd d s np, nth_error fs i = Some fd -> nth_error ds i = Some d -> nth_error ss i = Some s -> nth_error ns i = Some np ->
    ((is_required (f_opt fd) = false /\ d = true) \/ s <> None \/ (rec_of e (f_ty fd) <> None /\ np <> None)) ->
    exc (f_name fd) = false.
Proof.
  induction fs as [|fd0 fs IH]; intros ds ss ns acc acc' H i fd d s np Hf Hd Hs Hn Ht; [destruct i; discriminate|].
  destruct ds as [|d0 ds], ss as [|s0 ss], ns as [|np0 ns]; try discriminate H.
  cbn [check_own] in H. apply bind_ok' in H as [a [Hc H]].
  destruct i as [|i]; simpl in Hf, Hd, Hs, Hn.
  - inversion Hf; inversion Hd; inversion Hs; inversion Hn; subst. apply check_field_ok in Hc as [Hx _]. apply Hx.
    unfold touched. destruct Ht as [[Hr ->]|[Hs'|[Hr Hn']]].
    + left. rewrite Hr. reflexivity.
    + right. left. destruct s; [reflexivity|contradiction].
    + right. right. destruct (rec_of e (f_ty fd)); [|contradiction]. destruct np; [reflexivity|contradiction].
  - eapply IH; eassumption.
Qed.

Theorem server_final_check : forall e w x ig pF f n fs jd p tr ips ds ss ns tr1,
  lookup e n = Some (DRecord [] fs) ->
  dec_patch_at e w x ig pF (S (S f)) n jd p tr = Ok (PPatch ips ds ss ns, tr1) ->
  forall i fd d s np, nth_error fs i = Some fd -> nth_error ds i = Some d -> nth_error ss i = Some s -> nth_error ns i = Some np ->
    ((is_required (f_opt fd) = false /\ d = true) \/ s <> None \/ (rec_of e (f_ty fd) <> None /\ np <> None)) ->
    is_key_excluded w x ig (f_name fd) tr1 = false.
Proof.
  intros e w x ig pF f n fs jd p tr ips ds ss ns tr1 Hlk H. cbn [dec_patch_at] in H. rewrite Hlk in H.
  apply bind_ok' in H as [es [_ H]]. apply bind_ok' in H as [[p1 t1] [_ H]].
  apply bind_ok' in H as [hs [Hc H]]. inversion H; subst p1 t1.
  unfold check_patch in Hc. cbn [check_fields] in Hc. rewrite Hlk in Hc.
  destruct ips as [|ip ips]; [|discriminate Hc]. cbn [bind] in Hc.
  intros i fd d s np.
  exact (check_own_untouched e (fun k => is_key_excluded w x ig k tr1) fs ds ss ns (false, false) hs Hc i fd d s np).
Qed.

(* in path form: when the reader is back at the scope of the patch (pre ++ "patch" :: path) - which is where the push / pop
   discipline of the readers leaves it - no accepted touch is on a field excluded relative to the record *)
Corollary server_accepts_no_excluded_touch : forall e w x pF f n fs jd p tr ips ds ss ns tr1 pre path,
  lookup e n = Some (DRecord [] fs) ->
  dec_patch_at e w x (S (length pre)) pF (S (S f)) n jd p tr = Ok (PPatch ips ds ss ns, tr1) ->
  t_scope tr1 = map SKey (pre ++ patch_key :: path) ->
  forall i fd d s np, nth_error fs i = Some fd -> nth_error ds i = Some d -> nth_error ss i = Some s -> nth_error ns i = Some np ->
    ((is_required (f_opt fd) = false /\ d = true) \/ s <> None \/ (rec_of e (f_ty fd) <> None /\ np <> None)) ->
    client_ex w x (path ++ [f_name fd]) = false.
Proof.
  intros e w x pF f n fs jd p tr ips ds ss ns tr1 pre path Hlk H Hsc i fd d s np Hf Hd Hs Hn Ht.
  pose proof (server_final_check e w x (S (length pre)) pF f n fs jd p tr ips ds ss ns tr1 Hlk H i fd d s np Hf Hd Hs Hn Ht) as Hx.
  destruct tr1 as [sc ms]. simpl in Hsc. subst sc. rewrite reader_relative_path in Hx. exact Hx.
Qed.

(* whatever UnmarshalRestLiPatch accepts passes CheckFields: in particular a document that makes the struct both delete and set a
   field, or set and patch it, is rejected *)
Theorem dec_accepts_only_checked : forall e w x ig pF f n jd p tr p1 tr1,
  dec_patch_at e w x ig pF (S f) n jd p tr = Ok (p1, tr1) ->
  exists hs, check_patch e f n (fun k => is_key_excluded w x ig k tr1) p1 = Ok hs.
Proof.
  intros e w x ig pF f n jd p tr p1 tr1 H. cbn [dec_patch_at] in H.
  destruct (lookup e n) as [[incs fs|? ?]|]; try discriminate H.
  apply bind_ok' in H as [es [_ H]]. apply bind_ok' in H as [[p2 t2] [_ H]].
  apply bind_ok' in H as [hs [Hc H]]. inversion H; subst. exists hs. exact Hc.
Qed.

Corollary patch_illegal_rejected_on_decode : forall e w x ig pF f n fs jd p tr ds ss ns tr1,
  lookup e n = Some (DRecord [] fs) -> tfields e fs ds ss ns ->
  dec_patch_at e w x ig pF (S (S f)) n jd p tr = Ok (PPatch [] ds ss ns, tr1) ->
  level_legal (fun k => is_key_excluded w x ig k tr1) fs ds ss ns.
Proof.
  intros e w x ig pF f n fs jd p tr ds ss ns tr1 Hlk Ht H.
  apply dec_accepts_only_checked in H as [hs Hc].
  apply (proj1 (check_patch_legal_iff e f n _ fs ds ss ns Hlk Ht)). exists hs. exact Hc.
Qed.

(* ==================================================================================================================== *)
(* 6. Non-vacuity: a legal partial update with a nested partial update, written and read back                             *)
(* ==================================================================================================================== *)
From GR Require Import Base.Dec.

Definition n_a : bytes := [x61].          (* "a" *)
Definition n_s : bytes := [x73].          (* "s" *)
Definition n_z : bytes := [x7a].          (* "z" *)
Definition n_w : bytes := [x77].          (* "w" *)
Definition n_dr : bytes := [x64; x72].    (* "dr" *)
Definition wc : bytes := [x2a].           (* "*" *)

(* 0: Inner {a: int (required), s: string (optional)}   1: D {dr: Inner (optional)}
   2: Incl includes Inner, D; {z: string (required)}     3: Incl2 includes Incl; {w: int (optional)} *)
Definition rx_env : env :=
  [ DRecord [] [ {| f_name := n_a; f_ty := TPrim PInt; f_opt := Required |}; {| f_name := n_s; f_ty := TPrim PString; f_opt := Optional |} ];
    DRecord [] [ {| f_name := n_dr; f_ty := TRef 0; f_opt := Optional |} ];
    DRecord [0; 1] [ {| f_name := n_z; f_ty := TPrim PString; f_opt := Required |} ];
    DRecord [2] [ {| f_name := n_w; f_ty := TPrim PInt; f_opt := Optional |} ] ].

(* the JSON tree of a document without floats *)
Fixpoint jv (d : doc) : jdoc :=
  match d with
  | DLeaf (LInt z) => JNum (print_dec z)
  | DLeaf (LBool b) => JBool b
  | DLeaf (LStr s) => JStr s
  | DLeaf (LBytes s) => JStr s
  | DLeaf (LFloat _ _) => JNull
  | DArr l => JArr (map jv l)
  | DObj es => JObj ((fix go (l : list (bytes * doc)) := match l with [] => [] | (k, y) :: r => (k, jv y) :: go r end) es)
  end.

Definition no_floats : nat -> bytes -> option N := fun _ _ => None.

(* on D: { dr: { $delete: [s], $set: {a: 5} } } *)
Definition ex_inner : patch := PPatch [] [false; true] [Some (VInt 5); None] [None; None].
Definition ex_patch : patch := PPatch [] [false] [None] [Some ex_inner].

Lemma ex_inner_typed : tpatch rx_env 0 ex_inner.
Proof.
  eapply tp_rec; [reflexivity|]. apply tf_cons.
  - reflexivity.
  - intros v Hv. inversion Hv. constructor.
  - intros H. exfalso. apply H. reflexivity.
  - intros q m Hq. discriminate.
  - apply tf_cons.
    + intros H. discriminate.
    + intros v Hv. discriminate.
    + intros H. exfalso. apply H. reflexivity.
    + intros q m Hq. discriminate.
    + constructor.
Qed.

Lemma ex_patch_typed : tpatch rx_env 1 ex_patch.
Proof.
  eapply tp_rec; [reflexivity|]. apply tf_cons.
  - intros H. discriminate.
  - intros v Hv. discriminate.
  - intros _. discriminate.
  - intros q m Hq Hm. inversion Hq; subst q. inversion Hm; subst m. exact ex_inner_typed.
  - constructor.
Qed.

Lemma ex_inner_legal : legal rx_env (client_ex wc ps_empty) [n_dr] 0 ex_inner.
Proof.
  eapply lg_rec; [reflexivity|]. apply lf_cons.
  - unfold at_most_one; simpl; intuition discriminate.
  - intros _. reflexivity.
  - intros q m Hq. discriminate.
  - apply lf_cons.
    + unfold at_most_one; simpl; intuition discriminate.
    + intros _. reflexivity.
    + intros q m Hq. discriminate.
    + constructor.
Qed.

Lemma ex_patch_legal : legal rx_env (client_ex wc ps_empty) [] 1 ex_patch.
Proof.
  eapply lg_rec; [reflexivity|]. apply lf_cons.
  - unfold at_most_one; simpl; intuition discriminate.
  - intros _. reflexivity.
  - intros q m Hq Hm. inversion Hq; subst q. inversion Hm; subst m. exact ex_inner_legal.
  - constructor.
Qed.

Lemma patch_roundtrip_example :
  exists d, enc_patch rx_env wc ps_empty 8 1 ex_patch = Ok d /\
            d = DObj [(patch_key, DObj [(n_dr, DObj [(op_delete, DArr [DLeaf (LStr n_s)]); (op_set, DObj [(n_a, DLeaf (LInt 5))])])])] /\
            dec_patch rx_env wc ps_empty 1 no_floats 8 1 (jv d) tracker0 = Ok (ex_patch, tracker0).
Proof. eexists. split; [vm_compute; reflexivity|]. split; vm_compute; reflexivity. Qed.

(* the same partial update is refused on the client as soon as the nested field is read-only ... *)
Lemma excluded_example :
  enc_patch rx_env wc (new_pathspec [[x64; x72; x2f; x61]]) 8 1 ex_patch = Err EPatch /\      (* directive "dr/a" *)
  enc_patch rx_env wc (new_pathspec [n_dr]) 8 1 ex_patch = Err EPatch.                         (* directive "dr" *)
Proof. split; vm_compute; reflexivity. Qed.

(* ... and on the server, for partial_update (leading scope 1) and for batch_partial_update (leading scope 3) *)
Lemma server_example :
  let body := JObj [(patch_key, JObj [(n_dr, JObj [(op_set, JObj [(n_a, JNum [x35])])])])] in
  is_ok (dec_patch rx_env wc (new_pathspec [[x64; x72; x2f; x61]]) 1 no_floats 8 1 body tracker0) = false /\
  is_ok (dec_patch rx_env wc (new_pathspec [[x64; x72; x2f; x61]]) 3 no_floats 8 1 body
                   {| t_scope := [SKey [x65]; SKey [x6b]]; t_missing := [] |}) = false /\
  is_ok (dec_patch rx_env wc ps_empty 1 no_floats 8 1 body tracker0) = true /\
  (* with the leading "patch" scope NOT ignored the directive no longer applies: the offset matters *)
  is_ok (dec_patch rx_env wc (new_pathspec [[x64; x72; x2f; x61]]) 0 no_floats 8 1 body tracker0) = true.
Proof. repeat split; vm_compute; reflexivity. Qed.

(* ==================================================================================================================== *)
(* 7. Included records: where the statements above are FALSE of the generated code (replayed on the implementation)      *)
(* ==================================================================================================================== *)
Definition zero_inner : patch := PPatch [] [false; false] [None; None] [None; None].

(* (a) a nested partial update on a record-typed field INHERITED from an included record (Incl.dr, declared in D) is accepted by
   CheckFields - even an illegal one that deletes and sets the same field - and silently dropped: nothing is sent for it *)
Definition bad_inner : patch := PPatch [] [false; true] [None; Some (VStr [x78])] [None; None].   (* deletes AND sets "s" *)
Definition rx_p1 : patch := PPatch [zero_inner; PPatch [] [false] [None] [Some bad_inner]] [false] [None] [None].

Theorem inherited_nested_patch_dropped :
  enc_patch rx_env wc ps_empty 8 2 rx_p1 = Ok (DObj [(patch_key, DObj [])]) /\
  (* the server side skips the key as an unknown one *)
  dec_patch rx_env wc ps_empty 1 no_floats 8 2
            (JObj [(patch_key, JObj [(n_dr, JObj [(op_set, JObj [(n_a, JNum [x35])])])])]) tracker0
  = Ok (zero_patch rx_env 8 2, tracker0).
Proof. split; vm_compute; reflexivity. Qed.

(* (b) the $delete list only knows the fields of the record and of its DIRECT includes: through Incl2 (which includes Incl,
   which includes Inner) a delete of Inner.s is written as an empty list and ignored when read, and a delete of the REQUIRED
   field Inner.a is tolerated *)
Definition required_delete_rejected_full : Prop :=
  forall e w pF fuel n name items,
    In name (required_fields e (S (length e)) n) -> In (JStr name) items ->
    is_ok (dec_patch e w ps_empty 1 pF fuel n (JObj [(patch_key, JObj [(op_delete, JArr items)])]) tracker0) = false.

Definition rx_p2 : patch :=
  PPatch [PPatch [PPatch [] [false; true] [None; None] [None; None]; PPatch [] [false] [None] [None]] [false] [None] [None]]
         [false] [None] [None].                                            (* Incl2 with Inner.s flagged for deletion *)

Theorem transitive_delete_dropped :
  enc_patch rx_env wc ps_empty 8 3 rx_p2 = Ok (DObj [(patch_key, DObj [(op_delete, DArr [])])]) /\
  dec_patch rx_env wc ps_empty 1 no_floats 8 3 (JObj [(patch_key, JObj [(op_delete, JArr [JStr n_s])])]) tracker0
  = Ok (zero_patch rx_env 8 3, tracker0).
Proof. split; vm_compute; reflexivity. Qed.

Theorem required_delete_rejected_refuted : ~ required_delete_rejected_full.
Proof.
  intros H. specialize (H rx_env wc no_floats 8 3 n_a [JStr n_a]).
  assert (C : is_ok (dec_patch rx_env wc ps_empty 1 no_floats 8 3 (JObj [(patch_key, JObj [(op_delete, JArr [JStr n_a])])]) tracker0) = true)
    by (vm_compute; reflexivity).
  rewrite H in C; [discriminate| |left; reflexivity]. vm_compute. left. reflexivity.
Qed.

(* for a record without included records the statement holds (delete_array_with_required_rejected); through a DIRECT include
   it still holds on this schema *)
Lemma direct_include_required_delete_rejected :
  dec_patch rx_env wc ps_empty 1 no_floats 8 2 (JObj [(patch_key, JObj [(op_delete, JArr [JStr n_a])])]) tracker0 = Err EPatch.
Proof. vm_compute. reflexivity. Qed.
