From Coq Require Import List Bool Arith NArith Lia.
From Coq.Strings Require Import Byte.
From GR Require Import Base.Bytes Codec.Escape.
Import ListNotations.

(* a hex table is good when decoding its digits gives back the nibbles, for every byte *)
Definition hex_ok (tbl : bytes) : bool :=
  forallb (fun c => match unhex (hex_digit tbl (bn c / 16)), unhex (hex_digit tbl (bn c mod 16)) with
                    | Some a, Some b => N.eqb (16 * a + b) (bn c)
                    | _, _ => false
                    end) all_bytes.

(* a safe set is good for a decoder when no safe byte is '%' and, if '+' decodes to a space, '+' is not safe *)
Definition safe_ok (plus : bool) (safe : byte -> bool) : bool :=
  forallb (fun c => negb (safe c) || (negb (Byte.eqb c x25) && negb (plus && Byte.eqb c x2b))) all_bytes.

Lemma hex_ok_spec tbl c : hex_ok tbl = true ->
  exists a b, unhex (hex_digit tbl (bn c / 16)) = Some a /\ unhex (hex_digit tbl (bn c mod 16)) = Some b /\ nb (16 * a + b) = c.
Proof.
  intros H. pose proof (forall_bytes _ H c) as Hc. cbv beta in Hc.
  destruct (unhex (hex_digit tbl (bn c / 16))) as [a|]; [|discriminate].
  destruct (unhex (hex_digit tbl (bn c mod 16))) as [b|]; [|discriminate].
  exists a, b. repeat split. apply N.eqb_eq in Hc. rewrite Hc. apply nb_bn.
Qed.

Lemma safe_ok_spec plus safe c : safe_ok plus safe = true -> safe c = true ->
  Byte.eqb c x25 = false /\ (plus && Byte.eqb c x2b) = false.
Proof.
  intros H Hs. pose proof (forall_bytes _ H c) as Hc. cbv beta in Hc. rewrite Hs in Hc. simpl in Hc.
  apply andb_true_iff in Hc as [A B]. apply negb_true_iff in A. apply negb_true_iff in B. auto.
Qed.

Theorem unescape_escape tbl plus safe s :
  hex_ok tbl = true -> safe_ok plus safe = true -> unescape plus (escape_with tbl safe s) = Some s.
Proof.
  intros Hh Hs. induction s as [|c s IH]; [reflexivity|].
  unfold escape_with in *. cbn [flat_map].
  destruct (safe c) eqn:Ec.
  - destruct (safe_ok_spec _ _ _ Hs Ec) as [A B]. cbn [app unescape]. rewrite A, IH, B. reflexivity.
  - destruct (hex_ok_spec tbl c Hh) as (a & b & Ha & Hb & Hab).
    unfold hex_escape in *. cbn [app unescape]. rewrite byte_eqb_refl, Ha, Hb, IH, Hab. reflexivity.
Qed.

(* the output alphabet of an escaper: safe bytes, '%', and the table's digits *)
Definition out_byte (tbl : bytes) (safe : byte -> bool) (c : byte) : bool :=
  safe c || Byte.eqb c x25 || mem_byte c tbl.

Lemma hex_digit_in tbl n : (n < 16)%N -> length tbl = 16 -> mem_byte (hex_digit tbl n) tbl = true.
Proof.
  intros Hn Hl. apply mem_byte_In. unfold hex_digit. apply nth_In. lia.
Qed.

Lemma escape_alphabet tbl safe s : length tbl = 16 ->
  Forall (fun c => out_byte tbl safe c = true) (escape_with tbl safe s).
Proof.
  intros Hl. induction s as [|c s IH]; [constructor|].
  unfold escape_with in *. cbn [flat_map]. apply Forall_app. split; [|exact IH].
  destruct (safe c) eqn:Ec.
  - constructor; [|constructor]. unfold out_byte. rewrite Ec. reflexivity.
  - unfold hex_escape. pose proof (bn_bounded c) as Hb.
    repeat constructor; unfold out_byte.
    + rewrite byte_eqb_refl, orb_true_r. reflexivity.
    + rewrite hex_digit_in; [apply orb_true_r | | exact Hl].
      apply N.div_lt_upper_bound; lia.
    + rewrite hex_digit_in; [apply orb_true_r | | exact Hl].
      apply N.mod_lt. lia.
Qed.

(* a delimiter byte that is outside the output alphabet never occurs in escaped text *)
Lemma escape_avoids tbl safe s d : length tbl = 16 -> out_byte tbl safe d = false ->
  mem_byte d (escape_with tbl safe s) = false.
Proof.
  intros Hl Hd. destruct (mem_byte d (escape_with tbl safe s)) eqn:E; [|reflexivity].
  apply mem_byte_In in E. pose proof (escape_alphabet tbl safe s Hl) as HF.
  rewrite Forall_forall in HF. rewrite (HF _ E) in Hd. discriminate.
Qed.

Lemma escape_nonempty tbl safe s : s <> [] -> escape_with tbl safe s <> [].
Proof.
  destruct s as [|c s]; [congruence|]. intros _. unfold escape_with. cbn [flat_map].
  destruct (safe c); unfold hex_escape; discriminate.
Qed.

Lemma escape_app tbl safe a b : escape_with tbl safe (a ++ b) = escape_with tbl safe a ++ escape_with tbl safe b.
Proof. unfold escape_with. apply flat_map_app. Qed.
