(* C06 - required-field accounting and unknown-field tolerance of the JSON tree decoder decJ (Codec/Decode.v).

   Method.  The decoder is re-stated in Ror2NoPanic.v as one non-recursive step [stepJ] over an abstract recursive call [DJ]
   ([decJ_unfold], by conversion).  Here one step is characterised EXACTLY, on well-shaped documents, by three independent
   schema-directed functions that never mention the tracker, the document order of an object, or unknown keys:
     ws_step   - the document has the shape of the type,
     ms_step   - the paths of the required fields that are absent / null (the specification of the missing set),
     val_step  - the decoded value, field by field in SCHEMA order.
   [stepJ_exact] says  stepJ ... = Ok (val_step ..., tr')  with  t_missing tr' = t_missing tr ++ ms_step ...  up to a permutation;
   induction on the fuel gives [decJ_exact].  Order independence, unknown-field tolerance and "optional / defaulted fields are
   never reported" are then properties of the three specification functions. *)
From Coq Require Import List Bool Arith ZArith NArith Lia Permutation.
From Coq.Strings Require Import Byte.
From GR Require Import Base.Bytes Base.Res Base.Dec Codec.Schema Codec.Doc Codec.Escape Codec.Utf8 Codec.Json Codec.Tracker
  Codec.Decode.
From GR Require Import Proofs.Ror2NoPanic.
Import ListNotations.

(* ---------------------------------------------------------------------------------------------------------------------------
   A. lists
   --------------------------------------------------------------------------------------------------------------------------- *)
Fixpoint map2 {A B C} (f : A -> B -> C) (l1 : list A) (l2 : list B) : list C :=
  match l1, l2 with a :: l1', b :: l2' => f a b :: map2 f l1' l2' | _, _ => [] end.

Lemma map2_length {A B C} (f : A -> B -> C) l1 l2 : length l1 = length l2 -> length (map2 f l1 l2) = length l2.
Proof.
  revert l2. induction l1 as [|a l1 IH]; intros [|b l2] H; simpl in *; try reflexivity; try discriminate.
  rewrite IH by lia. reflexivity.
Qed.

Lemma map2_map2 {A B} (f g : A -> B -> B) l1 l2 :
  map2 f l1 (map2 g l1 l2) = map2 (fun a b => f a (g a b)) l1 l2.
Proof.
  revert l2. induction l1 as [|a l1 IH]; intros [|b l2]; simpl; try reflexivity. rewrite IH. reflexivity.
Qed.

Lemma map2_ext_F2 {A B C} (f g : A -> B -> C) (R : A -> B -> Prop) l1 l2 :
  Forall2 R l1 l2 -> (forall a b, In a l1 -> R a b -> f a b = g a b) -> map2 f l1 l2 = map2 g l1 l2.
Proof.
  intros H. induction H as [|a b l1 l2 Hab H IH]; intros Hfg; simpl; [reflexivity|].
  rewrite (Hfg a b) by (simpl; auto). rewrite IH; [reflexivity|]. intros a' b' Hin. apply Hfg. right; exact Hin.
Qed.

Lemma map2_id_F2 {A B} (f : A -> B -> B) (R : A -> B -> Prop) l1 l2 :
  Forall2 R l1 l2 -> (forall a b, In a l1 -> R a b -> f a b = b) -> map2 f l1 l2 = l2.
Proof.
  intros H. induction H as [|a b l1 l2 Hab H IH]; intros Hf; simpl; [reflexivity|].
  rewrite (Hf a b) by (simpl; auto). rewrite IH; [reflexivity|]. intros a' b' Hin. apply Hf. right; exact Hin.
Qed.

Lemma Forall2_same_length {A B} (l1 : list A) (l2 : list B) : length l1 = length l2 -> Forall2 (fun _ _ => True) l1 l2.
Proof.
  revert l2. induction l1 as [|a l1 IH]; intros [|b l2] H; simpl in *; try discriminate; constructor; auto.
Qed.

Lemma Forall2_map2 {A B} (R : A -> B -> Prop) (f : A -> B -> B) l1 l2 :
  Forall2 R l1 l2 -> (forall a b, In a l1 -> R a b -> R a (f a b)) -> Forall2 R l1 (map2 f l1 l2).
Proof.
  intros H. induction H as [|a b l1 l2 Hab H IH]; intros Hf; simpl; constructor.
  - apply Hf; simpl; auto.
  - apply IH. intros a' b' Hin. apply Hf. right; exact Hin.
Qed.

Lemma find_app {A} (p : A -> bool) l1 l2 :
  find p (l1 ++ l2) = match find p l1 with Some x => Some x | None => find p l2 end.
Proof. induction l1 as [|a l1 IH]; simpl; [reflexivity|]. destruct (p a); [reflexivity|exact IH]. Qed.

Lemma find_none_iff {A} (p : A -> bool) l : find p l = None <-> forall x, In x l -> p x = false.
Proof.
  split; [apply find_none|]. induction l as [|a l IH]; simpl; intros H; [reflexivity|].
  rewrite (H a) by auto. apply IH. intros x Hx. apply H. auto.
Qed.

Lemma filter_filter {A} (p q : A -> bool) l : filter p (filter q l) = filter (fun x => q x && p x) l.
Proof.
  induction l as [|a l IH]; simpl; [reflexivity|]. destruct (q a); simpl; [destruct (p a)|]; rewrite IH; reflexivity.
Qed.

Lemma Permutation_flat_map_app {A B} (f g : A -> list B) l :
  Permutation (flat_map (fun x => f x ++ g x) l) (flat_map f l ++ flat_map g l).
Proof.
  induction l as [|a l IH]; simpl; [constructor|].
  rewrite <- !app_assoc. apply Permutation_app_head.
  rewrite IH. rewrite !app_assoc. apply Permutation_app_tail. apply Permutation_app_comm.
Qed.

Lemma flat_map_ext_in {A B} (f g : A -> list B) l : (forall x, In x l -> f x = g x) -> flat_map f l = flat_map g l.
Proof.
  induction l as [|a l IH]; simpl; intros H; [reflexivity|]. rewrite (H a) by auto. rewrite IH; [reflexivity|].
  intros x Hx. apply H. auto.
Qed.

Lemma flat_map_nil_in {A B} (f : A -> list B) l : (forall x, In x l -> f x = []) -> flat_map f l = [].
Proof.
  induction l as [|a l IH]; simpl; intros H; [reflexivity|]. rewrite (H a) by auto. simpl. apply IH. intros x Hx. apply H; auto.
Qed.

Lemma NoDup_app_parts {A} (X Y : list A) : NoDup (X ++ Y) -> NoDup X /\ NoDup Y /\ (forall x, In x X -> In x Y -> False).
Proof.
  induction X as [|a X IH]; simpl; intros H.
  - split; [constructor|]. split; [exact H|]. intros x [].
  - inversion H as [|? ? Ha HN]; subst. destruct (IH HN) as [HX [HY HD]].
    split; [constructor; [intro Hin; apply Ha, in_or_app; left; exact Hin|exact HX]|]. split; [exact HY|].
    intros x [->|Hx] Hy; [apply Ha, in_or_app; right; exact Hy|exact (HD x Hx Hy)].
Qed.

Definition is_nilb {A} (l : list A) : bool := match l with [] => true | _ => false end.

Lemma is_nilb_perm {A} (l1 l2 : list A) : Permutation l1 l2 -> is_nilb l1 = is_nilb l2.
Proof.
  intros H. destruct l1, l2; try reflexivity.
  - apply Permutation_nil in H. discriminate.
  - apply Permutation_sym, Permutation_nil in H. discriminate.
Qed.

(* ---------------------------------------------------------------------------------------------------------------------------
   B. the tracker without exclusions; path rendering
   --------------------------------------------------------------------------------------------------------------------------- *)
Lemma ps_matches_empty w path : ps_matches w ps_empty path = false.
Proof. destruct path; reflexivity. Qed.

Lemma enter_map_empty w ig k tr : enter_map w ps_empty ig k tr = Ok (push (SKey k) tr).
Proof. unfold enter_map. rewrite ps_matches_empty. destruct (Nat.leb _ _); reflexivity. Qed.

Lemma is_key_excluded_empty w ig k tr : is_key_excluded w ps_empty ig k tr = false.
Proof. unfold is_key_excluded. rewrite enter_map_empty. reflexivity. Qed.

Lemma pop_push_scope s tr tr' : t_scope tr' = t_scope (push s tr) -> t_scope (pop tr') = t_scope tr.
Proof. intros H. unfold pop, push in *. simpl in *. rewrite H. apply removelast_last. Qed.

Lemma scope_from_snoc f l b :
  scope_string_from b (l ++ [SKey f]) =
  scope_string_from b l ++ (if b && is_nilb l then [] else [x2e]) ++ f.
Proof.
  revert b. induction l as [|s l IH]; intros b; simpl.
  - destruct b; simpl; rewrite app_nil_r; reflexivity.
  - rewrite IH. rewrite andb_false_r. simpl. rewrite <- !app_assoc. reflexivity.
Qed.

Lemma scope_from_false_nonnil l : l <> [] -> scope_string_from false l <> [].
Proof. destruct l as [|s l]; [congruence|]. intros _. destruct s; simpl; discriminate. Qed.

Lemma scope_string_nil_iff sc : scope_string sc = [] <-> sc = [] \/ sc = [SKey []].
Proof.
  unfold scope_string. split.
  - destruct sc as [|s r]; [auto|]. simpl. destruct s as [k|i]; simpl; [|discriminate].
    intros H. apply app_eq_nil in H as [Hk Hr]. subst k. right. f_equal.
    destruct r as [|s2 r2]; [reflexivity|]. exfalso. revert Hr. apply scope_from_false_nonnil. discriminate.
  - intros [->| ->]; reflexivity.
Qed.

(* the path recorded by recordMissingRequiredFields IS the scope string of the field, except below the lone empty key *)
Lemma missing_path sc f :
  sc <> [SKey []] ->
  (match scope_string sc with [] => [] | _ => scope_string sc ++ [x2e] end) ++ f = scope_string (sc ++ [SKey f]).
Proof.
  intros Hsc. unfold scope_string at 3. rewrite scope_from_snoc. fold (scope_string sc). simpl.
  destruct sc as [|s r]; [reflexivity|]. simpl is_nilb.
  destruct (scope_string (s :: r)) eqn:E.
  - apply scope_string_nil_iff in E as [E|E]; [discriminate|contradiction].
  - rewrite <- app_assoc. reflexivity.
Qed.

Lemma record_missing_empty w ig rem tr :
  t_scope tr <> [SKey []] ->
  t_missing (record_missing w ps_empty ig rem tr) = t_missing tr ++ map (fun f => scope_string (t_scope tr ++ [SKey f])) rem /\
  t_scope (record_missing w ps_empty ig rem tr) = t_scope tr.
Proof.
  intros Hsc. unfold record_missing. simpl. split; [|reflexivity]. f_equal.
  assert (E : filter (fun f => negb (is_key_excluded w ps_empty ig f tr)) rem = rem).
  { induction rem as [|a rem IH]; simpl; [reflexivity|]. rewrite is_key_excluded_empty. simpl. rewrite IH. reflexivity. }
  rewrite E. apply map_ext. intros f. apply missing_path. exact Hsc.
Qed.

(* ---------------------------------------------------------------------------------------------------------------------------
   C. documents and schemas: the vocabulary of the specification
   --------------------------------------------------------------------------------------------------------------------------- *)
Definition is_null (d : jdoc) : bool := match d with JNull => true | _ => false end.

(* a JSON null where an object is expected is read as the empty object *)
Definition obj_entries (d : jdoc) : option (list (bytes * jdoc)) :=
  match d with JNull => Some [] | JObj es => Some es | _ => None end.
Definition entries_of (d : jdoc) : list (bytes * jdoc) := match d with JObj es => es | _ => [] end.

Fixpoint jfind (k : bytes) (es : list (bytes * jdoc)) : option jdoc :=
  match es with [] => None | kx :: r => if bytes_eqb k (fst kx) then Some (snd kx) else jfind k r end.

(* the non-null value under key k, if any *)
Definition present (es : list (bytes * jdoc)) (k : bytes) : option jdoc :=
  match jfind k es with Some x => if is_null x then None else Some x | None => None end.

Definition assoc_ty (k : bytes) (ms : list (bytes * ty)) : option ty :=
  match find (fun m => bytes_eqb k (fst m)) ms with Some m => Some (snd m) | None => None end.

Definition dummy_value : value := VRec [] [].

Section Spec.
  Variable e : env.

  (* the fields of record n with those of its includes, flattened: includes first (declaration order, depth first), then its
     own *)
  Fixpoint all_fields (k : nat) (n : nat) : list field :=
    match k with
    | 0 => []
    | S k' => match lookup e n with
              | Some (DRecord incs fs) => flat_map (all_fields k') incs ++ fs
              | _ => []
              end
    end.
  Definition fields_of (n : nat) : list field := all_fields (S (length e)) n.
  Definition field_of (n : nat) (key : bytes) : option field := find (fun fd => bytes_eqb key (f_name fd)) (fields_of n).

  (* the include tree below record n has height < k and consists of records *)
  Fixpoint inc_closed (k : nat) (n : nat) : bool :=
    match k with
    | 0 => false
    | S k' => match lookup e n with
              | Some (DRecord incs _) => forallb (inc_closed k') incs
              | _ => false
              end
    end.

  (* well-formed schema environment: what the Go compiler enforces on the generated structs (distinct JSON names over a record
     and its embedded includes) and the generator on the include graph (records only, no cycle) *)
  Definition wf_schema : Prop :=
    forall n incs fs, lookup e n = Some (DRecord incs fs) ->
      inc_closed (S (length e)) n = true /\ NoDup (map f_name (fields_of n)).

  (* ---- the missing set, one level ---- *)
  Section MS.
    Variable MS : ty -> jdoc -> list seg -> list bytes.

    Fixpoint ms_arr (t' : ty) (sc : list seg) (i : nat) (items : list jdoc) : list bytes :=
      match items with [] => [] | x :: r => MS t' x (sc ++ [SIdx i]) ++ ms_arr t' sc (S i) r end.

    Definition ms_field (es : list (bytes * jdoc)) (sc : list seg) (fd : field) : list bytes :=
      match present es (f_name fd) with
      | Some x => MS (f_ty fd) x (sc ++ [SKey (f_name fd)])
      | None => if is_required (f_opt fd) then [scope_string (sc ++ [SKey (f_name fd)])] else []
      end.

    Definition ms_step (t : ty) (d : jdoc) (sc : list seg) : list bytes :=
      match t with
      | TArray t' => match d with JArr items => ms_arr t' sc 0 items | _ => [] end
      | TMap t' =>
          flat_map (fun kx => if is_null (snd kx) then [] else MS t' (snd kx) (sc ++ [SKey (fst kx)])) (entries_of d)
      | TRef n =>
          match lookup e n with
          | Some (DRecord _ _) => flat_map (ms_field (entries_of d) sc) (fields_of n)
          | Some (DUnion _ ms) =>
              flat_map (fun kx => if is_null (snd kx) then []
                                  else match assoc_ty (fst kx) ms with
                                       | Some mt => MS mt (snd kx) (sc ++ [SKey (fst kx)])
                                       | None => []
                                       end) (entries_of d)
          | None => []
          end
      | _ => []
      end.
  End MS.

  Fixpoint missing_spec (fuel : nat) (t : ty) (d : jdoc) (sc : list seg) : list bytes :=
    match fuel with 0 => [] | S f => ms_step (missing_spec f) t d sc end.

  (* ---- the shape of a document, one level ---- *)
  Section WS.
    Variable parseF : nat -> bytes -> option N.
    Variable W : ty -> jdoc -> Prop.

    Definition ws_union (nullable : bool) (ms : list (bytes * ty)) (es : list (bytes * jdoc)) : Prop :=
      match filter (fun kx => negb (is_null (snd kx))) es with
      | [] => nullable = true
      | [kx] => exists mt, assoc_ty (fst kx) ms = Some mt /\ W mt (snd kx)
      | _ => False
      end.

    Definition ws_step (t : ty) (d : jdoc) : Prop :=
      match t with
      | TPrim p => exists v, jprim parseF p d = Ok v
      | TEnum _ => exists s, d = JStr s
      | TFixed n => exists b, jprim parseF PBytes d = Ok (VBytes b) /\ length b = n
      | TArray t' => match d with JNull => True | JArr items => Forall (W t') items | _ => False end
      | TMap t' =>
          match d with
          | JNull => True
          | JObj es => NoDup (map fst es) /\ Forall (fun kx => is_null (snd kx) = false -> W t' (snd kx)) es
          | _ => False
          end
      | TRef n =>
          match lookup e n with
          | Some (DRecord _ _) =>
              exists es, obj_entries d = Some es /\ NoDup (map fst es) /\
                Forall (fun fd => match present es (f_name fd) with Some x => W (f_ty fd) x | None => True end) (fields_of n)
          | Some (DUnion nullable ms) =>
              exists es, obj_entries d = Some es /\ NoDup (map fst es) /\ ws_union nullable ms es
          | None => False
          end
      end.
  End WS.

  Fixpoint well_shaped (parseF : nat -> bytes -> option N) (fuel : nat) (t : ty) (d : jdoc) : Prop :=
    match fuel with 0 => False | S f => ws_step parseF (well_shaped parseF f) t d end.

  (* ---- the value, one level ---- *)
  (* every slot whose JSON name has a value under [look] receives it; the others keep what they hold *)
  Definition slot_upd (look : bytes -> option value) (fd : field) (ov : option value) : option value :=
    match look (f_name fd) with Some v => Some v | None => ov end.

  Fixpoint rec_upd (k : nat) (n : nat) (look : bytes -> option value) (rv : value) : value :=
    match k with
    | 0 => rv
    | S k' =>
        match lookup e n, rv with
        | Some (DRecord incs fs), VRec ivs fvs =>
            VRec (map2 (fun i iv => rec_upd k' i look iv) incs ivs) (map2 (slot_upd look) fs fvs)
        | _, _ => rv
        end
    end.

  Fixpoint shaped (k : nat) (n : nat) (rv : value) : Prop :=
    match k with
    | 0 => False
    | S k' =>
        match lookup e n, rv with
        | Some (DRecord incs fs), VRec ivs fvs => length fvs = length fs /\ Forall2 (shaped k') incs ivs
        | _, _ => False
        end
    end.

  Section VS.
    Variable parseF : nat -> bytes -> option N.
    Variable DJ : bool -> ty -> jdoc -> tracker -> res (value * tracker).
    Variable VS : ty -> jdoc -> value.

    Definition look_of (n : nat) (es : list (bytes * jdoc)) (key : bytes) : option value :=
      match present es key, field_of n key with
      | Some x, Some fd => Some (VS (f_ty fd) x)
      | _, _ => None
      end.

    Definition union_val (ms : list (bytes * ty)) (es : list (bytes * jdoc)) : list (option value) :=
      fold_left (fun uv kx =>
                   if is_null (snd kx) then uv
                   else match index_of (fst kx) (map fst ms) 0, assoc_ty (fst kx) ms with
                        | Some j, Some mt => set_nth j (Some (VS mt (snd kx))) uv
                        | _, _ => uv
                        end) es (map (fun _ => None) ms).

    Definition val_step (raising : bool) (t : ty) (d : jdoc) : value :=
      match t with
      | TPrim p => match jprim parseF p d with Ok v => v | _ => dummy_value end
      | TEnum syms => match d with JStr s => enum_value syms s | _ => dummy_value end
      | TFixed _ => match jprim parseF PBytes d with Ok (VBytes b) => VFixed b | _ => dummy_value end
      | TArray t' => match d with JArr items => VArr (map (VS t') items) | _ => VArr [] end
      | TMap t' =>
          VMap (sort_entries (map (fun kx => (fst kx, VS t' (snd kx)))
                                  (filter (fun kx => negb (is_null (snd kx))) (entries_of d))))
      | TRef n =>
          match lookup e n with
          | Some (DRecord incs fs) =>
              let rv := rec_upd (S (length e)) n (look_of n (entries_of d)) (zero_value e (S (S (length e))) t) in
              if raising || negb (own_has_default fs) then rv
              else match rv with VRec ivs fvs => VRec ivs (fill_defaultsS DJ fs fvs) | _ => rv end
          | Some (DUnion _ ms) => VUnion (union_val ms (entries_of d))
          | None => dummy_value
          end
      end.
  End VS.
End Spec.

(* ---------------------------------------------------------------------------------------------------------------------------
   D. UnmarshalField: the depth-first search through the embedded includes IS a lookup in the flattened field list
   --------------------------------------------------------------------------------------------------------------------------- *)
Definition single (key : bytes) (v : value) : bytes -> option value :=
  fun k' => if bytes_eqb key k' then Some v else None.

Lemma names_disjoint (X Y : list field) fd1 fd2 :
  NoDup (map f_name (X ++ Y)) -> In fd1 X -> In fd2 Y -> f_name fd1 <> f_name fd2.
Proof.
  rewrite map_app. intros H H1 H2 E. apply NoDup_app_parts in H as [_ [_ HD]].
  apply (HD (f_name fd1)); [apply in_map; exact H1|rewrite E; apply in_map; exact H2].
Qed.

Lemma set_nth_app_len {A} (pre : list A) x y r : set_nth (length pre) x (pre ++ y :: r) = pre ++ x :: r.
Proof. induction pre as [|a pre IH]; simpl; [reflexivity|]. rewrite IH. reflexivity. Qed.

Section Umf.
  Variable e : env.
  Variable DJ : bool -> ty -> jdoc -> tracker -> res (value * tracker).

  Definition try_incsK (rec : nat -> value -> res (bool * value * tracker)) :=
    fix try_incs (is : list nat) (vs : list value) (pos : nat) : res (option (nat * value * tracker)) :=
      match is, vs with
      | i :: is', iv :: vs' =>
          do r <- rec i iv;
          let '(found, iv', tr') := r in
          if found then Ok (Some (pos, iv', tr')) else try_incs is' vs' (S pos)
      | _, _ => Ok None
      end.

  Lemma umfJ_S k' n key jd rv tr :
    umfJ e DJ (S k') n key jd rv tr =
    match lookup e n, rv with
    | Some (DRecord incs fs), VRec ivs fvs =>
        do hit <- try_incsK (fun i iv => umfJ e DJ k' i key jd iv tr) incs ivs 0;
        match hit with
        | Some (pos, iv', tr') => Ok (true, VRec (set_nth pos iv' ivs) fvs, tr')
        | None =>
            match index_of key (map f_name fs) 0 with
            | Some j =>
                match nth_error fs j with
                | Some fd => do r <- DJ false (f_ty fd) jd tr; let '(v, tr') := r in Ok (true, VRec ivs (set_nth j (Some v) fvs), tr')
                | None => Err EType
                end
            | None => Ok (false, rv, tr)
            end
        end
    | _, _ => Err EType
    end.
  Proof. reflexivity. Qed.

  Definition keyp (key : bytes) : field -> bool := fun fd => bytes_eqb key (f_name fd).

  Definition umf_res (k n : nat) (key : bytes) (jd : jdoc) (rv : value) (tr : tracker) : res (bool * value * tracker) :=
    match find (keyp key) (all_fields e k n) with
    | None => Ok (false, rv, tr)
    | Some fd => do r <- DJ false (f_ty fd) jd tr; let '(v, tr') := r in Ok (true, rec_upd e k n (single key v) rv, tr')
    end.

  Lemma rec_upd_id : forall k n look rv,
    (forall fd, In fd (all_fields e k n) -> look (f_name fd) = None) -> shaped e k n rv -> rec_upd e k n look rv = rv.
  Proof.
    induction k as [|k IH]; intros n look rv Hl Hs; [reflexivity|].
    simpl in *. destruct (lookup e n) as [[incs fs|? ?]|]; try contradiction.
    destruct rv as [| | | | | | | | |ivs fvs| | |]; try contradiction. destruct Hs as [Hlen HF]. f_equal.
    - apply (map2_id_F2 _ (shaped e k)); [exact HF|]. intros i iv Hi Hsi. apply IH; [|exact Hsi].
      intros fd Hfd. apply Hl. apply in_or_app. left. apply in_flat_map. exists i. split; assumption.
    - apply (map2_id_F2 _ (fun _ _ => True)); [apply Forall2_same_length; symmetry; exact Hlen|].
      intros fd ov Hfd _. unfold slot_upd. rewrite Hl; [reflexivity|]. apply in_or_app. right. exact Hfd.
  Qed.

  Lemma shaped_rec_upd : forall k n look rv, shaped e k n rv -> shaped e k n (rec_upd e k n look rv).
  Proof.
    induction k as [|k IH]; intros n look rv Hs; [exact Hs|].
    simpl in *. destruct (lookup e n) as [[incs fs|? ?]|] eqn:El; try contradiction.
    destruct rv as [| | | | | | | | |ivs fvs| | |]; try contradiction. destruct Hs as [Hlen HF].
    split.
    - rewrite map2_length; [exact Hlen|symmetry; exact Hlen].
    - apply Forall2_map2; [exact HF|]. intros i iv _ Hsi. apply IH. exact Hsi.
  Qed.

  Lemma own_set_gen key v fd : forall fs fvs i,
    NoDup (map f_name fs) -> length fvs = length fs -> find (keyp key) fs = Some fd ->
    exists j, index_of key (map f_name fs) i = Some (i + j) /\ nth_error fs j = Some fd /\
              set_nth j (Some v) fvs = map2 (slot_upd (single key v)) fs fvs.
  Proof.
    induction fs as [|fd0 fs IH]; intros fvs i Hnd Hlen Hf; [discriminate|].
    destruct fvs as [|ov fvs]; [discriminate|]. simpl in Hf. unfold keyp at 1 in Hf. simpl.
    inversion Hnd as [|? ? Hn0 Hnd']; subst.
    destruct (bytes_eqb key (f_name fd0)) eqn:E.
    - injection Hf as <-. exists 0. rewrite Nat.add_0_r. split; [reflexivity|]. split; [reflexivity|]. simpl.
      unfold slot_upd at 1, single at 1. rewrite E. f_equal. symmetry.
      apply (map2_id_F2 _ (fun _ _ => True)); [apply Forall2_same_length; simpl in Hlen; lia|].
      intros fd2 ov2 Hin _. unfold slot_upd, single.
      destruct (bytes_eqb key (f_name fd2)) eqn:E2; [|reflexivity].
      apply bytes_eqb_eq in E, E2. exfalso. apply Hn0. rewrite <- E, E2. apply in_map. exact Hin.
    - simpl in Hlen. destruct (IH fvs (S i) Hnd' ltac:(lia) Hf) as [j [H1 [H2 H3]]].
      exists (S j). split; [rewrite H1; f_equal; lia|]. split; [exact H2|]. simpl.
      unfold slot_upd at 1, single at 1. rewrite E. f_equal. exact H3.
  Qed.

  Lemma index_of_none key : forall fs i, find (keyp key) fs = None -> index_of key (map f_name fs) i = None.
  Proof.
    induction fs as [|fd0 fs IH]; intros i Hf; [reflexivity|]. simpl in *. unfold keyp at 1 in Hf.
    destruct (bytes_eqb key (f_name fd0)); [discriminate|]. apply IH. exact Hf.
  Qed.

  Lemma single_none_of_find key v (l : list field) :
    find (keyp key) l = None -> forall fd, In fd l -> single key v (f_name fd) = None.
  Proof.
    intros Hf fd Hin. unfold single. rewrite (proj1 (find_none_iff _ _) Hf fd Hin). reflexivity.
  Qed.

  Section TryIncs.
    Variables (k' : nat) (key : bytes) (jd : jdoc) (tr : tracker) (fvs : list (option value)).
    Variable rec : nat -> value -> res (bool * value * tracker).
    Variable K : res (bool * value * tracker).
    Hypothesis Hrec : forall i iv, inc_closed e k' i = true -> shaped e k' i iv -> NoDup (map f_name (all_fields e k' i)) ->
                                   rec i iv = umf_res k' i key jd iv tr.

    Lemma try_incs_spec : forall is vs, Forall2 (shaped e k') is vs -> forall pre,
      forallb (inc_closed e k') is = true -> NoDup (map f_name (flat_map (all_fields e k') is)) ->
      (do hit <- try_incsK rec is vs (length pre);
       match hit with
       | Some (pos, iv', tr') => Ok (true, VRec (set_nth pos iv' (pre ++ vs)) fvs, tr')
       | None => K
       end)
      = match find (keyp key) (flat_map (all_fields e k') is) with
        | None => K
        | Some fd =>
            do r <- DJ false (f_ty fd) jd tr;
            let '(v, tr') := r in
            Ok (true, VRec (pre ++ map2 (fun i iv => rec_upd e k' i (single key v) iv) is vs) fvs, tr')
        end.
    Proof.
      intros is vs HF. induction HF as [|i iv is vs Hs HF IH]; intros pre Hc Hnd; [reflexivity|].
      simpl in Hc. apply andb_true_iff in Hc as [Hci Hc]. simpl flat_map in *.
      assert (Hndi : NoDup (map f_name (all_fields e k' i))).
      { rewrite map_app in Hnd. apply NoDup_app_parts in Hnd. tauto. }
      assert (Hndr : NoDup (map f_name (flat_map (all_fields e k') is))).
      { rewrite map_app in Hnd. apply NoDup_app_parts in Hnd. tauto. }
      cbn [try_incsK]. fold (try_incsK rec). rewrite (Hrec i iv Hci Hs Hndi). unfold umf_res. rewrite find_app.
      destruct (find (keyp key) (all_fields e k' i)) as [fd|] eqn:Ef.
      - destruct (DJ false (f_ty fd) jd tr) as [[v tr']|x|]; [|reflexivity|reflexivity].
        cbn [bind]. rewrite set_nth_app_len. cbn [map2]. do 3 f_equal.
        symmetry. apply (map2_id_F2 _ (shaped e k')); [exact HF|]. intros i2 iv2 Hi2 Hs2. apply rec_upd_id; [|exact Hs2].
        intros fd2 Hfd2. unfold single. destruct (bytes_eqb key (f_name fd2)) eqn:E2; [|reflexivity]. exfalso.
        apply find_some in Ef as [Hin Ek]. unfold keyp in Ek. apply bytes_eqb_eq in Ek, E2.
        apply (names_disjoint _ _ fd fd2 Hnd Hin); [|congruence].
        apply in_flat_map. exists i2. split; assumption.
      - cbn [bind]. replace (S (length pre)) with (length (pre ++ [iv])) by (rewrite app_length; simpl; lia).
        replace (pre ++ iv :: vs) with ((pre ++ [iv]) ++ vs) by (rewrite <- app_assoc; reflexivity).
        rewrite (IH (pre ++ [iv]) Hc Hndr).
        destruct (find (keyp key) (flat_map (all_fields e k') is)) as [fd|]; [|reflexivity].
        destruct (DJ false (f_ty fd) jd tr) as [[v tr']|x|]; [|reflexivity|reflexivity].
        cbn [bind map2]. rewrite (rec_upd_id k' i (single key v) iv (single_none_of_find key v _ Ef) Hs).
        rewrite <- app_assoc. reflexivity.
    Qed.
  End TryIncs.

  Theorem umfJ_spec : forall k n key jd rv tr,
    inc_closed e k n = true -> shaped e k n rv -> NoDup (map f_name (all_fields e k n)) ->
    umfJ e DJ k n key jd rv tr = umf_res k n key jd rv tr.
  Proof.
    induction k as [|k IH]; intros n key jd rv tr Hc Hs Hnd; [discriminate|].
    rewrite umfJ_S. unfold umf_res. simpl in Hc, Hs, Hnd. cbn [all_fields rec_upd].
    destruct (lookup e n) as [[incs fs|? ?]|] eqn:El; try discriminate.
    destruct rv as [| | | | | | | | |ivs fvs| | |]; try contradiction. destruct Hs as [Hlen HF].
    assert (Hndi : NoDup (map f_name (flat_map (all_fields e k) incs))).
    { rewrite map_app in Hnd. apply NoDup_app_parts in Hnd. tauto. }
    assert (Hndo : NoDup (map f_name fs)).
    { rewrite map_app in Hnd. apply NoDup_app_parts in Hnd. tauto. }
    pose proof (try_incs_spec k key jd tr fvs (fun i iv => umfJ e DJ k i key jd iv tr)) as T.
    specialize (fun K => T K (fun i iv a b c => IH i key jd iv tr a b c) incs ivs HF [] Hc Hndi).
    cbn [length app] in T. rewrite T. clear T. rewrite find_app.
    destruct (find (keyp key) (flat_map (all_fields e k) incs)) as [fd|] eqn:Ef.
    - destruct (DJ false (f_ty fd) jd tr) as [[v tr']|x|]; [|reflexivity|reflexivity].
      cbn [bind]. do 3 f_equal. symmetry.
      apply (map2_id_F2 _ (fun _ _ => True)); [apply Forall2_same_length; symmetry; exact Hlen|].
      intros fd2 ov2 Hin _. unfold slot_upd, single. destruct (bytes_eqb key (f_name fd2)) eqn:E2; [|reflexivity]. exfalso.
      apply find_some in Ef as [Hin1 Ek]. unfold keyp in Ek. apply bytes_eqb_eq in Ek, E2.
      apply (names_disjoint _ _ fd fd2 Hnd Hin1 Hin). congruence.
    - destruct (find (keyp key) fs) as [fd|] eqn:Eo.
      + destruct (DJ false (f_ty fd) jd tr) as [[v tr']|x|] eqn:Ed.
        * destruct (own_set_gen key v fd fs fvs 0 Hndo Hlen Eo) as [j [H1 [H2 H3]]]. simpl in H1.
          rewrite H1, H2, Ed. cbn [bind]. rewrite H3. do 3 f_equal. symmetry.
          apply (map2_id_F2 _ (shaped e k)); [exact HF|]. intros i2 iv2 Hi2 Hs2. apply rec_upd_id; [|exact Hs2].
          intros fd2 Hfd2. apply (single_none_of_find key v _ Ef). apply in_flat_map. exists i2. split; assumption.
        * destruct (own_set_gen key dummy_value fd fs fvs 0 Hndo Hlen Eo) as [j [H1 [H2 _]]]. simpl in H1.
          rewrite H1, H2, Ed. reflexivity.
        * destruct (own_set_gen key dummy_value fd fs fvs 0 Hndo Hlen Eo) as [j [H1 [H2 _]]]. simpl in H1.
          rewrite H1, H2, Ed. reflexivity.
      + rewrite (index_of_none key fs 0 Eo). reflexivity.
  Qed.
End Umf.
