(* C06 - required-field accounting and unknown-field tolerance of the JSON tree decoder decJ (Codec/Decode.v).

   Method.  The decoder is re-stated in Ror2NoPanic.v as one non-recursive step [stepJ] over an abstract recursive call [DJ]
   ([decJ_unfold], by conversion).  Here one step is characterised EXACTLY, on well-shaped documents, by three independent
   schema-directed functions that never mention the tracker, the document order of an object, or unknown keys:
     ws_step   - the document has the shape of the type,
     ms_step   - the paths of the required fields that are absent / null (the specification of the missing set),
     val_step  - the decoded value, field by field in SCHEMA order.
   [stepJ_exact] says  stepJ ... = Ok (val_step ..., tr')  with  t_missing tr' = t_missing tr ++ ms_step ...  up to a permutation;
   induction on the fuel gives [decJ_exact].  Order independence, unknown-field tolerance and "optional / defaulted fields are
   never reported" are then properties of the three specification functions. *)
From Coq Require Import List Bool Arith ZArith NArith Lia Permutation Sorted.
From Coq.Strings Require Import Byte.
From GR Require Import Base.Bytes Base.Res Base.Dec Codec.Schema Codec.Doc Codec.Escape Codec.Utf8 Codec.Json Codec.Tracker
  Codec.Decode.
From GR Require Import Proofs.Ror2NoPanic Proofs.SortProofs.
Import ListNotations.

(* ---------------------------------------------------------------------------------------------------------------------------
   A. lists
   --------------------------------------------------------------------------------------------------------------------------- *)
Fixpoint map2 {A B C} (f : A -> B -> C) (l1 : list A) (l2 : list B) : list C :=
  match l1, l2 with a :: l1', b :: l2' => f a b :: map2 f l1' l2' | _, _ => [] end.

Lemma map2_length {A B C} (f : A -> B -> C) l1 l2 : length l1 = length l2 -> length (map2 f l1 l2) = length l2.
Proof.
  revert l2. induction l1 as [|a l1 IH]; intros [|b l2] H; simpl in *; try reflexivity; try discriminate.
  rewrite IH by lia. reflexivity.
Qed.

Lemma map2_map2 {A B} (f g : A -> B -> B) l1 l2 :
  map2 f l1 (map2 g l1 l2) = map2 (fun a b => f a (g a b)) l1 l2.
Proof.
  revert l2. induction l1 as [|a l1 IH]; intros [|b l2]; simpl; try reflexivity. rewrite IH. reflexivity.
Qed.

Lemma map2_ext_F2 {A B C} (f g : A -> B -> C) (R : A -> B -> Prop) l1 l2 :
  Forall2 R l1 l2 -> (forall a b, In a l1 -> R a b -> f a b = g a b) -> map2 f l1 l2 = map2 g l1 l2.
Proof.
  intros H. induction H as [|a b l1 l2 Hab H IH]; intros Hfg; simpl; [reflexivity|].
  rewrite (Hfg a b) by (simpl; auto). rewrite IH; [reflexivity|]. intros a' b' Hin. apply Hfg. right; exact Hin.
Qed.

Lemma map2_id_F2 {A B} (f : A -> B -> B) (R : A -> B -> Prop) l1 l2 :
  Forall2 R l1 l2 -> (forall a b, In a l1 -> R a b -> f a b = b) -> map2 f l1 l2 = l2.
Proof.
  intros H. induction H as [|a b l1 l2 Hab H IH]; intros Hf; simpl; [reflexivity|].
  rewrite (Hf a b) by (simpl; auto). rewrite IH; [reflexivity|]. intros a' b' Hin. apply Hf. right; exact Hin.
Qed.

Lemma Forall2_same_length {A B} (l1 : list A) (l2 : list B) : length l1 = length l2 -> Forall2 (fun _ _ => True) l1 l2.
Proof.
  revert l2. induction l1 as [|a l1 IH]; intros [|b l2] H; simpl in *; try discriminate; constructor; auto.
Qed.

Lemma Forall2_map2 {A B} (R : A -> B -> Prop) (f : A -> B -> B) l1 l2 :
  Forall2 R l1 l2 -> (forall a b, In a l1 -> R a b -> R a (f a b)) -> Forall2 R l1 (map2 f l1 l2).
Proof.
  intros H. induction H as [|a b l1 l2 Hab H IH]; intros Hf; simpl; constructor.
  - apply Hf; simpl; auto.
  - apply IH. intros a' b' Hin. apply Hf. right; exact Hin.
Qed.

Lemma find_app {A} (p : A -> bool) l1 l2 :
  find p (l1 ++ l2) = match find p l1 with Some x => Some x | None => find p l2 end.
Proof. induction l1 as [|a l1 IH]; simpl; [reflexivity|]. destruct (p a); [reflexivity|exact IH]. Qed.

Lemma find_none_iff {A} (p : A -> bool) l : find p l = None <-> forall x, In x l -> p x = false.
Proof.
  split; [apply find_none|]. induction l as [|a l IH]; simpl; intros H; [reflexivity|].
  rewrite (H a) by auto. apply IH. intros x Hx. apply H. auto.
Qed.

Lemma filter_filter {A} (p q : A -> bool) l : filter p (filter q l) = filter (fun x => q x && p x) l.
Proof.
  induction l as [|a l IH]; simpl; [reflexivity|]. destruct (q a); simpl; [destruct (p a)|]; rewrite IH; reflexivity.
Qed.

Lemma Permutation_flat_map_app {A B} (f g : A -> list B) l :
  Permutation (flat_map (fun x => f x ++ g x) l) (flat_map f l ++ flat_map g l).
Proof.
  induction l as [|a l IH]; simpl; [constructor|].
  rewrite <- !app_assoc. apply Permutation_app_head.
  rewrite IH. rewrite !app_assoc. apply Permutation_app_tail. apply Permutation_app_comm.
Qed.

Lemma flat_map_ext_in {A B} (f g : A -> list B) l : (forall x, In x l -> f x = g x) -> flat_map f l = flat_map g l.
Proof.
  induction l as [|a l IH]; simpl; intros H; [reflexivity|]. rewrite (H a) by auto. rewrite IH; [reflexivity|].
  intros x Hx. apply H. auto.
Qed.

Lemma flat_map_nil_in {A B} (f : A -> list B) l : (forall x, In x l -> f x = []) -> flat_map f l = [].
Proof.
  induction l as [|a l IH]; simpl; intros H; [reflexivity|]. rewrite (H a) by auto. simpl. apply IH. intros x Hx. apply H; auto.
Qed.

Lemma NoDup_app_parts {A} (X Y : list A) : NoDup (X ++ Y) -> NoDup X /\ NoDup Y /\ (forall x, In x X -> In x Y -> False).
Proof.
  induction X as [|a X IH]; simpl; intros H.
  - split; [constructor|]. split; [exact H|]. intros x [].
  - inversion H as [|? ? Ha HN]; subst. destruct (IH HN) as [HX [HY HD]].
    split; [constructor; [intro Hin; apply Ha, in_or_app; left; exact Hin|exact HX]|]. split; [exact HY|].
    intros x [->|Hx] Hy; [apply Ha, in_or_app; right; exact Hy|exact (HD x Hx Hy)].
Qed.

Definition is_nilb {A} (l : list A) : bool := match l with [] => true | _ => false end.

Lemma is_nilb_perm {A} (l1 l2 : list A) : Permutation l1 l2 -> is_nilb l1 = is_nilb l2.
Proof.
  intros H. destruct l1, l2; try reflexivity.
  - apply Permutation_nil in H. discriminate.
  - apply Permutation_sym, Permutation_nil in H. discriminate.
Qed.

(* ---------------------------------------------------------------------------------------------------------------------------
   B. the tracker without exclusions; path rendering
   --------------------------------------------------------------------------------------------------------------------------- *)
Lemma ps_matches_empty w path : ps_matches w ps_empty path = false.
Proof. destruct path; reflexivity. Qed.

Lemma enter_map_empty w ig k tr : enter_map w ps_empty ig k tr = Ok (push (SKey k) tr).
Proof. unfold enter_map. rewrite ps_matches_empty. destruct (Nat.leb _ _); reflexivity. Qed.

Lemma is_key_excluded_empty w ig k tr : is_key_excluded w ps_empty ig k tr = false.
Proof. unfold is_key_excluded. rewrite enter_map_empty. reflexivity. Qed.

Lemma pop_push_scope s tr tr' : t_scope tr' = t_scope (push s tr) -> t_scope (pop tr') = t_scope tr.
Proof. intros H. unfold pop, push in *. simpl in *. rewrite H. apply removelast_last. Qed.

Lemma scope_from_snoc f l b :
  scope_string_from b (l ++ [SKey f]) =
  scope_string_from b l ++ (if b && is_nilb l then [] else [x2e]) ++ f.
Proof.
  revert b. induction l as [|s l IH]; intros b; simpl.
  - destruct b; simpl; rewrite app_nil_r; reflexivity.
  - rewrite IH. rewrite andb_false_r. simpl. rewrite <- !app_assoc. reflexivity.
Qed.

Lemma scope_from_false_nonnil l : l <> [] -> scope_string_from false l <> [].
Proof. destruct l as [|s l]; [congruence|]. intros _. destruct s; simpl; discriminate. Qed.

Lemma scope_string_nil_iff sc : scope_string sc = [] <-> sc = [] \/ sc = [SKey []].
Proof.
  unfold scope_string. split.
  - destruct sc as [|s r]; [auto|]. simpl. destruct s as [k|i]; simpl; [|discriminate].
    intros H. apply app_eq_nil in H as [Hk Hr]. subst k. right. f_equal.
    destruct r as [|s2 r2]; [reflexivity|]. exfalso. revert Hr. apply scope_from_false_nonnil. discriminate.
  - intros [->| ->]; reflexivity.
Qed.

(* the path recorded by recordMissingRequiredFields IS the scope string of the field, except below the lone empty key *)
Lemma missing_path sc f :
  sc <> [SKey []] ->
  (match scope_string sc with [] => [] | _ => scope_string sc ++ [x2e] end) ++ f = scope_string (sc ++ [SKey f]).
Proof.
  intros Hsc. unfold scope_string at 3. rewrite scope_from_snoc. fold (scope_string sc). simpl.
  destruct sc as [|s r]; [reflexivity|]. simpl is_nilb.
  destruct (scope_string (s :: r)) eqn:E.
  - apply scope_string_nil_iff in E as [E|E]; [discriminate|contradiction].
  - rewrite <- app_assoc. reflexivity.
Qed.

Lemma record_missing_empty w ig rem tr :
  t_scope tr <> [SKey []] ->
  t_missing (record_missing w ps_empty ig rem tr) = t_missing tr ++ map (fun f => scope_string (t_scope tr ++ [SKey f])) rem /\
  t_scope (record_missing w ps_empty ig rem tr) = t_scope tr.
Proof.
  intros Hsc. unfold record_missing. simpl. split; [|reflexivity]. f_equal.
  assert (E : filter (fun f => negb (is_key_excluded w ps_empty ig f tr)) rem = rem).
  { induction rem as [|a rem IH]; simpl; [reflexivity|]. rewrite is_key_excluded_empty. simpl. rewrite IH. reflexivity. }
  rewrite E. apply map_ext. intros f. apply missing_path. exact Hsc.
Qed.

(* ---------------------------------------------------------------------------------------------------------------------------
   C. documents and schemas: the vocabulary of the specification
   --------------------------------------------------------------------------------------------------------------------------- *)
Definition is_null (d : jdoc) : bool := match d with JNull => true | _ => false end.

(* a JSON null where an object is expected is read as the empty object *)
Definition obj_entries (d : jdoc) : option (list (bytes * jdoc)) :=
  match d with JNull => Some [] | JObj es => Some es | _ => None end.
Definition entries_of (d : jdoc) : list (bytes * jdoc) := match d with JObj es => es | _ => [] end.

Fixpoint jfind (k : bytes) (es : list (bytes * jdoc)) : option jdoc :=
  match es with [] => None | kx :: r => if bytes_eqb k (fst kx) then Some (snd kx) else jfind k r end.

(* the non-null value under key k, if any *)
Definition present (es : list (bytes * jdoc)) (k : bytes) : option jdoc :=
  match jfind k es with Some x => if is_null x then None else Some x | None => None end.

Definition assoc_ty (k : bytes) (ms : list (bytes * ty)) : option ty :=
  match find (fun m => bytes_eqb k (fst m)) ms with Some m => Some (snd m) | None => None end.

Definition dummy_value : value := VRec [] [].

Section Spec.
  Variable e : env.

  (* the fields of record n with those of its includes, flattened: includes first (declaration order, depth first), then its
     own *)
  Fixpoint all_fields (k : nat) (n : nat) : list field :=
    match k with
    | 0 => []
    | S k' => match lookup e n with
              | Some (DRecord incs fs) => flat_map (all_fields k') incs ++ fs
              | _ => []
              end
    end.
  Definition fields_of (n : nat) : list field := all_fields (S (length e)) n.
  Definition field_of (n : nat) (key : bytes) : option field := find (fun fd => bytes_eqb key (f_name fd)) (fields_of n).

  (* the include tree below record n has height < k and consists of records *)
  Fixpoint inc_closed (k : nat) (n : nat) : bool :=
    match k with
    | 0 => false
    | S k' => match lookup e n with
              | Some (DRecord incs _) => forallb (inc_closed k') incs
              | _ => false
              end
    end.

  (* well-formed schema environment: what the Go compiler enforces on the generated structs (distinct JSON names over a record
     and its embedded includes) and the generator on the include graph (records only, no cycle) *)
  Definition wf_schema : Prop :=
    forall n incs fs, lookup e n = Some (DRecord incs fs) ->
      inc_closed (S (length e)) n = true /\ NoDup (map f_name (fields_of n)).

  (* ---- the missing set, one level ---- *)
  Section MS.
    Variable MS : ty -> jdoc -> list seg -> list bytes.

    Fixpoint ms_arr (t' : ty) (sc : list seg) (i : nat) (items : list jdoc) : list bytes :=
      match items with [] => [] | x :: r => MS t' x (sc ++ [SIdx i]) ++ ms_arr t' sc (S i) r end.

    Definition ms_field (es : list (bytes * jdoc)) (sc : list seg) (fd : field) : list bytes :=
      match present es (f_name fd) with
      | Some x => MS (f_ty fd) x (sc ++ [SKey (f_name fd)])
      | None => if is_required (f_opt fd) then [scope_string (sc ++ [SKey (f_name fd)])] else []
      end.

    Definition ms_step (t : ty) (d : jdoc) (sc : list seg) : list bytes :=
      match t with
      | TArray t' => match d with JArr items => ms_arr t' sc 0 items | _ => [] end
      | TMap t' =>
          flat_map (fun kx => if is_null (snd kx) then [] else MS t' (snd kx) (sc ++ [SKey (fst kx)])) (entries_of d)
      | TRef n =>
          match lookup e n with
          | Some (DRecord _ _) => flat_map (ms_field (entries_of d) sc) (fields_of n)
          | Some (DUnion _ ms) =>
              flat_map (fun kx => if is_null (snd kx) then []
                                  else match assoc_ty (fst kx) ms with
                                       | Some mt => MS mt (snd kx) (sc ++ [SKey (fst kx)])
                                       | None => []
                                       end) (entries_of d)
          | None => []
          end
      | _ => []
      end.
  End MS.

  Fixpoint missing_spec (fuel : nat) (t : ty) (d : jdoc) (sc : list seg) : list bytes :=
    match fuel with 0 => [] | S f => ms_step (missing_spec f) t d sc end.

  (* ---- the shape of a document, one level ---- *)
  Section WS.
    Variable parseF : nat -> bytes -> option N.
    Variable W : ty -> jdoc -> Prop.

    Definition ws_union (nullable : bool) (ms : list (bytes * ty)) (es : list (bytes * jdoc)) : Prop :=
      match filter (fun kx => negb (is_null (snd kx))) es with
      | [] => nullable = true
      | [kx] => exists mt, assoc_ty (fst kx) ms = Some mt /\ W mt (snd kx)
      | _ => False
      end.

    Definition ws_step (t : ty) (d : jdoc) : Prop :=
      match t with
      | TPrim p => exists v, jprim parseF p d = Ok v
      | TEnum _ => exists s, d = JStr s
      | TFixed n => exists b, jprim parseF PBytes d = Ok (VBytes b) /\ length b = n
      | TArray t' => match d with JNull => True | JArr items => Forall (W t') items | _ => False end
      | TMap t' =>
          match d with
          | JNull => True
          | JObj es => NoDup (map fst es) /\ Forall (fun kx => is_null (snd kx) = false -> W t' (snd kx)) es
          | _ => False
          end
      | TRef n =>
          match lookup e n with
          | Some (DRecord _ _) =>
              exists es, obj_entries d = Some es /\ NoDup (map fst es) /\
                Forall (fun fd => match present es (f_name fd) with Some x => W (f_ty fd) x | None => True end) (fields_of n)
          | Some (DUnion nullable ms) =>
              exists es, obj_entries d = Some es /\ NoDup (map fst es) /\ ws_union nullable ms es
          | None => False
          end
      end.
  End WS.

  Fixpoint well_shaped (parseF : nat -> bytes -> option N) (fuel : nat) (t : ty) (d : jdoc) : Prop :=
    match fuel with 0 => False | S f => ws_step parseF (well_shaped parseF f) t d end.

  (* ---- the value, one level ---- *)
  (* every slot whose JSON name has a value under [look] receives it; the others keep what they hold *)
  Definition slot_upd (look : bytes -> option value) (fd : field) (ov : option value) : option value :=
    match look (f_name fd) with Some v => Some v | None => ov end.

  Fixpoint rec_upd (k : nat) (n : nat) (look : bytes -> option value) (rv : value) : value :=
    match k with
    | 0 => rv
    | S k' =>
        match lookup e n, rv with
        | Some (DRecord incs fs), VRec ivs fvs =>
            VRec (map2 (fun i iv => rec_upd k' i look iv) incs ivs) (map2 (slot_upd look) fs fvs)
        | _, _ => rv
        end
    end.

  Fixpoint shaped (k : nat) (n : nat) (rv : value) : Prop :=
    match k with
    | 0 => False
    | S k' =>
        match lookup e n, rv with
        | Some (DRecord incs fs), VRec ivs fvs => length fvs = length fs /\ Forall2 (shaped k') incs ivs
        | _, _ => False
        end
    end.

  Section VS.
    Variable parseF : nat -> bytes -> option N.
    Variable DJ : bool -> ty -> jdoc -> tracker -> res (value * tracker).
    Variable VS : ty -> jdoc -> value.

    Definition look_of (n : nat) (es : list (bytes * jdoc)) (key : bytes) : option value :=
      match present es key, field_of n key with
      | Some x, Some fd => Some (VS (f_ty fd) x)
      | _, _ => None
      end.

    Definition union_val (ms : list (bytes * ty)) (es : list (bytes * jdoc)) : list (option value) :=
      fold_left (fun uv kx =>
                   if is_null (snd kx) then uv
                   else match index_of (fst kx) (map fst ms) 0, assoc_ty (fst kx) ms with
                        | Some j, Some mt => set_nth j (Some (VS mt (snd kx))) uv
                        | _, _ => uv
                        end) es (map (fun _ => None) ms).

    Definition val_step (raising : bool) (t : ty) (d : jdoc) : value :=
      match t with
      | TPrim p => match jprim parseF p d with Ok v => v | _ => dummy_value end
      | TEnum syms => match d with JStr s => enum_value syms s | _ => dummy_value end
      | TFixed _ => match jprim parseF PBytes d with Ok (VBytes b) => VFixed b | _ => dummy_value end
      | TArray t' => match d with JArr items => VArr (map (VS t') items) | _ => VArr [] end
      | TMap t' =>
          VMap (sort_entries (map (fun kx => (fst kx, VS t' (snd kx)))
                                  (filter (fun kx => negb (is_null (snd kx))) (entries_of d))))
      | TRef n =>
          match lookup e n with
          | Some (DRecord incs fs) =>
              let rv := rec_upd (S (length e)) n (look_of n (entries_of d)) (zero_value e (S (S (length e))) t) in
              if raising || negb (own_has_default fs) then rv
              else match rv with VRec ivs fvs => VRec ivs (fill_defaultsS DJ fs fvs) | _ => rv end
          | Some (DUnion _ ms) => VUnion (union_val ms (entries_of d))
          | None => dummy_value
          end
      end.
  End VS.
End Spec.

(* ---------------------------------------------------------------------------------------------------------------------------
   D. UnmarshalField: the depth-first search through the embedded includes IS a lookup in the flattened field list
   --------------------------------------------------------------------------------------------------------------------------- *)
Definition single (key : bytes) (v : value) : bytes -> option value :=
  fun k' => if bytes_eqb key k' then Some v else None.

Definition keyp (key : bytes) : field -> bool := fun fd => bytes_eqb key (f_name fd).
Lemma field_of_eq e n k : field_of e n k = find (keyp k) (fields_of e n).
Proof. reflexivity. Qed.

Lemma names_disjoint (X Y : list field) fd1 fd2 :
  NoDup (map f_name (X ++ Y)) -> In fd1 X -> In fd2 Y -> f_name fd1 <> f_name fd2.
Proof.
  rewrite map_app. intros H H1 H2 E. apply NoDup_app_parts in H as [_ [_ HD]].
  apply (HD (f_name fd1)); [apply in_map; exact H1|rewrite E; apply in_map; exact H2].
Qed.

Lemma set_nth_app_len {A} (pre : list A) x y r : set_nth (length pre) x (pre ++ y :: r) = pre ++ x :: r.
Proof. induction pre as [|a pre IH]; simpl; [reflexivity|]. rewrite IH. reflexivity. Qed.

Section Umf.
  Variable e : env.
  Variable DJ : bool -> ty -> jdoc -> tracker -> res (value * tracker).

  Definition try_incsK (rec : nat -> value -> res (bool * value * tracker)) :=
    fix try_incs (is : list nat) (vs : list value) (pos : nat) : res (option (nat * value * tracker)) :=
      match is, vs with
      | i :: is', iv :: vs' =>
          do r <- rec i iv;
          let '(found, iv', tr') := r in
          if found then Ok (Some (pos, iv', tr')) else try_incs is' vs' (S pos)
      | _, _ => Ok None
      end.

  Lemma umfJ_S k' n key jd rv tr :
    umfJ e DJ (S k') n key jd rv tr =
    match lookup e n, rv with
    | Some (DRecord incs fs), VRec ivs fvs =>
        do hit <- try_incsK (fun i iv => umfJ e DJ k' i key jd iv tr) incs ivs 0;
        match hit with
        | Some (pos, iv', tr') => Ok (true, VRec (set_nth pos iv' ivs) fvs, tr')
        | None =>
            match index_of key (map f_name fs) 0 with
            | Some j =>
                match nth_error fs j with
                | Some fd => do r <- DJ false (f_ty fd) jd tr; let '(v, tr') := r in Ok (true, VRec ivs (set_nth j (Some v) fvs), tr')
                | None => Err EType
                end
            | None => Ok (false, rv, tr)
            end
        end
    | _, _ => Err EType
    end.
  Proof. reflexivity. Qed.

  Definition umf_res (k n : nat) (key : bytes) (jd : jdoc) (rv : value) (tr : tracker) : res (bool * value * tracker) :=
    match find (keyp key) (all_fields e k n) with
    | None => Ok (false, rv, tr)
    | Some fd => do r <- DJ false (f_ty fd) jd tr; let '(v, tr') := r in Ok (true, rec_upd e k n (single key v) rv, tr')
    end.

  Lemma rec_upd_id : forall k n look rv,
    (forall fd, In fd (all_fields e k n) -> look (f_name fd) = None) -> shaped e k n rv -> rec_upd e k n look rv = rv.
  Proof.
    induction k as [|k IH]; intros n look rv Hl Hs; [reflexivity|].
    simpl in *. destruct (lookup e n) as [[incs fs|? ?]|]; try contradiction.
    destruct rv as [| | | | | | | | |ivs fvs| | |]; try contradiction. destruct Hs as [Hlen HF]. f_equal.
    - apply (map2_id_F2 _ (shaped e k)); [exact HF|]. intros i iv Hi Hsi. apply IH; [|exact Hsi].
      intros fd Hfd. apply Hl. apply in_or_app. left. apply in_flat_map. exists i. split; assumption.
    - apply (map2_id_F2 _ (fun _ _ => True)); [apply Forall2_same_length; symmetry; exact Hlen|].
      intros fd ov Hfd _. unfold slot_upd. rewrite Hl; [reflexivity|]. apply in_or_app. right. exact Hfd.
  Qed.

  Lemma shaped_rec_upd : forall k n look rv, shaped e k n rv -> shaped e k n (rec_upd e k n look rv).
  Proof.
    induction k as [|k IH]; intros n look rv Hs; [exact Hs|].
    simpl in *. destruct (lookup e n) as [[incs fs|? ?]|] eqn:El; try contradiction.
    destruct rv as [| | | | | | | | |ivs fvs| | |]; try contradiction. destruct Hs as [Hlen HF].
    split.
    - rewrite map2_length; [exact Hlen|symmetry; exact Hlen].
    - apply Forall2_map2; [exact HF|]. intros i iv _ Hsi. apply IH. exact Hsi.
  Qed.

  Lemma own_set_gen key v fd : forall fs fvs i,
    NoDup (map f_name fs) -> length fvs = length fs -> find (keyp key) fs = Some fd ->
    exists j, index_of key (map f_name fs) i = Some (i + j) /\ nth_error fs j = Some fd /\
              set_nth j (Some v) fvs = map2 (slot_upd (single key v)) fs fvs.
  Proof.
    induction fs as [|fd0 fs IH]; intros fvs i Hnd Hlen Hf; [discriminate|].
    destruct fvs as [|ov fvs]; [discriminate|]. simpl in Hf. unfold keyp at 1 in Hf. simpl.
    inversion Hnd as [|? ? Hn0 Hnd']; subst.
    destruct (bytes_eqb key (f_name fd0)) eqn:E.
    - injection Hf as <-. exists 0. rewrite Nat.add_0_r. split; [reflexivity|]. split; [reflexivity|]. simpl.
      unfold slot_upd at 1, single at 1. rewrite E. f_equal. symmetry.
      apply (map2_id_F2 _ (fun _ _ => True)); [apply Forall2_same_length; simpl in Hlen; lia|].
      intros fd2 ov2 Hin _. unfold slot_upd, single.
      destruct (bytes_eqb key (f_name fd2)) eqn:E2; [|reflexivity].
      apply bytes_eqb_eq in E, E2. exfalso. apply Hn0. rewrite <- E, E2. apply in_map. exact Hin.
    - simpl in Hlen. destruct (IH fvs (S i) Hnd' ltac:(lia) Hf) as [j [H1 [H2 H3]]].
      exists (S j). split; [rewrite H1; f_equal; lia|]. split; [exact H2|]. simpl.
      unfold slot_upd at 1, single at 1. rewrite E. f_equal. exact H3.
  Qed.

  Lemma index_of_none key : forall fs i, find (keyp key) fs = None -> index_of key (map f_name fs) i = None.
  Proof.
    induction fs as [|fd0 fs IH]; intros i Hf; [reflexivity|]. simpl in *. unfold keyp at 1 in Hf.
    destruct (bytes_eqb key (f_name fd0)); [discriminate|]. apply IH. exact Hf.
  Qed.

  Lemma single_none_of_find key v (l : list field) :
    find (keyp key) l = None -> forall fd, In fd l -> single key v (f_name fd) = None.
  Proof.
    intros Hf fd Hin. unfold single. pose proof (proj1 (find_none_iff _ _) Hf fd Hin) as H. unfold keyp in H.
    rewrite H. reflexivity.
  Qed.

  Section TryIncs.
    Variables (k' : nat) (key : bytes) (jd : jdoc) (tr : tracker) (fvs : list (option value)).
    Variable rec : nat -> value -> res (bool * value * tracker).
    Variable K : res (bool * value * tracker).
    Hypothesis Hrec : forall i iv, inc_closed e k' i = true -> shaped e k' i iv -> NoDup (map f_name (all_fields e k' i)) ->
                                   rec i iv = umf_res k' i key jd iv tr.

    Lemma try_incs_spec : forall is vs, Forall2 (shaped e k') is vs -> forall pre,
      forallb (inc_closed e k') is = true -> NoDup (map f_name (flat_map (all_fields e k') is)) ->
      (do hit <- try_incsK rec is vs (length pre);
       match hit with
       | Some (pos, iv', tr') => Ok (true, VRec (set_nth pos iv' (pre ++ vs)) fvs, tr')
       | None => K
       end)
      = match find (keyp key) (flat_map (all_fields e k') is) with
        | None => K
        | Some fd =>
            do r <- DJ false (f_ty fd) jd tr;
            let '(v, tr') := r in
            Ok (true, VRec (pre ++ map2 (fun i iv => rec_upd e k' i (single key v) iv) is vs) fvs, tr')
        end.
    Proof.
      intros is vs HF. induction HF as [|i iv is vs Hs HF IH]; intros pre Hc Hnd; [reflexivity|].
      simpl in Hc. apply andb_true_iff in Hc as [Hci Hc]. simpl flat_map in *.
      assert (Hndi : NoDup (map f_name (all_fields e k' i))).
      { rewrite map_app in Hnd. apply NoDup_app_parts in Hnd. tauto. }
      assert (Hndr : NoDup (map f_name (flat_map (all_fields e k') is))).
      { rewrite map_app in Hnd. apply NoDup_app_parts in Hnd. tauto. }
      cbn [try_incsK]. fold (try_incsK rec). rewrite (Hrec i iv Hci Hs Hndi). unfold umf_res. rewrite find_app.
      destruct (find (keyp key) (all_fields e k' i)) as [fd|] eqn:Ef.
      - destruct (DJ false (f_ty fd) jd tr) as [[v tr']|x|]; [|reflexivity|reflexivity].
        cbn [bind]. rewrite set_nth_app_len. cbn [map2].
        assert (Eid : map2 (fun i0 iv0 => rec_upd e k' i0 (single key v) iv0) is vs = vs); [|rewrite Eid; reflexivity].
        apply (map2_id_F2 _ (shaped e k')); [exact HF|]. intros i2 iv2 Hi2 Hs2. apply rec_upd_id; [|exact Hs2].
        intros fd2 Hfd2. unfold single. destruct (bytes_eqb key (f_name fd2)) eqn:E2; [|reflexivity]. exfalso.
        apply find_some in Ef as [Hin Ek]. unfold keyp in Ek. apply bytes_eqb_eq in Ek, E2.
        apply (names_disjoint _ _ fd fd2 Hnd Hin); [|congruence].
        apply in_flat_map. exists i2. split; assumption.
      - cbn [bind]. replace (S (length pre)) with (length (pre ++ [iv])) by (rewrite app_length; simpl; lia).
        replace (pre ++ iv :: vs) with ((pre ++ [iv]) ++ vs) by (rewrite <- app_assoc; reflexivity).
        rewrite (IH (pre ++ [iv]) Hc Hndr).
        destruct (find (keyp key) (flat_map (all_fields e k') is)) as [fd|]; [|reflexivity].
        destruct (DJ false (f_ty fd) jd tr) as [[v tr']|x|]; [|reflexivity|reflexivity].
        cbn [bind map2]. rewrite (rec_upd_id k' i (single key v) iv (single_none_of_find key v _ Ef) Hs).
        rewrite <- app_assoc. reflexivity.
    Qed.
  End TryIncs.

  Theorem umfJ_spec : forall k n key jd rv tr,
    inc_closed e k n = true -> shaped e k n rv -> NoDup (map f_name (all_fields e k n)) ->
    umfJ e DJ k n key jd rv tr = umf_res k n key jd rv tr.
  Proof.
    induction k as [|k IH]; intros n key jd rv tr Hc Hs Hnd; [discriminate|].
    rewrite umfJ_S. unfold umf_res. simpl in Hc, Hs, Hnd. cbn [all_fields rec_upd].
    destruct (lookup e n) as [[incs fs|? ?]|] eqn:El; try discriminate.
    destruct rv as [| | | | | | | | |ivs fvs| | |]; try contradiction. destruct Hs as [Hlen HF].
    assert (Hndi : NoDup (map f_name (flat_map (all_fields e k) incs))).
    { rewrite map_app in Hnd. apply NoDup_app_parts in Hnd. tauto. }
    assert (Hndo : NoDup (map f_name fs)).
    { rewrite map_app in Hnd. apply NoDup_app_parts in Hnd. tauto. }
    pose proof (try_incs_spec k key jd tr fvs (fun i iv => umfJ e DJ k i key jd iv tr)) as T.
    specialize (fun K => T K (fun i iv a b c => IH i key jd iv tr a b c) incs ivs HF [] Hc Hndi).
    cbn [length app] in T. rewrite T. clear T. rewrite find_app.
    destruct (find (keyp key) (flat_map (all_fields e k) incs)) as [fd|] eqn:Ef.
    - destruct (DJ false (f_ty fd) jd tr) as [[v tr']|x|]; [|reflexivity|reflexivity].
      cbn [bind app].
      assert (Eid : map2 (slot_upd (single key v)) fs fvs = fvs); [|rewrite Eid; reflexivity].
      apply (map2_id_F2 _ (fun _ _ => True)); [apply Forall2_same_length; symmetry; exact Hlen|].
      intros fd2 ov2 Hin _. unfold slot_upd, single. destruct (bytes_eqb key (f_name fd2)) eqn:E2; [|reflexivity]. exfalso.
      apply find_some in Ef as [Hin1 Ek]. unfold keyp in Ek. apply bytes_eqb_eq in Ek, E2.
      apply (names_disjoint _ _ fd fd2 Hnd Hin1 Hin). congruence.
    - destruct (find (keyp key) fs) as [fd|] eqn:Eo.
      + destruct (DJ false (f_ty fd) jd tr) as [[v tr']|x|] eqn:Ed.
        * destruct (own_set_gen key v fd fs fvs 0 Hndo Hlen Eo) as [j [H1 [H2 H3]]]. simpl in H1.
          rewrite H1, H2, Ed. cbn [bind]. rewrite H3.
          assert (Eid : map2 (fun i0 iv0 => rec_upd e k i0 (single key v) iv0) incs ivs = ivs); [|rewrite Eid; reflexivity].
          apply (map2_id_F2 _ (shaped e k)); [exact HF|]. intros i2 iv2 Hi2 Hs2. apply rec_upd_id; [|exact Hs2].
          intros fd2 Hfd2. apply (single_none_of_find key v _ Ef). apply in_flat_map. exists i2. split; assumption.
        * destruct (own_set_gen key dummy_value fd fs fvs 0 Hndo Hlen Eo) as [j [H1 [H2 _]]]. simpl in H1.
          rewrite H1, H2, Ed. reflexivity.
        * destruct (own_set_gen key dummy_value fd fs fvs 0 Hndo Hlen Eo) as [j [H1 [H2 _]]]. simpl in H1.
          rewrite H1, H2, Ed. reflexivity.
      + rewrite (index_of_none key fs 0 Eo). reflexivity.
  Qed.
End Umf.

(* ---------------------------------------------------------------------------------------------------------------------------
   E. pure facts about the specification functions
   --------------------------------------------------------------------------------------------------------------------------- *)
Lemma bytes_eqb_sym a b : bytes_eqb a b = bytes_eqb b a.
Proof.
  destruct (bytes_eqb a b) eqn:E1, (bytes_eqb b a) eqn:E2; try reflexivity.
  - apply bytes_eqb_eq in E1. subst. rewrite bytes_eqb_refl in E2. discriminate.
  - apply bytes_eqb_eq in E2. subst. rewrite bytes_eqb_refl in E1. discriminate.
Qed.

Lemma map2_ext {A B C} (f g : A -> B -> C) l1 l2 : (forall a b, f a b = g a b) -> map2 f l1 l2 = map2 g l1 l2.
Proof. intros H. revert l2. induction l1 as [|a l1 IH]; intros [|b l2]; simpl; try reflexivity. rewrite H, IH. reflexivity. Qed.

Definition orelse (l2 l1 : bytes -> option value) : bytes -> option value :=
  fun key => match l2 key with Some v => Some v | None => l1 key end.

Lemma rec_upd_compose e : forall k n l1 l2 rv,
  rec_upd e k n l2 (rec_upd e k n l1 rv) = rec_upd e k n (orelse l2 l1) rv.
Proof.
  induction k as [|k IH]; intros n l1 l2 rv; [reflexivity|]. simpl.
  destruct (lookup e n) as [[incs fs|? ?]|] eqn:El; try reflexivity.
  destruct rv as [| | | | | | | | |ivs fvs| | |]; try reflexivity; simpl; rewrite ?El; try reflexivity.
  rewrite !map2_map2. f_equal.
  - apply map2_ext. intros i iv. apply IH.
  - apply map2_ext. intros fd ov. unfold slot_upd, orelse. destruct (l2 (f_name fd)); reflexivity.
Qed.

Lemma rec_upd_ext e : forall k n l1 l2 rv, (forall key, l1 key = l2 key) -> rec_upd e k n l1 rv = rec_upd e k n l2 rv.
Proof.
  induction k as [|k IH]; intros n l1 l2 rv H; [reflexivity|]. simpl.
  destruct (lookup e n) as [[incs fs|? ?]|]; try reflexivity.
  destruct rv as [| | | | | | | | |ivs fvs| | |]; try reflexivity. f_equal.
  - apply map2_ext. intros i iv. apply IH. exact H.
  - apply map2_ext. intros fd ov. unfold slot_upd. rewrite H. reflexivity.
Qed.

Lemma jfind_none k es : ~ In k (map fst es) -> jfind k es = None.
Proof.
  induction es as [|kx r IH]; simpl; intros H; [reflexivity|].
  destruct (bytes_eqb k (fst kx)) eqn:E; [apply bytes_eqb_eq in E; exfalso; apply H; left; congruence|].
  apply IH. intros Hin. apply H. right; exact Hin.
Qed.

Lemma present_none k es : ~ In k (map fst es) -> present es k = None.
Proof. intros H. unfold present. rewrite (jfind_none k es H). reflexivity. Qed.

Lemma present_cons k x r name :
  present ((k, x) :: r) name = if bytes_eqb name k then (if is_null x then None else Some x) else present r name.
Proof. unfold present. simpl. destruct (bytes_eqb name k); reflexivity. Qed.

Lemma present_in es name x : present es name = Some x -> In (name, x) es /\ is_null x = false.
Proof.
  unfold present. induction es as [|kx r IH]; simpl; [discriminate|].
  destruct (bytes_eqb name (fst kx)) eqn:E.
  - destruct (is_null (snd kx)) eqn:En; [discriminate|]. intros H. injection H as <-. apply bytes_eqb_eq in E. subst name.
    split; [left; destruct kx; reflexivity|exact En].
  - intros H. destruct (IH H) as [H1 H2]. split; [right; exact H1|exact H2].
Qed.

Lemma in_present es k x : NoDup (map fst es) -> In (k, x) es -> is_null x = false -> present es k = Some x.
Proof.
  induction es as [|kx r IH]; simpl; intros Hnd Hin Hn; [contradiction|].
  inversion Hnd as [|? ? Hk Hnd']; subst. destruct kx as [k0 x0]. rewrite present_cons. destruct Hin as [E|Hin].
  - injection E as -> ->. rewrite bytes_eqb_refl, Hn. reflexivity.
  - destruct (bytes_eqb k k0) eqn:E; [|apply IH; assumption].
    apply bytes_eqb_eq in E. subst k0. exfalso. apply Hk. simpl. apply (in_map fst) in Hin. exact Hin.
Qed.

Lemma remove_bytes_filter k rem : remove_bytes k rem = filter (fun f => negb (bytes_eqb k f)) rem.
Proof. induction rem as [|a rem IH]; simpl; [reflexivity|]. destruct (bytes_eqb k a); simpl; rewrite IH; reflexivity. Qed.

Definition absent (es : list (bytes * jdoc)) (f : bytes) : bool := match present es f with None => true | Some _ => false end.

Lemma map_put_new k v : forall acc, ~ In k (map fst acc) -> map_put k v acc = acc ++ [(k, v)].
Proof.
  induction acc as [|[k' v'] acc IH]; simpl; intros H; [reflexivity|].
  destruct (bytes_eqb k k') eqn:E; [apply bytes_eqb_eq in E; exfalso; apply H; left; congruence|].
  rewrite IH; [reflexivity|]. intros Hin. apply H. right; exact Hin.
Qed.

Lemma required_fields_all e : forall k n,
  required_fields e k n = map f_name (filter (fun fd => is_required (f_opt fd)) (all_fields e k n)).
Proof.
  induction k as [|k IH]; intros n; [reflexivity|]. simpl.
  destruct (lookup e n) as [[incs fs|? ?]|]; try reflexivity.
  rewrite filter_app, map_app. f_equal.
  induction incs as [|i incs IHi]; simpl; [reflexivity|]. rewrite filter_app, map_app, IH, IHi. reflexivity.
Qed.

Lemma zero_value_shaped e : forall k n, inc_closed e k n = true -> shaped e k n (zero_value e (S k) (TRef n)).
Proof.
  induction k as [|k IH]; intros n Hc; [discriminate|]. simpl in Hc. cbn [zero_value]. cbn [shaped].
  destruct (lookup e n) as [[incs fs|? ?]|]; try discriminate. split; [apply map_length|].
  induction incs as [|i incs IHi]; simpl in *; constructor.
  - apply andb_true_iff in Hc as [Hc _]. apply IH. exact Hc.
  - apply IHi. apply andb_true_iff in Hc as [_ Hc]. exact Hc.
Qed.

(* the join of the fields of a record with the entries of an object, taken in either order *)
Section Join.
  Variable MS : ty -> jdoc -> list seg -> list bytes.
  Variable sc : list seg.
  Variable FL : list field.
  Hypothesis HndF : NoDup (map f_name FL).

  Definition joinA (es : list (bytes * jdoc)) (fd : field) : list bytes :=
    match present es (f_name fd) with Some x => MS (f_ty fd) x (sc ++ [SKey (f_name fd)]) | None => [] end.
  Definition joinB (es : list (bytes * jdoc)) (fd : field) : list bytes :=
    match present es (f_name fd) with
    | Some _ => []
    | None => if is_required (f_opt fd) then [scope_string (sc ++ [SKey (f_name fd)])] else []
    end.
  Definition joinE (kx : bytes * jdoc) : list bytes :=
    if is_null (snd kx) then []
    else match find (keyp (fst kx)) FL with
         | Some fd => MS (f_ty fd) (snd kx) (sc ++ [SKey (fst kx)])
         | None => []
         end.

  Lemma joinB_eq es :
    flat_map (joinB es) FL =
    map (fun f => scope_string (sc ++ [SKey f])) (filter (absent es) (map f_name (filter (fun fd => is_required (f_opt fd)) FL))).
  Proof.
    clear HndF. induction FL as [|fd l IH]; simpl; [reflexivity|]. unfold joinB at 1.
    destruct (is_required (f_opt fd)) eqn:Er; simpl.
    - unfold absent at 1. destruct (present es (f_name fd)); simpl; rewrite IH; reflexivity.
    - destruct (present es (f_name fd)); simpl; exact IH.
  Qed.

  Lemma join_move (A A' : field -> list bytes) k fd0 : forall l,
    NoDup (map f_name l) -> find (keyp k) l = Some fd0 ->
    (forall fd, In fd l -> f_name fd <> k -> A' fd = A fd) ->
    (forall fd, In fd l -> f_name fd = k -> A fd = []) ->
    Permutation (flat_map A' l) (A' fd0 ++ flat_map A l).
  Proof.
    induction l as [|fd l IH]; intros Hnd Hf Hne He; [discriminate|]. simpl in *.
    inversion Hnd as [|? ? Hn Hnd']; subst. unfold keyp at 1 in Hf.
    destruct (bytes_eqb k (f_name fd)) eqn:E.
    - injection Hf as <-. apply bytes_eqb_eq in E. rewrite (He fd) by auto. simpl.
      apply Permutation_app_head. rewrite (flat_map_ext_in A' A); [reflexivity|].
      intros fd2 Hin. apply Hne; [right; exact Hin|]. intros E2. apply Hn. rewrite <- E, <- E2. apply in_map. exact Hin.
    - rewrite (Hne fd) by (auto; intros E2; rewrite E2, bytes_eqb_refl in E; discriminate).
      rewrite (IH Hnd' Hf) by (intros; auto). rewrite !app_assoc. apply Permutation_app_tail. apply Permutation_app_comm.
  Qed.

  Lemma join_perm : forall es, NoDup (map fst es) -> Permutation (flat_map (joinA es) FL) (flat_map joinE es).
  Proof.
    induction es as [|[k x] r IH]; intros Hnd.
    - simpl. rewrite flat_map_nil_in; [constructor|]. intros fd _. reflexivity.
    - inversion Hnd as [|? ? Hk Hnd']; subst. simpl flat_map. unfold joinE at 1. simpl fst. simpl snd.
      assert (Hr : forall fd, f_name fd <> k -> joinA ((k, x) :: r) fd = joinA r fd).
      { intros fd Hne. unfold joinA. rewrite present_cons.
        destruct (bytes_eqb (f_name fd) k) eqn:E; [apply bytes_eqb_eq in E; contradiction|reflexivity]. }
      assert (Hk0 : forall fd, f_name fd = k -> joinA r fd = []).
      { intros fd E. unfold joinA. rewrite E, (present_none k r Hk). reflexivity. }
      destruct (is_null x) eqn:En.
      + simpl. rewrite <- (IH Hnd'). rewrite (flat_map_ext_in (joinA ((k, x) :: r)) (joinA r)); [reflexivity|].
        intros fd _. destruct (bytes_eqb (f_name fd) k) eqn:E.
        * apply bytes_eqb_eq in E. rewrite (Hk0 fd E). unfold joinA. rewrite present_cons, E, bytes_eqb_refl, En. reflexivity.
        * apply Hr. intros E2. rewrite E2, bytes_eqb_refl in E. discriminate.
      + destruct (find (keyp k) FL) as [fd0|] eqn:Ef.
        * rewrite (join_move (joinA r) (joinA ((k, x) :: r)) k fd0 FL HndF Ef); [| intros; apply Hr; assumption | intros; apply Hk0; assumption].
          rewrite (IH Hnd'). apply Permutation_app_tail.
          apply find_some in Ef as [_ Ek]. unfold keyp in Ek. apply bytes_eqb_eq in Ek. subst k.
          unfold joinA. rewrite present_cons, bytes_eqb_refl, En. reflexivity.
        * simpl. rewrite <- (IH Hnd'). rewrite (flat_map_ext_in (joinA ((k, x) :: r)) (joinA r)); [reflexivity|].
          intros fd Hin. apply Hr. intros E. pose proof (proj1 (find_none_iff _ _) Ef fd Hin) as Hn. unfold keyp in Hn.
          rewrite E, bytes_eqb_refl in Hn. discriminate.
  Qed.
End Join.

(* ---------------------------------------------------------------------------------------------------------------------------
   F. one step of the decoder, exactly
   --------------------------------------------------------------------------------------------------------------------------- *)
Definition keys_nonempty (es : list (bytes * jdoc)) : Prop := Forall (fun kx => fst kx <> []) es.

Section StepExact.
  Variable e : env.
  Variables (wildcard : bytes) (ignore : nat).
  Variable parseF : nat -> bytes -> option N.
  Variable DJ : bool -> ty -> jdoc -> tracker -> res (value * tracker).
  Hypothesis Hwf : wf_schema e.

  Variable W : ty -> jdoc -> Prop.
  Variable VS : ty -> jdoc -> value.
  Variable MS : ty -> jdoc -> list seg -> list bytes.

  (* what is known of the recursive call: on a well-shaped child, below the top level *)
  Definition child_ok : Prop :=
    forall t x tr, W t x -> t_scope tr <> [] -> t_scope tr <> [SKey []] ->
      exists tr', DJ false t x tr = Ok (VS t x, tr') /\ t_scope tr' = t_scope tr /\
                  Permutation (t_missing tr') (t_missing tr ++ MS t x (t_scope tr)).
  Hypothesis HDJ : child_ok.

  Notation goJrec := (goJrec e wildcard ps_empty ignore DJ).
  Notation goJmap := (goJmap wildcard ps_empty ignore DJ).
  Notation goJuni := (goJuni wildcard ps_empty ignore DJ).
  Notation K := (S (length e)).

  Lemma child_key t x tr k :
    W t x -> (t_scope tr = [] -> k <> []) ->
    exists tr2, DJ false t x (push (SKey k) tr) = Ok (VS t x, tr2) /\ t_scope (pop tr2) = t_scope tr /\
                Permutation (t_missing (pop tr2)) (t_missing tr ++ MS t x (t_scope tr ++ [SKey k])).
  Proof.
    intros Hw Hk. destruct (HDJ t x (push (SKey k) tr) Hw) as [tr2 [H1 [H2 H3]]].
    - simpl. intros E. apply app_eq_nil in E as [_ E]. discriminate.
    - simpl. destruct (t_scope tr) as [|s r] eqn:Es.
      + simpl. intros E. injection E as E. apply Hk; [reflexivity|exact E].
      + simpl. intros E. injection E as _ E. apply app_eq_nil in E as [_ E]. discriminate.
    - exists tr2. split; [exact H1|]. split; [apply (pop_push_scope (SKey k)); exact H2|exact H3].
  Qed.

  Lemma child_idx t x tr i :
    W t x ->
    exists tr2, DJ false t x (enter_array i tr) = Ok (VS t x, tr2) /\ t_scope (pop tr2) = t_scope tr /\
                Permutation (t_missing (pop tr2)) (t_missing tr ++ MS t x (t_scope tr ++ [SIdx i])).
  Proof.
    intros Hw. unfold enter_array. destruct (HDJ t x (push (SIdx i) tr) Hw) as [tr2 [H1 [H2 H3]]].
    - simpl. intros E. apply app_eq_nil in E as [_ E]. discriminate.
    - simpl. destruct (t_scope tr) as [|s r] eqn:Es.
      + simpl. discriminate.
      + simpl. intros E. injection E as _ E. apply app_eq_nil in E as [_ E]. discriminate.
    - exists tr2. split; [exact H1|]. split; [apply (pop_push_scope (SIdx i)); exact H2|exact H3].
  Qed.

  (* ---- arrays ---- *)
  Lemma goJarr_cons t' x r i acc tr :
    goJarr DJ t' (x :: r) i acc tr =
    do rr <- DJ false t' x (enter_array i tr); let '(v, tr') := rr in goJarr DJ t' r (S i) (v :: acc) (pop tr').
  Proof. reflexivity. Qed.

  Lemma goJarr_exact t' : forall items i acc tr, Forall (W t') items ->
    exists tr', goJarr DJ t' items i acc tr = Ok (VArr (rev acc ++ map (VS t') items), tr') /\ t_scope tr' = t_scope tr /\
                Permutation (t_missing tr') (t_missing tr ++ ms_arr MS t' (t_scope tr) i items).
  Proof.
    induction items as [|x r IH]; intros i acc tr HW.
    - exists tr. simpl. rewrite !app_nil_r. auto.
    - inversion HW as [|? ? Hx Hr]; subst. rewrite goJarr_cons.
      destruct (child_idx t' x tr i Hx) as [tr2 [H1 [H2 H3]]]. rewrite H1. cbn [bind].
      destruct (IH (S i) (VS t' x :: acc) (pop tr2) Hr) as [tr' [G1 [G2 G3]]].
      exists tr'. split; [rewrite G1; simpl; rewrite <- app_assoc; reflexivity|]. split; [congruence|].
      rewrite G3, H2, H3. simpl. rewrite <- app_assoc. reflexivity.
  Qed.

  (* ---- maps ---- *)
  Lemma goJmap_cons t' k x r acc tr :
    goJmap t' ((k, x) :: r) acc tr =
    if is_null x then goJmap t' r acc tr
    else do tr1 <- enter_map wildcard ps_empty ignore k tr;
         do rr <- DJ false t' x tr1;
         let '(v, tr2) := rr in goJmap t' r (map_put k v acc) (pop tr2).
  Proof. destruct x; reflexivity. Qed.

  Definition nonnull (kx : bytes * jdoc) : bool := negb (is_null (snd kx)).

  Lemma goJmap_exact t' : forall es acc tr,
    NoDup (map fst es) -> (forall k, In k (map fst es) -> ~ In k (map fst acc)) ->
    Forall (fun kx => is_null (snd kx) = false -> W t' (snd kx)) es ->
    (t_scope tr = [] -> keys_nonempty es) ->
    exists tr', goJmap t' es acc tr
                = Ok (VMap (sort_entries (acc ++ map (fun kx => (fst kx, VS t' (snd kx))) (filter nonnull es))), tr') /\
                t_scope tr' = t_scope tr /\
                Permutation (t_missing tr')
                  (t_missing tr ++ flat_map (fun kx => if is_null (snd kx) then [] else MS t' (snd kx) (t_scope tr ++ [SKey (fst kx)])) es).
  Proof.
    induction es as [|[k x] r IH]; intros acc tr Hnd Hdis HW Hke.
    - exists tr. simpl. rewrite !app_nil_r. auto.
    - inversion Hnd as [|? ? Hk Hnd']; subst. inversion HW as [|? ? Hx Hr]; subst. rewrite goJmap_cons.
      assert (Hke' : forall tr0, t_scope tr0 = t_scope tr -> t_scope tr0 = [] -> keys_nonempty r).
      { intros tr0 E E0. rewrite E in E0. specialize (Hke E0). inversion Hke; assumption. }
      simpl flat_map. simpl filter. unfold nonnull at 1. simpl snd. simpl fst.
      destruct (is_null x) eqn:En.
      + simpl. apply IH; [exact Hnd'| |exact Hr|apply Hke'; reflexivity].
        intros k' Hin. apply Hdis. right; exact Hin.
      + rewrite enter_map_empty. cbn [bind].
        destruct (child_key t' x tr k (Hx En)) as [tr2 [H1 [H2 H3]]].
        { intros E0. specialize (Hke E0). inversion Hke; assumption. }
        rewrite H1. cbn [bind].
        assert (Hnew : ~ In k (map fst acc)) by (apply Hdis; left; reflexivity).
        rewrite (map_put_new k _ acc Hnew).
        destruct (IH (acc ++ [(k, VS t' x)]) (pop tr2) Hnd') as [tr' [G1 [G2 G3]]].
        * intros k' Hin. rewrite map_app. simpl. intros Hc. apply in_app_or in Hc as [Hc|[Hc|[]]].
          -- apply (Hdis k'); [right; exact Hin|exact Hc].
          -- subst k'. contradiction.
        * exact Hr.
        * apply Hke'. exact H2.
        * exists tr'. split; [rewrite G1; simpl; rewrite <- app_assoc; reflexivity|]. split; [congruence|].
          rewrite G3, H2, H3. rewrite <- app_assoc. reflexivity.
  Qed.

  (* ---- records ---- *)
  Lemma goJrec_cons n k x r rv rem tr :
    goJrec n ((k, x) :: r) rv rem tr =
    if is_null x then goJrec n r rv rem tr
    else do tr1 <- enter_map wildcard ps_empty ignore k tr;
         do u <- umfJ e DJ K n k x rv tr1;
         let '(_, rv', tr2) := u in goJrec n r rv' (remove_bytes k rem) (pop tr2).
  Proof. destruct x; reflexivity. Qed.

  Section Rec.
    Variables (n : nat) (incs : list nat) (fs : list field).
    Hypothesis Hn : lookup e n = Some (DRecord incs fs).

    Lemma goJrec_exact : forall es rv rem tr,
      NoDup (map fst es) -> shaped e K n rv ->
      (forall k x fd, In (k, x) es -> is_null x = false -> field_of e n k = Some fd -> W (f_ty fd) x) ->
      (t_scope tr = [] -> keys_nonempty es) ->
      exists tr', goJrec n es rv rem tr = Ok (rec_upd e K n (look_of e VS n es) rv, filter (absent es) rem, tr') /\
                  t_scope tr' = t_scope tr /\
                  Permutation (t_missing tr') (t_missing tr ++ flat_map (joinE MS (t_scope tr) (fields_of e n)) es).
    Proof.
      destruct (Hwf n incs fs Hn) as [Hc HndF].
      induction es as [|[k x] r IH]; intros rv rem tr Hnd Hs HW Hke.
      - exists tr. cbn [flat_map]. rewrite app_nil_r. split; [|auto].
        rewrite (rec_upd_id e K n (look_of e VS n []) rv); [|intros; reflexivity|exact Hs].
        change (goJrec n [] rv rem tr) with (@Ok (value * list bytes * tracker) (rv, rem, tr)).
        do 3 f_equal. induction rem as [|a rem IHr]; simpl; [reflexivity|]. rewrite <- IHr. reflexivity.
      - inversion Hnd as [|? ? Hk Hnd']; subst. rewrite goJrec_cons.
        assert (Hke' : forall tr0, t_scope tr0 = t_scope tr -> t_scope tr0 = [] -> keys_nonempty r).
        { intros tr0 E E0. rewrite E in E0. specialize (Hke E0). inversion Hke; assumption. }
        assert (HW' : forall k' x' fd, In (k', x') r -> is_null x' = false -> field_of e n k' = Some fd -> W (f_ty fd) x').
        { intros k' x' fd Hin. apply HW. right; exact Hin. }
        simpl flat_map. unfold joinE at 1. simpl snd. simpl fst.
        destruct (is_null x) eqn:En.
        + destruct (IH rv rem tr Hnd' Hs HW' (Hke' tr eq_refl)) as [tr' [G1 [G2 G3]]].
          exists tr'. split; [|split; [exact G2|exact G3]]. rewrite G1. do 2 f_equal. f_equal.
          * apply rec_upd_ext. intros key. unfold look_of. rewrite present_cons, En.
            destruct (bytes_eqb key k) eqn:E; [|reflexivity]. apply bytes_eqb_eq in E. subst key.
            rewrite (present_none k r Hk). reflexivity.
          * apply filter_ext. intros f. unfold absent. rewrite present_cons, En.
            destruct (bytes_eqb f k) eqn:E; [|reflexivity]. apply bytes_eqb_eq in E. subst f.
            rewrite (present_none k r Hk). reflexivity.
        + rewrite enter_map_empty. cbn [bind].
          rewrite (umfJ_spec e DJ K n k x rv (push (SKey k) tr) Hc Hs HndF). unfold umf_res.
          fold (fields_of e n). 
          assert (Hfilt : filter (absent r) (remove_bytes k rem) = filter (absent ((k, x) :: r)) rem).
          { rewrite remove_bytes_filter, filter_filter. apply filter_ext. intros f. unfold absent. rewrite present_cons, En.
            rewrite (bytes_eqb_sym f k). destruct (bytes_eqb k f); reflexivity. }
          destruct (find (keyp k) (fields_of e n)) as [fd|] eqn:Ef.
          * destruct (child_key (f_ty fd) x tr k) as [tr2 [H1 [H2 H3]]].
            { apply (HW k x fd); [left; reflexivity|exact En|exact Ef]. }
            { intros E0. specialize (Hke E0). inversion Hke; assumption. }
            rewrite H1. cbn [bind].
            destruct (IH (rec_upd e K n (single k (VS (f_ty fd) x)) rv) (remove_bytes k rem) (pop tr2) Hnd'
                        (shaped_rec_upd e K n _ rv Hs) HW' (Hke' _ H2)) as [tr' [G1 [G2 G3]]].
            exists tr'. split; [|split; [congruence|]].
            -- rewrite G1, Hfilt, rec_upd_compose. do 2 f_equal. f_equal.
               apply rec_upd_ext. intros key. unfold orelse, look_of, single. rewrite present_cons, En.
               rewrite (bytes_eqb_sym key k). destruct (bytes_eqb k key) eqn:E.
               ++ apply bytes_eqb_eq in E. subst key. rewrite (present_none k r Hk). rewrite field_of_eq, Ef. reflexivity.
               ++ destruct (present r key); [destruct (field_of e n key)|]; reflexivity.
            -- rewrite G3, H2, H3. rewrite <- app_assoc. reflexivity.
          * cbn [bind].
            destruct (IH rv (remove_bytes k rem) (pop (push (SKey k) tr)) Hnd' Hs HW') as [tr' [G1 [G2 G3]]].
            { apply Hke'. apply (pop_push_scope (SKey k)). reflexivity. }
            assert (Esc : t_scope (pop (push (SKey k) tr)) = t_scope tr) by (apply (pop_push_scope (SKey k)); reflexivity).
            exists tr'. split; [|split; [congruence|]].
            -- rewrite G1, Hfilt. do 2 f_equal. f_equal.
               apply rec_upd_ext. intros key. unfold look_of. rewrite present_cons, En.
               destruct (bytes_eqb key k) eqn:E; [|reflexivity]. apply bytes_eqb_eq in E. subst key.
               rewrite (present_none k r Hk). rewrite field_of_eq, Ef. reflexivity.
            -- rewrite G3, Esc. simpl. reflexivity.
    Qed.
  End Rec.

  (* ---- unions ---- *)
  Lemma goJuni_cons ms k x r uv b tr :
    goJuni ms ((k, x) :: r) uv b tr =
    if is_null x then goJuni ms r uv b tr
    else do tr1 <- enter_map wildcard ps_empty ignore k tr;
         if b then Err EUnion
         else match index_of k (map fst ms) 0 with
              | Some j =>
                  match nth_error ms j with
                  | Some (_, mt) =>
                      do rr <- DJ false mt x tr1;
                      let '(v, tr2) := rr in goJuni ms r (set_nth j (Some v) uv) true (pop tr2)
                  | None => Err EType
                  end
              | None => Err EUnion
              end.
  Proof. destruct x; reflexivity. Qed.

  Definition uni_f (ms : list (bytes * ty)) (uv : list (option value)) (kx : bytes * jdoc) : list (option value) :=
    if is_null (snd kx) then uv
    else match index_of (fst kx) (map fst ms) 0, assoc_ty (fst kx) ms with
         | Some j, Some mt => set_nth j (Some (VS mt (snd kx))) uv
         | _, _ => uv
         end.
  Definition uni_g (ms : list (bytes * ty)) (sc : list seg) (kx : bytes * jdoc) : list bytes :=
    if is_null (snd kx) then []
    else match assoc_ty (fst kx) ms with
         | Some mt => MS mt (snd kx) (sc ++ [SKey (fst kx)])
         | None => []
         end.

  Lemma uni_all_null ms sc : forall es uv b tr, filter nonnull es = [] ->
    goJuni ms es uv b tr = Ok (uv, b, tr) /\ fold_left (uni_f ms) es uv = uv /\ flat_map (uni_g ms sc) es = [].
  Proof.
    induction es as [|[k x] r IH]; intros uv b tr Hf; [auto|].
    simpl in Hf. unfold nonnull at 1 in Hf. simpl in Hf. destruct (is_null x) eqn:En; simpl in Hf; [|discriminate].
    rewrite goJuni_cons, En. simpl. unfold uni_f at 2, uni_g at 1. simpl. rewrite En. simpl. apply IH. exact Hf.
  Qed.

  Lemma assoc_index k mt : forall ms i, assoc_ty k ms = Some mt ->
    exists j a, index_of k (map fst ms) i = Some (i + j) /\ nth_error ms j = Some (a, mt).
  Proof.
    unfold assoc_ty. induction ms as [|[a t0] ms IH]; intros i H; [discriminate|]. simpl in *.
    destruct (bytes_eqb k a) eqn:E.
    - injection H as <-. exists 0, a. rewrite Nat.add_0_r. auto.
    - destruct (IH (S i) H) as [j [a' [H1 H2]]]. exists (S j), a'. split; [rewrite H1; f_equal; lia|exact H2].
  Qed.

  Lemma goJuni_one ms : forall es uv tr kx mt,
    filter nonnull es = [kx] -> assoc_ty (fst kx) ms = Some mt -> W mt (snd kx) ->
    (t_scope tr = [] -> keys_nonempty es) ->
    exists tr', goJuni ms es uv false tr = Ok (fold_left (uni_f ms) es uv, true, tr') /\ t_scope tr' = t_scope tr /\
                Permutation (t_missing tr') (t_missing tr ++ flat_map (uni_g ms (t_scope tr)) es).
  Proof.
    induction es as [|[k x] r IH]; intros uv tr kx mt Hf Ha Hw Hke; [discriminate|].
    simpl in Hf. unfold nonnull at 1 in Hf. simpl in Hf. rewrite goJuni_cons.
    simpl fold_left. simpl flat_map. unfold uni_f at 2, uni_g at 1. simpl fst. simpl snd.
    destruct (is_null x) eqn:En; simpl in Hf.
    - apply (IH uv tr kx mt Hf Ha Hw). intros E0. specialize (Hke E0). inversion Hke; assumption.
    - injection Hf as <- Hf. simpl in Ha, Hw. rewrite enter_map_empty. cbn [bind].
      destruct (assoc_index k mt ms 0 Ha) as [j [a [H1 H2]]]. simpl in H1. rewrite H1, H2, Ha.
      destruct (child_key mt x tr k Hw) as [tr2 [G1 [G2 G3]]].
      { intros E0. specialize (Hke E0). inversion Hke; assumption. }
      rewrite G1. cbn [bind].
      destruct (uni_all_null ms (t_scope tr) r (set_nth j (Some (VS mt x)) uv) true (pop tr2) Hf) as [U1 [U2 U3]].
      rewrite U1, U2, U3. exists (pop tr2). split; [reflexivity|]. split; [exact G2|]. rewrite app_nil_r. exact G3.
  Qed.

  (* ---- the step ---- *)
  Theorem stepJ_exact : forall top t d tr,
    ws_step e parseF W t d ->
    t_scope tr <> [SKey []] -> (t_scope tr = [] -> keys_nonempty (entries_of d)) ->
    exists tr',
      stepJ e wildcard ps_empty ignore parseF DJ top t d tr
      = Ok (val_step e parseF DJ VS (top && negb (is_nilb (t_missing tr ++ ms_step e MS t d (t_scope tr)))) t d, tr') /\
      t_scope tr' = t_scope tr /\
      Permutation (t_missing tr') (t_missing tr ++ ms_step e MS t d (t_scope tr)).
  Proof.
    intros top t d tr Hws Hsc Hke. destruct t as [p|syms|sz|n|t'|t']; simpl in Hws.
    - destruct Hws as [v Hv]. exists tr. simpl. rewrite Hv, app_nil_r. auto.
    - destruct Hws as [s ->]. exists tr. simpl. rewrite app_nil_r. auto.
    - destruct Hws as [b [Hb Hl]]. exists tr. simpl. rewrite Hb, app_nil_r. cbn [bind].
      rewrite (proj2 (Nat.eqb_eq _ _) Hl). auto.
    - cbn [stepJ val_step ms_step].
      destruct (lookup e n) as [[incs fs|nullable ms]|] eqn:El; [| |contradiction].
      + (* record *)
        destruct Hws as [es [Hes [Hnd HF]]].
        assert (Ees : entries_of d = es) by (destruct d; simpl in Hes; try discriminate; injection Hes as <-; reflexivity).
        assert (Eb : match d with JNull => Ok [] | JObj es => Ok es | _ => Err EDeser end = Ok es)
          by (destruct d; simpl in Hes; try discriminate; injection Hes as <-; reflexivity).
        rewrite Eb, Ees. cbn [bind]. rewrite Ees in Hke.
        destruct (Hwf n incs fs El) as [Hc HndF].
        destruct (goJrec_exact n incs fs El es (zero_value e (S (S (length e))) (TRef n))
                    (required_fields e (S (length e)) n) tr Hnd (zero_value_shaped e _ n Hc)) as [tr1 [G1 [G2 G3]]].
        { intros k x fd Hin Hnn Hfd. rewrite Forall_forall in HF. rewrite field_of_eq in Hfd.
          apply find_some in Hfd as [Hin2 Ek]. unfold keyp in Ek. apply bytes_eqb_eq in Ek. subst k.
          specialize (HF fd Hin2). rewrite (in_present es (f_name fd) x Hnd Hin Hnn) in HF. exact HF. }
        { exact Hke. }
        rewrite G1. cbn [bind].
        assert (Hsc1 : t_scope tr1 <> [SKey []]) by (rewrite G2; exact Hsc).
        destruct (record_missing_empty wildcard ignore (filter (absent es) (required_fields e (S (length e)) n)) tr1 Hsc1)
          as [R1 R2].
        assert (HP : Permutation
                       (t_missing (record_missing wildcard ps_empty ignore
                                     (filter (absent es) (required_fields e (S (length e)) n)) tr1))
                       (t_missing tr ++ flat_map (ms_field MS es (t_scope tr)) (fields_of e n))).
        { rewrite R1, G3, G2. rewrite <- app_assoc. apply Permutation_app_head.
          rewrite (flat_map_ext_in (ms_field MS es (t_scope tr))
                     (fun fd => joinA MS (t_scope tr) es fd ++ joinB (t_scope tr) es fd)).
          2:{ intros fd _. unfold ms_field, joinA, joinB. destruct (present es (f_name fd)); [rewrite app_nil_r|]; reflexivity. }
          rewrite Permutation_flat_map_app. rewrite (join_perm MS (t_scope tr) (fields_of e n) HndF es Hnd).
          apply Permutation_app_head. rewrite joinB_eq, required_fields_all. reflexivity. }
        eexists. split; [|split; [rewrite R2; exact G2|exact HP]].
        f_equal. f_equal.
        change (match t_missing ?x with [] => true | _ => false end) with (is_nilb (t_missing x)).
        rewrite (is_nilb_perm _ _ HP). reflexivity.
      + (* union *)
        destruct Hws as [es [Hes [Hnd HU]]].
        assert (Ees : entries_of d = es) by (destruct d; simpl in Hes; try discriminate; injection Hes as <-; reflexivity).
        assert (Eb : match d with JNull => Ok [] | JObj es => Ok es | _ => Err EDeser end = Ok es)
          by (destruct d; simpl in Hes; try discriminate; injection Hes as <-; reflexivity).
        rewrite Eb, Ees. cbn [bind]. rewrite Ees in Hke. unfold ws_union in HU.
        fold (uni_g ms (t_scope tr)). unfold union_val. fold (uni_f ms).
        destruct (filter (fun kx => negb (is_null (snd kx))) es) as [|kx [|kx2 rest]] eqn:Ef; [| |contradiction].
        * subst nullable.
          destruct (uni_all_null ms (t_scope tr) es (map (fun _ => None) ms) false tr Ef) as [U1 [U2 U3]].
          rewrite U1, U2, U3. simpl. exists tr. rewrite app_nil_r. auto.
        * destruct HU as [mt [Ha Hw]].
          destruct (goJuni_one ms es (map (fun _ => None) ms) tr kx mt Ef Ha Hw Hke) as [tr' [G1 [G2 G3]]].
          rewrite G1. cbn [bind]. rewrite andb_false_r. exists tr'. auto.
    - destruct d; try contradiction.
      + exists tr. simpl. rewrite app_nil_r. auto.
      + destruct (goJarr_exact t' items 0 [] tr Hws) as [tr' [G1 [G2 G3]]]. exists tr'. simpl. rewrite G1. auto.
    - destruct d; try contradiction.
      + exists tr. simpl. rewrite app_nil_r. auto.
      + destruct Hws as [Hnd HF].
        destruct (goJmap_exact t' entries [] tr Hnd ltac:(intros k _ []) HF Hke) as [tr' [G1 [G2 G3]]].
        exists tr'. simpl. rewrite G1. auto.
  Qed.
End StepExact.

(* ---------------------------------------------------------------------------------------------------------------------------
   G. sort.Strings does not depend on the order in which the paths were recorded
   --------------------------------------------------------------------------------------------------------------------------- *)
Definition ble (a b : bytes) : Prop := bytes_ltb b a = false.

Lemma ble_trans a b c : ble a b -> ble b c -> ble a c.
Proof.
  unfold ble. intros H1 H2. destruct (bytes_ltb c a) eqn:E; [|reflexivity].
  destruct (bytes_ltb b c) eqn:E2.
  - rewrite (bytes_ltb_trans _ _ _ E2 E) in H1. discriminate.
  - pose proof (bytes_ltb_total _ _ H2 E2) as ->. rewrite E in H1. discriminate.
Qed.

Lemma insert_bytes_perm k l : Permutation (insert_bytes k l) (k :: l).
Proof.
  induction l as [|x r IH]; simpl; [reflexivity|]. destruct (bytes_ltb x k); [|reflexivity].
  rewrite IH. apply perm_swap.
Qed.

Lemma sort_bytes_perm l : Permutation (sort_bytes l) l.
Proof. induction l as [|k r IH]; simpl; [constructor|]. rewrite insert_bytes_perm, IH. reflexivity. Qed.

Lemma insert_bytes_sorted k l : StronglySorted ble l -> StronglySorted ble (insert_bytes k l).
Proof.
  induction l as [|x r IH]; simpl; intros H; [repeat constructor|].
  inversion H as [|? ? Hs Hf]; subst. destruct (bytes_ltb x k) eqn:E.
  - constructor; [apply IH; exact Hs|]. rewrite insert_bytes_perm. constructor; [|exact Hf].
    unfold ble. apply bytes_ltb_asym. exact E.
  - constructor; [exact H|]. constructor; [exact E|]. rewrite Forall_forall in *. intros y Hy.
    apply (ble_trans k x y); [exact E|apply Hf; exact Hy].
Qed.

Lemma sort_bytes_sorted l : StronglySorted ble (sort_bytes l).
Proof. induction l as [|k r IH]; simpl; [constructor|]. apply insert_bytes_sorted. exact IH. Qed.

Lemma sorted_perm_eq : forall l1 l2, StronglySorted ble l1 -> StronglySorted ble l2 -> Permutation l1 l2 -> l1 = l2.
Proof.
  induction l1 as [|a l1 IH]; intros l2 H1 H2 HP.
  - apply Permutation_nil in HP. subst; reflexivity.
  - destruct l2 as [|b l2]; [apply Permutation_sym, Permutation_nil in HP; discriminate|].
    inversion H1 as [|? ? Hs1 Hf1]; subst. inversion H2 as [|? ? Hs2 Hf2]; subst.
    assert (E : a = b).
    { rewrite Forall_forall in Hf1, Hf2.
      assert (Hab : ble a b).
      { assert (Hin : In b (a :: l1)) by (apply (Permutation_in b (Permutation_sym HP)); left; reflexivity).
        destruct Hin as [->|Hin]; [apply bytes_ltb_irrefl|apply Hf1; exact Hin]. }
      assert (Hba : ble b a).
      { assert (Hin : In a (b :: l2)) by (apply (Permutation_in a HP); left; reflexivity).
        destruct Hin as [->|Hin]; [apply bytes_ltb_irrefl|apply Hf2; exact Hin]. }
      apply bytes_ltb_total; assumption. }
    subst b. f_equal. apply IH; [exact Hs1|exact Hs2|]. apply Permutation_cons_inv in HP. exact HP.
Qed.

Theorem sort_bytes_perm_invariant l1 l2 : Permutation l1 l2 -> sort_bytes l1 = sort_bytes l2.
Proof.
  intros H. apply sorted_perm_eq; try apply sort_bytes_sorted.
  rewrite !sort_bytes_perm. exact H.
Qed.

(* ---------------------------------------------------------------------------------------------------------------------------
   H. the decoder, exactly (induction on the fuel)
   --------------------------------------------------------------------------------------------------------------------------- *)
Section Exact.
  Variable e : env.
  Variables (wildcard : bytes) (ignore : nat).
  Variable parseF : nat -> bytes -> option N.
  Hypothesis Hwf : wf_schema e.

  Notation decJ := (decJ e wildcard ps_empty ignore parseF).
  Notation well_shaped := (well_shaped e parseF).

  (* the decoded value, field by field in schema order; [raising] = "this is the record at the start of the input and some
     required field is missing" (its own defaults are then not filled) *)
  Fixpoint decode_spec (fuel : nat) (raising : bool) (t : ty) (d : jdoc) : value :=
    match fuel with
    | 0 => dummy_value
    | S f => val_step e parseF (djmix e wildcard ps_empty ignore parseF f) (decode_spec f false) raising t d
    end.

  Definition raises (fuel : nat) (top : bool) (t : ty) (d : jdoc) (tr : tracker) : bool :=
    top && negb (is_nilb (t_missing tr ++ missing_spec e fuel t d (t_scope tr))).

  Theorem decJ_exact : forall fuel top t d tr,
    well_shaped fuel t d ->
    t_scope tr <> [SKey []] -> (t_scope tr = [] -> keys_nonempty (entries_of d)) ->
    exists tr',
      decJ fuel top t d tr = Ok (decode_spec fuel (raises fuel top t d tr) t d, tr') /\
      t_scope tr' = t_scope tr /\
      Permutation (t_missing tr') (t_missing tr ++ missing_spec e fuel t d (t_scope tr)).
  Proof.
    induction fuel as [|f IH]; intros top t d tr Hws Hsc Hke; [contradiction|].
    rewrite decJ_unfold. cbn [decode_spec missing_spec]. unfold raises. cbn [missing_spec].
    apply (stepJ_exact e wildcard ignore parseF (djmix e wildcard ps_empty ignore parseF f) Hwf (well_shaped f) (decode_spec f false)
             (missing_spec e f));
      [|exact Hws|exact Hsc|exact Hke].
    intros t0 x tr0 Hw Hne Hne2. destruct (IH false t0 x tr0 Hw Hne2) as [tr' H]; [intros E; contradiction|].
    exists tr'. exact H.
  Qed.

  (* ---- the top level: NewJsonReader + UnmarshalRestLi ---- *)
  Definition top_ok (data : bytes) (jd : jdoc) : Prop :=
    data <> [] /\ bytes_eqb data lit_null = false /\ parse_json data = Some jd /\ keys_nonempty (entries_of jd).

  (* a record at the start of the input: the missing-required-fields error carries exactly the specified paths, sorted *)
  Theorem missing_exact : forall fuel t data jd,
    is_record e t = true -> top_ok data jd -> well_shaped fuel t jd ->
    decode_json e wildcard ps_empty ignore parseF fuel t data =
    match missing_spec e fuel t jd [] with
    | [] => DOk (decode_spec fuel false t jd)
    | ms => DMissing (sort_bytes ms) (decode_spec fuel true t jd)
    end.
  Proof.
    intros fuel t data jd Hrec [Hne [Hnull [Hp Hke]]] Hws. unfold decode_json.
    destruct data as [|c data]; [contradiction|]. rewrite Hnull, Hp, Hrec.
    destruct (decJ_exact fuel true t jd tracker0 Hws) as [tr' [H1 [H2 H3]]]; [discriminate|intros _; exact Hke|].
    rewrite H1. unfold raises. simpl t_missing in *. simpl t_scope in *. simpl app in *. unfold finish.
    destruct (missing_spec e fuel t jd []) as [|m ms] eqn:Em.
    - apply Permutation_sym, Permutation_nil in H3. rewrite H3. reflexivity.
    - destruct (t_missing tr') as [|m' ms'] eqn:Et; [apply Permutation_nil in H3; discriminate|].
      rewrite (sort_bytes_perm_invariant _ _ H3). reflexivity.
  Qed.

  Corollary missing_exact_iff : forall fuel t data jd fs v,
    is_record e t = true -> top_ok data jd -> well_shaped fuel t jd ->
    (decode_json e wildcard ps_empty ignore parseF fuel t data = DMissing fs v <->
     fs = sort_bytes (missing_spec e fuel t jd []) /\ fs <> [] /\ v = decode_spec fuel true t jd).
  Proof.
    intros fuel t data jd fs v Hrec Htop Hws. rewrite (missing_exact fuel t data jd Hrec Htop Hws).
    destruct (missing_spec e fuel t jd []) as [|m ms] eqn:Em.
    - split; [discriminate|]. intros [-> [H _]]. contradiction H. reflexivity.
    - split.
      + intros H. injection H as <- <-. split; [reflexivity|]. split; [|reflexivity].
        change (sort_bytes (m :: ms) <> []).
        intros E. pose proof (Permutation_length (sort_bytes_perm (m :: ms))) as HL. rewrite E in HL. discriminate.
      + intros [-> [_ ->]]. reflexivity.
  Qed.

  Corollary missing_none_iff : forall fuel t data jd,
    is_record e t = true -> top_ok data jd -> well_shaped fuel t jd ->
    (missing_spec e fuel t jd [] = [] <->
     decode_json e wildcard ps_empty ignore parseF fuel t data = DOk (decode_spec fuel false t jd)).
  Proof.
    intros fuel t data jd Hrec Htop Hws. rewrite (missing_exact fuel t data jd Hrec Htop Hws).
    destruct (missing_spec e fuel t jd []); split; try reflexivity; discriminate.
  Qed.

  (* anything else at the start of the input never raises, whatever is missing below it (finding D33) *)
  Theorem top_non_record_never_raises : forall fuel t data jd,
    is_record e t = false -> top_ok data jd -> well_shaped fuel t jd ->
    decode_json e wildcard ps_empty ignore parseF fuel t data
    = DOk (decode_spec fuel (negb (is_nilb (missing_spec e fuel t jd []))) t jd).
  Proof.
    intros fuel t data jd Hrec [Hne [Hnull [Hp Hke]]] Hws. unfold decode_json.
    destruct data as [|c data]; [contradiction|]. rewrite Hnull, Hp, Hrec.
    destruct (decJ_exact fuel true t jd tracker0 Hws) as [tr' [H1 [H2 H3]]]; [discriminate|intros _; exact Hke|].
    rewrite H1. unfold raises, finish. simpl. destruct (t_missing tr'); reflexivity.
  Qed.
End Exact.

(* ---------------------------------------------------------------------------------------------------------------------------
   I. the declarative reading of the missing set: only Required fields, only at positions reached through present values
   --------------------------------------------------------------------------------------------------------------------------- *)
Inductive missing_at (e : env) : ty -> jdoc -> list seg -> bytes -> Prop :=
| ma_here n incs fs d fd sc :
    lookup e n = Some (DRecord incs fs) -> In fd (fields_of e n) -> f_opt fd = Required ->
    present (entries_of d) (f_name fd) = None ->
    missing_at e (TRef n) d sc (scope_string (sc ++ [SKey (f_name fd)]))
| ma_field n incs fs d fd x sc p :
    lookup e n = Some (DRecord incs fs) -> In fd (fields_of e n) ->
    present (entries_of d) (f_name fd) = Some x ->
    missing_at e (f_ty fd) x (sc ++ [SKey (f_name fd)]) p ->
    missing_at e (TRef n) d sc p
| ma_union n nullable ms d k x mt sc p :
    lookup e n = Some (DUnion nullable ms) -> In (k, x) (entries_of d) -> is_null x = false -> assoc_ty k ms = Some mt ->
    missing_at e mt x (sc ++ [SKey k]) p ->
    missing_at e (TRef n) d sc p
| ma_arr t' items i x sc p :
    nth_error items i = Some x -> missing_at e t' x (sc ++ [SIdx i]) p ->
    missing_at e (TArray t') (JArr items) sc p
| ma_map t' es k x sc p :
    In (k, x) es -> is_null x = false -> missing_at e t' x (sc ++ [SKey k]) p ->
    missing_at e (TMap t') (JObj es) sc p.

Lemma in_ms_arr MS t' sc p : forall items i, In p (ms_arr MS t' sc i items) ->
  exists j x, nth_error items j = Some x /\ In p (MS t' x (sc ++ [SIdx (i + j)])).
Proof.
  induction items as [|x r IH]; intros i H; [contradiction|]. simpl in H. apply in_app_or in H as [H|H].
  - exists 0, x. rewrite Nat.add_0_r. auto.
  - destruct (IH (S i) H) as [j [y [H1 H2]]]. exists (S j), y. split; [exact H1|].
    replace (i + S j) with (S i + j) by lia. exact H2.
Qed.

Theorem missing_spec_sound e : forall fuel t d sc p, In p (missing_spec e fuel t d sc) -> missing_at e t d sc p.
Proof.
  induction fuel as [|f IH]; intros t d sc p H; [contradiction|]. cbn [missing_spec] in H.
  destruct t as [?|?|?|n|t'|t']; simpl in H; try contradiction.
  - destruct (lookup e n) as [[incs fs|nullable ms]|] eqn:El; [| |contradiction].
    + apply in_flat_map in H as [fd [Hfd H]]. unfold ms_field in H.
      destruct (present (entries_of d) (f_name fd)) as [x|] eqn:Ep.
      * apply (ma_field e n incs fs d fd x sc p El Hfd Ep). apply IH. exact H.
      * destruct (f_opt fd) eqn:Eo; simpl in H; try contradiction. destruct H as [<-|[]].
        apply (ma_here e n incs fs d fd sc El Hfd Eo Ep).
    + apply in_flat_map in H as [[k x] [Hin H]]. simpl in H. destruct (is_null x) eqn:En; [contradiction|].
      destruct (assoc_ty k ms) as [mt|] eqn:Ea; [|contradiction].
      apply (ma_union e n nullable ms d k x mt sc p El Hin En Ea). apply IH. exact H.
  - destruct d; try contradiction. apply in_ms_arr in H as [j [x [H1 H2]]]. simpl in H2.
    apply (ma_arr e t' items j x sc p H1). apply IH. exact H2.
  - apply in_flat_map in H as [[k x] [Hin H]]. simpl in H. destruct (is_null x) eqn:En; [contradiction|].
    destruct d; simpl in Hin; try contradiction. apply (ma_map e t' entries k x sc p Hin En). apply IH. exact H.
Qed.

(* every reported path is the path of a field declared Required (own or inherited) that has no non-null value: a field that is
   Optional or carries a Default is never the origin of a report *)
Theorem missing_at_required e : forall t d sc p, missing_at e t d sc p ->
  exists rest n incs fs fd,
    lookup e n = Some (DRecord incs fs) /\ In fd (fields_of e n) /\ f_opt fd = Required /\
    p = scope_string ((sc ++ rest) ++ [SKey (f_name fd)]).
Proof.
  intros t d sc p H. induction H as [n incs fs d fd sc El Hfd Eo Ep
                                    | n incs fs d fd x sc p El Hfd Ep H IH
                                    | n nullable ms d k x mt sc p El Hin En Ea H IH
                                    | t' items i x sc p Hn H IH
                                    | t' es k x sc p Hin En H IH].
  - exists [], n, incs, fs, fd. rewrite app_nil_r. auto.
  - destruct IH as [rest [n' [incs' [fs' [fd' [H1 [H2 [H3 H4]]]]]]]].
    exists (SKey (f_name fd) :: rest), n', incs', fs', fd'. repeat split; try assumption.
    rewrite H4. f_equal. rewrite <- !app_assoc. reflexivity.
  - destruct IH as [rest [n' [incs' [fs' [fd' [H1 [H2 [H3 H4]]]]]]]].
    exists (SKey k :: rest), n', incs', fs', fd'. repeat split; try assumption.
    rewrite H4. f_equal. rewrite <- !app_assoc. reflexivity.
  - destruct IH as [rest [n' [incs' [fs' [fd' [H1 [H2 [H3 H4]]]]]]]].
    exists (SIdx i :: rest), n', incs', fs', fd'. repeat split; try assumption.
    rewrite H4. f_equal. rewrite <- !app_assoc. reflexivity.
  - destruct IH as [rest [n' [incs' [fs' [fd' [H1 [H2 [H3 H4]]]]]]]].
    exists (SKey k :: rest), n', incs', fs', fd'. repeat split; try assumption.
    rewrite H4. f_equal. rewrite <- !app_assoc. reflexivity.
Qed.

Theorem optional_default_never_reported : forall e wildcard ignore parseF, wf_schema e ->
  forall fuel top t d tr v tr',
    well_shaped e parseF fuel t d -> t_scope tr <> [SKey []] -> (t_scope tr = [] -> keys_nonempty (entries_of d)) ->
    decJ e wildcard ps_empty ignore parseF fuel top t d tr = Ok (v, tr') ->
    forall p, In p (t_missing tr') ->
      In p (t_missing tr) \/
      (missing_at e t d (t_scope tr) p /\
       exists rest n incs fs fd,
         lookup e n = Some (DRecord incs fs) /\ In fd (fields_of e n) /\ f_opt fd = Required /\
         p = scope_string ((t_scope tr ++ rest) ++ [SKey (f_name fd)])).
Proof.
  intros e wildcard ignore parseF Hwf fuel top t d tr v tr' Hws Hsc Hke Hd p Hp.
  destruct (decJ_exact e wildcard ignore parseF Hwf fuel top t d tr Hws Hsc Hke) as [tr2 [H1 [H2 H3]]].
  rewrite H1 in Hd. injection Hd as _ <-.
  apply (Permutation_in p H3) in Hp. apply in_app_or in Hp as [Hp|Hp]; [left; exact Hp|right].
  apply missing_spec_sound in Hp. split; [exact Hp|]. apply missing_at_required with (t := t) (d := d). exact Hp.
Qed.

(* ---------------------------------------------------------------------------------------------------------------------------
   K. documents with the same known content decode identically: order independence and unknown-field tolerance
   --------------------------------------------------------------------------------------------------------------------------- *)
Definition opt_rel (R : jdoc -> jdoc -> Prop) (o1 o2 : option jdoc) : Prop :=
  match o1, o2 with
  | None, None => True
  | Some x1, Some x2 => x1 = x2 \/ R x1 x2
  | _, _ => False
  end.

Definition entry_rel (R : bytes -> jdoc -> jdoc -> Prop) (a b : bytes * jdoc) : Prop :=
  fst a = fst b /\ is_null (snd a) = is_null (snd b) /\
  (is_null (snd a) = false -> snd a = snd b \/ R (fst a) (snd a) (snd b)).

Lemma obj_entries_of d es : obj_entries d = Some es -> entries_of d = es.
Proof. destruct d; simpl; intros H; try discriminate; injection H as <-; reflexivity. Qed.

Lemma entry_rel_keys R es1 es2 : Forall2 (entry_rel R) es1 es2 -> map fst es1 = map fst es2.
Proof. intros H. induction H as [|a b l1 l2 [Hk _] _ IH]; simpl; [reflexivity|]. rewrite Hk, IH. reflexivity. Qed.

Lemma entry_rel_filter R es1 es2 :
  Forall2 (entry_rel R) es1 es2 -> Forall2 (entry_rel R) (filter nonnull es1) (filter nonnull es2).
Proof.
  intros H. induction H as [|a b l1 l2 Hab _ IH]; simpl; [constructor|].
  destruct Hab as [Hk [Hn Hr]].
  assert (Eb : nonnull b = nonnull a) by (unfold nonnull; rewrite Hn; reflexivity). rewrite Eb.
  destruct (nonnull a); [|exact IH]. constructor; [|exact IH]. split; [exact Hk|]. split; [exact Hn|exact Hr].
Qed.

Lemma Permutation_filter' {A} (p : A -> bool) l l' : Permutation l l' -> Permutation (filter p l) (filter p l').
Proof.
  intros H. induction H as [|x l l' _ IH|x y l|l l' l'' _ IH1 _ IH2]; simpl.
  - constructor.
  - destruct (p x); [apply perm_skip|]; exact IH.
  - destruct (p x), (p y); try reflexivity. apply perm_swap.
  - rewrite IH1. exact IH2.
Qed.

Lemma flat_map_perm_F2 {A B C} (Q : A -> B -> Prop) (f : A -> list C) (g : B -> list C) l1 l2 :
  Forall2 Q l1 l2 -> (forall a b, Q a b -> Permutation (f a) (g b)) -> Permutation (flat_map f l1) (flat_map g l2).
Proof.
  intros H Hfg. induction H as [|a b l1 l2 Hab _ IH]; simpl; [constructor|]. apply Permutation_app; [apply Hfg; exact Hab|exact IH].
Qed.

Lemma flat_map_perm_in {A C} (f g : A -> list C) l :
  (forall x, In x l -> Permutation (f x) (g x)) -> Permutation (flat_map f l) (flat_map g l).
Proof.
  induction l as [|a l IH]; simpl; intros H; [constructor|]. apply Permutation_app; [apply H; auto|]. apply IH. intros x Hx. apply H; auto.
Qed.

Lemma fold_left_filter {A B} (F : A -> B -> A) (p : B -> bool) :
  (forall a b, p b = false -> F a b = a) -> forall l a, fold_left F l a = fold_left F (filter p l) a.
Proof.
  intros H. induction l as [|b l IH]; intros a; simpl; [reflexivity|]. destruct (p b) eqn:E; simpl; [apply IH|].
  rewrite (H a b E). apply IH.
Qed.

Lemma flat_map_filter {A B} (G : A -> list B) (p : A -> bool) :
  (forall a, p a = false -> G a = []) -> forall l, flat_map G l = flat_map G (filter p l).
Proof.
  intros H. induction l as [|a l IH]; simpl; [reflexivity|]. destruct (p a) eqn:E; simpl; [rewrite IH; reflexivity|].
  rewrite (H a E). exact IH.
Qed.

Lemma NoDup_keys_filter {A} (p : bytes * A -> bool) l : NoDup (map fst l) -> NoDup (map fst (filter p l)).
Proof.
  induction l as [|a l IH]; simpl; intros H; [constructor|]. inversion H as [|? ? Hn Hnd]; subst.
  destruct (p a); simpl; [|apply IH; exact Hnd]. constructor; [|apply IH; exact Hnd].
  intros Hin. apply Hn. apply in_map_iff in Hin as [x [Hx Hin]]. apply filter_In in Hin as [Hin _].
  rewrite <- Hx. apply in_map. exact Hin.
Qed.

Lemma jfind_perm k es es' : Permutation es es' -> NoDup (map fst es) -> jfind k es = jfind k es'.
Proof.
  intros HP. induction HP as [|x l l' _ IH|x y l|l l' l'' HP1 IH1 HP2 IH2]; intros Hnd; simpl.
  - reflexivity.
  - inversion Hnd; subst. rewrite IH by assumption. reflexivity.
  - inversion Hnd as [|? ? Hn Hnd']; subst. destruct (bytes_eqb k (fst y)) eqn:E1, (bytes_eqb k (fst x)) eqn:E2; try reflexivity.
    apply bytes_eqb_eq in E1, E2. exfalso. apply Hn. left. congruence.
  - rewrite IH1 by assumption. apply IH2. apply (Permutation_NoDup (Permutation_map fst HP1)). exact Hnd.
Qed.

Lemma present_perm es es' k : NoDup (map fst es) -> Permutation es es' -> present es k = present es' k.
Proof. intros Hnd HP. unfold present. rewrite (jfind_perm k es es' HP Hnd). reflexivity. Qed.

Lemma present_insert l1 l2 k x name : name <> k -> present (l1 ++ (k, x) :: l2) name = present (l1 ++ l2) name.
Proof.
  intros Hne. induction l1 as [|[k1 x1] l1 IH]; simpl.
  - rewrite present_cons. destruct (bytes_eqb name k) eqn:E; [apply bytes_eqb_eq in E; contradiction|reflexivity].
  - rewrite !present_cons, IH. reflexivity.
Qed.

Section Sim.
  Variable e : env.

  Section SimStep.
    Variable S : ty -> jdoc -> jdoc -> Prop.

    Definition sim_step (t : ty) (d1 d2 : jdoc) : Prop :=
      match t with
      | TPrim _ | TEnum _ | TFixed _ => d1 = d2
      | TArray t' =>
          match d1, d2 with
          | JArr l1, JArr l2 => Forall2 (fun a b => a = b \/ S t' a b) l1 l2
          | _, _ => d1 = d2
          end
      | TMap t' =>
          match d1, d2 with
          | JObj es1, JObj es2 => exists es2', Forall2 (entry_rel (fun _ => S t')) es1 es2' /\ Permutation es2' es2
          | _, _ => d1 = d2
          end
      | TRef n =>
          match lookup e n with
          | Some (DRecord _ _) =>
              exists es2, obj_entries d2 = Some es2 /\ NoDup (map fst es2) /\
                forall fd, In fd (fields_of e n) ->
                  opt_rel (S (f_ty fd)) (present (entries_of d1) (f_name fd)) (present es2 (f_name fd))
          | Some (DUnion _ ms) =>
              exists es2' es2, obj_entries d2 = Some es2 /\
                Forall2 (entry_rel (fun k x1 x2 => forall mt, assoc_ty k ms = Some mt -> S mt x1 x2)) (entries_of d1) es2' /\
                Permutation es2' es2
          | None => d1 = d2
          end
      end.

    Variable parseF : nat -> bytes -> option N.
    Variable DJ : bool -> ty -> jdoc -> tracker -> res (value * tracker).
    Variable W : ty -> jdoc -> Prop.
    Variable VS : ty -> jdoc -> value.
    Variable MS : ty -> jdoc -> list seg -> list bytes.
    Hypothesis HS : forall t x1 x2, W t x1 -> S t x1 x2 ->
      W t x2 /\ VS t x1 = VS t x2 /\ forall sc, Permutation (MS t x1 sc) (MS t x2 sc).

    Lemma HSeq t x1 x2 : W t x1 -> x1 = x2 \/ S t x1 x2 ->
      W t x2 /\ VS t x1 = VS t x2 /\ forall sc, Permutation (MS t x1 sc) (MS t x2 sc).
    Proof. intros Hw [<-|Hs]; [auto|]. apply HS; assumption. Qed.

    Lemma arr_ok t' l1 l2 : Forall2 (fun a b => a = b \/ S t' a b) l1 l2 -> Forall (W t') l1 ->
      Forall (W t') l2 /\ map (VS t') l1 = map (VS t') l2 /\
      forall sc i, Permutation (ms_arr MS t' sc i l1) (ms_arr MS t' sc i l2).
    Proof.
      intros H. induction H as [|a b l1 l2 Hab _ IH]; intros HW; [auto|].
      inversion HW as [|? ? Ha Hl]; subst. destruct (IH Hl) as [I1 [I2 I3]]. destruct (HSeq t' a b Ha Hab) as [A1 [A2 A3]].
      split; [constructor; assumption|]. split; [simpl; rewrite A2, I2; reflexivity|].
      intros sc i. simpl. apply Permutation_app; [apply A3|apply I3].
    Qed.

    Lemma map_ok t' es1 es2 : Forall2 (entry_rel (fun _ => S t')) es1 es2 ->
      Forall (fun kx => is_null (snd kx) = false -> W t' (snd kx)) es1 ->
      Forall (fun kx => is_null (snd kx) = false -> W t' (snd kx)) es2 /\
      map (fun kx => (fst kx, VS t' (snd kx))) (filter nonnull es1) = map (fun kx => (fst kx, VS t' (snd kx))) (filter nonnull es2) /\
      forall sc, Permutation
                   (flat_map (fun kx => if is_null (snd kx) then [] else MS t' (snd kx) (sc ++ [SKey (fst kx)])) es1)
                   (flat_map (fun kx => if is_null (snd kx) then [] else MS t' (snd kx) (sc ++ [SKey (fst kx)])) es2).
    Proof.
      intros H. induction H as [|a b l1 l2 [Hk [Hn Hr]] _ IH]; intros HW; [auto|].
      inversion HW as [|? ? Ha Hl]; subst. destruct (IH Hl) as [I1 [I2 I3]]. simpl.
      assert (Eb : nonnull b = nonnull a) by (unfold nonnull; rewrite Hn; reflexivity). rewrite Eb.
      assert (Ea : nonnull a = negb (is_null (snd a))) by reflexivity. rewrite !Ea.
      rewrite <- Hn.
      destruct (is_null (snd a)) eqn:En; simpl.
      - split; [constructor; [intros E; congruence|exact I1]|]. split; [exact I2|exact I3].
      - destruct (HSeq t' (snd a) (snd b) (Ha eq_refl) (Hr eq_refl)) as [A1 [A2 A3]].
        split; [constructor; [intros _; exact A1|exact I1]|]. split; [rewrite A2, I2, Hk; reflexivity|].
        intros sc. apply Permutation_app; [rewrite Hk; apply A3|apply I3].
    Qed.

    Theorem sim_step_ok t d1 d2 :
      ws_step e parseF W t d1 -> sim_step t d1 d2 ->
      ws_step e parseF W t d2 /\
      (forall r, val_step e parseF DJ VS r t d1 = val_step e parseF DJ VS r t d2) /\
      (forall sc, Permutation (ms_step e MS t d1 sc) (ms_step e MS t d2 sc)).
    Proof.
      intros Hws Hs. destruct t as [p|syms|sz|n|t'|t']; simpl in Hs.
      - subst d2. auto.
      - subst d2. auto.
      - subst d2. auto.
      - cbn [ws_step val_step ms_step] in *. destruct (lookup e n) as [[incs fs|nullable ms]|] eqn:El; [| |contradiction].
        + (* record *)
          destruct Hws as [es1 [He1 [Hnd1 HF1]]]. destruct Hs as [es2 [He2 [Hnd2 Hrel]]].
          rewrite (obj_entries_of d1 es1 He1) in *. rewrite (obj_entries_of d2 es2 He2). rewrite Forall_forall in HF1.
          assert (Hfd : forall fd, In fd (fields_of e n) ->
                    match present es1 (f_name fd), present es2 (f_name fd) with
                    | None, None => True
                    | Some x1, Some x2 => W (f_ty fd) x2 /\ VS (f_ty fd) x1 = VS (f_ty fd) x2 /\
                                          forall sc, Permutation (MS (f_ty fd) x1 sc) (MS (f_ty fd) x2 sc)
                    | _, _ => False
                    end).
          { intros fd Hin. specialize (Hrel fd Hin). specialize (HF1 fd Hin). unfold opt_rel in Hrel.
            destruct (present es1 (f_name fd)) as [x1|], (present es2 (f_name fd)) as [x2|]; try contradiction; [|exact I].
            apply HSeq; assumption. }
          split; [|split].
          * exists es2. split; [exact He2|]. split; [exact Hnd2|]. apply Forall_forall. intros fd Hin. specialize (Hfd fd Hin).
            destruct (present es1 (f_name fd)), (present es2 (f_name fd)); try contradiction; [tauto|exact I].
          * intros r. rewrite (rec_upd_ext e (Datatypes.S (length e)) n (look_of e VS n es1) (look_of e VS n es2)); [reflexivity|].
            intros key. unfold look_of. destruct (field_of e n key) as [fd|] eqn:Ef.
            -- rewrite field_of_eq in Ef. apply find_some in Ef as [Hin Ek]. unfold keyp in Ek. apply bytes_eqb_eq in Ek. subst key.
               specialize (Hfd fd Hin).
               destruct (present es1 (f_name fd)), (present es2 (f_name fd)); try contradiction; [|reflexivity].
               f_equal. tauto.
            -- destruct (present es1 key), (present es2 key); reflexivity.
          * intros sc. apply flat_map_perm_in. intros fd Hin. specialize (Hfd fd Hin). unfold ms_field.
            destruct (present es1 (f_name fd)), (present es2 (f_name fd)); try contradiction; [apply Hfd|reflexivity].
        + (* union *)
          destruct Hws as [es1 [He1 [Hnd1 HU]]]. destruct Hs as [es2' [es2 [He2 [HF2 HP]]]].
          rewrite (obj_entries_of d1 es1 He1) in *. rewrite (obj_entries_of d2 es2 He2).
          pose proof (entry_rel_filter _ _ _ HF2) as HFf. pose proof (Permutation_filter' nonnull _ _ HP) as HPf.
          assert (Hnd2 : NoDup (map fst es2)).
          { apply (Permutation_NoDup (Permutation_map fst HP)). rewrite <- (entry_rel_keys _ _ _ HF2). exact Hnd1. }
          assert (Hnn : forall A (a : A) kx, nonnull kx = false -> (if is_null (snd kx) then a else a) = a)
            by (intros; destruct (is_null _); reflexivity).
          unfold union_val.
          rewrite (fold_left_filter _ nonnull) with (l := es1)
            by (intros uv kx E; unfold nonnull in E; apply negb_false_iff in E; rewrite E; reflexivity).
          rewrite (fold_left_filter _ nonnull) with (l := es2)
            by (intros uv kx E; unfold nonnull in E; apply negb_false_iff in E; rewrite E; reflexivity).
          assert (Hms : forall sc (es : list (bytes * jdoc)),
                    flat_map (fun kx => if is_null (snd kx) then []
                                        else match assoc_ty (fst kx) ms with
                                             | Some mt => MS mt (snd kx) (sc ++ [SKey (fst kx)])
                                             | None => []
                                             end) es
                    = flat_map (fun kx => if is_null (snd kx) then []
                                          else match assoc_ty (fst kx) ms with
                                               | Some mt => MS mt (snd kx) (sc ++ [SKey (fst kx)])
                                               | None => []
                                               end) (filter nonnull es)).
          { intros sc es. apply flat_map_filter. intros kx E. unfold nonnull in E. apply negb_false_iff in E. rewrite E. reflexivity. }
          unfold ws_union in *. fold nonnull in HU |- *.
          destruct (filter nonnull es1) as [|kx [|kx' rest]] eqn:Ef1; [| |contradiction].
          * inversion HFf; subst. match goal with H : [] = filter nonnull es2' |- _ => rewrite <- H in HPf end.
            apply Permutation_nil in HPf. split; [|split].
            -- exists es2. split; [exact He2|]. split; [exact Hnd2|]. rewrite HPf. first [exact HU|reflexivity].
            -- intros r. rewrite HPf. reflexivity.
            -- intros sc. rewrite (Hms sc es1), (Hms sc es2), Ef1, HPf. reflexivity.
          * inversion HFf as [|? kx2 ? l2' Hab Hrest Eq1 Eq2]; subst. inversion Hrest; subst.
            rewrite <- Eq2 in HPf. apply Permutation_length_1_inv in HPf.
            destruct HU as [mt [Ha Hw]]. destruct Hab as [Hk [Hn Hr]].
            assert (En : is_null (snd kx) = false).
            { assert (Hin : In kx (filter nonnull es1)) by (rewrite Ef1; left; reflexivity).
              apply filter_In in Hin as [_ Hin]. unfold nonnull in Hin. apply negb_true_iff in Hin. exact Hin. }
            assert (Hseq : snd kx = snd kx2 \/ S mt (snd kx) (snd kx2)).
            { destruct (Hr En) as [E|Hall]; [left; exact E|right; apply Hall; exact Ha]. }
            destruct (HSeq mt (snd kx) (snd kx2) Hw Hseq) as [A1 [A2 A3]].
            split; [|split].
            -- exists es2. split; [exact He2|]. split; [exact Hnd2|]. rewrite HPf. exists mt. rewrite <- Hk. auto.
            -- intros r. rewrite HPf. simpl. rewrite <- Hk, <- Hn, Ha, A2. reflexivity.
            -- intros sc. rewrite (Hms sc es1), (Hms sc es2), Ef1, HPf. simpl. rewrite <- Hk, <- Hn, Ha, !app_nil_r.
               destruct (is_null (snd kx)); [reflexivity|apply A3].
      - (* array *)
        assert (Hrefl : d1 = d2 -> ws_step e parseF W (TArray t') d2 /\
                  (forall r, val_step e parseF DJ VS r (TArray t') d1 = val_step e parseF DJ VS r (TArray t') d2) /\
                  (forall sc, Permutation (ms_step e MS (TArray t') d1 sc) (ms_step e MS (TArray t') d2 sc)))
          by (intros <-; auto).
        destruct d1; try (apply Hrefl; exact Hs). destruct d2; try (apply Hrefl; exact Hs).
        simpl in Hws. destruct (arr_ok t' _ _ Hs Hws) as [A1 [A2 A3]].
        split; [exact A1|]. split; [intros r; simpl; rewrite A2; reflexivity|]. intros sc. simpl. apply A3.
      - (* map *)
        assert (Hrefl : d1 = d2 -> ws_step e parseF W (TMap t') d2 /\
                  (forall r, val_step e parseF DJ VS r (TMap t') d1 = val_step e parseF DJ VS r (TMap t') d2) /\
                  (forall sc, Permutation (ms_step e MS (TMap t') d1 sc) (ms_step e MS (TMap t') d2 sc)))
          by (intros <-; auto).
        destruct d1; try (apply Hrefl; exact Hs). destruct d2; try (apply Hrefl; exact Hs).
        simpl in Hws. destruct Hws as [Hnd1 HW1]. destruct Hs as [es2' [HF2 HP]].
        destruct (map_ok t' _ _ HF2 HW1) as [A1 [A2 A3]].
        assert (Hnd2' : NoDup (map fst es2')) by (rewrite <- (entry_rel_keys _ _ _ HF2); exact Hnd1).
        split; [|split].
        + split; [apply (Permutation_NoDup (Permutation_map fst HP)); exact Hnd2'|].
          apply (Permutation_Forall HP). exact A1.
        + intros r. simpl. fold nonnull. rewrite A2. f_equal.
          apply sort_entries_perm_invariant.
          * apply Permutation_map. apply Permutation_filter'. exact HP.
          * rewrite map_map. simpl. apply NoDup_keys_filter. exact Hnd2'.
        + intros sc. simpl. rewrite (A3 sc). apply Permutation_flat_map. exact HP.
    Qed.
  End SimStep.

  Fixpoint sim (fuel : nat) (t : ty) (d1 d2 : jdoc) : Prop :=
    match fuel with 0 => False | S f => sim_step (sim f) t d1 d2 end.

  Variables (wildcard : bytes) (ignore : nat).
  Variable parseF : nat -> bytes -> option N.
  Notation decJ := (decJ e wildcard ps_empty ignore parseF).
  Notation decode_spec := (decode_spec e wildcard ignore parseF).
  Notation well_shaped := (well_shaped e parseF).

  Theorem sim_ok : forall fuel t d1 d2, well_shaped fuel t d1 -> sim fuel t d1 d2 ->
    well_shaped fuel t d2 /\
    (forall r, decode_spec fuel r t d1 = decode_spec fuel r t d2) /\
    (forall sc, Permutation (missing_spec e fuel t d1 sc) (missing_spec e fuel t d2 sc)).
  Proof.
    induction fuel as [|f IH]; intros t d1 d2 Hws Hs; [contradiction|].
    cbn [MissingProofs.well_shaped MissingProofs.decode_spec missing_spec sim] in *.
    apply (sim_step_ok (sim f) parseF (djmix e wildcard ps_empty ignore parseF f) (well_shaped f) (decode_spec f false) (missing_spec e f));
      [|exact Hws|exact Hs].
    intros t0 x1 x2 Hw Hsx. destruct (IH t0 x1 x2 Hw Hsx) as [A [B C]]. auto.
  Qed.

  Hypothesis Hwf : wf_schema e.

  (* the result of the decoder is a function of the known content of the document *)
  Theorem same_content_same_result : forall fuel top t d1 d2 tr,
    well_shaped fuel t d1 -> sim fuel t d1 d2 ->
    t_scope tr <> [SKey []] ->
    (t_scope tr = [] -> keys_nonempty (entries_of d1)) -> (t_scope tr = [] -> keys_nonempty (entries_of d2)) ->
    exists v tr1 tr2,
      decJ fuel top t d1 tr = Ok (v, tr1) /\ decJ fuel top t d2 tr = Ok (v, tr2) /\
      t_scope tr1 = t_scope tr2 /\ Permutation (t_missing tr1) (t_missing tr2) /\
      sort_bytes (t_missing tr1) = sort_bytes (t_missing tr2).
  Proof.
    intros fuel top t d1 d2 tr Hws Hs Hsc Hk1 Hk2. destruct (sim_ok fuel t d1 d2 Hws Hs) as [Hws2 [Hv Hm]].
    destruct (decJ_exact e wildcard ignore parseF Hwf fuel top t d1 tr Hws Hsc Hk1) as [tr1 [A1 [A2 A3]]].
    destruct (decJ_exact e wildcard ignore parseF Hwf fuel top t d2 tr Hws2 Hsc Hk2) as [tr2 [B1 [B2 B3]]].
    assert (HP : Permutation (t_missing tr1) (t_missing tr2)).
    { rewrite A3, B3. apply Permutation_app_head. apply Hm. }
    exists (decode_spec fuel (raises e fuel top t d1 tr) t d1), tr1, tr2. split; [exact A1|]. split.
    - rewrite B1. do 2 f_equal. rewrite Hv. f_equal. unfold raises. f_equal. f_equal. apply is_nilb_perm.
      apply Permutation_app_head. apply Permutation_sym. apply Hm.
    - split; [congruence|]. split; [exact HP|apply sort_bytes_perm_invariant; exact HP].
  Qed.
End Sim.

(* ---- order independence: permuting the entries of any object at any depth ---- *)
Inductive jperm : jdoc -> jdoc -> Prop :=
| jp_refl d : jperm d d
| jp_arr l1 l2 : Forall2 jperm l1 l2 -> jperm (JArr l1) (JArr l2)
| jp_obj es1 es2' es2 :
    Forall2 (fun a b => fst a = fst b /\ jperm (snd a) (snd b)) es1 es2' -> Permutation es2' es2 ->
    jperm (JObj es1) (JObj es2).

Lemma jperm_null x1 x2 : jperm x1 x2 -> is_null x1 = is_null x2.
Proof. intros H. inversion H; reflexivity. Qed.

Lemma Forall2_impl_in {A B} (P Q : A -> B -> Prop) l1 l2 :
  Forall2 P l1 l2 -> (forall a b, In a l1 -> P a b -> Q a b) -> Forall2 Q l1 l2.
Proof.
  intros H. induction H as [|a b l1 l2 Hab _ IH]; intros HPQ; constructor.
  - apply HPQ; [left; reflexivity|exact Hab].
  - apply IH. intros a' b' Hin. apply HPQ. right; exact Hin.
Qed.

Lemma Forall2_refl_or {A} (R : A -> A -> Prop) l : Forall2 (fun a b => a = b \/ R a b) l l.
Proof. induction l; constructor; auto. Qed.

Lemma jperm_pairs_keys es1 es2 :
  Forall2 (fun a b : bytes * jdoc => fst a = fst b /\ jperm (snd a) (snd b)) es1 es2 -> map fst es1 = map fst es2.
Proof. intros H. induction H as [|a b l1 l2 [Hk _] _ IH]; simpl; [reflexivity|]. rewrite Hk, IH. reflexivity. Qed.

Lemma present_F2 es1 es2 k :
  Forall2 (fun a b : bytes * jdoc => fst a = fst b /\ jperm (snd a) (snd b)) es1 es2 ->
  match present es1 k, present es2 k with
  | None, None => True
  | Some x1, Some x2 => jperm x1 x2
  | _, _ => False
  end.
Proof.
  intros H. induction H as [|[k1 x1] [k2 x2] l1 l2 [Hk Hj] _ IH]; [exact I|]. simpl in Hk, Hj. subst k2.
  rewrite !present_cons. destruct (bytes_eqb k k1); [|exact IH].
  rewrite <- (jperm_null _ _ Hj). destruct (is_null x1); [exact I|exact Hj].
Qed.

Section Bridges.
  Variable e : env.
  Variable parseF : nat -> bytes -> option N.
  Notation well_shaped := (well_shaped e parseF).

  Lemma sim_refl : forall fuel t d, well_shaped fuel t d -> sim e fuel t d d.
  Proof.
    intros [|f] t d Hws; [contradiction|]. cbn [MissingProofs.well_shaped sim] in *.
    destruct t as [p|syms|sz|n|t'|t']; simpl; try reflexivity.
    - simpl in Hws. destruct (lookup e n) as [[incs fs|nullable ms]|]; [| |reflexivity].
      + destruct Hws as [es [He [Hnd _]]]. exists es. split; [exact He|]. split; [exact Hnd|].
        intros fd _. rewrite (obj_entries_of d es He). unfold opt_rel. destruct (present es (f_name fd)); auto.
      + destruct Hws as [es [He _]]. exists es, es. split; [exact He|]. rewrite (obj_entries_of d es He). split; [|reflexivity].
        clear. induction es as [|a es IH]; constructor; [|exact IH]. split; [reflexivity|]. split; [reflexivity|]. auto.
    - destruct d; try reflexivity. apply Forall2_refl_or.
    - destruct d; try reflexivity. exists entries. split; [|reflexivity].
      clear. induction entries as [|a es IH]; constructor; [|exact IH]. split; [reflexivity|]. split; [reflexivity|]. auto.
  Qed.

  Lemma jprim_obj p es : jprim parseF p (JObj es) = Err EDeser.
  Proof. destruct p; reflexivity. Qed.
  Lemma jprim_arr p l : jprim parseF p (JArr l) = Err EDeser.
  Proof. destruct p; reflexivity. Qed.

  Theorem jperm_sim : forall fuel t d1 d2, well_shaped fuel t d1 -> jperm d1 d2 -> sim e fuel t d1 d2.
  Proof.
    induction fuel as [|f IH]; intros t d1 d2 Hws Hj; [contradiction|].
    inversion Hj as [d|l1 l2 HF|es1 es2' es2 HF HP]; subst.
    - apply sim_refl. exact Hws.
    - (* arrays *)
      cbn [MissingProofs.well_shaped sim] in *. destruct t as [p|syms|sz|n|t'|t']; simpl in Hws |- *.
      + destruct Hws as [v Hv]. rewrite jprim_arr in Hv. discriminate.
      + destruct Hws as [s Hs]. discriminate.
      + destruct Hws as [b [Hb _]]. discriminate.
      + destruct (lookup e n) as [[incs fs|nullable ms]|]; [| |contradiction].
        * destruct Hws as [es [He _]]. discriminate.
        * destruct Hws as [es [He _]]. discriminate.
      + rewrite Forall_forall in Hws. apply (Forall2_impl_in _ _ _ _ HF). intros a b Hin Hab. right. apply IH; [apply Hws; exact Hin|exact Hab].
      + contradiction.
    - (* objects *)
      cbn [MissingProofs.well_shaped sim] in *. destruct t as [p|syms|sz|n|t'|t']; simpl in Hws |- *.
      + destruct Hws as [v Hv]. rewrite jprim_obj in Hv. discriminate.
      + destruct Hws as [s Hs]. discriminate.
      + destruct Hws as [b [Hb _]]. discriminate.
      + destruct (lookup e n) as [[incs fs|nullable ms]|] eqn:El; [| |contradiction].
        * (* record *)
          destruct Hws as [es [He [Hnd HW]]]. simpl in He. injection He as <-. rewrite Forall_forall in HW.
          assert (Hnd' : NoDup (map fst es2')) by (rewrite <- (jperm_pairs_keys _ _ HF); exact Hnd).
          exists es2. split; [reflexivity|]. split; [apply (Permutation_NoDup (Permutation_map fst HP)); exact Hnd'|].
          intros fd Hin. rewrite <- (present_perm es2' es2 (f_name fd) Hnd' HP).
          pose proof (present_F2 es1 es2' (f_name fd) HF) as Hp. specialize (HW fd Hin). unfold opt_rel.
          destruct (present es1 (f_name fd)) as [x1|], (present es2' (f_name fd)) as [x2|]; try contradiction; [|exact I].
          right. apply IH; assumption.
        * (* union *)
          destruct Hws as [es [He [Hnd HU]]]. simpl in He. injection He as <-.
          exists es2', es2. split; [reflexivity|]. split; [|exact HP].
          assert (Hall : forall a, In a es1 -> is_null (snd a) = false ->
                           forall mt, assoc_ty (fst a) ms = Some mt -> well_shaped f mt (snd a)).
          { intros a Hin Hn mt Ha. unfold ws_union in HU.
            assert (Hf : In a (filter (fun kx => negb (is_null (snd kx))) es1)) by (apply filter_In; split; [exact Hin|rewrite Hn; reflexivity]).
            destruct (filter (fun kx => negb (is_null (snd kx))) es1) as [|kx [|kx' rest]]; [contradiction| |contradiction].
            destruct Hf as [<-|[]]. destruct HU as [mt0 [Ha0 Hw0]]. rewrite Ha in Ha0. injection Ha0 as <-. exact Hw0. }
          apply (Forall2_impl_in _ _ _ _ HF). intros a b Hin [Hk Hab]. split; [exact Hk|]. split; [apply jperm_null; exact Hab|].
          intros Hn. right. intros mt Ha. apply IH; [apply (Hall a Hin Hn mt Ha)|exact Hab].
      + contradiction.
      + destruct Hws as [Hnd HW]. exists es2'. split; [|exact HP]. rewrite Forall_forall in HW.
        apply (Forall2_impl_in _ _ _ _ HF). intros a b Hin [Hk Hab]. split; [exact Hk|]. split; [apply jperm_null; exact Hab|].
        intros Hn. right. apply IH; [apply (HW a Hin Hn)|exact Hab].
  Qed.

  Lemma jperm_keys_nonempty d1 d2 : jperm d1 d2 -> keys_nonempty (entries_of d1) -> keys_nonempty (entries_of d2).
  Proof.
    intros Hj Hk. inversion Hj as [d|l1 l2 HF|es1 es2' es2 HF HP]; subst; [exact Hk|constructor|]. simpl in *.
    unfold keys_nonempty in *. apply (Permutation_Forall HP).
    clear HP Hj. induction HF as [|a b l1 l2 [Hab _] _ IH]; [constructor|]. inversion Hk as [|? ? Ha Hl]; subst.
    constructor; [|apply IH; exact Hl]. intros E. apply Ha. transitivity (fst b); [exact Hab|exact E].
  Qed.

  Variables (wildcard : bytes) (ignore : nat).
  Hypothesis Hwf : wf_schema e.
  Notation decJ := (decJ e wildcard ps_empty ignore parseF).

  (* order_independent *)
  Theorem order_independent : forall fuel top t d1 d2 tr,
    well_shaped fuel t d1 -> jperm d1 d2 ->
    t_scope tr <> [SKey []] -> (t_scope tr = [] -> keys_nonempty (entries_of d1)) ->
    exists v tr1 tr2,
      decJ fuel top t d1 tr = Ok (v, tr1) /\ decJ fuel top t d2 tr = Ok (v, tr2) /\
      t_scope tr1 = t_scope tr2 /\ Permutation (t_missing tr1) (t_missing tr2) /\
      sort_bytes (t_missing tr1) = sort_bytes (t_missing tr2).
  Proof.
    intros fuel top t d1 d2 tr Hws Hj Hsc Hk.
    apply (same_content_same_result e wildcard ignore parseF Hwf fuel top t d1 d2 tr Hws (jperm_sim fuel t d1 d2 Hws Hj) Hsc Hk).
    intros E. apply (jperm_keys_nonempty d1 d2 Hj). exact (Hk E).
  Qed.

  (* unknown_fields_skipped: one more entry, of any shape, under a key that is not a field of the record (own or inherited) *)
  Lemma unknown_field_sim n incs fs f l1 l2 k x :
    lookup e n = Some (DRecord incs fs) -> field_of e n k = None -> ~ In k (map fst (l1 ++ l2)) ->
    well_shaped (S f) (TRef n) (JObj (l1 ++ l2)) ->
    sim e (S f) (TRef n) (JObj (l1 ++ l2)) (JObj (l1 ++ (k, x) :: l2)).
  Proof.
    intros Hn Hk Hnew Hws. cbn [MissingProofs.well_shaped sim] in *. simpl in Hws |- *. rewrite Hn in *.
    destruct Hws as [es [He [Hnd HW]]]. simpl in He. injection He as <-.
    exists (l1 ++ (k, x) :: l2). split; [reflexivity|]. split.
    - apply (Permutation_NoDup (l := k :: map fst (l1 ++ l2))); [|constructor; assumption].
      rewrite !map_app. simpl. apply Permutation_middle.
    - intros fd Hin. rewrite present_insert.
      + unfold opt_rel. destruct (present (l1 ++ l2) (f_name fd)); auto.
      + intros E. rewrite field_of_eq in Hk. pose proof (proj1 (find_none_iff _ _) Hk fd Hin) as Hf. unfold keyp in Hf.
        rewrite <- E, bytes_eqb_refl in Hf. discriminate.
  Qed.

  Theorem unknown_fields_skipped : forall n incs fs f top l1 l2 k x tr,
    lookup e n = Some (DRecord incs fs) -> field_of e n k = None -> ~ In k (map fst (l1 ++ l2)) ->
    well_shaped (S f) (TRef n) (JObj (l1 ++ l2)) ->
    t_scope tr <> [SKey []] -> (t_scope tr = [] -> keys_nonempty (l1 ++ l2) /\ k <> []) ->
    exists v tr1 tr2,
      decJ (S f) top (TRef n) (JObj (l1 ++ l2)) tr = Ok (v, tr1) /\
      decJ (S f) top (TRef n) (JObj (l1 ++ (k, x) :: l2)) tr = Ok (v, tr2) /\
      t_scope tr1 = t_scope tr2 /\ Permutation (t_missing tr1) (t_missing tr2) /\
      sort_bytes (t_missing tr1) = sort_bytes (t_missing tr2).
  Proof.
    intros n incs fs f top l1 l2 k x tr Hn Hk Hnew Hws Hsc Hke.
    apply (same_content_same_result e wildcard ignore parseF Hwf (S f) top (TRef n) _ _ tr Hws
             (unknown_field_sim n incs fs f l1 l2 k x Hn Hk Hnew Hws) Hsc).
    - intros E. exact (proj1 (Hke E)).
    - intros E. destruct (Hke E) as [H1 H2]. simpl. unfold keys_nonempty in *. apply Forall_app in H1 as [A B].
      apply Forall_app. split; [exact A|]. constructor; [exact H2|exact B].
  Qed.
End Bridges.

(* ---------------------------------------------------------------------------------------------------------------------------
   J. the two places where the unrestricted statement fails, with witnesses (replayed on the implementation)
   --------------------------------------------------------------------------------------------------------------------------- *)
From Coq.Strings Require Import String.
Local Open Scope string_scope.

(* [missing_exact] without "t is a record" *)
Definition missing_exact_full : Prop :=
  forall e wildcard ignore parseF, wf_schema e ->
  forall fuel t data jd, top_ok data jd -> well_shaped e parseF fuel t jd ->
    decode_json e wildcard ps_empty ignore parseF fuel t data =
    match missing_spec e fuel t jd [] with
    | [] => DOk (decode_spec e wildcard ignore parseF fuel false t jd)
    | ms => DMissing (sort_bytes ms) (decode_spec e wildcard ignore parseF fuel true t jd)
    end.

(* [decJ_exact] without the restriction on the lone empty key: the recorded paths are the scope strings of the fields *)
Definition paths_exact_full : Prop :=
  forall e wildcard ignore parseF, wf_schema e ->
  forall fuel top t d tr v tr', well_shaped e parseF fuel t d ->
    decJ e wildcard ps_empty ignore parseF fuel top t d tr = Ok (v, tr') ->
    Permutation (t_missing tr') (t_missing tr ++ missing_spec e fuel t d (t_scope tr))%list.

Definition c06_b (s : string) : bytes := list_byte_of_string s.
Definition c06_fld (nm : string) (t : ty) (o : optionality) : field := {| f_name := c06_b nm; f_ty := t; f_opt := o |}.
(* 0: Inner { a : int; b : string?; c : int = 7 }
   1: Outer includes Inner { x : Inner; l : array[Inner]; m : map[Inner]?; u : U? }
   2: U = union [ t.Inner : Inner, int ] *)
Definition c06_env : env :=
  [ DRecord [] [ c06_fld "a" (TPrim PInt) Required; c06_fld "b" (TPrim PString) Optional;
                 c06_fld "c" (TPrim PInt) (Default (c06_b "7")) ];
    DRecord [0] [ c06_fld "x" (TRef 0) Required; c06_fld "l" (TArray (TRef 0)) Required; c06_fld "m" (TMap (TRef 0)) Optional;
                  c06_fld "u" (TRef 2) Optional ];
    DUnion false [ (c06_b "t.Inner", TRef 0); (c06_b "int", TPrim PInt) ] ].
Definition c06_pf : nat -> bytes -> option N := fun _ _ => None.
Definition c06_star : bytes := c06_b "*".
Definition c06_json (s : string) : jdoc := match parse_json (c06_b s) with Some j => j | None => JNull end.

Ltac c06_nd := repeat (constructor; [simpl; intuition discriminate|]); try constructor.
Ltac c06_ws :=
  repeat first
    [ progress simpl
    | match goal with
      | |- exists _, _ => eexists
      | |- _ /\ _ => split
      | |- NoDup _ => simpl; c06_nd
      | |- Forall _ _ => constructor
      | |- _ = _ => reflexivity
      | |- True => exact I
      | |- _ -> _ => intro
      | |- ws_union _ _ _ _ => unfold ws_union; simpl
      | |- match present ?a ?b with _ => _ end =>
          let v := eval vm_compute in (present a b) in change (present a b) with v; cbv iota beta
      end ].

Lemma c06_wf : wf_schema c06_env.
Proof.
  intros n incs fs H. destruct n as [|[|[|n]]]; simpl in H; try discriminate; [| |destruct n; discriminate];
    (split; [reflexivity|]); vm_compute; c06_nd.
Qed.

(* a document exercising every position: unknown field of array shape, array with a null element, map with a null entry, union,
   inherited required field, optional and defaulted fields absent *)
Definition c06_text : string :=
  "{""zz"":[1,{""q"":null}],""l"":[{""a"":1},null,{""c"":3}],""b"":""s"",""m"":{""k"":{},""n"":null},""u"":{""t.Inner"":{""b"":""x""}}}".
Definition c06_doc : jdoc := Eval vm_compute in c06_json c06_text.

Lemma c06_doc_ws : well_shaped c06_env c06_pf 8 (TRef 1) c06_doc.
Proof. unfold c06_doc. c06_ws. Qed.

Lemma c06_doc_top : top_ok (c06_b c06_text) c06_doc.
Proof.
  split; [discriminate|]. split; [reflexivity|]. split; [reflexivity|]. unfold c06_doc. simpl.
  repeat (constructor; [discriminate|]). constructor.
Qed.

Lemma missing_exact_example :
  decode_json c06_env c06_star ps_empty 0 c06_pf 8 (TRef 1) (c06_b c06_text)
  = DMissing (map c06_b ["a"; "l[1].a"; "l[2].a"; "m.k.a"; "u.t.Inner.a"; "x"])
      (VRec [VRec [] [Some (VInt 0); Some (VStr (c06_b "s")); None]]
         [Some (VRec [] [Some (VInt 0); None; None]);
          Some (VArr [VRec [] [Some (VInt 1); None; Some (VInt 7)]; VRec [] [Some (VInt 0); None; Some (VInt 7)];
                      VRec [] [Some (VInt 0); None; Some (VInt 3)]]);
          Some (VMap [(c06_b "k", VRec [] [Some (VInt 0); None; Some (VInt 7)])]);
          Some (VUnion [Some (VRec [] [Some (VInt 0); Some (VStr (c06_b "x")); Some (VInt 7)]); None])])
  /\ sort_bytes (missing_spec c06_env 8 (TRef 1) c06_doc []) = map c06_b ["a"; "l[1].a"; "l[2].a"; "m.k.a"; "u.t.Inner.a"; "x"].
Proof. vm_compute. split; reflexivity. Qed.

(* D33: an array (or a union) at the start of the input whose nested record lacks a required field returns no error *)
Lemma top_level_non_record_witness :
  decode_json c06_env c06_star ps_empty 0 c06_pf 8 (TArray (TRef 0)) (c06_b "[{},{""a"":1}]")
  = DOk (VArr [VRec [] [Some (VInt 0); None; Some (VInt 7)]; VRec [] [Some (VInt 1); None; Some (VInt 7)]])
  /\ missing_spec c06_env 8 (TArray (TRef 0)) (c06_json "[{},{""a"":1}]") [] = [c06_b "[0].a"]
  /\ decode_json c06_env c06_star ps_empty 0 c06_pf 8 (TRef 2) (c06_b "{""t.Inner"":{}}")
     = DOk (VUnion [Some (VRec [] [Some (VInt 0); None; Some (VInt 7)]); None])
  /\ missing_spec c06_env 8 (TRef 2) (c06_json "{""t.Inner"":{}}") [] = [c06_b "t.Inner.a"].
Proof. vm_compute. repeat split; reflexivity. Qed.

Theorem missing_exact_full_refuted : ~ missing_exact_full.
Proof.
  intros H.
  specialize (H c06_env c06_star 0 c06_pf c06_wf 8 (TArray (TRef 0)) (c06_b "[{},{""a"":1}]")
                (JArr [JObj []; JObj [(c06_b "a", JNum (c06_b "1"))]])).
  assert (Ht : top_ok (c06_b "[{},{""a"":1}]") (JArr [JObj []; JObj [(c06_b "a", JNum (c06_b "1"))]])).
  { split; [discriminate|]. split; [reflexivity|]. split; [reflexivity|]. constructor. }
  assert (Hw : well_shaped c06_env c06_pf 8 (TArray (TRef 0)) (JArr [JObj []; JObj [(c06_b "a", JNum (c06_b "1"))]])) by c06_ws.
  specialize (H Ht Hw). vm_compute in H. discriminate.
Qed.

(* the lone empty key: below the entry "" of a map at the start of the input the dot is dropped ("a", not ".a") *)
Lemma empty_key_witness :
  decJ c06_env c06_star ps_empty 0 c06_pf 8 true (TMap (TRef 0)) (JObj [([], JObj [])]) tracker0
  = Ok (VMap [([], VRec [] [Some (VInt 0); None; Some (VInt 7)])], {| t_scope := []; t_missing := [c06_b "a"] |})
  /\ missing_spec c06_env 8 (TMap (TRef 0)) (JObj [([], JObj [])]) [] = [c06_b ".a"].
Proof. vm_compute. split; reflexivity. Qed.

Theorem paths_exact_full_refuted : ~ paths_exact_full.
Proof.
  intros H.
  assert (Hw : well_shaped c06_env c06_pf 8 (TMap (TRef 0)) (JObj [([], JObj [])])) by c06_ws.
  specialize (H c06_env c06_star 0 c06_pf c06_wf 8 true (TMap (TRef 0)) (JObj [([], JObj [])]) tracker0 _ _ Hw
                (proj1 empty_key_witness)).
  vm_compute in H. apply Permutation_length_1_inv in H. discriminate.
Qed.

(* non-vacuity: the hypotheses of the theorems are satisfiable together, on a document where six fields are missing at five
   different kinds of position; reordering its keys at two depths and dropping its unknown field changes nothing *)
Definition c06_text_perm : string :=
  "{""u"":{""t.Inner"":{""b"":""x""}},""m"":{""n"":null,""k"":{}},""b"":""s"",""l"":[{""a"":1},null,{""c"":3}]}".

Lemma c06_nonvacuous :
  wf_schema c06_env /\ is_record c06_env (TRef 1) = true /\ top_ok (c06_b c06_text) c06_doc /\
  well_shaped c06_env c06_pf 8 (TRef 1) c06_doc /\
  sort_bytes (missing_spec c06_env 8 (TRef 1) c06_doc []) = map c06_b ["a"; "l[1].a"; "l[2].a"; "m.k.a"; "u.t.Inner.a"; "x"] /\
  (exists fs v, decode_json c06_env c06_star ps_empty 0 c06_pf 8 (TRef 1) (c06_b c06_text) = DMissing fs v /\
                fs = map c06_b ["a"; "l[1].a"; "l[2].a"; "m.k.a"; "u.t.Inner.a"; "x"]) /\
  decode_json c06_env c06_star ps_empty 0 c06_pf 8 (TRef 1) (c06_b c06_text_perm)
  = decode_json c06_env c06_star ps_empty 0 c06_pf 8 (TRef 1) (c06_b c06_text).
Proof.
  split; [exact c06_wf|]. split; [reflexivity|]. split; [exact c06_doc_top|]. split; [exact c06_doc_ws|].
  split; [exact (proj2 missing_exact_example)|]. split; [|vm_compute; reflexivity].
  eexists. eexists. split; [exact (proj1 missing_exact_example)|reflexivity].
Qed.
