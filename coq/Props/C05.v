(* C05 - Routing and Rest.li method inference send each request to exactly one method.
   Only statements here; proofs are in Proofs/RouterProofs.v.  Model: Http/Router.v (the inference / entity-presence
   statement [infer] = Gen/TablesRouter.v_infer is regenerated from handler.go on every run); declarative side:
   Http/RouterSpec.v, written from the property text and the protocol documentation. *)
From Coq Require Import List Bool Arith NArith.
From Coq.Strings Require Import Byte.
From GR Require Import Base.Bytes Gen.TablesRouter Http.Router Http.RouterSpec Http.RouterHeap Proofs.RouterProofs Proofs.RouterHeapProofs.
Import ListNotations.

(* A request is routed to a resource method if and only if its path names a registered resource (walking parent keys
   and sub-resources), its Rest.li method - the header's, or the inferred one - is registered there, and the presence
   of an entity key matches; for every well-formed tree and every request outside the two unspecified combinations. *)
Theorem route_iff_spec : forall s req t, wf_server s -> specified_for s req ->
  (route_root s req = Dispatch t <-> routed_spec s req t).
Proof. exact RouterProofs.route_iff_spec. Qed.

(* ... "is that one and no other": the right-hand side determines the target, and the target is a handler registered on
   the node the path names. *)
Theorem route_unique : forall s req t1 t2, wf_server s -> specified_for s req ->
  routed_spec s req t1 -> routed_spec s req t2 -> t1 = t2.
Proof. exact RouterProofs.route_unique. Qed.

(* Every request that is not routed receives 404 or 400; 404 exactly for an unknown resource or sub-resource; and
   neither a filter nor resource code runs (for every filter list). *)
Theorem unrouted_is_4xx : forall s req st rl, wf_server s ->
  route_root s req = Reject st rl ->
  (st = 404%N \/ st = 400%N) /\ (st = 404%N <-> unknown_resource s req) /\
  (forall fs sf, o_events (serve Bare s fs sf req) = [] /\ o_stub (serve Bare s fs sf req) = None /\
                 o_status (serve Bare s fs sf req) = st).
Proof. exact RouterProofs.unrouted_is_4xx. Qed.

(* The transcribed inference statement agrees with the protocol table on the whole finite domain
   (2 kinds x 5 verbs x 14 header methods x entity x ids x q x action), outside the two unspecified combinations. *)
Theorem inference_table : forall coll v hm e i q a, specified coll hm v ->
  infer_routed coll v hm e i q a = spec_method coll hm v e q i a.
Proof. exact RouterProofs.inference_table. Qed.

(* what the code does in the first unspecified combination: on a collection-like resource the header wins *)
Theorem header_wins : forall v hm e i q a, hm <> Method_Unknown ->
  infer_routed true v hm e i q a = if entity_matches hm e then Some hm else None.
Proof. exact RouterProofs.header_wins. Qed.

(* a header value that is none of the 13 method names is treated like an absent header *)
Theorem unknown_header_is_absent : forall s req h,
  (forall m, m <> Method_Unknown -> method_name m <> h) ->
  route_root s (set_header req h) = route_root s (set_header req []).
Proof. exact RouterProofs.unknown_header_is_absent. Qed.

(* the root module's receive transcribes to the same function, and its method table is the same table *)
Theorem root_module_same : root_method_table_same = true /\
  forall coll v hm e i q a, root_infer coll v hm e i q a = v2_infer coll v hm e i q a.
Proof. exact RouterProofs.root_module_same. Qed.

(* Filters: when no filter fails and the method succeeds, PreRequest runs for every filter in registration order, then
   the method, then PostRequest in reverse order; every one of them sees exactly the routed target. *)
Theorem filters_order : forall fs body t, Forall passing fs -> body_ok (t_method t) body = true ->
  exec fs false body t =
  {| o_status := 0%N; o_restli := false;
     o_events := pre_events fs ++ [EvStub (ctx_ids fs)] ++ rev (post_events fs);
     o_stub := Some t; o_seen := Some t |}.
Proof. exact RouterProofs.filters_order. Qed.

(* Filters, in general: the PreRequest events are a prefix of the registration order and come first; the method runs
   only after ALL PreRequest calls; PostRequest calls happen only after the method ran and succeeded. *)
Theorem filters_prefix : forall fs sf body t,
  let ev := o_events (exec fs sf body t) in
  exists k, firstn k (pre_events fs) = filter is_pre ev /\
            ev = filter is_pre ev ++ filter is_stub ev ++ filter is_post ev /\
            (filter is_stub ev <> [] -> k = length fs /\ o_stub (exec fs sf body t) = Some t) /\
            (filter is_post ev <> [] -> filter is_stub ev <> [] /\ sf = false).
Proof. exact RouterProofs.filters_prefix. Qed.

(* Handler(): a handler is the value of the server at the moment it was obtained - whatever is registered (or whichever
   handlers are obtained) afterwards. *)
Theorem handler_is_snapshot : forall ops1 ops2 w0 w1 w2,
  run_ops ops1 w0 = Some w1 -> run_ops (OpHandler :: ops2) w1 = Some w2 ->
  nth_error (w_handlers w2) (length (w_handlers w1)) = Some (w_server w1).
Proof. exact RouterProofs.handler_is_snapshot. Qed.

(* The persistent-value reading of Handler() above is justified at heap level (Http/RouterHeap.v: nodes at locations,
   subNode() mutating maps in place, clone() copying every node it reaches - aliasing is expressible there): running any
   registration / Handler() sequence on the heap denotes exactly what the persistent model computes, and both panic in
   the same cases.  (Registrations on the empty segment list touch the root pathNode's own maps, which routing never
   reads; they are excluded.) *)
Theorem heap_refines : forall ops prefix,
  (forall segs w, In (OpRegister segs w) ops -> segs <> []) ->
  match hrun ops (new_hworld prefix), run_ops ops (new_world prefix) with
  | Some hw, Some w => abs hw = w
  | None, None => True
  | _, _ => False
  end.
Proof. exact RouterHeapProofs.heap_refines. Qed.

(* ... so, on the heap: the tree a handler denotes is, after any later registrations, still the live tree of the moment
   it was obtained. *)
Theorem late_registration_invisible : forall ops1 ops2 prefix hw1 hw2,
  (forall segs w, In (OpRegister segs w) (ops1 ++ OpHandler :: ops2) -> segs <> []) ->
  hrun ops1 (new_hworld prefix) = Some hw1 ->
  hrun (OpHandler :: ops2) hw1 = Some hw2 ->
  nth_error (w_handlers (abs hw2)) (length (hw_handlers hw1)) = Some (w_server (abs hw1)).
Proof. exact RouterHeapProofs.late_registration_invisible. Qed.

(* registration through Register* keeps the tree well formed: the theorems above apply to every reachable server *)
Theorem registration_wf : forall ops prefix w,
  (forall segs, ~ In (OpRegister segs (RMethod Method_Unknown)) ops) ->
  run_ops ops (new_world prefix) = Some w -> wf_server (w_server w) /\ Forall wf_server (w_handlers w).
Proof. exact RouterProofs.registration_wf. Qed.

(* Mounting: through a ServeMux (AddToMux) every path ServeMux does not redirect is routed as by the bare handler ... *)
Theorem mount_independent : forall s req, mux_clean (r_path req) = true ->
  route_mount Mux s req = route_mount Bare s req.
Proof. exact RouterProofs.mount_independent. Qed.

(* The premise is needed: the property's "however the server is mounted" is FALSE for paths ServeMux cleans.  Witness
   (replayed on the implementation by the harness, known finding mount:servemux-redirects-dot-segment): the string key
   "." of a collection - which the go-restli client writes unescaped - is routed to get by the bare handler and answered
   301 through AddToMux. *)
Definition mount_independent_full : Prop := forall s req, route_mount Mux s req = route_mount Bare s req.
Theorem mount_independent_refuted :
  route_mount Bare dot_key_server dot_key_request = Dispatch ([([x61], true)], Method_get, [[x2e]], None) /\
  route_mount Mux dot_key_server dot_key_request = Reject 301%N false.
Proof. exact RouterProofs.mount_independent_refuted. Qed.

(* ... and a path prefix only has to be present: the rest of the path is routed as under "/". *)
Theorem prefix_independent : forall p roots req rest,
  route_root {| s_prefix := p; s_roots := roots |} (set_path req (p ++ rest)) =
  route_root {| s_prefix := [x2f]; s_roots := roots |} (set_path req (x2f :: rest)).
Proof. exact RouterProofs.prefix_independent. Qed.

(* Non-vacuity: /a/(k)/b on a tree with collection a > simple b; GET without header reaches b's get behind two filters. *)
Example c05_nonvacuous :
  let a := [x61] in let b := [x62] in let k := [x28; x6b; x29] in
  let tree := [Node a true [Method_get] [] [] [Node b false [Method_get] [] [] []]] in
  let req := {| r_verb := VGet; r_header := []; r_path := [x2f] ++ a ++ [x2f] ++ k ++ [x2f] ++ b; r_query := []; r_body := false |} in
  let t := ([(a, true); (b, false)], Method_get, [k], None) in
  serve Mux {| s_prefix := [x2f]; s_roots := tree |} [FCtx; FPass] false req =
  {| o_status := 0%N; o_restli := false;
     o_events := [EvPre 0 []; EvPre 1 [0]; EvStub [0]; EvPost 1 [0]; EvPost 0 [0]];
     o_stub := Some t; o_seen := Some t |}.
Proof. vm_compute. reflexivity. Qed.

Print Assumptions route_iff_spec.
Print Assumptions route_unique.
Print Assumptions unrouted_is_4xx.
Print Assumptions inference_table.
Print Assumptions header_wins.
Print Assumptions unknown_header_is_absent.
Print Assumptions root_module_same.
Print Assumptions filters_order.
Print Assumptions filters_prefix.
Print Assumptions handler_is_snapshot.
Print Assumptions heap_refines.
Print Assumptions late_registration_invisible.
Print Assumptions registration_wf.
Print Assumptions mount_independent.
Print Assumptions mount_independent_refuted.
Print Assumptions prefix_independent.
