(* C03 - wire-format conformance against an independent Rest.li 2.0 reference (statements only; proofs in
   Proofs/ConformProofs.v and Proofs/ConformConverse.v; the reference is Spec/RestliSpec.v: relations [json_denotes] / [ror2_denotes] written from the
   protocol description, sharing with the model only the types bytes/value/ty/env/jdoc, utf8_encode and print_dec).

   Reading guide
   - float_text is32 t b  : "the decimal text t denotes the float with bits b" (decimal->binary conversion is external);
     the output theorems assume of Go's formatter fmtF exactly that its text denotes the float it printed (and is not empty);
     the acceptance theorems assume of Go's parser parseF that it accepts every text denoting a float and returns its bits.
   - nonnull v : v holds no nullable union whose null member is selected.  The protocol writes that value as the literal null
     (and has no ROR2 form for it); the library writes {} / ().  The full statements are therefore FALSE of the current code:
     [*_full] keeps them visible, [*_refuted] gives the witness (replayed on the implementation by the driver, known finding
     conform:json:null-union-as-empty-object), and the theorems proved carry the exact side condition [nonnull v].
   - JSON theorems are stated on the JSON tree [to_jdoc fmtF d] of the emitted document d; the tie to BYTES goes through the
     strict RFC 8259 parser Codec/Json.parse_json (shared lexical layer, in the trusted base):
     [json_parse_render] proves it (Proofs/JsonRoundTrip.v: both renderings of any document whose strings and keys are valid UTF-8
     parse back to [to_jdoc]); the driver additionally parses every emitted document with Go's encoding/json + duplicate-key/UTF-8
     validation and compares the tree with the reference encoding. *)
From Coq Require Import List Bool NArith ZArith Permutation.
From Coq.Strings Require Import Byte.
From GR Require Import Base.Bytes Base.Res Base.Dec Codec.Schema Codec.Doc Codec.Escape Codec.Json Codec.Render Codec.Encode
  Codec.Tracker Codec.Decode Gen.TablesCodec Gen.TablesConform Spec.RestliSpec Proofs.CanonProofs Proofs.ConformProofs Proofs.ConformConverse Proofs.JsonRoundTrip.
Import ListNotations.

(* ---------------------------------------------------------------- soundness of the output: JSON ------------------------- *)
Definition json_output_conforms_full : Prop :=
  forall e (float_text : bool -> bytes -> N -> Prop) (fmtF : bool -> N -> bytes),
  (forall is32 b, float_kind is32 b = KFinite -> float_text is32 (fmtF is32 b) b) ->
  forall w fuel scope t v d,
  wf_env e -> keys_nodup v -> enc e w ps_empty fuel scope t v = Ok d ->
  json_denotes e float_text t (to_jdoc fmtF d) v.

Theorem json_output_conforms_partial :
  forall e (float_text : bool -> bytes -> N -> Prop) (fmtF : bool -> N -> bytes),
  (forall is32 b, float_kind is32 b = KFinite -> float_text is32 (fmtF is32 b) b) ->
  forall w fuel scope t v d,
  wf_env e -> keys_nodup v -> nonnull v -> enc e w ps_empty fuel scope t v = Ok d ->
  json_denotes e float_text t (to_jdoc fmtF d) v.
Proof. exact ConformProofs.json_output_conforms. Qed.

Theorem json_output_conforms_refuted :
  exists e w fuel t v d,
    wf_env e /\ keys_nodup v /\ enc e w ps_empty fuel [] t v = Ok d /\
    forall float_text fmtF, ~ json_denotes e float_text t (to_jdoc fmtF d) v.
Proof. exact ConformProofs.json_output_conforms_refuted. Qed.

(* the byte level: for documents whose strings and keys are valid UTF-8, and a float formatter that prints JSON numbers,
   both renderings (compact, pretty) parse under the strict parser to [to_jdoc] *)
Definition json_parse_render_full : Prop :=
  forall (fmtF : bool -> N -> bytes),
  (forall is32 b, classify_float is32 b = FFinite -> json_number_ok (fmtF is32 b)) ->
  forall pretty d, doc_utf8 d -> parse_json (render_json fmtF pretty 0 d) = Some (to_jdoc fmtF d).
Theorem json_parse_render : json_parse_render_full.
Proof. exact JsonRoundTrip.parse_render_json. Qed.

(* ---------------------------------------------------------------- soundness of the output: ROR2 ------------------------- *)
Definition ror2_output_conforms_full : Prop :=
  forall e (float_text : bool -> bytes -> N -> Prop) (fmtF : bool -> N -> bytes),
  (forall is32 b, float_kind is32 b = KFinite -> float_text is32 (fmtF is32 b) b) ->
  (forall is32 b, float_kind is32 b = KFinite -> fmtF is32 b <> []) ->
  forall fl w fuel scope t v d,
  wf_env e -> keys_nodup v -> enc e w ps_empty fuel scope t v = Ok d ->
  ror2_denotes e float_text (ctx_of fl) t
    (render_ror2 fmtF v2_hex_chars v2_unescaped_path_chars v2_unescaped_query_chars v2_header_escaped_chars
       v2_empty_string v2_list_prefix fl d) v.

(* on the escape tables, hex digits, '' and List( of the CURRENT tree (Gen/TablesCodec.v), for the three flavours *)
Theorem ror2_output_conforms_partial :
  forall e (float_text : bool -> bytes -> N -> Prop) (fmtF : bool -> N -> bytes),
  (forall is32 b, float_kind is32 b = KFinite -> float_text is32 (fmtF is32 b) b) ->
  (forall is32 b, float_kind is32 b = KFinite -> fmtF is32 b <> []) ->
  forall fl w fuel scope t v d,
  wf_env e -> keys_nodup v -> nonnull v -> enc e w ps_empty fuel scope t v = Ok d ->
  ror2_denotes e float_text (ctx_of fl) t
    (render_ror2 fmtF v2_hex_chars v2_unescaped_path_chars v2_unescaped_query_chars v2_header_escaped_chars
       v2_empty_string v2_list_prefix fl d) v.
Proof. exact ConformProofs.v2_ror2_output_conforms. Qed.

Theorem ror2_output_conforms_refuted :
  exists e w fuel t v d,
    wf_env e /\ keys_nodup v /\ enc e w ps_empty fuel [] t v = Ok d /\
    forall float_text cx bs, ~ ror2_denotes e float_text cx t bs v.
Proof. exact ConformProofs.ror2_output_conforms_refuted. Qed.

(* every rendering of every document tree is a text of the notation (k:v,...) | List(...) | '' | percent-encoded text *)
Theorem ror2_output_in_grammar :
  forall (fmtF : bool -> N -> bytes),
  (forall is32 b, float_kind is32 b = KFinite -> fmtF is32 b <> []) ->
  forall fl d, exists tr,
  ror2_text (ctx_of fl)
    (render_ror2 fmtF v2_hex_chars v2_unescaped_path_chars v2_unescaped_query_chars v2_header_escaped_chars
       v2_empty_string v2_list_prefix fl d) tr.
Proof. exact ConformProofs.v2_ror2_output_in_grammar. Qed.

(* the characters of the notation ( ) , : ' never appear raw in an escaped string, key or number *)
Theorem reserved_never_raw : forall fl s c,
  grammar_reserved c = true -> Byte.eqb c x25 = false ->
  mem_byte c (escape v2_hex_chars v2_unescaped_path_chars v2_unescaped_query_chars v2_header_escaped_chars fl s) = false.
Proof. exact ConformProofs.v2_reserved_never_raw. Qed.

(* a space of a query value is written %20 by the writer: '+' (which a query-string reader must take for a space, see
   [pct_text] pt_plus) never appears raw in the query flavour - a literal plus is %2B *)
Theorem query_output_never_plus : forall s,
  mem_byte x2b (escape v2_hex_chars v2_unescaped_path_chars v2_unescaped_query_chars v2_header_escaped_chars FQuery s) = false.
Proof. exact ConformProofs.v2_query_output_never_plus. Qed.

(* ---------------------------------------------------------------- emitted keys ------------------------------------------ *)
(* the members of an emitted record are exactly the names of the fields that are set (own and included, flattened); the
   members of an emitted map are exactly the map's keys *)
Theorem emitted_keys_spec :
  forall e w fuel scope t v d, wf_env e -> keys_nodup v -> enc e w ps_empty fuel scope t v = Ok d ->
  match t, v, d with
  | TMap _, VMap es, DObj ents => Permutation (map fst ents) (map fst es)
  | TRef n, VRec _ _, DObj ents => forall k, In k (map fst ents) -> set_field e n v k
  | _, _, _ => True
  end.
Proof. exact ConformProofs.emitted_keys_spec. Qed.

(* ---------------------------------------------------------------- the converse: acceptance ------------------------------ *)
(* every conforming JSON tree that denotes a valid value of a leaf / array / map type (primitives, enums, fixed, and arrays and
   maps of them at any nesting) is accepted by the tree decoder of the model, leaves the tracker untouched (so no missing
   field is recorded) and yields that value in the decoder's canonical form: map entries sorted by key, every NaN = Go's NaN
   (the property identifies all NaNs).  Premises: the external float parser accepts every text that denotes a float and
   returns its bits, and reads the three reserved strings as NaN and the two infinities. *)
Theorem json_accepts_all_conforming_partial :
  forall e (float_text : bool -> bytes -> N -> Prop) (parseF : nat -> bytes -> option N) (wildcard : bytes) (ignore : nat)
         (nan32 nan64 : N),
  (forall t b, float_text false t b -> parseF 0 t = Some b) ->
  (forall t b, float_text true t b -> parseF 2 t = Some b) ->
  parseF 0 txt_NaN = Some nan64 ->
  parseF 0 txt_Infinity = Some 9218868437227405312%N ->
  parseF 0 txt_NegInfinity = Some 18442240474082181120%N ->
  parseF 2 txt_NaN = Some nan32 ->
  parseF 2 txt_Infinity = Some 2139095040%N ->
  parseF 2 txt_NegInfinity = Some 4286578688%N ->
  forall t, ref_free t = true ->
  forall jd v, json_denotes e float_text t jd v -> valid_value e t v ->
  forall fuel top tr, fuel > ty_depth t ->
  decJ e wildcard ps_empty ignore parseF fuel top t jd tr = Ok (canonical nan32 nan64 v, tr).
Proof. exact ConformProofs.json_accepts_leaf_array_map. Qed.

(* ALL types - records (unknown extra members of any shape, any member order, null or absent for unset optional fields, nested
   and recursive records), unions, arrays, maps, leaves - over PLAIN schemas (no included record, no declared default, distinct
   field names): every conforming JSON tree that denotes a valid value is accepted, for every sufficiently large fuel, at any
   position (top or nested) and with any tracker, which it leaves untouched (no missing field recorded), and yields that value
   in canonical form *)
Theorem json_accepts_all_conforming_plain :
  forall e (float_text : bool -> bytes -> N -> Prop) (parseF : nat -> bytes -> option N) (wildcard : bytes) (ignore : nat)
         (nan32 nan64 : N),
  (forall t b, float_text false t b -> parseF 0 t = Some b) ->
  (forall t b, float_text true t b -> parseF 2 t = Some b) ->
  parseF 0 txt_NaN = Some nan64 ->
  parseF 0 txt_Infinity = Some 9218868437227405312%N ->
  parseF 0 txt_NegInfinity = Some 18442240474082181120%N ->
  parseF 2 txt_NaN = Some nan32 ->
  parseF 2 txt_Infinity = Some 2139095040%N ->
  parseF 2 txt_NegInfinity = Some 4286578688%N ->
  plain_env e ->
  forall t jd v, json_denotes e float_text t jd v -> valid_value e t v -> nonnull v ->
  exists F, forall fuel, F <= fuel -> forall top tr,
    decJ e wildcard ps_empty ignore parseF fuel top t jd tr = Ok (canonical nan32 nan64 v, tr).
Proof. exact ConformConverse.json_accepts_plain. Qed.

(* the general statement - schemas WITH included records and defaults (the decoder then fills the defaults: value =
   fill-as-decJ-does of v) - for the validity predicate [valid] of values (typed; int ranges; fixed sizes; distinct enum symbols; exactly one
   union member): every conforming tree is accepted with no missing field.  NOT proved; it is checked by differential execution
   (driver mode c03, converse part: reference-rendered variants with permuted keys, unknown members, whitespace and
   alternative escapes are fed to the library's readers AND to the model's decoders, and must decode to fill(v)). *)
Definition json_accepts_all_conforming_full (valid : env -> ty -> value -> Prop) : Prop :=
  forall e (float_text : bool -> bytes -> N -> Prop) (parseF : nat -> bytes -> option N) (wildcard : bytes),
  (forall t b, float_text false t b -> parseF 0 t = Some b) ->
  (forall t b, float_text true t b -> parseF 2 t = Some b) ->
  forall t jd v, wf_env e -> valid e t v -> nonnull v -> json_denotes e float_text t jd v ->
  exists fuel v' tr, decJ e wildcard ps_empty 0 parseF fuel true t jd tracker0 = Ok (v', tr) /\ t_missing tr = [].

(* ROR2, leaf types (a primitive, enum or fixed value as a whole header / path segment / query value): every text of the notation
   that denotes a valid value - ANY byte percent-encoded or not, upper or lower case hex digits, and in the query flavour a space
   written '+' - is accepted by the cursor-level
   reader of the model (with the decoder of the flavour: PathUnescape, or QueryUnescape for the query flavour) and yields it *)
Theorem ror2_accepts_conforming_leaves :
  forall e (float_text : bool -> bytes -> N -> Prop) (parseF : nat -> bytes -> option N) (wildcard : bytes) (ignore : nat)
         (query_reader : bool) (nan32 nan64 : N),
  (forall t b, float_text false t b -> parseF 0 t = Some b) ->
  (forall t b, float_text true t b -> parseF 1 t = Some b) ->
  parseF 0 txt_NaN = Some nan64 ->
  parseF 0 txt_Infinity = Some 9218868437227405312%N ->
  parseF 0 txt_NegInfinity = Some 18442240474082181120%N ->
  parseF 1 txt_NaN = Some nan32 ->
  parseF 1 txt_Infinity = Some 2139095040%N ->
  parseF 1 txt_NegInfinity = Some 4286578688%N ->
  forall fl t bs v, is_leaf_ty t = true -> ror2_denotes e float_text (ctx_of fl) t bs v -> valid_value e t v ->
  forall fuel tr,
  decR e wildcard ps_empty ignore parseF (unescape (plus_of fl)) v2_empty_string v2_list_prefix query_reader (S fuel) t (rinit bs tr)
  = Ok (canonical nan32 nan64 v, done tr).
Proof. exact ConformConverse.ror2_accepts_leaves. Qed.

(* ROR2 acceptance for containers (the cursor-level reader run on any text of the notation that denotes the value): NOT proved; same
   differential check, on maximal / minimal / lower-case percent-encodings *)
Definition ror2_accepts_all_conforming_full (valid : env -> ty -> value -> Prop) : Prop :=
  forall e (float_text : bool -> bytes -> N -> Prop) (parseF : nat -> bytes -> option N) (wildcard : bytes) fl,
  (forall t b, float_text false t b -> parseF 0 t = Some b) ->
  (forall t b, float_text true t b -> parseF 1 t = Some b) ->
  forall t bs v, wf_env e -> valid e t v -> nonnull v -> ror2_denotes e float_text (ctx_of fl) t bs v ->
  exists fuel v' s,
    decR e wildcard ps_empty 0 parseF (unescape (plus_of fl)) v2_empty_string v2_list_prefix (plus_of fl) fuel t
         (rinit bs tracker0) = Ok (v', s) /\ r_rest s = [] /\ t_missing (r_tr s) = [].

(* ---------------------------------------------------------------- envelopes and headers --------------------------------- *)
(* the member names of the hand-written envelopes and the protocol headers of the current tree are the protocol's *)
Theorem envelope_names_conform :
  [env_elements_field; env_paging_field; env_metadata_field; env_value_field; env_entities_field; env_entity_field;
   env_results_field; env_statuses_field; env_errors_field; env_id_field; env_location_field; env_status_field; env_error_field;
   hdr_protocol_version; protocol_version_value; hdr_method; hdr_error_response; hdr_id] = protocol_names.
Proof. exact ConformProofs.envelope_names_conform. Qed.

(* ---------------------------------------------------------------- non-vacuity ------------------------------------------- *)
Example json_conforms_example : forall (float_text : bool -> bytes -> N -> Prop) (fmtF : bool -> N -> bytes),
  (forall is32 b, float_kind is32 b = KFinite -> float_text is32 (fmtF is32 b) b) ->
  json_denotes ex_env float_text (TRef 0)
    (JObj [([x61], JNum [x37]); ([x6d], JObj [([x28], JStr [x20; x27])])]) ex_value.
Proof. exact ConformProofs.json_conforms_example. Qed.

Example plain_env_example : plain_env ex_env.
Proof. exact ConformConverse.ex_env_plain. Qed.

(* members in another order, an unknown member [zz:[{},1]] and an explicit null for the unset optional field *)
Example permuted_unknown_accepted_example :
  decJ ex_env [x2a] ps_empty 0 (fun _ _ => None) 5 true (TRef 0)
    (JObj [([x7a; x7a], JArr [JObj []; JNum [x31]]); ([x6d], JObj [([x28], JStr [x20; x27])]); ([x73], JNull); ([x61], JNum [x37])])
    tracker0
  = Ok (ex_value, tracker0).
Proof. exact ConformConverse.ex_permuted_unknown_accepted. Qed.

(* '+' is a space in a query string - and a literal plus in a path segment *)
Example plus_is_space_in_query : forall e float_text,
  ror2_denotes e float_text InQuery (TPrim PString) [x61; x2b; x62] (VStr [x61; x20; x62]).
Proof. exact ConformConverse.plus_is_space_in_query. Qed.
Example plus_is_plus_in_path : pct_text InPath [x61; x2b; x62] [x61; x2b; x62] /\ ~ pct_text InPath [x61; x2b; x62] [x61; x20; x62].
Proof. exact ConformConverse.plus_is_plus_in_path. Qed.

Example ror2_conforms_example : forall float_text,
  ror2_denotes ex_env float_text InQuery (TRef 0)
    [x28; x61; x3a; x37; x2c; x6d; x3a; x28; x25; x32; x38; x3a; x25; x32; x30; x25; x32; x37; x29; x29] ex_value.
Proof. exact ConformProofs.ror2_conforms_example. Qed.

Print Assumptions json_output_conforms_partial.
Print Assumptions json_output_conforms_refuted.
Print Assumptions ror2_output_conforms_partial.
Print Assumptions ror2_output_conforms_refuted.
Print Assumptions ror2_output_in_grammar.
Print Assumptions reserved_never_raw.
Print Assumptions query_output_never_plus.
Print Assumptions emitted_keys_spec.
Print Assumptions json_accepts_all_conforming_partial.
Print Assumptions json_accepts_all_conforming_plain.
Print Assumptions ror2_accepts_conforming_leaves.
Print Assumptions envelope_names_conform.
Print Assumptions json_parse_render.
