(* C06 - required-field accounting, ROR2 part (statements only; proofs in Proofs/Ror2Refines.v).
   "The behaviour is the same for the JSON, ROR2, query-parameter ... readers": the cursor-level ROR2 reader (decR / decode_ror2:
   ror2_reader.go byte by byte, driving the generated UnmarshalRestLi code) REFINES the tree-level decoder, so the tree-level
   characterisation of MissingProofs (Props/C06.v) holds of ROR2 input, for NewRor2Reader and for a query parameter's reader.

   R1  rdoc / render_r / wf_rdoc: ROR2 trees with members in ANY order, unknown members of ANY shape, absent members; leaves
       are raw token text (free of ( ) , : and not empty), keys are arbitrary DECODED byte strings (written by ror2_string).
   R2  decT: on arrays / maps / records / unions it is [stepJ], the step of the JSON tree decoder decJ (Ror2NoPanic.decJ_unfold),
       i.e. the same generated code; on leaves it has the ROR2 token semantics ('' = empty string, otherwise unescape; numbers and
       booleans through strconv on the unescaped text; a composite where a primitive is expected, and vice versa, is an error);
       default literals are decoded by the JSON decoder decJ, as populateLocalDefaultValues does.
   R3  refinement, EXACT: same value, same tracker, the cursor lands exactly after the rendering, same error.
   R4  transfer: missing paths = MissingProofs.missing_spec (the specification used for JSON) on the tree. *)
From Coq Require Import List Bool ZArith NArith Permutation.
From Coq.Strings Require Import Byte.
From GR Require Import Base.Bytes Base.Res Base.Dec Codec.Schema Codec.Doc Codec.Escape Codec.Json Codec.Tracker Codec.Render
  Codec.Decode Gen.TablesCodec Proofs.Ror2NoPanic Proofs.Ror2RoundTrip Proofs.MissingProofs Proofs.DefaultsProofs Proofs.Ror2Refines.
Import ListNotations.

Local Notation UN fl := (unescape (plus_of fl)).
Local Notation EM := v2_empty_string.
Local Notation LP := v2_list_prefix.

(* ---- R1: [toks_ok] is the token part of [wf_rdoc]; the theorems below need only that part (duplicate keys are allowed in
        R3; in R4 the absence of duplicates among the members the schema looks at is part of [ror2_well_shaped]) ---- *)
Theorem c06_ror2_wf_toks : forall d, wf_rdoc d -> toks_ok d.
Proof. exact Ror2Refines.wf_rdoc_toks. Qed.

(* the trees cover the writer's output (Codec/Render.v render_ror2 = ror2_writer.go): what the encoder emits (C01) is a rendering
   of a tree with well-formed tokens *)
Theorem c06_ror2_covers_writer : forall fmtF fl, (forall is32 b, fmtF is32 b <> []) ->
  forall d, render_r fl (r_of_doc fmtF fl d)
            = render_ror2 fmtF v2_hex_chars v2_unescaped_path_chars v2_unescaped_query_chars v2_header_escaped_chars EM LP fl d
            /\ toks_ok (r_of_doc fmtF fl d).
Proof. exact Ror2Refines.render_r_of_doc. Qed.

(* ValidateRor2Input accepts every rendering *)
Theorem c06_ror2_validate : forall fl d, toks_ok d -> validate_ror2 0 (render_r fl d) = true.
Proof. exact Ror2Refines.validate_render_r. Qed.

(* Skip() over a rendered subtree of any shape lands exactly after it (parenthesis counting) *)
Theorem c06_ror2_skip : forall fl d rest tr, toks_ok d -> delim_started rest ->
  rskip LP (cur true (render_r fl d ++ rest) tr) = Ok (cur true rest tr).
Proof. exact Ror2Refines.rskip_render. Qed.

(* after a member of a rendered sequence: ',' continues, ')' ends *)
Theorem c06_ror2_read_after : forall (r : list bytes) rest tr,
  read_after (cur true (seq_tail r rest) tr)
  = Ok (match r with [] => Done (cur true rest tr) | _ => Continue (cur true (seq_r r rest) tr) end).
Proof. exact Ror2Refines.read_after_seq. Qed.

(* ---- R3: the refinement.  c = "the cursor is not at position 0"; tok_ctx c rest: after position 0 the value is followed by
        ',' or ')', at position 0 it is the whole input; qr = the reader is a query parameter's (atInputStart always false).
        fuel: the loops of the reader are bounded by the recursion budget, rsize d <= fuel suffices.
        [lift rest]: Ok (v, tr') becomes Ok (v, cursor after the rendering, tr'); errors and panics are unchanged. ---- *)
Theorem c06_ror2_refines : forall e wildcard excl ignore parseF fl qr fuel t d c tr rest,
  toks_ok d -> tok_ctx c rest -> rsize d <= fuel ->
  decR e wildcard excl ignore parseF (UN fl) EM LP qr fuel t (cur c (render_r fl d ++ rest) tr)
  = lift rest (decT e wildcard excl ignore parseF (UN fl) EM fuel (negb c && negb qr) t d tr).
Proof. exact Ror2Refines.decR_refines. Qed.

Theorem c06_ror2_refines_ok : forall e wildcard excl ignore parseF fl qr fuel t d c tr rest v s,
  toks_ok d -> tok_ctx c rest -> rsize d <= fuel ->
  (decR e wildcard excl ignore parseF (UN fl) EM LP qr fuel t (cur c (render_r fl d ++ rest) tr) = Ok (v, s) <->
   exists tr', decT e wildcard excl ignore parseF (UN fl) EM fuel (negb c && negb qr) t d tr = Ok (v, tr') /\ s = cur true rest tr').
Proof. exact Ror2Refines.decR_refines_ok. Qed.

Theorem c06_ror2_refines_err : forall e wildcard excl ignore parseF fl qr fuel t d c tr rest x,
  toks_ok d -> tok_ctx c rest -> rsize d <= fuel ->
  (decR e wildcard excl ignore parseF (UN fl) EM LP qr fuel t (cur c (render_r fl d ++ rest) tr) = Err x <->
   decT e wildcard excl ignore parseF (UN fl) EM fuel (negb c && negb qr) t d tr = Err x).
Proof. exact Ror2Refines.decR_refines_err. Qed.

Theorem c06_ror2_refines_class : forall e wildcard excl ignore parseF fl qr fuel t d c tr rest,
  toks_ok d -> tok_ctx c rest -> rsize d <= fuel ->
  class_of (decR e wildcard excl ignore parseF (UN fl) EM LP qr fuel t (cur c (render_r fl d ++ rest) tr))
  = class_of (decT e wildcard excl ignore parseF (UN fl) EM fuel (negb c && negb qr) t d tr).
Proof. exact Ror2Refines.decR_refines_class. Qed.

(* at position 0 *)
Theorem c06_ror2_refines_start : forall e wildcard excl ignore parseF fl qr fuel t d tr,
  toks_ok d -> rsize d <= fuel ->
  decR e wildcard excl ignore parseF (UN fl) EM LP qr fuel t (rinit (render_r fl d) tr)
  = lift [] (decT e wildcard excl ignore parseF (UN fl) EM fuel (negb qr) t d tr).
Proof. exact Ror2Refines.decR_refines_start. Qed.

(* NewRor2Reader(data) / a query parameter's reader + UnmarshalRestLi *)
Theorem c06_ror2_decode_refines : forall e wildcard excl ignore parseF fl qr fuel qp t d,
  toks_ok d -> rsize d <= fuel ->
  decode_ror2 e wildcard excl ignore parseF (UN fl) EM LP qr fuel qp t (render_r fl d)
  = finish (match qp with None => is_record e t | Some _ => true end)
      (decT e wildcard excl ignore parseF (UN fl) EM fuel (negb qr) t d
         (match qp with Some p => {| t_scope := [SKey p]; t_missing := [] |} | None => tracker0 end)).
Proof. exact Ror2Refines.decode_ror2_refines. Qed.

(* ---- R4: the tree-level decoder, exactly (the analogue of C06.decJ_exact; same missing_spec) ---- *)
Theorem c06_ror2_tree_exact : forall e wildcard ignore parseF unesc empty_marker, wf_schema e ->
  forall fuel top t d tr,
    well_shaped_t e parseF unesc empty_marker fuel t d ->
    t_scope tr <> [SKey []] -> (t_scope tr = [] -> keys_nonempty (entries_of d)) ->
    exists tr',
      decTj e wildcard ps_empty ignore parseF unesc empty_marker fuel top t d tr
      = Ok (decode_spec_t e wildcard ignore parseF unesc empty_marker fuel (raises_t e fuel top t d tr) t d, tr') /\
      t_scope tr' = t_scope tr /\
      Permutation (t_missing tr') (t_missing tr ++ missing_spec e fuel t d (t_scope tr)).
Proof. exact Ror2Refines.decTj_exact. Qed.

(* any type, either reader *)
Theorem c06_ror2_decode_exact : forall e wildcard ignore parseF fl, wf_schema e ->
  forall qr fuel qp t d,
    toks_ok d -> rsize d <= fuel -> ror2_well_shaped e parseF fl fuel t d -> scope_ok qp d ->
    decode_ror2 e wildcard ps_empty ignore parseF (UN fl) EM LP qr fuel qp t (render_r fl d) =
    let ms := ror2_missing e fuel t d (sc_of qp) in
    let v := ror2_value e wildcard ignore parseF fl fuel (negb qr && negb (is_nilb ms)) t d in
    match ms with
    | [] => DOk v
    | _ => if top_raises e qp t then DMissing (sort_bytes ms) v else DOk v
    end.
Proof. exact Ror2Refines.ror2_decode_exact. Qed.

(* a record at the start of the input: the error carries exactly the specified paths, sorted, with the partial value *)
Theorem c06_ror2_missing_exact : forall e wildcard ignore parseF fl, wf_schema e ->
  forall fuel t d,
    is_record e t = true -> toks_ok d -> rsize d <= fuel -> ror2_well_shaped e parseF fl fuel t d -> scope_ok None d ->
    decode_ror2 e wildcard ps_empty ignore parseF (UN fl) EM LP false fuel None t (render_r fl d) =
    match ror2_missing e fuel t d [] with
    | [] => DOk (ror2_value e wildcard ignore parseF fl fuel false t d)
    | ms => DMissing (sort_bytes ms) (ror2_value e wildcard ignore parseF fl fuel true t d)
    end.
Proof. exact Ror2Refines.ror2_missing_exact. Qed.

Theorem c06_ror2_missing_iff : forall e wildcard ignore parseF fl, wf_schema e ->
  forall fuel t d fs v,
    is_record e t = true -> toks_ok d -> rsize d <= fuel -> ror2_well_shaped e parseF fl fuel t d -> scope_ok None d ->
    (decode_ror2 e wildcard ps_empty ignore parseF (UN fl) EM LP false fuel None t (render_r fl d) = DMissing fs v <->
     fs = sort_bytes (ror2_missing e fuel t d []) /\ fs <> [] /\ v = ror2_value e wildcard ignore parseF fl fuel true t d).
Proof. exact Ror2Refines.ror2_missing_iff. Qed.

Theorem c06_ror2_missing_none_iff : forall e wildcard ignore parseF fl, wf_schema e ->
  forall fuel t d,
    is_record e t = true -> toks_ok d -> rsize d <= fuel -> ror2_well_shaped e parseF fl fuel t d -> scope_ok None d ->
    (ror2_missing e fuel t d [] = [] <->
     decode_ror2 e wildcard ps_empty ignore parseF (UN fl) EM LP false fuel None t (render_r fl d)
     = DOk (ror2_value e wildcard ignore parseF fl fuel false t d)).
Proof. exact Ror2Refines.ror2_missing_none_iff. Qed.

(* the query-parameter reader: scope starts at [p], the record never raises itself and fills its defaults, the aggregate raises *)
Theorem c06_ror2_query_param_exact : forall e wildcard ignore parseF fl, wf_schema e ->
  forall fuel p t d,
    p <> [] -> toks_ok d -> rsize d <= fuel -> ror2_well_shaped e parseF fl fuel t d ->
    decode_ror2 e wildcard ps_empty ignore parseF (UN fl) EM LP true fuel (Some p) t (render_r fl d) =
    match ror2_missing e fuel t d [SKey p] with
    | [] => DOk (ror2_value e wildcard ignore parseF fl fuel false t d)
    | ms => DMissing (sort_bytes ms) (ror2_value e wildcard ignore parseF fl fuel false t d)
    end.
Proof. exact Ror2Refines.ror2_query_param_exact. Qed.

(* D33 holds of the ROR2 reader too: anything but a record at the start of the input never raises *)
Theorem c06_ror2_top_non_record_never_raises : forall e wildcard ignore parseF fl, wf_schema e ->
  forall fuel t d,
    is_record e t = false -> toks_ok d -> rsize d <= fuel -> ror2_well_shaped e parseF fl fuel t d -> scope_ok None d ->
    decode_ror2 e wildcard ps_empty ignore parseF (UN fl) EM LP false fuel None t (render_r fl d)
    = DOk (ror2_value e wildcard ignore parseF fl fuel (negb (is_nilb (ror2_missing e fuel t d []))) t d).
Proof. exact Ror2Refines.ror2_top_non_record_never_raises. Qed.

(* ---- C13 on ROR2 input: the own slots of the value returned by decode_ror2 ([ror2_value fuel raising], see c06_ror2_decode_exact;
        raising = "NewRor2Reader and some path is missing").  A present member wins; an absent [Default lit] field holds the JSON
        decoding of the literal (DefaultsProofs.lit_value, the same function as for JSON input) unless the record raises ---- *)
Theorem c06_ror2_own_slots : forall e wildcard ignore parseF fl, wf_schema e ->
  forall n incs fs f raising d, lookup e n = Some (DRecord incs fs) ->
  exists ivs fvs,
    ror2_value e wildcard ignore parseF fl (S f) raising (TRef n) d = VRec ivs fvs /\ length fvs = length fs /\
    forall j fd, nth_error fs j = Some fd ->
      nth_error fvs j =
      Some (match present (entries_of (j_of_r d)) (f_name fd) with
            | Some x => Some (decode_spec_t e wildcard ignore parseF (UN fl) EM f false (f_ty fd) x)
            | None =>
                match f_opt fd with
                | Required => Some (zero_value e (S (length e)) (f_ty fd))
                | Optional => None
                | Default lit => if negb raising then DefaultsProofs.lit_value e wildcard ignore parseF f (f_ty fd) lit else None
                end
            end).
Proof. exact Ror2Refines.ror2_own_slots. Qed.

(* ---- same known content, same outcome ---- *)
Theorem c06_ror2_same_content : forall e wildcard ignore parseF fl, wf_schema e ->
  forall qr fuel qp t d1 d2,
    toks_ok d1 -> toks_ok d2 -> rsize d1 <= fuel -> rsize d2 <= fuel ->
    ror2_well_shaped e parseF fl fuel t d1 -> sim e fuel t (j_of_r d1) (j_of_r d2) -> scope_ok qp d1 -> scope_ok qp d2 ->
    decode_ror2 e wildcard ps_empty ignore parseF (UN fl) EM LP qr fuel qp t (render_r fl d1)
    = decode_ror2 e wildcard ps_empty ignore parseF (UN fl) EM LP qr fuel qp t (render_r fl d2).
Proof. exact Ror2Refines.ror2_same_content. Qed.

(* members of every object, at any depth, in any order *)
Theorem c06_ror2_order_independent : forall e wildcard ignore parseF fl, wf_schema e ->
  forall qr fuel qp t d1 d2,
    toks_ok d1 -> rsize d1 <= fuel -> ror2_well_shaped e parseF fl fuel t d1 -> scope_ok qp d1 -> rperm d1 d2 ->
    decode_ror2 e wildcard ps_empty ignore parseF (UN fl) EM LP qr fuel qp t (render_r fl d1)
    = decode_ror2 e wildcard ps_empty ignore parseF (UN fl) EM LP qr fuel qp t (render_r fl d2).
Proof. exact Ror2Refines.ror2_order_independent. Qed.

(* one more member of ANY shape under a key that is not a field (own or inherited) of the record *)
Theorem c06_ror2_unknown_fields_skipped : forall e wildcard ignore parseF fl, wf_schema e ->
  forall qr f qp n incs fs l1 l2 k x,
    lookup e n = Some (DRecord incs fs) -> field_of e n k = None -> ~ In k (map fst (l1 ++ l2)) ->
    toks_ok (RObj (l1 ++ l2)) -> toks_ok x -> rsize (RObj (l1 ++ (k, x) :: l2)) <= S f ->
    ror2_well_shaped e parseF fl (S f) (TRef n) (RObj (l1 ++ l2)) ->
    scope_ok qp (RObj (l1 ++ l2)) -> (qp = None -> k <> []) ->
    decode_ror2 e wildcard ps_empty ignore parseF (UN fl) EM LP qr (S f) qp (TRef n) (render_r fl (RObj (l1 ++ l2)))
    = decode_ror2 e wildcard ps_empty ignore parseF (UN fl) EM LP qr (S f) qp (TRef n) (render_r fl (RObj (l1 ++ (k, x) :: l2))).
Proof. exact Ror2Refines.ror2_unknown_fields_skipped. Qed.

(* ---- the unrestricted statements are false for ROR2 exactly as for JSON (C06.v), with witnesses ---- *)
Theorem c06_ror2_missing_exact_full_refuted : ~ ror2_missing_exact_full.
Proof. exact Ror2Refines.ror2_missing_exact_full_refuted. Qed.

Theorem c06_ror2_paths_exact_full_refuted : ~ ror2_paths_exact_full.
Proof. exact Ror2Refines.ror2_paths_exact_full_refuted. Qed.

From Coq.Strings Require Import String.
Local Open Scope string_scope.

(* ---- non-vacuity: (zz:List(1,(q:x),List()),l:List((a:1),(c:3)),b:s%20t,m:(k:()),u:(t.Inner:(b:''))) ---- *)
Example c06_ror2_nonvacuous : forall fl,
  wf_schema c06_env /\ is_record c06_env (TRef 1) = true /\ wf_rdoc r06_doc /\ rsize r06_doc <= 40 /\
  ror2_well_shaped c06_env c06_pf fl 8 (TRef 1) r06_doc /\ scope_ok None r06_doc /\
  render_r fl r06_doc = c06_b r06_text /\
  sort_bytes (ror2_missing c06_env 8 (TRef 1) r06_doc []) = List.map c06_b ["a"; "l[1].a"; "m.k.a"; "u.t.Inner.a"; "x"]%list /\
  (exists v, decode_ror2 c06_env c06_star ps_empty 0 c06_pf (UN fl) EM LP false 40 None (TRef 1) (render_r fl r06_doc)
             = DMissing (List.map c06_b ["a"; "l[1].a"; "m.k.a"; "u.t.Inner.a"; "x"]%list) v) /\
  decode_ror2 c06_env c06_star ps_empty 0 c06_pf (UN fl) EM LP false 40 None (TRef 1) (render_r fl r06_doc_perm)
  = decode_ror2 c06_env c06_star ps_empty 0 c06_pf (UN fl) EM LP false 40 None (TRef 1) (render_r fl r06_doc) /\
  (exists v, decode_ror2 c06_env c06_star ps_empty 0 c06_pf (UN fl) EM LP true 40 (Some (c06_b "p")) (TRef 1) (render_r fl r06_doc)
             = DMissing (List.map c06_b ["p.a"; "p.l[1].a"; "p.m.k.a"; "p.u.t.Inner.a"; "p.x"]%list) v).
Proof. exact Ror2Refines.ror2_nonvacuous. Qed.

Example c06_ror2_refines_example :
  let dR := decR c06_env c06_star ps_empty 0 c06_pf (unescape false) EM LP false 8 in
  let dT := decT c06_env c06_star ps_empty 0 c06_pf (unescape false) EM 8 in
  let two := RObj [(c06_b "int", r06_leaf "1"); (c06_b "t.Inner", RObj [])] in
  let more := c06_b ",x:1)" in
  dR (TRef 2) (rinit (render_r FPath two) tracker0) = Err EUnion /\ dT true (TRef 2) two tracker0 = Err EUnion /\
  dR (TRef 0) (rinit (render_r FPath (r06_leaf "abc")) tracker0) = Err EDeser /\ dT true (TRef 0) (r06_leaf "abc") tracker0 = Err EDeser /\
  dR (TPrim PInt) (cur true (render_r FPath r06_arr ++ more)%list tracker0) = Err EDeser /\
  dT false (TPrim PInt) r06_arr tracker0 = Err EDeser /\
  dR (TArray (TRef 0)) (cur true (render_r FPath r06_arr ++ more)%list tracker0)
  = Ok (VArr [VRec [] [Some (VInt 0); None; Some (VInt 7)]; VRec [] [Some (VInt 1); None; Some (VInt 7)]],
        cur true more {| t_scope := []; t_missing := [c06_b "[0].a"] |}) /\
  dT false (TArray (TRef 0)) r06_arr tracker0
  = Ok (VArr [VRec [] [Some (VInt 0); None; Some (VInt 7)]; VRec [] [Some (VInt 1); None; Some (VInt 7)]],
        {| t_scope := []; t_missing := [c06_b "[0].a"] |}).
Proof. exact Ror2Refines.ror2_refines_example. Qed.

Example c06_ror2_missing_example : forall fl,
  decode_ror2 c06_env c06_star ps_empty 0 c06_pf (UN fl) EM LP false 8 None (TRef 1) (c06_b r06_text)
  = DMissing (List.map c06_b ["a"; "l[1].a"; "m.k.a"; "u.t.Inner.a"; "x"]%list)
      (VRec [VRec [] [Some (VInt 0); Some (VStr (c06_b "s t")); None]]
         [Some (VRec [] [Some (VInt 0); None; None]);
          Some (VArr [VRec [] [Some (VInt 1); None; Some (VInt 7)]; VRec [] [Some (VInt 0); None; Some (VInt 3)]]);
          Some (VMap [(c06_b "k", VRec [] [Some (VInt 0); None; Some (VInt 7)])]);
          Some (VUnion [Some (VRec [] [Some (VInt 0); Some (VStr []); Some (VInt 7)]); None])])
  /\ sort_bytes (ror2_missing c06_env 8 (TRef 1) r06_doc []) = List.map c06_b ["a"; "l[1].a"; "m.k.a"; "u.t.Inner.a"; "x"]%list.
Proof. exact Ror2Refines.ror2_missing_example. Qed.

Example c06_ror2_top_level_non_record_witness :
  render_r FPath r06_arr = c06_b "List((),(a:1))" /\
  decode_ror2 c06_env c06_star ps_empty 0 c06_pf (unescape false) EM LP false 8 None (TArray (TRef 0)) (c06_b "List((),(a:1))")
  = DOk (VArr [VRec [] [Some (VInt 0); None; Some (VInt 7)]; VRec [] [Some (VInt 1); None; Some (VInt 7)]])
  /\ ror2_missing c06_env 8 (TArray (TRef 0)) r06_arr [] = [c06_b "[0].a"].
Proof. exact Ror2Refines.ror2_top_level_non_record_witness. Qed.

Example c06_ror2_empty_key_witness :
  render_r FPath r06_empty_key = c06_b "('':())" /\
  decR c06_env c06_star ps_empty 0 c06_pf (unescape false) EM LP false 8 (TMap (TRef 0)) (rinit (c06_b "('':())") tracker0)
  = Ok (VMap [([], VRec [] [Some (VInt 0); None; Some (VInt 7)])], cur true [] {| t_scope := []; t_missing := [c06_b "a"] |})
  /\ ror2_missing c06_env 8 (TMap (TRef 0)) r06_empty_key [] = [c06_b ".a"].
Proof. exact Ror2Refines.ror2_empty_key_witness. Qed.

Print Assumptions c06_ror2_covers_writer.
Print Assumptions c06_ror2_validate.
Print Assumptions c06_ror2_skip.
Print Assumptions c06_ror2_read_after.
Print Assumptions c06_ror2_refines.
Print Assumptions c06_ror2_refines_ok.
Print Assumptions c06_ror2_refines_err.
Print Assumptions c06_ror2_refines_class.
Print Assumptions c06_ror2_refines_start.
Print Assumptions c06_ror2_decode_refines.
Print Assumptions c06_ror2_tree_exact.
Print Assumptions c06_ror2_decode_exact.
Print Assumptions c06_ror2_missing_exact.
Print Assumptions c06_ror2_missing_iff.
Print Assumptions c06_ror2_missing_none_iff.
Print Assumptions c06_ror2_query_param_exact.
Print Assumptions c06_ror2_top_non_record_never_raises.
Print Assumptions c06_ror2_own_slots.
Print Assumptions c06_ror2_same_content.
Print Assumptions c06_ror2_order_independent.
Print Assumptions c06_ror2_unknown_fields_skipped.
Print Assumptions c06_ror2_missing_exact_full_refuted.
Print Assumptions c06_ror2_paths_exact_full_refuted.
Print Assumptions c06_ror2_nonvacuous.
