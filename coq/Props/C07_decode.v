(* C07, decode side, combined with C06 (statements only; proofs in Proofs/DecodeExclProofs.v).
   "A decoder configured with an exclusion specification rejects a document that carries an excluded field and does not report
   an excluded required field as missing" - for an ARBITRARY spec [excl], on whole documents, for the JSON tree decoder decJ /
   decode_json, the cursor-level ROR2 reader decR / decode_ror2 (through Ror2Refines.decR_refines) and the untyped reader decA /
   decode_any (through AnyProofs.readers_agree).  Props/C06.v is the instance excl = ps_empty ([c07d_decJ_exact_is_instance]).

   Vocabulary (definitions in Proofs/DecodeExclProofs.v; none of it mentions the tracker):
     member_path wc ig sc       the path the matcher sees for the member at scope sc: sc minus its [ig] leading segments
                                (leadingScopeToIgnore), array indices replaced by the wildcard
     excluded_at wc excl ig sc  ig < |sc|  and  ps_matches wc excl (member_path wc ig sc)
     carries e exb t d sc p     (inductive; no fuel, no document order) decoding d at type t under scope sc reaches a NON-NULL object
                                member - ANY member of a record object (field or not), the member of a union object, an entry of
                                a map - whose scope p satisfies exb; positions are reached through non-null values of known fields,
                                union members, map entries and array items (unknown fields are skipped, never entered)
     first_excluded e exb f t d sc   the same as a function: the FIRST such member in document order, depth first
     missing_paths e f t d sc   the scopes of the absent required fields (own or inherited) at every position reached through
                                present values; MissingProofs.missing_spec is its image under scope_string
     reported e wc excl ig f t d sc  = map scope_string (filter (fun p => negb (excluded_at wc excl ig p)) (missing_paths e f t d sc))
   The decoded value is MissingProofs.decode_spec, the SAME function of the document as without exclusions: the generated code reads
   the default literals with NewJsonReader (no exclusions, scopeToIgnore 0) and so does the model (Decode.v); the spec enters only
   through the raising flag (a record at the start of the input that raises does not fill its own defaults).
   Hypotheses as in C06: wf_schema e; well_shaped e pF fuel t d (carries the depth bound); the two scope hypotheses of decJ_exact
   (the lone empty key at the outermost level).  On such documents the ONLY possible error is the excluded-field error. *)
From Coq Require Import List Bool Arith ZArith NArith Permutation.
From Coq.Strings Require Import Byte.
From GR Require Import Base.Bytes Base.Res Codec.Schema Codec.Doc Codec.Escape Codec.Json Codec.Tracker Codec.Decode Codec.AnyReader
  Gen.TablesCodec.
From GR Require Import Proofs.Ror2NoPanic Proofs.Ror2RoundTrip Proofs.PathSpecProofs Proofs.Ror2Refines Proofs.AnyProofs
  Proofs.MissingProofs Proofs.DecodeExclProofs.
Import ListNotations.

Local Notation UN fl := (unescape (plus_of fl)).
Local Notation EM := v2_empty_string.
Local Notation LP := v2_list_prefix.

(* ================================================================================================================================
   the tracker against the vocabulary
   ================================================================================================================================ *)
Theorem c07d_enter_map : forall wc excl ignore k tr,
  enter_map wc excl ignore k tr =
  if excluded_at wc excl ignore (t_scope tr ++ [SKey k])
  then Err (EExcluded (scope_string (t_scope tr ++ [SKey k]))) else Ok (push (SKey k) tr).
Proof. exact DecodeExclProofs.enter_map_x. Qed.

Theorem c07d_is_key_excluded : forall wc excl ignore k tr,
  is_key_excluded wc excl ignore k tr = excluded_at wc excl ignore (t_scope tr ++ [SKey k]).
Proof. exact DecodeExclProofs.is_key_excluded_x. Qed.

(* with a well-formed directive list the excluded positions are those of the declarative specification of C07 *)
Theorem c07d_excluded_at_iff_spec : forall wc ds ignore sc, well_formed wc ds ->
  (excluded_at wc (new_pathspec' ds) ignore sc = true <->
   ignore < length sc /\ spec_excludes wc ds (member_path wc ignore sc)).
Proof. exact DecodeExclProofs.excluded_at_iff_spec. Qed.

Theorem c07d_excluded_subtree : forall wc excl ignore sc more,
  excluded_at wc excl ignore sc = true -> excluded_at wc excl ignore (sc ++ more) = true.
Proof. exact DecodeExclProofs.excluded_subtree. Qed.

Theorem c07d_excluded_at_empty : forall wc ignore sc, excluded_at wc ps_empty ignore sc = false.
Proof. exact DecodeExclProofs.excluded_at_empty_spec. Qed.

(* the three readings of the missing set *)
Theorem c07d_missing_spec_paths : forall e fuel t d sc,
  missing_spec e fuel t d sc = map scope_string (missing_paths e fuel t d sc).
Proof. exact DecodeExclProofs.missing_spec_paths. Qed.

Theorem c07d_reported_eq : forall e wc excl ignore fuel t d sc,
  reported e wc excl ignore fuel t d sc
  = map scope_string (filter (fun p => negb (excluded_at wc excl ignore p)) (missing_paths e fuel t d sc)).
Proof. exact DecodeExclProofs.reported_eq. Qed.

(* ================================================================================================================================
   D1 + D2, the decoder exactly: at any depth, under any scope / tracker, for any spec
   ================================================================================================================================ *)
Theorem c07d_decJ_exact : forall e wc excl ignore parseF, wf_schema e ->
  forall fuel top t d tr,
    well_shaped e parseF fuel t d ->
    t_scope tr <> [SKey []] -> (t_scope tr = [] -> keys_nonempty (entries_of d)) ->
    match first_excluded e (excluded_at wc excl ignore) fuel t d (t_scope tr) with
    | Some p => decJ e wc excl ignore parseF fuel top t d tr = Err (EExcluded (scope_string p))
    | None =>
        exists tr',
          decJ e wc excl ignore parseF fuel top t d tr
          = Ok (decode_spec e wc ignore parseF fuel (raisesX e wc excl ignore fuel top t d tr) t d, tr') /\
          t_scope tr' = t_scope tr /\
          Permutation (t_missing tr') (t_missing tr ++ reported e wc excl ignore fuel t d (t_scope tr))
    end.
Proof. exact DecodeExclProofs.decJ_exactX. Qed.

(* ---- D1: rejection, iff; the error names the FIRST offending member in document order; no other error is possible ---- *)
Theorem c07d_decJ_rejects_iff : forall e wc excl ignore parseF, wf_schema e ->
  forall fuel top t d tr,
    well_shaped e parseF fuel t d -> t_scope tr <> [SKey []] -> (t_scope tr = [] -> keys_nonempty (entries_of d)) ->
    ((exists s, decJ e wc excl ignore parseF fuel top t d tr = Err (EExcluded s)) <->
     exists p, carries e (excluded_at wc excl ignore) t d (t_scope tr) p).
Proof. exact DecodeExclProofs.decJ_rejects_iff. Qed.

Theorem c07d_decJ_accepts_iff : forall e wc excl ignore parseF, wf_schema e ->
  forall fuel top t d tr,
    well_shaped e parseF fuel t d -> t_scope tr <> [SKey []] -> (t_scope tr = [] -> keys_nonempty (entries_of d)) ->
    ((exists v tr', decJ e wc excl ignore parseF fuel top t d tr = Ok (v, tr')) <->
     ~ exists p, carries e (excluded_at wc excl ignore) t d (t_scope tr) p).
Proof. exact DecodeExclProofs.decJ_accepts_iff. Qed.

Theorem c07d_decJ_error_is_first : forall e wc excl ignore parseF, wf_schema e ->
  forall fuel top t d tr x,
    well_shaped e parseF fuel t d -> t_scope tr <> [SKey []] -> (t_scope tr = [] -> keys_nonempty (entries_of d)) ->
    decJ e wc excl ignore parseF fuel top t d tr = Err x ->
    exists p, first_excluded e (excluded_at wc excl ignore) fuel t d (t_scope tr) = Some p /\ x = EExcluded (scope_string p) /\
              carries e (excluded_at wc excl ignore) t d (t_scope tr) p.
Proof. exact DecodeExclProofs.decJ_error_is_first. Qed.

(* the function and the relation *)
Theorem c07d_first_excluded_sound : forall e exb fuel t d sc p,
  first_excluded e exb fuel t d sc = Some p -> carries e exb t d sc p.
Proof. exact DecodeExclProofs.first_excluded_sound. Qed.

Theorem c07d_carries_iff_first : forall e exb parseF fuel t d sc, well_shaped e parseF fuel t d ->
  ((exists p, carries e exb t d sc p) <-> first_excluded e exb fuel t d sc <> None).
Proof. exact DecodeExclProofs.carries_iff_first. Qed.

Theorem c07d_carries_excluded : forall e exb t d sc p, carries e exb t d sc p ->
  exb p = true /\ exists rest k, p = (sc ++ rest) ++ [SKey k].
Proof. exact DecodeExclProofs.carries_excluded. Qed.

(* the whole document, any type at the start of the input *)
Theorem c07d_decode_rejects_iff : forall e wc excl ignore parseF, wf_schema e ->
  forall fuel t data jd,
    top_ok data jd -> well_shaped e parseF fuel t jd ->
    ((exists s, decode_json e wc excl ignore parseF fuel t data = DErr (EExcluded s)) <->
     exists p, carries e (excluded_at wc excl ignore) t jd [] p).
Proof. exact DecodeExclProofs.decode_rejects_iff. Qed.

(* ---- D2: a record at the start of the input - rejected at the first excluded member, otherwise exactly the non-excluded
        absent required fields, sorted, with the partially populated value; nothing is raised when none is left ---- *)
Theorem c07d_missing_exact : forall e wc excl ignore parseF, wf_schema e ->
  forall fuel t data jd,
    is_record e t = true -> top_ok data jd -> well_shaped e parseF fuel t jd ->
    decode_json e wc excl ignore parseF fuel t data =
    match first_excluded e (excluded_at wc excl ignore) fuel t jd [] with
    | Some p => DErr (EExcluded (scope_string p))
    | None =>
        match reported e wc excl ignore fuel t jd [] with
        | [] => DOk (decode_spec e wc ignore parseF fuel false t jd)
        | ms => DMissing (sort_bytes ms) (decode_spec e wc ignore parseF fuel true t jd)
        end
    end.
Proof. exact DecodeExclProofs.missing_exactX. Qed.

(* anything else at the start of the input never raises (finding D33), but it does reject *)
Theorem c07d_top_non_record : forall e wc excl ignore parseF, wf_schema e ->
  forall fuel t data jd,
    is_record e t = false -> top_ok data jd -> well_shaped e parseF fuel t jd ->
    decode_json e wc excl ignore parseF fuel t data =
    match first_excluded e (excluded_at wc excl ignore) fuel t jd [] with
    | Some p => DErr (EExcluded (scope_string p))
    | None => DOk (decode_spec e wc ignore parseF fuel (negb (is_nilb (reported e wc excl ignore fuel t jd []))) t jd)
    end.
Proof. exact DecodeExclProofs.top_non_recordX. Qed.

(* D2 with the filter written out *)
Theorem c07d_missing_exact_spec : forall e wc excl ignore parseF, wf_schema e ->
  forall fuel t data jd,
    is_record e t = true -> top_ok data jd -> well_shaped e parseF fuel t jd ->
    (forall p, ~ carries e (excluded_at wc excl ignore) t jd [] p) ->
    decode_json e wc excl ignore parseF fuel t data =
    match map scope_string (filter (fun p => negb (excluded_at wc excl ignore p)) (missing_paths e fuel t jd [])) with
    | [] => DOk (decode_spec e wc ignore parseF fuel false t jd)
    | ms => DMissing (sort_bytes ms) (decode_spec e wc ignore parseF fuel true t jd)
    end.
Proof. exact DecodeExclProofs.missing_exactX_spec. Qed.

(* ---- the value: the spec enters only through the raising flag ---- *)
Theorem c07d_value_independent_partial : forall e wc excl ignore parseF, wf_schema e ->
  forall fuel t data jd,
    is_record e t = true -> top_ok data jd -> well_shaped e parseF fuel t jd ->
    (forall p, ~ carries e (excluded_at wc excl ignore) t jd [] p) ->
    (reported e wc excl ignore fuel t jd [] = [] <-> missing_spec e fuel t jd [] = []) ->
    value_of (decode_json e wc excl ignore parseF fuel t data) = value_of (decode_json e wc ps_empty ignore parseF fuel t data).
Proof. exact DecodeExclProofs.value_independent_of_excl_partial. Qed.

(* below the top level nothing raises: the value under ANY spec is the value without exclusions *)
Theorem c07d_nested_value_independent : forall e wc excl ignore parseF, wf_schema e ->
  forall fuel t d tr v tr',
    well_shaped e parseF fuel t d -> t_scope tr <> [SKey []] -> (t_scope tr = [] -> keys_nonempty (entries_of d)) ->
    decJ e wc excl ignore parseF fuel false t d tr = Ok (v, tr') -> v = decode_spec e wc ignore parseF fuel false t d.
Proof. exact DecodeExclProofs.nested_value_independent_of_excl. Qed.

(* "exclusion never changes the decoded value" is false: when the only missing required field is excluded the record no longer
   raises and fills its own defaults (genuine behaviour) *)
Definition c07d_value_independent_full : Prop := DecodeExclProofs.value_independent_of_excl_full.
Theorem c07d_value_independent_full_refuted : ~ c07d_value_independent_full.
Proof. exact DecodeExclProofs.value_independent_of_excl_full_refuted. Qed.

(* ================================================================================================================================
   D3 corollaries
   ================================================================================================================================ *)
(* ---- an excluded absent required field is never reported ---- *)
Theorem c07d_reported_iff : forall e wc excl ignore fuel t d sc s,
  In s (reported e wc excl ignore fuel t d sc) <->
  exists p, In p (missing_paths e fuel t d sc) /\ excluded_at wc excl ignore p = false /\ s = scope_string p.
Proof. exact DecodeExclProofs.reported_iff. Qed.

Theorem c07d_excluded_required_absent_not_reported : forall e wc excl ignore fuel t d sc p,
  In p (missing_paths e fuel t d sc) -> excluded_at wc excl ignore p = true ->
  ~ In p (filter (fun p => negb (excluded_at wc excl ignore p)) (missing_paths e fuel t d sc)).
Proof. exact DecodeExclProofs.excluded_required_absent_not_reported. Qed.

Theorem c07d_excluded_string_not_reported : forall e wc excl ignore fuel t d sc p,
  excluded_at wc excl ignore p = true ->
  (forall q, In q (missing_paths e fuel t d sc) -> scope_string q = scope_string p -> excluded_at wc excl ignore q = true) ->
  ~ In (scope_string p) (reported e wc excl ignore fuel t d sc).
Proof. exact DecodeExclProofs.excluded_string_not_reported. Qed.

Theorem c07d_reported_incl_missing_spec : forall e wc excl ignore fuel t d sc,
  incl (reported e wc excl ignore fuel t d sc) (missing_spec e fuel t d sc).
Proof. exact DecodeExclProofs.reported_incl_missing_spec. Qed.

(* when every absent required field is excluded the document decodes without error *)
Theorem c07d_only_excluded_missing_decodes : forall e wc excl ignore parseF, wf_schema e ->
  forall fuel t data jd,
    is_record e t = true -> top_ok data jd -> well_shaped e parseF fuel t jd ->
    (forall p, ~ carries e (excluded_at wc excl ignore) t jd [] p) ->
    (forall p, In p (missing_paths e fuel t jd []) -> excluded_at wc excl ignore p = true) ->
    decode_json e wc excl ignore parseF fuel t data = DOk (decode_spec e wc ignore parseF fuel false t jd).
Proof. exact DecodeExclProofs.only_excluded_missing_decodes. Qed.

(* ---- excl = ps_empty: Props/C06.v decJ_exact / missing_exact are instances ---- *)
Theorem c07d_decJ_exact_is_instance : forall e wc ignore parseF, wf_schema e ->
  forall fuel top t d tr,
    well_shaped e parseF fuel t d ->
    t_scope tr <> [SKey []] -> (t_scope tr = [] -> keys_nonempty (entries_of d)) ->
    exists tr',
      decJ e wc ps_empty ignore parseF fuel top t d tr
      = Ok (decode_spec e wc ignore parseF fuel (raises e fuel top t d tr) t d, tr') /\
      t_scope tr' = t_scope tr /\
      Permutation (t_missing tr') (t_missing tr ++ missing_spec e fuel t d (t_scope tr)).
Proof. exact DecodeExclProofs.decJ_exact_is_instance. Qed.

Theorem c07d_missing_exact_is_instance : forall e wc ignore parseF, wf_schema e ->
  forall fuel t data jd,
    is_record e t = true -> top_ok data jd -> well_shaped e parseF fuel t jd ->
    decode_json e wc ps_empty ignore parseF fuel t data =
    match missing_spec e fuel t jd [] with
    | [] => DOk (decode_spec e wc ignore parseF fuel false t jd)
    | ms => DMissing (sort_bytes ms) (decode_spec e wc ignore parseF fuel true t jd)
    end.
Proof. exact DecodeExclProofs.missing_exact_is_instance. Qed.

(* ---- monotonicity: a (semantically) larger spec rejects more and, when it accepts, reports a subset ---- *)
Theorem c07d_larger_spec_rejects_more : forall e wc x1 x2 ignore,
  (forall path, ps_matches wc x1 path = true -> ps_matches wc x2 path = true) ->
  forall t d sc p, carries e (excluded_at wc x1 ignore) t d sc p -> carries e (excluded_at wc x2 ignore) t d sc p.
Proof. exact DecodeExclProofs.larger_spec_rejects_more. Qed.

Theorem c07d_larger_spec_accepts_less : forall e wc x1 x2 ignore parseF,
  (forall path, ps_matches wc x1 path = true -> ps_matches wc x2 path = true) ->
  forall fuel t d sc, well_shaped e parseF fuel t d ->
    first_excluded e (excluded_at wc x2 ignore) fuel t d sc = None -> first_excluded e (excluded_at wc x1 ignore) fuel t d sc = None.
Proof. exact DecodeExclProofs.larger_spec_accepts_less. Qed.

Theorem c07d_larger_spec_reports_less : forall e wc x1 x2 ignore,
  (forall path, ps_matches wc x1 path = true -> ps_matches wc x2 path = true) ->
  forall fuel t d sc, incl (reported e wc x2 ignore fuel t d sc) (reported e wc x1 ignore fuel t d sc).
Proof. exact DecodeExclProofs.larger_spec_reports_less. Qed.

Theorem c07d_larger_spec_reports_sublist : forall e wc x1 x2 ignore,
  (forall path, ps_matches wc x1 path = true -> ps_matches wc x2 path = true) ->
  forall fuel t d sc,
    filter (fun p => negb (excluded_at wc x2 ignore p)) (filter (fun p => negb (excluded_at wc x1 ignore p)) (missing_paths e fuel t d sc))
    = filter (fun p => negb (excluded_at wc x2 ignore p)) (missing_paths e fuel t d sc).
Proof. exact DecodeExclProofs.larger_spec_reports_sublist. Qed.

Theorem c07d_directive_subset_monotone : forall wc ds1 ds2, incl ds1 ds2 -> well_formed wc ds2 ->
  forall path, ps_matches wc (new_pathspec' ds1) path = true -> ps_matches wc (new_pathspec' ds2) path = true.
Proof. exact DecodeExclProofs.directive_subset_monotone. Qed.

(* a longer directive list is NOT a larger spec without well-formedness: adding a/b to a un-excludes a *)
Definition c07d_directive_monotone_full : Prop := DecodeExclProofs.directive_monotone_full.
Theorem c07d_directive_monotone_full_refuted : ~ c07d_directive_monotone_full.
Proof. exact DecodeExclProofs.directive_monotone_full_refuted. Qed.

(* ---- the result is a function of the known content, under any spec ---- *)
Theorem c07d_same_content_same_result : forall e wc excl ignore parseF, wf_schema e ->
  forall fuel top t d1 d2 tr,
    well_shaped e parseF fuel t d1 -> sim e fuel t d1 d2 ->
    t_scope tr <> [SKey []] ->
    (t_scope tr = [] -> keys_nonempty (entries_of d1)) -> (t_scope tr = [] -> keys_nonempty (entries_of d2)) ->
    first_excluded e (excluded_at wc excl ignore) fuel t d1 (t_scope tr) = None ->
    first_excluded e (excluded_at wc excl ignore) fuel t d2 (t_scope tr) = None ->
    exists v tr1 tr2,
      decJ e wc excl ignore parseF fuel top t d1 tr = Ok (v, tr1) /\ decJ e wc excl ignore parseF fuel top t d2 tr = Ok (v, tr2) /\
      t_scope tr1 = t_scope tr2 /\ Permutation (t_missing tr1) (t_missing tr2) /\
      sort_bytes (t_missing tr1) = sort_bytes (t_missing tr2).
Proof. exact DecodeExclProofs.same_content_same_resultX. Qed.

Theorem c07d_carries_order_independent : forall e exb t d1 d2 sc p, jperm d1 d2 ->
  (carries e exb t d1 sc p <-> carries e exb t d2 sc p).
Proof. exact DecodeExclProofs.carries_order_independent. Qed.

(* order independence: permuting members at any depth never changes WHETHER the document is rejected; accepted: same value, same
   report; rejected: each order names its own first offender, and both documents carry both *)
Theorem c07d_order_independent : forall e wc excl ignore parseF, wf_schema e ->
  forall fuel top t d1 d2 tr,
    well_shaped e parseF fuel t d1 -> jperm d1 d2 ->
    t_scope tr <> [SKey []] -> (t_scope tr = [] -> keys_nonempty (entries_of d1)) ->
    (exists p1 p2,
       decJ e wc excl ignore parseF fuel top t d1 tr = Err (EExcluded (scope_string p1)) /\
       decJ e wc excl ignore parseF fuel top t d2 tr = Err (EExcluded (scope_string p2)) /\
       carries e (excluded_at wc excl ignore) t d1 (t_scope tr) p1 /\ carries e (excluded_at wc excl ignore) t d1 (t_scope tr) p2 /\
       carries e (excluded_at wc excl ignore) t d2 (t_scope tr) p1 /\ carries e (excluded_at wc excl ignore) t d2 (t_scope tr) p2)
    \/
    (exists v tr1 tr2,
       decJ e wc excl ignore parseF fuel top t d1 tr = Ok (v, tr1) /\ decJ e wc excl ignore parseF fuel top t d2 tr = Ok (v, tr2) /\
       t_scope tr1 = t_scope tr2 /\ Permutation (t_missing tr1) (t_missing tr2) /\
       sort_bytes (t_missing tr1) = sort_bytes (t_missing tr2)).
Proof. exact DecodeExclProofs.order_independentX. Qed.

(* "the same outcome" is false for the error: which member is named depends on the order *)
Definition c07d_order_independent_error_full : Prop := DecodeExclProofs.order_independent_error_full.
Theorem c07d_order_independent_error_full_refuted : ~ c07d_order_independent_error_full.
Proof. exact DecodeExclProofs.order_independent_error_full_refuted. Qed.

(* unknown-field tolerance: an extra member of ANY shape under a key that is no field and whose path is not excluded changes nothing -
   neither the rejection (same first offender) nor the value nor the report *)
Theorem c07d_unknown_fields_skipped : forall e wc excl ignore parseF, wf_schema e ->
  forall n incs fs f top l1 l2 k x tr,
    lookup e n = Some (DRecord incs fs) -> field_of e n k = None -> ~ In k (map fst (l1 ++ l2)) ->
    well_shaped e parseF (S f) (TRef n) (JObj (l1 ++ l2)) ->
    t_scope tr <> [SKey []] -> (t_scope tr = [] -> keys_nonempty (l1 ++ l2) /\ k <> []) ->
    excluded_at wc excl ignore (t_scope tr ++ [SKey k]) = false ->
    match first_excluded e (excluded_at wc excl ignore) (S f) (TRef n) (JObj (l1 ++ l2)) (t_scope tr) with
    | Some p =>
        decJ e wc excl ignore parseF (S f) top (TRef n) (JObj (l1 ++ l2)) tr = Err (EExcluded (scope_string p)) /\
        decJ e wc excl ignore parseF (S f) top (TRef n) (JObj (l1 ++ (k, x) :: l2)) tr = Err (EExcluded (scope_string p))
    | None =>
        exists v tr1 tr2,
          decJ e wc excl ignore parseF (S f) top (TRef n) (JObj (l1 ++ l2)) tr = Ok (v, tr1) /\
          decJ e wc excl ignore parseF (S f) top (TRef n) (JObj (l1 ++ (k, x) :: l2)) tr = Ok (v, tr2) /\
          t_scope tr1 = t_scope tr2 /\ Permutation (t_missing tr1) (t_missing tr2) /\
          sort_bytes (t_missing tr1) = sort_bytes (t_missing tr2)
    end.
Proof. exact DecodeExclProofs.unknown_fields_skippedX. Qed.

(* without the side condition it is false: an unknown member whose path is excluded IS rejected (genuine behaviour) *)
Definition c07d_unknown_fields_skipped_full : Prop := DecodeExclProofs.unknown_fields_skippedX_full.
Theorem c07d_unknown_fields_skipped_full_refuted : ~ c07d_unknown_fields_skipped_full.
Proof. exact DecodeExclProofs.unknown_fields_skippedX_full_refuted. Qed.

(* ---- a directive that ends AT an array item ("a/*"): the item itself is never checked, only the object members below it ---- *)
Definition c07d_array_item_rejected_full : Prop := DecodeExclProofs.array_item_rejected_full.
Theorem c07d_array_item_rejected_full_refuted : ~ c07d_array_item_rejected_full.
Proof. exact DecodeExclProofs.array_item_rejected_full_refuted. Qed.

Theorem c07d_array_item_rejected_partial : forall e wc excl ignore parseF, wf_schema e ->
  forall fuel top t' items tr i x,
    well_shaped e parseF fuel (TArray t') (JArr items) -> t_scope tr <> [SKey []] ->
    nth_error items i = Some x -> excluded_at wc excl ignore (t_scope tr ++ [SIdx i]) = true ->
    has_member e t' x ->
    exists s, decJ e wc excl ignore parseF fuel top (TArray t') (JArr items) tr = Err (EExcluded s).
Proof. exact DecodeExclProofs.array_item_rejected_partial. Qed.

(* ================================================================================================================================
   D4: the cursor-level ROR2 reader and the untyped reader
   ================================================================================================================================ *)
(* the tree-level ROR2 decoder (Ror2Refines.decTj): SAME first_excluded, SAME reported as for JSON *)
Theorem c07d_ror2_tree_exact : forall e wc excl ignore parseF unesc empty_marker, wf_schema e ->
  forall fuel top t d tr,
    well_shaped_t e parseF unesc empty_marker fuel t d ->
    t_scope tr <> [SKey []] -> (t_scope tr = [] -> keys_nonempty (entries_of d)) ->
    match first_excluded e (excluded_at wc excl ignore) fuel t d (t_scope tr) with
    | Some p => decTj e wc excl ignore parseF unesc empty_marker fuel top t d tr = Err (EExcluded (scope_string p))
    | None =>
        exists tr',
          decTj e wc excl ignore parseF unesc empty_marker fuel top t d tr
          = Ok (decode_spec_t e wc ignore parseF unesc empty_marker fuel (raisesX e wc excl ignore fuel top t d tr) t d, tr') /\
          t_scope tr' = t_scope tr /\
          Permutation (t_missing tr') (t_missing tr ++ reported e wc excl ignore fuel t d (t_scope tr))
    end.
Proof. exact DecodeExclProofs.decTj_exactX. Qed.

(* the cursor-level reader at any position (c = "not at position 0", rest = what follows the rendering) *)
Theorem c07d_decR_exact : forall e wc excl ignore parseF fl, wf_schema e ->
  forall qr fuel t d c tr rest,
    toks_ok d -> tok_ctx c rest -> rsize d <= fuel -> ror2_well_shaped e parseF fl fuel t d ->
    t_scope tr <> [SKey []] -> (t_scope tr = [] -> keys_nonempty (entries_of (j_of_r d))) ->
    match first_excluded e (excluded_at wc excl ignore) fuel t (j_of_r d) (t_scope tr) with
    | Some p =>
        decR e wc excl ignore parseF (UN fl) EM LP qr fuel t (cur c (render_r fl d ++ rest) tr) = Err (EExcluded (scope_string p))
    | None =>
        exists tr',
          decR e wc excl ignore parseF (UN fl) EM LP qr fuel t (cur c (render_r fl d ++ rest) tr)
          = Ok (ror2_value e wc ignore parseF fl fuel (raisesX e wc excl ignore fuel (negb c && negb qr) t (j_of_r d) tr) t d,
                cur true rest tr') /\
          t_scope tr' = t_scope tr /\
          Permutation (t_missing tr') (t_missing tr ++ reported e wc excl ignore fuel t (j_of_r d) (t_scope tr))
    end.
Proof. exact DecodeExclProofs.decR_exactX. Qed.

Theorem c07d_decR_rejects_iff : forall e wc excl ignore parseF fl, wf_schema e ->
  forall qr fuel t d c tr rest,
    toks_ok d -> tok_ctx c rest -> rsize d <= fuel -> ror2_well_shaped e parseF fl fuel t d ->
    t_scope tr <> [SKey []] -> (t_scope tr = [] -> keys_nonempty (entries_of (j_of_r d))) ->
    ((exists s, decR e wc excl ignore parseF (UN fl) EM LP qr fuel t (cur c (render_r fl d ++ rest) tr) = Err (EExcluded s)) <->
     exists p, carries e (excluded_at wc excl ignore) t (j_of_r d) (t_scope tr) p).
Proof. exact DecodeExclProofs.decR_rejects_iff. Qed.

(* NewRor2Reader / a query parameter's reader + UnmarshalRestLi: any type, either reader *)
Theorem c07d_ror2_decode_exact : forall e wc excl ignore parseF fl, wf_schema e ->
  forall qr fuel qp t d,
    toks_ok d -> rsize d <= fuel -> ror2_well_shaped e parseF fl fuel t d -> scope_ok qp d ->
    decode_ror2 e wc excl ignore parseF (UN fl) EM LP qr fuel qp t (render_r fl d) =
    match first_excluded e (excluded_at wc excl ignore) fuel t (j_of_r d) (sc_of qp) with
    | Some p => DErr (EExcluded (scope_string p))
    | None =>
        let ms := reported e wc excl ignore fuel t (j_of_r d) (sc_of qp) in
        let v := ror2_value e wc ignore parseF fl fuel (negb qr && negb (is_nilb ms)) t d in
        match ms with
        | [] => DOk v
        | _ => if top_raises e qp t then DMissing (sort_bytes ms) v else DOk v
        end
    end.
Proof. exact DecodeExclProofs.ror2_decode_exactX. Qed.

Theorem c07d_ror2_missing_exact : forall e wc excl ignore parseF fl, wf_schema e ->
  forall fuel t d,
    is_record e t = true -> toks_ok d -> rsize d <= fuel -> ror2_well_shaped e parseF fl fuel t d -> scope_ok None d ->
    decode_ror2 e wc excl ignore parseF (UN fl) EM LP false fuel None t (render_r fl d) =
    match first_excluded e (excluded_at wc excl ignore) fuel t (j_of_r d) [] with
    | Some p => DErr (EExcluded (scope_string p))
    | None =>
        match reported e wc excl ignore fuel t (j_of_r d) [] with
        | [] => DOk (ror2_value e wc ignore parseF fl fuel false t d)
        | ms => DMissing (sort_bytes ms) (ror2_value e wc ignore parseF fl fuel true t d)
        end
    end.
Proof. exact DecodeExclProofs.ror2_missing_exactX. Qed.

Theorem c07d_ror2_rejects_iff : forall e wc excl ignore parseF fl, wf_schema e ->
  forall qr fuel qp t d,
    toks_ok d -> rsize d <= fuel -> ror2_well_shaped e parseF fl fuel t d -> scope_ok qp d ->
    ((exists s, decode_ror2 e wc excl ignore parseF (UN fl) EM LP qr fuel qp t (render_r fl d) = DErr (EExcluded s)) <->
     exists p, carries e (excluded_at wc excl ignore) t (j_of_r d) (sc_of qp) p).
Proof. exact DecodeExclProofs.ror2_rejects_iff. Qed.

(* the untyped reader *)
Theorem c07d_any_exact : forall e wc excl ignore parseF unspec, wf_schema e -> parseF_int_exact parseF -> parseF_f32_via_f64 parseF ->
  forall fuel top t d tr,
    well_shaped e parseF fuel t d -> untyped_exact e fuel t d ->
    t_scope tr <> [SKey []] -> (t_scope tr = [] -> keys_nonempty (entries_of d)) ->
    match first_excluded e (excluded_at wc excl ignore) fuel t d (t_scope tr) with
    | Some p => decA e wc excl ignore parseF unspec fuel top t (of_jdoc parseF d) tr = Err (EExcluded (scope_string p))
    | None =>
        exists tr',
          decA e wc excl ignore parseF unspec fuel top t (of_jdoc parseF d) tr
          = Ok (decode_spec e wc ignore parseF fuel (raisesX e wc excl ignore fuel top t d tr) t d, tr') /\
          t_scope tr' = t_scope tr /\
          Permutation (t_missing tr') (t_missing tr ++ reported e wc excl ignore fuel t d (t_scope tr))
    end.
Proof. exact DecodeExclProofs.any_decA_exactX. Qed.

Theorem c07d_any_missing_exact : forall e wc excl ignore parseF unspec, wf_schema e -> parseF_int_exact parseF -> parseF_f32_via_f64 parseF ->
  forall fuel t jd,
    is_record e t = true -> keys_nonempty (entries_of jd) -> well_shaped e parseF fuel t jd -> untyped_exact e fuel t jd ->
    decode_any e wc excl ignore parseF unspec fuel t (of_jdoc parseF jd) =
    match first_excluded e (excluded_at wc excl ignore) fuel t jd [] with
    | Some p => DErr (EExcluded (scope_string p))
    | None =>
        match reported e wc excl ignore fuel t jd [] with
        | [] => DOk (decode_spec e wc ignore parseF fuel false t jd)
        | ms => DMissing (sort_bytes ms) (decode_spec e wc ignore parseF fuel true t jd)
        end
    end.
Proof. exact DecodeExclProofs.any_missing_exactX. Qed.

Theorem c07d_any_rejects_iff : forall e wc excl ignore parseF unspec, wf_schema e -> parseF_int_exact parseF -> parseF_f32_via_f64 parseF ->
  forall fuel top t d tr,
    well_shaped e parseF fuel t d -> untyped_exact e fuel t d ->
    t_scope tr <> [SKey []] -> (t_scope tr = [] -> keys_nonempty (entries_of d)) ->
    ((exists s, decA e wc excl ignore parseF unspec fuel top t (of_jdoc parseF d) tr = Err (EExcluded s)) <->
     exists p, carries e (excluded_at wc excl ignore) t d (t_scope tr) p).
Proof. exact DecodeExclProofs.any_rejects_iff. Qed.

(* ================================================================================================================================
   witnesses (vm_compute; replayed on the implementation) and non-vacuity
   ================================================================================================================================ *)
From Coq.Strings Require Import String.
Local Open Scope string_scope.

(* directive a/* over array[int]: position a[0] is excluded, the document is accepted *)
Theorem c07d_array_item_witness :
  excluded_at c06_star (dx_ps ["a/*"]) 0 [SKey (c06_b "a"); SIdx 0] = true /\
  decode_json dx_env_arr c06_star (dx_ps ["a/*"]) 0 c06_pf 8 (TRef 0) (c06_b "{""a"":[1,2]}") = DOk (VRec [] [Some (VArr [VInt 1; VInt 2])]) /\
  decJ dx_env_arr c06_star (dx_ps ["a/*"]) 0 c06_pf 8 false (TArray (TPrim PInt)) (JArr [JNum (c06_b "1")])
       {| t_scope := [SKey (c06_b "a")]; t_missing := [] |}
  = Ok (VArr [VInt 1], {| t_scope := [SKey (c06_b "a")]; t_missing := [] |}).
Proof. exact DecodeExclProofs.array_item_witness. Qed.

(* Inner { a : int; b : string?; c : int = 7 }, spec {a}, document {}: accepted WITH the default; without the spec: error, no default *)
Theorem c07d_raising_flag_witness :
  decode_json c06_env c06_star (dx_ps ["a"]) 0 c06_pf 8 (TRef 0) (c06_b "{}") = DOk (VRec [] [Some (VInt 0); None; Some (VInt 7)]) /\
  decode_json c06_env c06_star ps_empty 0 c06_pf 8 (TRef 0) (c06_b "{}") = DMissing [c06_b "a"] (VRec [] [Some (VInt 0); None; None]).
Proof. exact DecodeExclProofs.raising_flag_witness. Qed.

(* T { r : R = {"x":1} }, R { x : int? }: the spec never reaches a default literal (it is read with NewJsonReader); it does reach the
   same member when the document carries it *)
Theorem c07d_default_literal_unaffected :
  decode_json dx_env_lit c06_star (dx_ps ["x"]) 0 c06_pf 8 (TRef 1) (c06_b "{}") = DOk (VRec [] [Some (VRec [] [Some (VInt 1)])]) /\
  decode_json dx_env_lit c06_star ps_empty 0 c06_pf 8 (TRef 1) (c06_b "{}") = DOk (VRec [] [Some (VRec [] [Some (VInt 1)])]) /\
  decode_json dx_env_lit c06_star (dx_ps ["r/x"]) 0 c06_pf 8 (TRef 1) (c06_b "{}") = DOk (VRec [] [Some (VRec [] [Some (VInt 1)])]) /\
  decode_json dx_env_lit c06_star (dx_ps ["r/x"]) 0 c06_pf 8 (TRef 1) (c06_b "{""r"":{""x"":2}}") = DErr (EExcluded (c06_b "r.x")).
Proof. exact DecodeExclProofs.default_literal_unaffected_witness. Qed.

Theorem c07d_order_error_witness :
  decJ c06_env c06_star (dx_ps ["b"; "zz"]) 0 c06_pf 8 true (TRef 0) dx_d1 tracker0 = Err (EExcluded (c06_b "b")) /\
  decJ c06_env c06_star (dx_ps ["b"; "zz"]) 0 c06_pf 8 true (TRef 0) dx_d2 tracker0 = Err (EExcluded (c06_b "zz")).
Proof. exact DecodeExclProofs.order_error_witness. Qed.

Theorem c07d_unknown_excluded_witness :
  decode_json c06_env c06_star (dx_ps ["zz"]) 0 c06_pf 8 (TRef 0) (c06_b "{""a"":1}") = DOk (VRec [] [Some (VInt 1); None; Some (VInt 7)]) /\
  decode_json c06_env c06_star (dx_ps ["zz"]) 0 c06_pf 8 (TRef 0) (c06_b "{""a"":1,""zz"":[1]}") = DErr (EExcluded (c06_b "zz")).
Proof. exact DecodeExclProofs.unknown_excluded_witness. Qed.

Theorem c07d_directive_extension_witness :
  decode_json c06_env c06_star (dx_ps ["a"]) 0 c06_pf 8 (TRef 0) (c06_b "{""a"":1}") = DErr (EExcluded (c06_b "a")) /\
  decode_json c06_env c06_star (dx_ps ["a"; "a/b"]) 0 c06_pf 8 (TRef 0) (c06_b "{""a"":1}") = DOk (VRec [] [Some (VInt 1); None; Some (VInt 7)]).
Proof. exact DecodeExclProofs.directive_extension_witness. Qed.

(* "$set" as an ordinary map key is transparent to the matcher: m.$set.a is rejected by the directive m/a, m.q.a is not *)
Theorem c07d_patch_op_key_witness :
  decode_json c06_env c06_star (dx_ps ["m/a"]) 0 c06_pf 8 (TRef 1)
    (c06_b "{""m"":{""$set"":{""a"":2}},""l"":[],""x"":{""a"":1},""a"":1}") = DErr (EExcluded (c06_b "m.$set.a")) /\
  (exists v, decode_json c06_env c06_star (dx_ps ["m/a"]) 0 c06_pf 8 (TRef 1)
               (c06_b "{""m"":{""q"":{""a"":2}},""l"":[],""x"":{""a"":1},""a"":1}") = DOk v) /\
  ~ covers c06_star [c06_b "m"; c06_b "a"] [c06_b "m"; c06_b "$set"; c06_b "a"].
Proof. exact DecodeExclProofs.patch_op_key_witness. Qed.

(* leadingScopeToIgnore = 1: directive x no longer excludes the top-level x; directive a excludes x.a *)
Theorem c07d_ignore_prefix_witness :
  let doc := c06_b "{""x"":{""a"":1},""l"":[],""a"":1}" in
  decode_json c06_env c06_star (dx_ps ["x"]) 0 c06_pf 8 (TRef 1) doc = DErr (EExcluded (c06_b "x")) /\
  (exists v, decode_json c06_env c06_star (dx_ps ["x"]) 1 c06_pf 8 (TRef 1) doc = DOk v) /\
  decode_json c06_env c06_star (dx_ps ["a"]) 1 c06_pf 8 (TRef 1) doc = DErr (EExcluded (c06_b "x.a")).
Proof. exact DecodeExclProofs.ignore_prefix_witness. Qed.

(* ---- non-vacuity.  Outer (includes Inner) { x : Inner; l : array[Inner]; m : map[Inner]?; u : U? }, spec { l/*/a, x } (wildcard =
   any array item), document {"l":[{"c":3},{}],"b":"s","m":{"k":{}}}: x is required, absent, excluded; l[0].a and l[1].a are
   required, absent, excluded through the wildcard; a (inherited) and m.k.a - LATER in the document than l - are required, absent
   and not excluded: exactly those two are reported (five without the spec), with the same partial value.  With "a" present in
   l[1] the document is rejected there. ---- *)
Example c07d_nonvacuous :
  wf_schema c06_env /\ is_record c06_env (TRef 1) = true /\ top_ok (c06_b dx_text) dx_doc /\
  well_shaped c06_env c06_pf 8 (TRef 1) dx_doc /\
  (forall p, ~ carries c06_env (excluded_at c06_star dx_spec 0) (TRef 1) dx_doc [] p) /\
  missing_paths c06_env 8 (TRef 1) dx_doc []
  = [ [SKey (c06_b "a")]; [SKey (c06_b "x")]; [SKey (c06_b "l"); SIdx 0; SKey (c06_b "a")];
      [SKey (c06_b "l"); SIdx 1; SKey (c06_b "a")]; [SKey (c06_b "m"); SKey (c06_b "k"); SKey (c06_b "a")] ]%list /\
  List.map (excluded_at c06_star dx_spec 0) (missing_paths c06_env 8 (TRef 1) dx_doc []) = [false; true; true; true; false]%list /\
  (exists v, decode_json c06_env c06_star dx_spec 0 c06_pf 8 (TRef 1) (c06_b dx_text) = DMissing (List.map c06_b ["a"; "m.k.a"]%list) v /\
             decode_json c06_env c06_star ps_empty 0 c06_pf 8 (TRef 1) (c06_b dx_text)
             = DMissing (List.map c06_b ["a"; "l[0].a"; "l[1].a"; "m.k.a"; "x"]%list) v) /\
  decode_json c06_env c06_star dx_spec 0 c06_pf 8 (TRef 1) (c06_b dx_text_bad) = DErr (EExcluded (c06_b "l[1].a")).
Proof. exact DecodeExclProofs.dx_nonvacuous. Qed.

(* the same content as ROR2 text (l:List((c:3),()),b:s,m:(k:())): NewRor2Reader, and the reader of query parameter p (scope [p],
   one leading segment ignored) *)
Example c07d_ror2_nonvacuous : forall fl,
  toks_ok dx_rdoc /\ rsize dx_rdoc <= 20 /\ ror2_well_shaped c06_env c06_pf fl 20 (TRef 1) dx_rdoc /\ scope_ok None dx_rdoc /\
  render_r fl dx_rdoc = c06_b dx_rtext /\
  first_excluded c06_env (excluded_at c06_star dx_spec 0) 20 (TRef 1) (j_of_r dx_rdoc) [] = None /\
  (exists v, decode_ror2 c06_env c06_star dx_spec 0 c06_pf (UN fl) EM LP false 20 None (TRef 1) (render_r fl dx_rdoc)
             = DMissing (List.map c06_b ["a"; "m.k.a"]%list) v) /\
  (exists v, decode_ror2 c06_env c06_star ps_empty 0 c06_pf (UN fl) EM LP false 20 None (TRef 1) (render_r fl dx_rdoc)
             = DMissing (List.map c06_b ["a"; "l[0].a"; "l[1].a"; "m.k.a"; "x"]%list) v) /\
  decode_ror2 c06_env c06_star dx_spec 0 c06_pf (UN fl) EM LP false 20 None (TRef 1) (render_r fl dx_rdoc_bad)
  = DErr (EExcluded (c06_b "l[1].a")) /\
  (exists v, decode_ror2 c06_env c06_star dx_spec 1 c06_pf (UN fl) EM LP true 20 (Some (c06_b "p")) (TRef 1) (render_r fl dx_rdoc)
             = DMissing (List.map c06_b ["p.a"; "p.m.k.a"]%list) v) /\
  decode_ror2 c06_env c06_star dx_spec 1 c06_pf (UN fl) EM LP true 20 (Some (c06_b "p")) (TRef 1) (render_r fl dx_rdoc_bad)
  = DErr (EExcluded (c06_b "p.l[1].a")).
Proof. exact DecodeExclProofs.dx_ror2_nonvacuous. Qed.

Print Assumptions c07d_enter_map.
Print Assumptions c07d_is_key_excluded.
Print Assumptions c07d_excluded_at_iff_spec.
Print Assumptions c07d_excluded_subtree.
Print Assumptions c07d_excluded_at_empty.
Print Assumptions c07d_missing_spec_paths.
Print Assumptions c07d_reported_eq.
Print Assumptions c07d_decJ_exact.
Print Assumptions c07d_decJ_rejects_iff.
Print Assumptions c07d_decJ_accepts_iff.
Print Assumptions c07d_decJ_error_is_first.
Print Assumptions c07d_first_excluded_sound.
Print Assumptions c07d_carries_iff_first.
Print Assumptions c07d_carries_excluded.
Print Assumptions c07d_decode_rejects_iff.
Print Assumptions c07d_missing_exact.
Print Assumptions c07d_top_non_record.
Print Assumptions c07d_missing_exact_spec.
Print Assumptions c07d_value_independent_partial.
Print Assumptions c07d_nested_value_independent.
Print Assumptions c07d_value_independent_full_refuted.
Print Assumptions c07d_reported_iff.
Print Assumptions c07d_excluded_required_absent_not_reported.
Print Assumptions c07d_excluded_string_not_reported.
Print Assumptions c07d_reported_incl_missing_spec.
Print Assumptions c07d_only_excluded_missing_decodes.
Print Assumptions c07d_decJ_exact_is_instance.
Print Assumptions c07d_missing_exact_is_instance.
Print Assumptions c07d_larger_spec_rejects_more.
Print Assumptions c07d_larger_spec_accepts_less.
Print Assumptions c07d_larger_spec_reports_less.
Print Assumptions c07d_larger_spec_reports_sublist.
Print Assumptions c07d_directive_subset_monotone.
Print Assumptions c07d_directive_monotone_full_refuted.
Print Assumptions c07d_same_content_same_result.
Print Assumptions c07d_carries_order_independent.
Print Assumptions c07d_order_independent.
Print Assumptions c07d_order_independent_error_full_refuted.
Print Assumptions c07d_unknown_fields_skipped.
Print Assumptions c07d_unknown_fields_skipped_full_refuted.
Print Assumptions c07d_array_item_rejected_full_refuted.
Print Assumptions c07d_array_item_rejected_partial.
Print Assumptions c07d_ror2_tree_exact.
Print Assumptions c07d_decR_exact.
Print Assumptions c07d_decR_rejects_iff.
Print Assumptions c07d_ror2_decode_exact.
Print Assumptions c07d_ror2_missing_exact.
Print Assumptions c07d_ror2_rejects_iff.
Print Assumptions c07d_any_exact.
Print Assumptions c07d_any_missing_exact.
Print Assumptions c07d_any_rejects_iff.
Print Assumptions c07d_array_item_witness.
Print Assumptions c07d_raising_flag_witness.
Print Assumptions c07d_default_literal_unaffected.
Print Assumptions c07d_order_error_witness.
Print Assumptions c07d_unknown_excluded_witness.
Print Assumptions c07d_directive_extension_witness.
Print Assumptions c07d_patch_op_key_witness.
Print Assumptions c07d_ignore_prefix_witness.
Print Assumptions c07d_nonvacuous.
Print Assumptions c07d_ror2_nonvacuous.
