(* C20, histories — any number of generator runs on one output directory (Gen2/CleanHistory.v: each run = the modelled
   CleanTargetDir, then a list of writes of generator-owned names, aborted at the first failing write).
   Only statements here; proofs are in Proofs/CleanHistoryProofs.v.
   Scope: this is the FILE-SYSTEM EFFECT of cmd.GenerateCode under the assumption that it does nothing but call
   CleanTargetDir and write generator-owned names.  That assumption about the real GenerateCode (no other removal, no
   write outside owned names) is NOT proved: it is what the generator-level histories of the C20 driver test. *)
From Coq Require Import List Bool.
From Coq.Strings Require Import Byte.
From GR Require Import Base.Bytes Gen.TablesClean Gen2.Clean Gen2.CleanHistory Proofs.CleanProofs Proofs.CleanHistoryProofs.
Import ListNotations.

(* One write: nothing but the written path changes, whether or not the write succeeds. *)
Theorem write_touches_only_its_path : forall q c' cs p c,
  p <> q ->
  (file_in cs p c -> file_in (fst (write_file q c' cs)) p c) /\
  (file_in (fst (write_file q c' cs)) p c -> file_in cs p c).
Proof. exact CleanHistoryProofs.write_touches_only_its_path. Qed.

(* After ANY history of runs - each with its own write list, successful or failed at any point - every file the
   generator does not own is still there, at the same path with the same content. *)
Theorem history_keeps_foreign_files : forall suffix manifest h cs p c,
  Forall (fun r => owned_writes suffix manifest (snd r) = true) h ->
  file_in cs p c -> owned suffix manifest (basename p) = false ->
  file_in (run_history suffix manifest h cs) p c.
Proof. exact CleanHistoryProofs.history_keeps_foreign_files. Qed.

(* A run that succeeds leaves exactly the files it wrote as owned files - whatever was in the directory before. *)
Theorem round_owned_files_are_the_written_ones : forall suffix manifest dot ws cs,
  owned_writes suffix manifest ws = true -> NoDup (map fst ws) ->
  snd (gen_round suffix manifest dot ws cs) = true ->
  forall p c, owned suffix manifest (basename p) = true ->
    (file_in (fst (gen_round suffix manifest dot ws cs)) p c <-> In (p, c) ws).
Proof. exact CleanHistoryProofs.round_owned_files_are_the_written_ones. Qed.

(* Regeneration: after any history (any number of earlier runs, successful or not, of any schema sets), a successful run
   that writes ws leaves (1) every foreign file of the ORIGINAL tree in place and (2) exactly ws as owned files - so two
   successful runs of the same generation reproduce the same generated files, whatever happened in between. *)
Theorem regeneration_after_any_history : forall suffix manifest h dot ws cs,
  Forall (fun r => owned_writes suffix manifest (snd r) = true) h ->
  owned_writes suffix manifest ws = true -> NoDup (map fst ws) ->
  let st := run_history suffix manifest h cs in
  snd (gen_round suffix manifest dot ws st) = true ->
  (forall p c, file_in cs p c -> owned suffix manifest (basename p) = false ->
               file_in (fst (gen_round suffix manifest dot ws st)) p c) /\
  (forall p c, owned suffix manifest (basename p) = true ->
               (file_in (fst (gen_round suffix manifest dot ws st)) p c <-> In (p, c) ws)).
Proof. exact CleanHistoryProofs.regeneration_after_any_history. Qed.

Theorem regeneration_reproduces : forall suffix manifest h1 h2 dot1 dot2 ws cs1 cs2,
  Forall (fun r => owned_writes suffix manifest (snd r) = true) h1 ->
  Forall (fun r => owned_writes suffix manifest (snd r) = true) h2 ->
  owned_writes suffix manifest ws = true -> NoDup (map fst ws) ->
  snd (gen_round suffix manifest dot1 ws (run_history suffix manifest h1 cs1)) = true ->
  snd (gen_round suffix manifest dot2 ws (run_history suffix manifest h2 cs2)) = true ->
  forall p c, owned suffix manifest (basename p) = true ->
    (file_in (fst (gen_round suffix manifest dot1 ws (run_history suffix manifest h1 cs1))) p c <->
     file_in (fst (gen_round suffix manifest dot2 ws (run_history suffix manifest h2 cs2))) p c).
Proof. exact CleanHistoryProofs.regeneration_reproduces. Qed.

(* Non-vacuity: generate; a failing run (a regular file `b` where the package directory b/ is needed); regenerate.
   The hand-written files survive all three runs, the third run reproduces the files of the first. *)
Example c20_history_nonvacuous :
  let man := v2_manifest_file in
  let gen := [x54;x2e;x67;x72;x2e;x67;x6f] in                 (* T.gr.go *)
  let a := [x61] in let b := [x62] in
  let usr := [x75;x2e;x67;x6f] in                             (* u.go *)
  let ws1 : writes := [([man], [x7b;x7d]); ([a; gen], [x31])] in
  let ws2 : writes := [([man], [x7b;x7d]); ([a; gen], [x31]); ([b; gen], [x32])] in
  let t0 := [Dir a [File usr [x01]]; File b [x02]] in
  let r1 := gen_round v2_generated_file_suffix man false ws1 t0 in
  let r2 := gen_round v2_generated_file_suffix man false ws2 (fst r1) in
  let r3 := gen_round v2_generated_file_suffix man false ws1 (fst r2) in
  snd r1 = true /\ snd r2 = false /\ snd r3 = true /\ fst r3 = fst r1 /\
  fst r1 = [Dir a [File gen [x31]; File usr [x01]]; File b [x02]; File man [x7b;x7d]].
Proof. vm_compute. repeat split. Qed.

Print Assumptions write_touches_only_its_path.
Print Assumptions history_keeps_foreign_files.
Print Assumptions round_owned_files_are_the_written_ones.
Print Assumptions regeneration_after_any_history.
Print Assumptions regeneration_reproduces.
