(* C13 - schema defaults in the JSON tree decoder (statements only; proofs in Proofs/DefaultsProofs.v, built on the exact
   characterisation of Proofs/MissingProofs.v).

     lit_value e w ig pF f t lit      the decoding of the literal: parse_json lit, then decJ e w ps_empty 0 pF f true t jd tracker0
                                      (NewJsonReader: no exclusions, scopeToIgnore 0 - DefaultsProofs.lit_value_unfold)
     own_slot_spec ... f filled es fd what the slot of OWN field fd holds after decoding the object with entries es:
                                        present (non-null) in the document -> the decoded document value (the document wins)
                                        absent, Required                   -> the Go zero value (and the field is reported)
                                        absent, Optional                   -> nil
                                        absent, Default lit                -> lit_value ... lit if filled, nil otherwise
   excl = ps_empty throughout.  The decoder fills the defaults (filled = true) unless the record is the one that raises the
   missing-required-fields error at the start of the input (candidate D35); defaults declared in an INCLUDED record are never
   filled by the including record (finding D28). *)
From Coq.Strings Require Import Byte String.
From Coq Require Import List Bool Arith ZArith NArith Permutation.
From GR Require Import Base.Bytes Base.Res Codec.Schema Codec.Doc Codec.Json Codec.Tracker Codec.Decode
  Proofs.MissingProofs Proofs.DefaultsProofs.
Import ListNotations.

(* ---- decode_fills_own_defaults: every own slot, exactly ---- *)
Theorem decode_fills_own_defaults : forall e wildcard ignore parseF, wf_schema e ->
  forall n incs fs, lookup e n = Some (DRecord incs fs) ->
  forall f top d tr v tr',
    well_shaped e parseF (S f) (TRef n) d ->
    t_scope tr <> [SKey []] -> (t_scope tr = [] -> keys_nonempty (entries_of d)) ->
    decJ e wildcard ps_empty ignore parseF (S f) top (TRef n) d tr = Ok (v, tr') ->
    top = false \/ t_missing tr' = [] ->
    exists ivs fvs, v = VRec ivs fvs /\ length fvs = length fs /\
      forall j fd, nth_error fs j = Some fd ->
        nth_error fvs j = Some (own_slot_spec e wildcard ignore parseF f true (entries_of d) fd).
Proof. exact DefaultsProofs.decode_fills_own_defaults. Qed.

(* the value in the slot of a present field IS what the decoder returns on that sub-document *)
Theorem present_value_is_decoded : forall e wildcard ignore parseF, wf_schema e ->
  forall f t x trx,
    well_shaped e parseF f t x -> t_scope trx <> [] -> t_scope trx <> [SKey []] ->
    exists trx', decJ e wildcard ps_empty ignore parseF f false t x trx
                 = Ok (decode_spec e wildcard ignore parseF f false t x, trx').
Proof. exact DefaultsProofs.present_value_is_decoded. Qed.

(* ---- defaults are never reported as missing (corollary of C06) ---- *)
Theorem defaults_not_missing : forall e wildcard ignore parseF, wf_schema e ->
  forall fuel top t d tr v tr',
    well_shaped e parseF fuel t d -> t_scope tr <> [SKey []] -> (t_scope tr = [] -> keys_nonempty (entries_of d)) ->
    decJ e wildcard ps_empty ignore parseF fuel top t d tr = Ok (v, tr') ->
    forall p, In p (t_missing tr') ->
      In p (t_missing tr) \/
      (missing_at e t d (t_scope tr) p /\
       exists rest n incs fs fd,
         lookup e n = Some (DRecord incs fs) /\ In fd (fields_of e n) /\ f_opt fd = Required /\
         p = scope_string ((t_scope tr ++ rest) ++ [SKey (f_name fd)])).
Proof. exact DefaultsProofs.defaults_not_missing. Qed.

(* ---- D28: inherited defaults ---- *)
Definition included_defaults_filled_full : Prop := DefaultsProofs.included_defaults_filled_full.

Theorem included_defaults_filled_partial :
  forall e wildcard ignore parseF, wf_schema e ->
  forall n incs fs f top d tr v tr' j fd lit,
    lookup e n = Some (DRecord incs fs) ->
    well_shaped e parseF (S f) (TRef n) d ->
    t_scope tr <> [SKey []] -> (t_scope tr = [] -> keys_nonempty (entries_of d)) ->
    decJ e wildcard ps_empty ignore parseF (S f) top (TRef n) d tr = Ok (v, tr') ->
    top = false \/ t_missing tr' = [] ->
    nth_error fs j = Some fd -> f_opt fd = Default lit -> present (entries_of d) (f_name fd) = None ->
    exists ivs fvs, v = VRec ivs fvs /\ nth_error fvs j = Some (lit_value e wildcard ignore parseF f (f_ty fd) lit).
Proof. exact DefaultsProofs.included_defaults_filled_partial. Qed.

Theorem included_defaults_not_filled_refuted : ~ included_defaults_filled_full.
Proof. exact DefaultsProofs.included_defaults_not_filled_refuted. Qed.

(* {"id":1} as Outer (includes Base {id; c = 7}, own {name?; k = 5}): k is filled, the inherited c is not; as Base it is *)
Theorem included_defaults_witness :
  decJ c13_env c13_star ps_empty 0 c13_pf 4 true (TRef 1) c13_doc tracker0
  = Ok (VRec [VRec [] [Some (VInt 1); None]] [None; Some (VInt 5)], tracker0)
  /\ decJ c13_env c13_star ps_empty 0 c13_pf 4 true (TRef 0) c13_doc tracker0
     = Ok (VRec [] [Some (VInt 1); Some (VInt 7)], tracker0).
Proof. exact DefaultsProofs.included_defaults_witness. Qed.

(* ---- D35: the record that raises at the start of the input keeps nil in its absent defaulted fields ---- *)
Theorem top_level_missing_skips_defaults : forall e wildcard ignore parseF, wf_schema e ->
  forall n incs fs, lookup e n = Some (DRecord incs fs) ->
  forall f d tr v tr',
    well_shaped e parseF (S f) (TRef n) d ->
    t_scope tr <> [SKey []] -> (t_scope tr = [] -> keys_nonempty (entries_of d)) ->
    decJ e wildcard ps_empty ignore parseF (S f) true (TRef n) d tr = Ok (v, tr') ->
    t_missing tr' <> [] ->
    exists ivs fvs, v = VRec ivs fvs /\ length fvs = length fs /\
      forall j fd, nth_error fs j = Some fd ->
        nth_error fvs j = Some (own_slot_spec e wildcard ignore parseF f false (entries_of d) fd).
Proof. exact DefaultsProofs.top_level_missing_skips_defaults. Qed.

Theorem top_level_missing_skips_defaults_witness :
  decode_json c13_env c13_star ps_empty 0 c13_pf 4 (TRef 0) (c13_b "{}"%string)
  = DMissing [c13_b "id"%string] (VRec [] [Some (VInt 0); None])
  /\ decode_json c13_env c13_star ps_empty 0 c13_pf 4 (TArray (TRef 0)) (c13_b "[{}]"%string)
     = DOk (VArr [VRec [] [Some (VInt 0); Some (VInt 7)]]).
Proof. exact DefaultsProofs.top_level_missing_skips_defaults_witness. Qed.

(* ---- non-vacuity: the hypotheses hold of a concrete schema and document, and the conclusion is the computed value ---- *)
Example c13_nonvacuous :
  wf_schema c13_env /\ well_shaped c13_env c13_pf 4 (TRef 1) c13_doc /\
  own_slot_spec c13_env c13_star 0 c13_pf 3 true (entries_of c13_doc) (c13_fld "k"%string (TPrim PInt) (Default (c13_b "5"%string)))
  = Some (VInt 5) /\
  own_slot_spec c13_env c13_star 0 c13_pf 3 true [(c13_b "k"%string, JNum (c13_b "9"%string))] (c13_fld "k"%string (TPrim PInt) (Default (c13_b "5"%string)))
  = Some (VInt 9).
Proof. exact DefaultsProofs.c13_nonvacuous. Qed.

Print Assumptions decode_fills_own_defaults.
Print Assumptions present_value_is_decoded.
Print Assumptions defaults_not_missing.
Print Assumptions included_defaults_filled_partial.
Print Assumptions included_defaults_not_filled_refuted.
Print Assumptions included_defaults_witness.
Print Assumptions top_level_missing_skips_defaults.
Print Assumptions top_level_missing_skips_defaults_witness.
Print Assumptions c13_nonvacuous.
