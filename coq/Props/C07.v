(* C07 - Read-only / create-only field exclusion is exact on both encode and decode.
   Only statements here; proofs are in Proofs/PathSpecProofs.v (PathSpec against its declarative specification, reader
   side) and Proofs/ExcludeProofs.v (writer side).  Vocabulary (definitions in PathSpecProofs.v):
     effective path         the path as the matcher sees it (one patch operator skipped wherever a segment is expected)
     covers wc d q          directive d, wildcard = any one segment, equals a prefix of q segment by segment
     dmatch wc d path       covers wc d (effective path)               (= the inductive dmatchI on the raw path)
     spec_excludes wc ds p  some directive of ds dmatch-es p
     shadowed ds d          d is a strict literal prefix of another directive of ds
     well_formed wc ds      every directive is covered by a non-empty non-shadowed directive of ds
     prune wc excl scope d  d without the object entries (whole subtrees) whose path matches excl *)
From Coq Require Import List Bool ZArith.
From Coq.Strings Require Import Byte.
From GR Require Import Base.Bytes Base.Res Codec.Schema Codec.Doc Codec.Tracker Codec.Encode
  Proofs.PathSpecProofs Proofs.ExcludeProofs.
Import ListNotations.

(* ---- PathSpec = specification ---- *)

(* exact and premise-free: the code excludes what the non-empty, non-shadowed directives exclude *)
Theorem matches_iff_maximal : forall wc ds path,
  ps_matches wc (new_pathspec' ds) path = true <->
  exists d, In d ds /\ d <> [] /\ ~ shadowed ds d /\ dmatch wc d path.
Proof. exact PathSpecProofs.matches_iff_maximal. Qed.

Theorem matches_iff_spec : forall wc ds path,
  well_formed wc ds -> (ps_matches wc (new_pathspec' ds) path = true <-> spec_excludes wc ds path).
Proof. exact PathSpecProofs.matches_iff_spec. Qed.

(* well_formed is the weakest premise *)
Theorem well_formed_weakest : forall wc ds,
  well_formed wc ds <-> (forall path, ps_matches wc (new_pathspec' ds) path = true <-> spec_excludes wc ds path).
Proof. exact PathSpecProofs.well_formed_weakest. Qed.

(* "no directive is a strict prefix of another, none is empty" suffices, and is necessary without wildcards *)
Theorem prefix_free_well_formed : forall wc ds, prefix_free ds -> no_empty ds -> well_formed wc ds.
Proof. exact PathSpecProofs.prefix_free_well_formed. Qed.
Theorem well_formed_no_wildcard : forall wc ds, no_wildcard wc ds -> well_formed wc ds -> prefix_free ds /\ no_empty ds.
Proof. exact PathSpecProofs.well_formed_no_wildcard. Qed.

(* NewPathSpec on the directive strings themselves *)
Theorem matches_iff_spec_strings : forall wc (ds : list bytes) path,
  prefix_free (map segments ds) ->
  (ps_matches wc (new_pathspec ds) path = true <-> spec_excludes wc (map segments ds) path).
Proof. exact PathSpecProofs.matches_iff_spec_strings. Qed.

(* the declarative relation, as an inductive definition on the raw path *)
Theorem dmatch_iff_inductive : forall wc d path, dmatch wc d path <-> dmatchI wc d path.
Proof. exact PathSpecProofs.dmatch_iff_inductive. Qed.

(* on paths without two patch operators in a row the matcher sees the path with all operators deleted *)
Theorem naive_reading_partial : forall wc ds path,
  no_double_op path = true -> (spec_excludes wc ds path <-> naive_excludes wc ds path).
Proof. exact PathSpecProofs.naive_reading_partial. Qed.

(* algebra *)
Theorem matches_empty : forall wc path, ps_matches wc ps_empty path = false.
Proof. exact PathSpecProofs.matches_empty. Qed.
Theorem matches_subtree : forall wc p path more,
  ps_matches wc p path = true -> ps_matches wc p (path ++ more) = true.
Proof. exact PathSpecProofs.matches_subtree. Qed.
Theorem matches_monotone : forall wc ds1 ds2 path,
  incl ds1 ds2 -> well_formed wc ds2 ->
  ps_matches wc (new_pathspec' ds1) path = true -> ps_matches wc (new_pathspec' ds2) path = true.
Proof. exact PathSpecProofs.matches_monotone. Qed.
Theorem matches_set_ext : forall wc ds1 ds2 path,
  (forall d, In d ds1 <-> In d ds2) ->
  ps_matches wc (new_pathspec' ds1) path = ps_matches wc (new_pathspec' ds2) path.
Proof. exact PathSpecProofs.matches_set_ext. Qed.

(* what the premises exclude (vm_compute witnesses, replayed on the implementation) *)
Theorem matches_iff_spec_refuted : ~ matches_iff_spec_full.
Proof. exact PathSpecProofs.matches_iff_spec_refuted. Qed.
Theorem extended_directive_refuted :
  let ds := [[seg_a]; [seg_a; seg_b]] in
  spec_excludes wc_star ds [seg_a] /\ ps_matches wc_star (new_pathspec' ds) [seg_a] = false /\
  spec_excludes wc_star ds [seg_a; seg_c] /\ ps_matches wc_star (new_pathspec' ds) [seg_a; seg_c] = false /\
  ps_matches wc_star (new_pathspec' ds) [seg_a; seg_b] = true /\
  ps_matches wc_star (new_pathspec' [[seg_a]]) [seg_a] = true.
Proof. exact PathSpecProofs.extended_directive_refuted. Qed.
Theorem empty_directive_refuted :
  spec_excludes wc_star [[]] [seg_a] /\ ps_matches wc_star (new_pathspec' [[]]) [seg_a] = false.
Proof. exact PathSpecProofs.empty_directive_refuted. Qed.
Theorem naive_reading_refuted :
  naive_excludes wc_star [[seg_a]] [op_set; op_set; seg_a] /\
  ps_matches wc_star (new_pathspec' [[seg_a]]) [op_set; op_set; seg_a] = false /\
  ps_matches wc_star (new_pathspec' [[seg_a; wc_star]]) [seg_a; op_set] = false.
Proof. exact PathSpecProofs.naive_reading_refuted. Qed.

(* ---- reader side ---- *)

Theorem enter_map_excluded_iff : forall wc excl ignore k t,
  (exists s, enter_map wc excl ignore k t = Err (EExcluded s)) <->
  ignore < length (t_scope t ++ [SKey k]) /\
  ps_matches wc excl (map (seg_name wc) (skipn ignore (t_scope t ++ [SKey k]))) = true.
Proof. exact PathSpecProofs.enter_map_excluded_iff. Qed.

Theorem enter_map_outcomes : forall wc excl ignore k t,
  (enter_map wc excl ignore k t = Ok (push (SKey k) t) /\ ~ reader_excluded wc excl ignore k t) \/
  (enter_map wc excl ignore k t = Err (EExcluded (scope_string (t_scope t ++ [SKey k]))) /\
   reader_excluded wc excl ignore k t).
Proof. exact PathSpecProofs.enter_map_outcomes. Qed.

Theorem is_key_excluded_agrees : forall wc excl ignore k t,
  is_key_excluded wc excl ignore k t = true <-> exists s, enter_map wc excl ignore k t = Err (EExcluded s).
Proof. exact PathSpecProofs.is_key_excluded_agrees. Qed.

Theorem reader_rejects_iff_spec : forall wc excl ignore ds k t,
  excl = new_pathspec' ds -> well_formed wc ds ->
  ((exists s, enter_map wc excl ignore k t = Err (EExcluded s)) <->
   ignore < length (t_scope t) + 1 /\ spec_excludes wc ds (reader_path wc ignore k t)).
Proof. exact PathSpecProofs.reader_rejects_iff_spec. Qed.

Theorem excluded_required_not_missing : forall wc excl ignore rem t f,
  is_key_excluded wc excl ignore f t = true ->
  ~ In (missing_prefix t ++ f) (newly_missing wc excl ignore rem t).
Proof. exact PathSpecProofs.excluded_required_not_missing. Qed.

Theorem record_missing_exact : forall wc excl ignore rem t x,
  In x (t_missing (record_missing wc excl ignore rem t)) <->
  In x (t_missing t) \/ exists f, x = missing_prefix t ++ f /\ In f rem /\ ~ reader_excluded wc excl ignore f t.
Proof. exact PathSpecProofs.record_missing_exact. Qed.

(* ---- writer side ---- *)

Theorem writer_omits_exactly : forall e wc excl fuel scope t v d0,
  enc e wc ps_empty fuel scope t v = Ok d0 ->
  enc e wc excl fuel scope t v = Ok (prune wc excl scope d0).
Proof. exact ExcludeProofs.writer_omits_exactly. Qed.

(* prune read on entry paths: an object entry at any depth survives iff its own path does not match *)
Theorem prune_entry_exact : forall wc excl scope d0 p,
  entry_at wc scope (prune wc excl scope d0) p <-> entry_at wc scope d0 p /\ ps_matches wc excl p = false.
Proof. exact ExcludeProofs.prune_entry_exact. Qed.

Theorem writer_object_entries_spec : forall e wc ds fuel scope t v ents0,
  well_formed wc ds ->
  enc e wc ps_empty fuel scope t v = Ok (DObj ents0) ->
  exists ents, enc e wc (new_pathspec' ds) fuel scope t v = Ok (DObj ents) /\
    forall k d, In (k, d) ents <->
      ~ spec_excludes wc ds (scope ++ [k]) /\
      exists d1, In (k, d1) ents0 /\ d = prune wc (new_pathspec' ds) (scope ++ [k]) d1.
Proof. exact ExcludeProofs.writer_object_entries_spec. Qed.

(* the two-directional form is false: an excluded subtree is not encoded at all, so a subtree that cannot be encoded
   (here: a union with two members set) is accepted when excluded; the exact side condition is that the unrestricted
   encoding succeeds *)
Theorem writer_omits_exactly_full_refuted : ~ writer_omits_exactly_full.
Proof. exact ExcludeProofs.writer_omits_exactly_full_refuted. Qed.
Theorem writer_omits_exactly_partial : forall e wc excl fuel scope t v d,
  enc e wc excl fuel scope t v = Ok d ->
  ((exists d0, enc e wc ps_empty fuel scope t v = Ok d0) <->
   (exists d0, enc e wc ps_empty fuel scope t v = Ok d0 /\ d = prune wc excl scope d0)).
Proof. exact ExcludeProofs.writer_omits_exactly_partial. Qed.
Theorem excluded_illegal_enum_still_errors :
  enc cx_env2 wc_star (new_pathspec' [[[x63]]]) 5 [] (TRef 0) (VRec [] [Some (VEnum 7)]) = Err EEnumConst /\
  enc cx_env2 wc_star (new_pathspec' [[[x63]]]) 5 [] (TRef 0) (VRec [] [Some (VEnum 1)]) = Ok (DObj []).
Proof. exact ExcludeProofs.excluded_illegal_enum_still_errors. Qed.

(* Non-vacuity: directives "a/*/b" and "c" (well formed); the path a/$set/c/b/a is excluded (the wildcard stands for c,
   the $set is skipped, the subtree below b is covered), a/$set/c/c is not; the reader rejects key b in scope a[0]
   with one ignored leading segment; the writer drops a/*/b and c and keeps the rest. *)
Example c07_nonvacuous :
  let ds := [[seg_a; wc_star; seg_b]; [seg_c]] in
  well_formed wc_star ds /\
  ps_matches wc_star (new_pathspec' ds) [seg_a; op_set; seg_c; seg_b; seg_a] = true /\
  ps_matches wc_star (new_pathspec' ds) [seg_a; op_set; seg_c; seg_c] = false /\
  class_of (enter_map wc_star (new_pathspec' ds) 1 seg_b
              {| t_scope := [SKey seg_c; SKey seg_a; SIdx 0]; t_missing := [] |}) = CExcluded /\
  enc ex_env wc_star (new_pathspec' ds) 6 [] (TRef 0) ex_value =
  Ok (DObj [ (seg_a, DArr [ DObj [(seg_c, DLeaf (LInt 2%Z))]; DObj [(seg_c, DLeaf (LInt 4%Z))] ]) ]).
Proof.
  cbv zeta. split; [exact (proj1 nonvacuous_example)|]. vm_compute. repeat split.
Qed.

Print Assumptions matches_iff_maximal.
Print Assumptions matches_iff_spec.
Print Assumptions well_formed_weakest.
Print Assumptions prefix_free_well_formed.
Print Assumptions well_formed_no_wildcard.
Print Assumptions matches_iff_spec_strings.
Print Assumptions dmatch_iff_inductive.
Print Assumptions naive_reading_partial.
Print Assumptions matches_empty.
Print Assumptions matches_subtree.
Print Assumptions matches_monotone.
Print Assumptions matches_set_ext.
Print Assumptions matches_iff_spec_refuted.
Print Assumptions extended_directive_refuted.
Print Assumptions empty_directive_refuted.
Print Assumptions naive_reading_refuted.
Print Assumptions enter_map_excluded_iff.
Print Assumptions enter_map_outcomes.
Print Assumptions is_key_excluded_agrees.
Print Assumptions reader_rejects_iff_spec.
Print Assumptions excluded_required_not_missing.
Print Assumptions record_missing_exact.
Print Assumptions writer_omits_exactly.
Print Assumptions prune_entry_exact.
Print Assumptions writer_object_entries_spec.
Print Assumptions writer_omits_exactly_full_refuted.
Print Assumptions writer_omits_exactly_partial.
Print Assumptions excluded_illegal_enum_still_errors.
