(* C06 / C13 / C04 for the UNTYPED reader (restlicodec.NewInterfaceReader; model Codec/AnyReader.v decA) - statements only, proofs in
   Proofs/AnyProofs.v.

   Vocabulary:
     gval                     a Go value held in an `any`, as reflect shows it (Codec/AnyReader.v)
     decA .. fuel top t g tr  the generated UnmarshalRestLi of type t over NewInterfaceReader(g): decJ's structure over the primitives
                              of any_reader.go; [unspec] = the implementation-defined result of an out-of-range float->int conversion
     of_jdoc parseF d         what encoding/json.Unmarshal into `any` yields for the document d (numbers -> float64)
     untyped_exact e f t d    the documents on which the untyped and the JSON reader are claimed to agree (AnyProofs.ue_step):
                              where an int/long is expected, not a string, and a number whose text is a decimal integer of the
                              field's width with |z| <= 2^53; where a boolean is expected, not a string; no JSON null as the
                              document or as an array item where an array / map / record / union is expected; distinct keys
     parseF_int_exact pF      strconv.ParseFloat(s, 64) of the decimal text of an integer |z| <= 2^53 is exactly z
     parseF_f32_via_f64 pF    mode 2 of the float oracle is float32(ParseFloat(s, 64)) (its definition in Codec/Decode.v) *)
From Coq.Strings Require Import Byte String.
From Coq Require Import List Bool Arith ZArith NArith Permutation.
From GR Require Import Base.Bytes Base.Res Base.Dec Codec.Schema Codec.Doc Codec.Json Codec.Tracker Codec.Decode Codec.AnyReader
  Proofs.MissingProofs Proofs.DefaultsProofs Proofs.AnyProofs.
Import ListNotations.

(* ---- C04: no Go value makes the untyped reader / the generated code over it panic (all schemas, values, fuels, oracles) ---- *)
Theorem decA_never_panics : forall e wildcard excl ignore parseF unspec fuel top t g tr,
  decA e wildcard excl ignore parseF unspec fuel top t g tr <> Panic.
Proof. exact AnyProofs.decA_never_panics. Qed.

Theorem decode_any_never_panics : forall e wildcard excl ignore parseF unspec fuel t g,
  decode_any e wildcard excl ignore parseF unspec fuel t g <> DPanic.
Proof. exact AnyProofs.decode_any_never_panics. Qed.

(* ---- the untyped reader over encoding/json's value IS the JSON reader: same value, same scope, same recorded missing paths (in
   the same order), or the same error - under any scope, tracker state, exclusion set ---- *)
Theorem readers_agree : forall e parseF, parseF_int_exact parseF -> parseF_f32_via_f64 parseF ->
  forall wildcard excl ignore unspec fuel top t d tr,
    untyped_exact e fuel t d ->
    decA e wildcard excl ignore parseF unspec fuel top t (of_jdoc parseF d) tr
    = decJ e wildcard excl ignore parseF fuel top t d tr.
Proof. exact AnyProofs.readers_agree. Qed.

(* ---- hence the C06 / C13 theorems of the JSON reader hold for the untyped reader ---- *)
Theorem any_decA_exact : forall e wildcard ignore parseF unspec,
  wf_schema e -> parseF_int_exact parseF -> parseF_f32_via_f64 parseF ->
  forall fuel top t d tr,
    well_shaped e parseF fuel t d -> untyped_exact e fuel t d ->
    t_scope tr <> [SKey []] -> (t_scope tr = [] -> keys_nonempty (entries_of d)) ->
    exists tr',
      decA e wildcard ps_empty ignore parseF unspec fuel top t (of_jdoc parseF d) tr
      = Ok (decode_spec e wildcard ignore parseF fuel (raises e fuel top t d tr) t d, tr') /\
      t_scope tr' = t_scope tr /\
      Permutation (t_missing tr') (t_missing tr ++ missing_spec e fuel t d (t_scope tr)).
Proof. exact AnyProofs.any_decA_exact. Qed.

Theorem any_missing_exact : forall e wildcard ignore parseF unspec,
  wf_schema e -> parseF_int_exact parseF -> parseF_f32_via_f64 parseF ->
  forall fuel t jd,
    is_record e t = true -> keys_nonempty (entries_of jd) -> well_shaped e parseF fuel t jd -> untyped_exact e fuel t jd ->
    decode_any e wildcard ps_empty ignore parseF unspec fuel t (of_jdoc parseF jd) =
    match missing_spec e fuel t jd [] with
    | [] => DOk (decode_spec e wildcard ignore parseF fuel false t jd)
    | ms => DMissing (sort_bytes ms) (decode_spec e wildcard ignore parseF fuel true t jd)
    end.
Proof. exact AnyProofs.any_missing_exact. Qed.

(* order independence and unknown fields (sim: same known content - permuted objects, extra unknown fields of any shape) *)
Theorem any_same_content_same_result : forall e wildcard ignore parseF unspec,
  wf_schema e -> parseF_int_exact parseF -> parseF_f32_via_f64 parseF ->
  forall fuel top t d1 d2 tr,
    well_shaped e parseF fuel t d1 -> sim e fuel t d1 d2 -> untyped_exact e fuel t d1 -> untyped_exact e fuel t d2 ->
    t_scope tr <> [SKey []] ->
    (t_scope tr = [] -> keys_nonempty (entries_of d1)) -> (t_scope tr = [] -> keys_nonempty (entries_of d2)) ->
    exists v tr1 tr2,
      decA e wildcard ps_empty ignore parseF unspec fuel top t (of_jdoc parseF d1) tr = Ok (v, tr1) /\
      decA e wildcard ps_empty ignore parseF unspec fuel top t (of_jdoc parseF d2) tr = Ok (v, tr2) /\
      t_scope tr1 = t_scope tr2 /\ Permutation (t_missing tr1) (t_missing tr2) /\
      sort_bytes (t_missing tr1) = sort_bytes (t_missing tr2).
Proof. exact AnyProofs.any_same_content_same_result. Qed.

(* C13: defaults are applied by the untyped reader exactly as by the JSON reader *)
Theorem any_fills_own_defaults : forall e wildcard ignore parseF unspec,
  wf_schema e -> parseF_int_exact parseF -> parseF_f32_via_f64 parseF ->
  forall n incs fs, lookup e n = Some (DRecord incs fs) ->
  forall f top d tr v tr',
    well_shaped e parseF (S f) (TRef n) d -> untyped_exact e (S f) (TRef n) d ->
    t_scope tr <> [SKey []] -> (t_scope tr = [] -> keys_nonempty (entries_of d)) ->
    decA e wildcard ps_empty ignore parseF unspec (S f) top (TRef n) (of_jdoc parseF d) tr = Ok (v, tr') ->
    top = false \/ t_missing tr' = [] ->
    exists ivs fvs, v = VRec ivs fvs /\ length fvs = length fs /\
      forall j fd, nth_error fs j = Some fd ->
        nth_error fvs j = Some (own_slot_spec e wildcard ignore parseF f true (entries_of d) fd).
Proof. exact AnyProofs.any_fills_own_defaults. Qed.

(* ---- the limits of the agreement ---- *)
(* the 2^53 bound is necessary: a long beyond it does not survive encoding/json's float64 (witness: 9007199254740993) *)
Definition long_agreement_full : Prop := AnyProofs.long_agreement_full.   (* agreement on every in-range long, correctly rounded *)

Theorem long_agreement_full_refuted : ~ long_agreement_full.
Proof. exact AnyProofs.long_agreement_full_refuted. Qed.

Theorem precision_witness :
  decA [] [] ps_empty 0 any_pf (fun _ _ => 0%Z) 1 true (TPrim PLong) (of_jdoc any_pf (JNum txt_2p53_1)) tracker0
    = Ok (VLong 9007199254740992, tracker0)
  /\ decJ [] [] ps_empty 0 any_pf 1 true (TPrim PLong) (JNum txt_2p53_1) tracker0 = Ok (VLong 9007199254740993, tracker0).
Proof. exact AnyProofs.precision_witness. Qed.

(* the other excluded documents are genuine differences between the two reader kinds: a JSON null array item (empty record vs
   InvalidTypeError), a string where an int / a boolean is expected (rejected vs parsed), an integer that does not fit (rejected
   vs implementation-defined conversion) *)
Theorem reader_differences :
  (decJ c06_env c06_star ps_empty 0 any_pf 8 false (TArray (TRef 0)) (JArr [JNull]) tracker0
     = Ok (VArr [VRec [] [Some (VInt 0); None; Some (VInt 7)]], {| t_scope := []; t_missing := [[x5b;x30;x5d;x2e;x61]] |})
   /\ decA c06_env c06_star ps_empty 0 any_pf (fun _ _ => 0%Z) 8 false (TArray (TRef 0)) (of_jdoc any_pf (JArr [JNull])) tracker0
     = Err EDeser)
  /\ (decJ [] [] ps_empty 0 any_pf 1 true (TPrim PInt) (JStr [x31; x32]) tracker0 = Err EDeser
      /\ decA [] [] ps_empty 0 any_pf (fun _ _ => 0%Z) 1 true (TPrim PInt) (of_jdoc any_pf (JStr [x31; x32])) tracker0
         = Ok (VInt 12, tracker0))
  /\ (decJ [] [] ps_empty 0 any_pf 1 true (TPrim PBool) (JStr [x74]) tracker0 = Err EDeser
      /\ decA [] [] ps_empty 0 any_pf (fun _ _ => 0%Z) 1 true (TPrim PBool) (of_jdoc any_pf (JStr [x74])) tracker0
         = Ok (VBool true, tracker0))
  /\ (decJ [] [] ps_empty 0 any_pf 1 true (TPrim PInt) (JNum [x34;x32;x39;x34;x39;x36;x37;x32;x39;x37]) tracker0 = Err EDeser
      /\ decA [] [] ps_empty 0 any_pf (fun _ _ => 77%Z) 1 true (TPrim PInt)
           (of_jdoc any_pf (JNum [x34;x32;x39;x34;x39;x36;x37;x32;x39;x37])) tracker0 = Ok (VInt 77, tracker0)).
Proof. exact AnyProofs.reader_differences. Qed.

(* ---- the premise on ParseFloat is what correct rounding gives: float64(z) is exact for |z| <= 2^53 (the model's own
   round-to-nearest-even encoder), so the rounding oracle any_pf satisfies both premises ---- *)
Theorem f64_of_Z_exact : forall z, (Z.abs z <= 2 ^ 53)%Z -> f64_trunc (f64_of_Z z) = Some z.
Proof. exact AnyProofs.f64_of_Z_exact. Qed.

Theorem any_pf_premises : parseF_int_exact any_pf /\ parseF_f32_via_f64 any_pf.
Proof. split; [exact AnyProofs.any_pf_int_exact|exact AnyProofs.any_pf_f32]. Qed.

(* non-vacuity: a document exercising every position (unknown field of array shape, null map entry, union, inherited required
   field, optional and defaulted fields absent) satisfies every premise of any_missing_exact, and the untyped reader reports
   exactly the five missing paths with the partial value *)
Example any_nonvacuous :
  parseF_int_exact any_pf /\ parseF_f32_via_f64 any_pf /\ wf_schema c06_env /\
  well_shaped c06_env any_pf 8 (TRef 1) any_doc /\ untyped_exact c06_env 8 (TRef 1) any_doc /\
  keys_nonempty (entries_of any_doc) /\
  decode_any c06_env c06_star ps_empty 0 any_pf (fun _ _ => 0%Z) 8 (TRef 1) (of_jdoc any_pf any_doc)
  = DMissing (map c06_b ["a"; "l[1].a"; "m.k.a"; "u.t.Inner.a"; "x"]%string)
      (VRec [VRec [] [Some (VInt 0); Some (VStr (c06_b "s")); None]]
         [Some (VRec [] [Some (VInt 0); None; None]);
          Some (VArr [VRec [] [Some (VInt 1); None; Some (VInt 7)]; VRec [] [Some (VInt 0); None; Some (VInt 3)]]);
          Some (VMap [(c06_b "k", VRec [] [Some (VInt 0); None; Some (VInt 7)])]);
          Some (VUnion [Some (VRec [] [Some (VInt 0); Some (VStr (c06_b "x")); Some (VInt 7)]); None])]).
Proof. exact AnyProofs.any_nonvacuous. Qed.

Print Assumptions decA_never_panics.
Print Assumptions decode_any_never_panics.
Print Assumptions readers_agree.
Print Assumptions any_decA_exact.
Print Assumptions any_missing_exact.
Print Assumptions any_same_content_same_result.
Print Assumptions any_fills_own_defaults.
Print Assumptions long_agreement_full_refuted.
Print Assumptions precision_witness.
Print Assumptions reader_differences.
Print Assumptions f64_of_Z_exact.
Print Assumptions any_pf_premises.
Print Assumptions any_nonvacuous.
