(* C14 — Query tunnelling is transparent.
   Only statements here; proofs are in Proofs/TunnelProofs.v.  Model: Http/Tunnel.v (EncodeTunnelledQuery,
   DecodeTunnelledQuery, the threshold test of newRequest as transcribed by the translator into Gen/TablesTunnel.v, the
   de-tunnelling step of the server).  mime/multipart and mime.ParseMediaType are MODELLED BY HAND, NOT VERIFIED (CRLF
   framing), validated by the correspondence stream, which compares the multipart bytes exactly because the boundary is
   an input of the model.

   A request is (verb, escaped path, raw query, body : option bytes, the other headers).  [client_request b th ...] is
   what the client puts on the wire with QueryTunnellingThreshold = th when the multipart writer picks boundary b;
   [decode_tunnelled_query] is DecodeTunnelledQuery; [serve] is handler.go:97-101: a decode error is answered 400 before
   routing.  Premises: the boundary is what multipart.randomBoundary produces (non-empty lower-case hex) and does not
   occur in query or body ([fresh]); the verb is not empty. *)
From Coq Require Import List Bool ZArith.
From Coq.Strings Require Import Byte.
From GR Require Import Base.Bytes Gen.TablesTunnel Http.UrlModel Http.Tunnel Proofs.TunnelProofs.
Import ListNotations.

(* The full statement of the round trip, for every body.  It is FALSE of the current code for an empty non-nil body
   (tunnel_roundtrip_refuted); tunnel_roundtrip proves it for absent and for non-empty bodies. *)
Definition full_roundtrip_statement : Prop :=
  forall b th verb path q body other,
    boundary_ok b = true -> tunnelled th q = true -> verb <> [] -> fresh b q = true ->
    match body with Some x => fresh b x = true | None => True end ->
    decode_tunnelled_query (client_request b th verb path q body other)
    = DOk (server_view (untunnelled_wire verb path q body other)).

(* After de-tunnelling, verb, path, raw query, RequestURI, body bytes, content type and the other (Rest.li) headers are
   those of the request sent untunnelled, and the override header is gone. *)
Theorem tunnel_roundtrip : forall b th verb path q body other,
  boundary_ok b = true -> tunnelled th q = true -> verb <> [] -> fresh b q = true -> body_ok b body ->
  decode_tunnelled_query (client_request b th verb path q body other)
  = DOk (server_view (untunnelled_wire verb path q body other)).
Proof. exact TunnelProofs.tunnel_roundtrip. Qed.

Theorem tunnel_roundtrip_refuted :
  exists b th verb path q other,
    boundary_ok b = true /\ tunnelled th q = true /\ verb <> [] /\ fresh b q = true /\
    decode_tunnelled_query (client_request b th verb path q (Some []) other)
    <> DOk (server_view (untunnelled_wire verb path q (Some []) other)).
Proof. exact TunnelProofs.empty_body_content_type_lost. Qed.

(* Requests whose query does not exceed the threshold are sent untouched, and de-tunnelling leaves them alone. *)
Theorem below_threshold_untouched : forall b th verb path q body other,
  tunnelled th q = false ->
  client_request b th verb path q body other = untunnelled_wire verb path q body other /\
  decode_tunnelled_query (untunnelled_wire verb path q body other) = DOk (server_view (untunnelled_wire verb path q body other)).
Proof. exact TunnelProofs.below_threshold_untouched_full. Qed.

(* The threshold comparison, as the code of the current tree has it (both module generations). *)
Theorem threshold_exact : forall th q,
  (tunnelled th q = true <-> (0 < th /\ th < Z.of_nat (length q))%Z) /\
  tunnel_condition_root th (Z.of_nat (length q)) = tunnel_condition th (Z.of_nat (length q)).
Proof. exact TunnelProofs.threshold_exact_full. Qed.

(* The multipart reader reads back exactly the parts the writer framed, for ANY list of parts whose bodies do not hold
   the boundary. *)
Theorem multipart_parse_render : forall b ps,
  boundary_ok b = true -> parts_ok b ps = true -> parse_multipart b (render_parts b ps) = Some ps.
Proof. exact TunnelProofs.parse_render. Qed.

(* Malformed tunnelled requests are answered 400 before routing: a multipart message (of any number of parts) without a
   query part, without a body part, or with a part of another type; the override header together with a URL query; a
   multipart body whose framing cannot be read; the override header with any other content type or none (fix ee52010). *)
Theorem malformed_tunnel_rejected :
  (forall b verb path other ps,
     boundary_ok b = true -> verb <> [] -> parts_ok b ps = true ->
     existsb is_form ps = false \/ existsb is_json ps = false \/
     existsb (fun p => negb (is_form p) && negb (is_json p)) ps = true ->
     serve (multipart_wire b verb path other ps) = Rejected400) /\
  (forall r tm,
     opt_nonempty (w_override r) = Some tm -> w_method r = http_post -> w_rawquery r <> [] -> serve r = Rejected400) /\
  (forall r tm b,
     opt_nonempty (w_override r) = Some tm -> w_method r = http_post -> w_rawquery r = [] ->
     parse_media_type (match opt_nonempty (w_ct r) with Some v => v | None => [] end) = (multipart_mixed_content_type, b) ->
     parse_multipart (match b with Some x => x | None => [] end) (w_body r) = None ->
     serve r = Rejected400) /\
  (forall r tm mt b,
     opt_nonempty (w_override r) = Some tm -> w_method r = http_post -> w_rawquery r = [] ->
     parse_media_type (match opt_nonempty (w_ct r) with Some v => v | None => [] end) = (mt, b) ->
     mt <> form_urlencoded_content_type -> mt <> multipart_mixed_content_type ->
     serve r = Rejected400).
Proof. exact TunnelProofs.malformed_tunnel_rejected. Qed.

(* What routing and resource code see is the same with tunnelling on (any threshold) or off. *)
Theorem tunnel_transparent_end_to_end : forall b th verb path q body other,
  boundary_ok b = true -> verb <> [] -> fresh b q = true -> body_ok b body ->
  serve (client_request b th verb path q body other) = Routed (server_view (untunnelled_wire verb path q body other)) /\
  serve (client_request b th verb path q body other) = serve (client_request b 0 verb path q body other).
Proof. exact TunnelProofs.tunnel_transparent_end_to_end. Qed.

(* Non-vacuity: PUT /c?a=1&b=%28 with body {"k":"--0a"} and threshold 3, boundary 0a1b: the request is tunnelled as
   multipart/mixed and decodes to the original. *)
Example c14_nonvacuous :
  let b := [x30;x61;x31;x62] in
  let verb := [x50;x55;x54] in
  let path := [x2f;x63] in
  let q := [x61;x3d;x31;x26;x62;x3d;x25;x32;x38] in
  let body := Some [x7b;x22;x6b;x22;x3a;x22;x2d;x2d;x30;x61;x22;x7d] in
  boundary_ok b = true /\ tunnelled 3 q = true /\ fresh b q = true /\
  w_method (client_request b 3 verb path q body []) = http_post /\
  w_ct (client_request b 3 verb path q body []) = Some (format_multipart_ct b) /\
  decode_tunnelled_query (client_request b 3 verb path q body []) = DOk (server_view (untunnelled_wire verb path q body [])).
Proof. vm_compute. repeat split; reflexivity. Qed.

(* The rule "override header + URL query" is on the RAW query: queries that net/url parses to no parameter at all
   ("&", "a;b", "%zz") are rejected like any other; only the empty raw query goes on. *)
Example override_with_unparseable_raw_query_rejected :
  let r q := {| w_method := http_post; w_path := [x2f;x63]; w_rawquery := q;
                w_ct := Some form_urlencoded_content_type; w_override := Some [x47;x45;x54]; w_other := []; w_body := [x61;x3d;x31] |} in
  serve (r [x26]) = Rejected400 /\ serve (r [x61;x3b;x62]) = Rejected400 /\ serve (r [x25;x7a;x7a]) = Rejected400 /\
  exists d, serve (r []) = Routed d.
Proof. vm_compute. repeat split; eexists; reflexivity. Qed.

Print Assumptions tunnel_roundtrip.
Print Assumptions tunnel_roundtrip_refuted.
Print Assumptions below_threshold_untouched.
Print Assumptions threshold_exact.
Print Assumptions multipart_parse_render.
Print Assumptions malformed_tunnel_rejected.
Print Assumptions tunnel_transparent_end_to_end.
