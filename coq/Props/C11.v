(* C11 - Schema validity constraints are enforced when encoding and when decoding:
     - a union carries exactly one member (at most one if it is nullable);
     - a fixed has exactly its declared size;
     - an enum is written only if it is one of its declared symbols, and an unknown symbol read from the wire becomes the
       distinguished unknown value (VEnum 0), never another symbol.
   Statements only; every proof is in Proofs/ValidityProofs.v (which also holds the vocabulary: [typed], [valid], [vdepth],
   [count_set], [union_ok], [live], [none_members], [dvalid], [is_zero]).  The models are Codec/Encode.v ([enc]: the generated
   MarshalRestLi code) and Codec/Decode.v ([decJ]: the generated UnmarshalRestLi code over a JSON tree; [decR]: the same over the
   ROR2 cursor).  All statements hold for ALL environments, types, values, documents and fuels.

   NOT MODELLED HERE: the partial-update (patch) constraints of C11 (IllegalPartialUpdateError: a field both $set and $delete-d,
   patching a read-only field, ...).  Nothing below says anything about them. *)
From Coq Require Import List Bool Arith ZArith NArith Lia.
From Coq.Strings Require Import Byte.
From GR Require Import Base.Bytes Base.Res Base.Dec Codec.Schema Codec.Doc Codec.Json Codec.Tracker Codec.Encode Codec.Decode
  Proofs.CanonProofs Proofs.Ror2NoPanic Proofs.ValidityProofs.
Import ListNotations.

(* ===================================================== ENCODING ===================================================== *)

(* [typed e t v]: v has the shape of the generated Go type of t (an enum is any int32 constant, a fixed is an array of the
   declared length, a union struct has one pointer per member, an unset required field does not exist).
   [valid e t v]: at every position of v (there is none below an unset optional field or an unset union member) every union has
   exactly one member set - or none if nullable - and every enum constant k satisfies 1 <= k <= number of symbols. *)

(* 1. An invalid value is never written: with no exclusion spec the outcome is an error - never Ok, never a panic.
      (Typing is not even needed for this direction.) *)
Theorem invalid_not_emitted : forall e wildcard fuel scope t v,
  ~ valid e t v -> exists x, enc e wildcard ps_empty fuel scope t v = Err x.
Proof. exact ValidityProofs.invalid_not_emitted. Qed.
Print Assumptions invalid_not_emitted.

(* ... equivalently: whatever is written is valid *)
Theorem enc_ok_valid : forall e wildcard fuel scope t v d, enc e wildcard ps_empty fuel scope t v = Ok d -> valid e t v.
Proof. exact ValidityProofs.enc_ok_valid. Qed.
Print Assumptions enc_ok_valid.

(* 2. Nothing else is rejected: a typed valid value is written as soon as the recursion budget of the model exceeds the nesting
      depth of the value - with ANY exclusion spec.  (The size of a fixed is part of [typed]: the Go type is an array.) *)
Theorem valid_emitted : forall e wildcard excl fuel scope t v,
  typed e t v -> valid e t v -> vdepth v < fuel -> exists d, enc e wildcard excl fuel scope t v = Ok d.
Proof. exact ValidityProofs.valid_emitted. Qed.
Print Assumptions valid_emitted.

(* 3. The complete outcome on typed values: written iff valid; otherwise rejected with the union or the enum error. *)
Theorem typed_encode_outcome : forall e wildcard fuel scope t v,
  typed e t v -> vdepth v < fuel ->
  (valid e t v /\ exists d, enc e wildcard ps_empty fuel scope t v = Ok d) \/
  (~ valid e t v /\ (enc e wildcard ps_empty fuel scope t v = Err EUnion \/ enc e wildcard ps_empty fuel scope t v = Err EEnumConst)).
Proof. exact ValidityProofs.typed_encode_outcome. Qed.
Print Assumptions typed_encode_outcome.

(* 4. The individual rejections (any exclusion spec).  A non-nullable union with no member set: *)
Theorem enc_union_zero_members : forall e wildcard excl f scope n ms vs,
  lookup e n = Some (DUnion false ms) -> length vs = length ms -> count_set vs = 0 ->
  enc e wildcard excl (S f) scope (TRef n) (VUnion vs) = Err EUnion.
Proof. exact ValidityProofs.enc_union_zero_members. Qed.
Print Assumptions enc_union_zero_members.

(* two or more members set: always an error; the union error as soon as the members themselves can be written *)
Theorem enc_union_many_members : forall e wildcard excl f scope n nullable ms vs,
  lookup e n = Some (DUnion nullable ms) -> 2 <= count_set vs ->
  (exists err, enc e wildcard excl (S f) scope (TRef n) (VUnion vs) = Err err) /\
  (Forall2 (fun (m : bytes * ty) ov => forall v, ov = Some v ->
              exists d, excluded wildcard excl (scope ++ [fst m]) = false /\
                        enc e wildcard excl f (scope ++ [fst m]) (snd m) v = Ok d) ms vs ->
   enc e wildcard excl (S f) scope (TRef n) (VUnion vs) = Err EUnion).
Proof. exact ValidityProofs.enc_union_many_members. Qed.
Print Assumptions enc_union_many_members.

(* an enum constant that is not a declared symbol (0 = the generated unknown constant, or out of range) *)
Theorem enc_enum_illegal : forall e wildcard excl f scope syms k,
  ~ (1 <= k <= length syms) -> enc e wildcard excl (S f) scope (TEnum syms) (VEnum k) = Err EEnumConst.
Proof. exact ValidityProofs.enc_enum_illegal. Qed.
Print Assumptions enc_enum_illegal.

(* ================================================== DECODING (JSON) ================================================== *)

(* 5. The union reader, completely, by the non-null entries [live es] of the JSON object (a null document counts as no entry):
      none      -> accepted iff nullable, as the struct with no member set;
      one       -> unknown alias: an error (the union error, or ExcludedFieldError if enterMapScope rejects the key first);
                   known alias (index j, the first member with that alias): accepted iff the member decodes, and the result is
                   the struct with exactly member j set ([single_member] below);
      two or more -> never accepted; precisely the union error when the first member decoded and no key is excluded. *)
Theorem union_decodes_exactly_one : forall e w x ig pF f top n nullable ms d es tr,
  lookup e n = Some (DUnion nullable ms) -> (d = JNull /\ es = [] \/ d = JObj es) ->
  let R := decJ e w x ig pF (S f) top (TRef n) d tr in
  let D := decJ e w x ig pF f in
  match live es with
  | [] => R = if nullable then Ok (VUnion (none_members ms), tr) else Err EUnion
  | [(k, xd)] =>
      match index_of k (map fst ms) 0 with
      | None => R = (do _ <- enter_map w x ig k tr; Err EUnion)
      | Some j =>
          exists mt, nth_error ms j = Some (k, mt) /\ j < length ms /\
            R = (do tr1 <- enter_map w x ig k tr; do rr <- D false mt xd tr1;
                 Ok (VUnion (set_nth j (Some (fst rr)) (none_members ms)), pop (snd rr)))
      end
  | (k1, x1) :: (k2, x2) :: _ =>
      (exists err, R = Err err) /\
      (forall tr1 j a mt v tr2 tr3,
         enter_map w x ig k1 tr = Ok tr1 -> index_of k1 (map fst ms) 0 = Some j -> nth_error ms j = Some (a, mt) ->
         D false mt x1 tr1 = Ok (v, tr2) -> enter_map w x ig k2 (pop tr2) = Ok tr3 -> R = Err EUnion)
  end.
Proof. exact ValidityProofs.union_decodes_exactly_one_J. Qed.
Print Assumptions union_decodes_exactly_one.

Theorem single_member : forall (ms : list (bytes * ty)) j (v : value), j < length ms ->
  count_set (set_nth j (Some v) (none_members ms)) = 1 /\
  forall i, nth_error (set_nth j (Some v) (none_members ms)) i =
            if Nat.eqb i j then Some (Some v) else if Nat.ltb i (length ms) then Some None else None.
Proof. exact ValidityProofs.single_member. Qed.
Print Assumptions single_member.

(* 6. fixed: the JSON string is decoded one code point (0..255) per byte and must then have exactly the declared size *)
Theorem fixed_size_enforced : forall e w x ig pF f top n d tr,
  decJ e w x ig pF (S f) top (TFixed n) d tr =
  match d with
  | JStr s => match latin1_decode (S (length s)) s with
              | Some b => if Nat.eqb (length b) n then Ok (VFixed b, tr) else Err EFixedSize
              | None => Err EDeser
              end
  | _ => Err EDeser
  end.
Proof. exact ValidityProofs.fixed_size_enforced_J. Qed.
Print Assumptions fixed_size_enforced.

Theorem fixed_ok_size : forall e w x ig pF f top n d tr v tr',
  decJ e w x ig pF (S f) top (TFixed n) d tr = Ok (v, tr') ->
  exists s b, d = JStr s /\ latin1_decode (S (length s)) s = Some b /\ length b = n /\ v = VFixed b /\ tr' = tr.
Proof. exact ValidityProofs.fixed_ok_size_J. Qed.
Print Assumptions fixed_ok_size.

(* 7. enum: a text that is not a declared symbol gives the unknown constant 0; a declared one gives the constant of the FIRST
      symbol equal to it - never another symbol *)
Theorem unknown_enum_symbol : forall e w x ig pF f top syms s tr,
  (~ In s syms -> decJ e w x ig pF (S f) top (TEnum syms) (JStr s) tr = Ok (VEnum 0, tr)) /\
  (In s syms -> exists i, decJ e w x ig pF (S f) top (TEnum syms) (JStr s) tr = Ok (VEnum (S i), tr) /\
                          nth_error syms i = Some s /\ forall m, m < i -> nth_error syms m <> Some s).
Proof. exact ValidityProofs.unknown_enum_symbol_J. Qed.
Print Assumptions unknown_enum_symbol.

(* 8. Whatever the JSON decoder accepts satisfies [dvalid]: every union decoded from the document has exactly one member (none
      only if nullable) and one slot per declared member, every fixed has its size, every enum is a declared constant or 0.
      A REQUIRED record field (or an included record) with no entry in the document keeps the zero value of its Go type
      ([is_zero]); such a slot is exempted - its absence is reported through the missing-fields tracker (C07). *)
Theorem decoded_values_valid : forall e w x ig pF fuel top t d tr v tr',
  decJ e w x ig pF fuel top t d tr = Ok (v, tr') -> dvalid e t v.
Proof. exact ValidityProofs.decJ_dvalid. Qed.
Print Assumptions decoded_values_valid.

Theorem union_decoded_constraint : forall e w x ig pF fuel top n nullable ms d tr v tr',
  lookup e n = Some (DUnion nullable ms) -> decJ e w x ig pF fuel top (TRef n) d tr = Ok (v, tr') ->
  exists uv, v = VUnion uv /\ length uv = length ms /\ union_ok nullable uv.
Proof. exact ValidityProofs.union_decoded_constraint_J. Qed.
Print Assumptions union_decoded_constraint.

(* The exemption is necessary.  The unconditional statement "an ACCEPTED document never yields a non-nullable union with no
   member" is false of the model of the current code: for the type array<R>, R = { u : U (required) }, the document [{}] is
   accepted (a top-level value that is not a record never raises the missing-fields report: defect D33) and the caller gets
   R.u with no member set. *)
Definition decoded_unions_never_empty_full : Prop :=
  forall e w x ig pF fuel t data v,
    (forall n nullable ms, lookup e n = Some (DUnion nullable ms) -> nullable = false) ->
    decode_json e w x ig pF fuel t data = DOk v -> has_empty_union v = false.

Theorem decoded_unions_never_empty_refuted :
  exists e w x ig pF fuel t data v,
    (forall n nullable ms, lookup e n = Some (DUnion nullable ms) -> nullable = false) /\
    decode_json e w x ig pF fuel t data = DOk v /\ has_empty_union v = true.
Proof. exact ValidityProofs.decoded_unions_never_empty_refuted. Qed.
Print Assumptions decoded_unions_never_empty_refuted.

(* ============================================== DECODING (ROR2, cursor level) ============================================== *)

Theorem decoded_values_valid_ror2 : forall e w x ig pF unesc em lp qr fuel t s v s',
  decR e w x ig pF unesc em lp qr fuel t s = Ok (v, s') -> dvalid e t v.
Proof. exact ValidityProofs.decR_dvalid. Qed.
Print Assumptions decoded_values_valid_ror2.

Theorem union_decoded_constraint_ror2 : forall e w x ig pF unesc em lp qr fuel n nullable ms s v s',
  lookup e n = Some (DUnion nullable ms) -> decR e w x ig pF unesc em lp qr fuel (TRef n) s = Ok (v, s') ->
  exists uv, v = VUnion uv /\ length uv = length ms /\ union_ok nullable uv.
Proof. exact ValidityProofs.union_decoded_constraint_R. Qed.
Print Assumptions union_decoded_constraint_ror2.

(* once a member is set, the only continuation the union loop accepts is the closing parenthesis *)
Theorem union_second_member_ror2 : forall e w x ig pF unesc em lp qr f ms k uv s r,
  goRuni w x ig unesc em (decR e w x ig pF unesc em lp qr f) ms (S k) uv true s = Ok r ->
  exists c, idx s = Ok c /\ Byte.eqb c x29 = true /\ r = (uv, true, advance 1 s).
Proof. exact ValidityProofs.union_second_member_R. Qed.
Print Assumptions union_second_member_ror2.

Theorem unknown_enum_symbol_ror2 : forall e w x ig pF unesc em lp qr f syms s v s',
  decR e w x ig pF unesc em lp qr (S f) (TEnum syms) s = Ok (v, s') ->
  exists text, read_string unesc em s = Ok (text, s') /\ v = enum_value syms text /\
    ((~ In text syms /\ v = VEnum 0) \/
     (exists i, v = VEnum (S i) /\ nth_error syms i = Some text /\ forall m, m < i -> nth_error syms m <> Some text)).
Proof. exact ValidityProofs.unknown_enum_symbol_R. Qed.
Print Assumptions unknown_enum_symbol_ror2.

Theorem fixed_size_enforced_ror2 : forall e w x ig pF unesc em lp qr f n s,
  decR e w x ig pF unesc em lp qr (S f) (TFixed n) s =
  (do r <- read_string unesc em s;
   if Nat.eqb (length (fst r)) n then Ok (VFixed (fst r), snd r) else Err EFixedSize).
Proof. exact ValidityProofs.fixed_size_enforced_R. Qed.
Print Assumptions fixed_size_enforced_ror2.

(* ==================================================== NON-VACUITY ==================================================== *)
(* union U { a : int, b : int } (not nullable); record R { u : U }; enum E { A } *)
Definition ex_env : env :=
  [DUnion false [([x61], TPrim PInt); ([x62], TPrim PInt)];
   DRecord [] [{| f_name := [x75]; f_ty := TRef 0; f_opt := Required |}]].
Definition ex_two : value := VUnion [Some (VInt 1); Some (VInt 2)].
Definition ex_noF : nat -> bytes -> option N := fun _ _ => None.
(* {"a":1,"b":2}   and   "B" *)
Definition ex_doc_two : bytes := [x7b; x22; x61; x22; x3a; x31; x2c; x22; x62; x22; x3a; x32; x7d].
Definition ex_doc_B : bytes := [x22; x42; x22].

Example c11_non_vacuous :
  (* a union with two members set is typed, is not valid, and fails to encode; with one member it is written *)
  typed ex_env (TRef 0) ex_two /\ ~ valid ex_env (TRef 0) ex_two /\
  enc ex_env [x2a] ps_empty 5 [] (TRef 0) ex_two = Err EUnion /\
  enc ex_env [x2a] ps_empty 5 [] (TRef 0) (VUnion [None; None]) = Err EUnion /\
  enc ex_env [x2a] ps_empty 5 [] (TRef 0) (VUnion [None; Some (VInt 2)]) = Ok (DObj [([x62], DLeaf (LInt 2))]) /\
  enc ex_env [x2a] ps_empty 5 [] (TEnum [[x41]]) (VEnum 2) = Err EEnumConst /\
  (* the premise "no exclusion spec" of [invalid_not_emitted] is necessary: below an excluded field nothing is validated *)
  enc ex_env [x2a] (PS [([x75], PS [])]) 5 [] (TRef 1) (VRec [] [Some ex_two]) = Ok (DObj []) /\
  (* a document with two members fails to decode; an unknown enum symbol decodes to the unknown constant *)
  decode_json ex_env [x2a] ps_empty 0 ex_noF 5 (TRef 0) ex_doc_two = DErr EUnion /\
  decode_json ex_env [x2a] ps_empty 0 ex_noF 5 (TEnum [[x41]]) ex_doc_B = DOk (VEnum 0) /\
  decode_json ex_env [x2a] ps_empty 0 ex_noF 5 (TFixed 2) ex_doc_B = DErr EFixedSize.
Proof.
  split.
  { eapply T_union; [reflexivity|]. repeat constructor; intros y Hy; inversion Hy; constructor. }
  split.
  { intros H. inversion H as [| | | | | |n nullable ms vs L U F]; subst.
    unfold union_ok in U. simpl in U. destruct U as [U|[_ U]]; discriminate. }
  repeat split; vm_compute; reflexivity.
Qed.
