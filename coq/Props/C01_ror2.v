(* C01 - codec round trip, ROR2 part (statements only; proofs in Proofs/Ror2RoundTrip.v).
   Reading back, with the cursor-level ROR2 reader and the generated unmarshalers (decR / decode_ror2), the rendering
   (render_ror2, any of the three flavours, tables of the current tree) of an encoded value (enc) gives the value back.
   Floats are external: the premise float_oracle_ok lists the strconv facts used (trusted). *)
From Coq Require Import List Bool ZArith NArith.
From Coq.Strings Require Import Byte.
From GR Require Import Base.Bytes Base.Res Base.Dec Codec.Schema Codec.Doc Codec.Escape Codec.Tracker Codec.Render Codec.Encode
  Codec.Decode Proofs.EscapeProofs Gen.TablesCodec Proofs.Ror2RoundTrip.
Import ListNotations.

Local Notation esc fl := (escape v2_hex_chars v2_unescaped_path_chars v2_unescaped_query_chars v2_header_escaped_chars fl).
Local Notation rstr fl := (ror2_string v2_hex_chars v2_unescaped_path_chars v2_unescaped_query_chars v2_header_escaped_chars
                             v2_empty_string fl).
Local Notation render fmtF fl := (render_ror2 fmtF v2_hex_chars v2_unescaped_path_chars v2_unescaped_query_chars
                                    v2_header_escaped_chars v2_empty_string v2_list_prefix fl).

(* ---- L1: tables ---- *)
Theorem c01_ror2_tables_ok : forall fl,
  safe_ok (plus_of fl) (safe_of v2_unescaped_path_chars v2_unescaped_query_chars v2_header_escaped_chars fl) = true
  /\ hex_ok v2_hex_chars = true.
Proof. exact (fun fl => conj (Ror2RoundTrip.safe_ok_v2 fl) Ror2RoundTrip.hex_ok_v2). Qed.

Theorem c01_ror2_unescape_escape : forall fl s, unescape_fl fl (esc fl s) = Some s.
Proof. exact Ror2RoundTrip.unescape_escape_fl. Qed.

(* none of the five delimiters ( ) , : ' occurs in escaped text, in any flavour *)
Theorem c01_ror2_escape_no_delim : forall fl s d, In d [x28; x29; x2c; x3a; x27] -> mem_byte d (esc fl s) = false.
Proof. exact Ror2RoundTrip.escape_no_delim. Qed.

(* ---- L2: tokens.  tok_ctx c rest: inside a map/list (c = true) the token is followed by ',' or ')';
        at position 0 (c = false) it is the whole input ---- *)
Theorem c01_ror2_read_string : forall fl c s rest tr, tok_ctx c rest ->
  read_string (unescape (plus_of fl)) v2_empty_string (cur c (rstr fl s ++ rest) tr) = Ok (s, cur true rest tr).
Proof. exact Ror2RoundTrip.read_string_ok. Qed.

Theorem c01_ror2_read_field_name : forall fl c key rest tr,
  read_field_name (unescape (plus_of fl)) v2_empty_string (cur c (rstr fl key ++ x3a :: rest) tr) = Ok (key, cur true rest tr).
Proof. exact Ror2RoundTrip.read_field_name_ok. Qed.

Theorem c01_ror2_read_int : forall fl c z rest tr, tok_ctx c rest ->
  read_decoded (unescape (plus_of fl)) (cur c (print_dec z ++ rest) tr) = Ok (print_dec z, cur true rest tr).
Proof. exact Ror2RoundTrip.read_int_ok. Qed.

(* every primitive (int32/int64 in range, non-NaN float/double, bool, string, bytes) *)
Theorem c01_ror2_primitive : forall fmtF parseF e fl p v c rest tr,
  float_oracle_ok fmtF parseF -> typed e (TPrim p) v -> tok_ctx c rest ->
  rprim parseF (unescape (plus_of fl)) v2_empty_string p
    (cur c (ror2_leaf fmtF v2_hex_chars v2_unescaped_path_chars v2_unescaped_query_chars v2_header_escaped_chars
              v2_empty_string fl (prim_leaf v) ++ rest) tr)
  = Ok (v, cur true rest tr).
Proof. exact Ror2RoundTrip.L2_primitive. Qed.

(* the context condition cannot be weakened to "rest empty" for a consumed cursor: the token needs its closing delimiter *)
Theorem c01_ror2_token_needs_delimiter :
  read_string (unescape false) v2_empty_string (cur true [x61] tracker0) = Err EDeser.
Proof. exact Ror2RoundTrip.consumed_token_needs_delimiter. Qed.

(* ---- L3: primitives, enums, fixed, arrays and maps nested to any depth ---- *)
Theorem c01_ror2_roundtrip_noref : forall fmtF parseF e wc ignore fl qr fe scope t v d fd c tr rest,
  float_oracle_ok fmtF parseF ->
  wf_ty t -> noref t -> typed e t v -> enc e wc ps_empty fe scope t v = Ok d -> vsize v <= fd -> ctx d c rest ->
  decR e wc ps_empty ignore parseF (unescape (plus_of fl)) v2_empty_string v2_list_prefix qr fd t
    (cur c (render fmtF fl d ++ rest) tr)
  = Ok (canon v, cur true rest tr).
Proof. exact Ror2RoundTrip.L3_noref. Qed.

(* ---- L4: all types (records with includes, optional and default fields; unions) ---- *)
Theorem c01_ror2_roundtrip : forall fmtF parseF e wc ignore fl qr fe scope t v d fd c tr rest,
  float_oracle_ok fmtF parseF ->
  wf_env e -> wf_ty t -> typed e t v -> enc e wc ps_empty fe scope t v = Ok d -> vsize v <= fd -> ctx d c rest ->
  (c = true \/ t_missing tr = []) ->
  decR e wc ps_empty ignore parseF (unescape (plus_of fl)) v2_empty_string v2_list_prefix qr fd t
    (cur c (render fmtF fl d ++ rest) tr)
  = Ok (expect parseF e wc ignore v fd t, cur true rest tr).
Proof. exact Ror2RoundTrip.L4_all. Qed.

(* the top-level wrapper (NewRor2Reader + UnmarshalRestLi, or a query parameter's reader) *)
Theorem c01_ror2_decode_roundtrip : forall fmtF parseF e wc ignore fl qr fe scope t v d fd qp,
  float_oracle_ok fmtF parseF ->
  wf_env e -> wf_ty t -> typed e t v -> enc e wc ps_empty fe scope t v = Ok d -> vsize v <= fd ->
  decode_ror2 e wc ps_empty ignore parseF (unescape (plus_of fl)) v2_empty_string v2_list_prefix qr fd qp t (render fmtF fl d)
  = DOk (expect parseF e wc ignore v fd t).
Proof. exact Ror2RoundTrip.L4_toplevel. Qed.

(* the expected value: for a type without records/unions, and for any type when the schema has no default literals, it is
   the canonical form of the original value (map entries sorted by key); with defaults, an unset field that has a default
   holds the decoded default literal (fill_spec) *)
Theorem c01_ror2_expect_noref : forall parseF e wc ignore t, noref t -> forall v, typed e t v ->
  forall fd, expect parseF e wc ignore v fd t = canon v.
Proof. exact Ror2RoundTrip.expect_canon. Qed.

Theorem c01_ror2_expect_nodefaults : forall parseF e wc ignore t v fd,
  wf_env e -> no_defaults e -> typed e t v -> expect parseF e wc ignore v fd t = canon v.
Proof. exact Ror2RoundTrip.expect_is_canon. Qed.

Theorem c01_ror2_expect_record : forall parseF e wc ignore f n incs fs ti tf, lookup e n = Some (DRecord incs fs) ->
  expect parseF e wc ignore (VRec ti tf) (S f) (TRef n) =
  VRec (eb_incs parseF e wc ignore f incs ti)
       (if own_has_default fs then fill_ parseF e wc ignore f fs (eb_flds parseF e wc ignore f fs tf)
        else eb_flds parseF e wc ignore f fs tf).
Proof. exact Ror2RoundTrip.expect_rec. Qed.

Theorem c01_ror2_fill_spec : forall parseF e wc ignore f fs vs j fd ov, nth_error fs j = Some fd -> nth_error vs j = Some ov ->
  nth_error (fill_ parseF e wc ignore f fs vs) j =
  Some (match ov, f_opt fd with None, Default lit => lit_value_ parseF e wc ignore f (f_ty fd) lit | _, _ => ov end).
Proof. exact Ror2RoundTrip.fill_spec. Qed.

Theorem c01_ror2_decode_roundtrip_nodefaults : forall fmtF parseF e wc ignore fl qr fe scope t v d fd qp,
  float_oracle_ok fmtF parseF ->
  wf_env e -> no_defaults e -> wf_ty t -> typed e t v -> enc e wc ps_empty fe scope t v = Ok d -> vsize v <= fd ->
  decode_ror2 e wc ps_empty ignore parseF (unescape (plus_of fl)) v2_empty_string v2_list_prefix qr fd qp t (render fmtF fl d)
  = DOk (canon v).
Proof. exact Ror2RoundTrip.L4_toplevel_nodefaults. Qed.

Print Assumptions c01_ror2_tables_ok.
Print Assumptions c01_ror2_unescape_escape.
Print Assumptions c01_ror2_escape_no_delim.
Print Assumptions c01_ror2_read_string.
Print Assumptions c01_ror2_read_field_name.
Print Assumptions c01_ror2_read_int.
Print Assumptions c01_ror2_primitive.
Print Assumptions c01_ror2_token_needs_delimiter.
Print Assumptions c01_ror2_roundtrip_noref.
Print Assumptions c01_ror2_roundtrip.
Print Assumptions c01_ror2_decode_roundtrip.
Print Assumptions c01_ror2_expect_noref.
Print Assumptions c01_ror2_expect_nodefaults.
Print Assumptions c01_ror2_expect_record.
Print Assumptions c01_ror2_fill_spec.
Print Assumptions c01_ror2_decode_roundtrip_nodefaults.

(* non-vacuity: the premises of the round-trip theorems are satisfiable (record with an include, optional map, default,
   array of unions) and the conclusion holds on that instance by computation *)
Example c01_ror2_nonvacuous :
  wf_env ex_env /\ wf_ty (TRef 2) /\ typed ex_env (TRef 2) ex_v /\
  exists d, enc ex_env v2_wildcard ps_empty 10 [] (TRef 2) ex_v = Ok d /\
            decode_ror2 ex_env v2_wildcard ps_empty 0 prs0 (unescape false) v2_empty_string v2_list_prefix false 30 None (TRef 2)
              (render fmt0 FPath d)
            = DOk (expect prs0 ex_env v2_wildcard 0 ex_v 30 (TRef 2)).
Proof. exact Ror2RoundTrip.ex_nonvacuous. Qed.
