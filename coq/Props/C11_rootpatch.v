(* C11 (partial updates) and C07 (a partial update touching a read-only / create-only field fails on the client before anything is
   sent; the server rejects one that carries such a field), ROOT module generation (github.com/PapaCharlie/go-restli, not .../v2).
   Only statements here; model in Codec/RootPatch.v (the X_PartialUpdate code the ROOT generator emits,
   codegen/types/record_partial_update.go, + restli/partial_update_utils.go), proofs and vocabulary in Proofs/RootPatchProofs.v:

     rtpatch e n p            p has the shape of the Go struct X_PartialUpdate of record n of the FLATTENED environment (a required field
                              has no delete flag: a partial update that deletes a required field cannot even be represented)
     rlegal e ex path n p     at every depth of nested partial updates: no field both deleted and set, set and patched, or deleted and
                              patched; no touched field excluded (ex = exclusion of the path of field names from the record)
     rtouches_excluded        some deleted / set / nested-patched field, at some depth, is excluded
     rsets_valid              the set values satisfy the union / enum constraints (first half of C11)
     rclient_ex w x path      = ps_matches w x path: the writer as KeyChecker after SetScope()
   The root spec parser flattens included records, so - unlike Props/C11_patch.v for v2 - these statements cover records WITH
   includes: every record of the flattened environment is [DRecord [] fs].  Also unlike v2, the general round trip is PROVED here
   (root_patch_body_roundtrip / root_patch_roundtrip, proofs in Proofs/RootPatchRoundTrip.v on top of the C01 value round trip).
   The model is tied to the bindings the real root generator emits for the family on every run of C11 / C07 (Corr/RootPatchCorr.v,
   harness/rootdrv/root_patch.go). *)
From Coq Require Import List Bool ZArith.
From Coq.Strings Require Import Byte.
From GR Require Import Base.Bytes Base.Res Codec.Schema Codec.Doc Codec.Tracker Codec.Encode Codec.Json Codec.Decode Codec.RootPatch
  Proofs.PathSpecProofs Proofs.ValidityProofs Proofs.ConformProofs Proofs.Ror2RoundTrip Proofs.JsonRoundTrip
  Proofs.RootPatchProofs Proofs.RootPatchRoundTrip.
Import ListNotations.

(* ---- checkAllFields / CheckField: one level ---- *)
Theorem root_check_fields_legal_iff : forall e n exc fs ds ss ns,
  lookup e n = Some (DRecord [] fs) -> rtfields e fs ds ss ns ->
  ((exists hs, root_check_fields e n exc (RPatch ds ss ns) = Ok hs) <-> rlevel_legal exc fs ds ss ns).
Proof. exact RootPatchProofs.root_check_fields_legal_iff. Qed.

Theorem root_check_fields_flags : forall e n exc fs ds ss ns hd hs,
  lookup e n = Some (DRecord [] fs) -> rtfields e fs ds ss ns ->
  root_check_fields e n exc (RPatch ds ss ns) = Ok (hd, hs) ->
  hd = existsb (fun b => b) ds /\ hs = existsb rsome ss.
Proof. exact RootPatchProofs.root_check_fields_flags. Qed.

Theorem root_check_fields_error_class : forall e n exc fs ds ss ns x,
  lookup e n = Some (DRecord [] fs) -> rtfields e fs ds ss ns ->
  root_check_fields e n exc (RPatch ds ss ns) = Err x -> x = EPatch.
Proof. exact RootPatchProofs.root_check_fields_error_class. Qed.

(* ---- encoding: accepted <-> legal, at every depth of nested partial updates ---- *)
Theorem root_patch_legal_iff : forall e w x fuel n p,
  excluded w x [root_patch_key] = false -> rtpatch e n p -> rsets_valid e n p -> rfuel_ok fuel p ->
  ((exists d, root_enc_patch e w x fuel n p = Ok d) <-> rlegal e (rclient_ex w x) [] n p).
Proof. exact RootPatchProofs.root_patch_legal_iff. Qed.

(* the direction "accepted -> legal" needs neither valid set values nor a budget, and holds below any writer scope *)
Theorem root_enc_ok_legal : forall e w x scope0 fuel path n p d,
  rtpatch e n p -> root_enc_patch_at e w x fuel (scope0 ++ path) n p = Ok d -> rlegal e (rex0 w x scope0) path n p.
Proof. exact RootPatchProofs.root_enc_ok_legal. Qed.

Theorem root_legal_enc_ok : forall e w x scope0 fuel path n p,
  rtpatch e n p -> rsets_valid e n p -> rlegal e (rex0 w x scope0) path n p -> rfuel_ok fuel p ->
  exists d, root_enc_patch_at e w x fuel (scope0 ++ path) n p = Ok d.
Proof. exact RootPatchProofs.root_legal_enc_ok. Qed.

Theorem root_enc_patch_shape : forall e w x fuel n p d,
  excluded w x [root_patch_key] = false -> root_enc_patch e w x fuel n p = Ok d -> exists body, d = DObj [(root_patch_key, body)].
Proof. exact RootPatchProofs.root_enc_patch_shape. Qed.

(* ---- C07, client ---- *)
Theorem root_excluded_patch_fails_before_send : forall e w x fuel n p,
  excluded w x [root_patch_key] = false -> rtpatch e n p -> rtouches_excluded e (rclient_ex w x) [] n p ->
  is_ok (root_enc_patch e w x fuel n p) = false.
Proof. exact RootPatchProofs.root_excluded_patch_fails_before_send. Qed.

Theorem root_excluded_touch_is_illegal_partial_update : forall e w x f n fs ds ss ns i fd d s np,
  excluded w x [root_patch_key] = false -> lookup e n = Some (DRecord [] fs) -> rtfields e fs ds ss ns ->
  nth_error fs i = Some fd -> nth_error ds i = Some d -> nth_error ss i = Some s -> nth_error ns i = Some np ->
  touched d (rsome s) (rsome np) -> rclient_ex w x [f_name fd] = true ->
  root_enc_patch e w x (S f) n (RPatch ds ss ns) = Err EPatch.
Proof. exact RootPatchProofs.root_excluded_touch_is_illegal_partial_update. Qed.

Theorem root_double_touch_is_illegal_partial_update : forall e w x f n fs ds ss ns i fd d s np,
  excluded w x [root_patch_key] = false -> lookup e n = Some (DRecord [] fs) -> rtfields e fs ds ss ns ->
  nth_error fs i = Some fd -> nth_error ds i = Some d -> nth_error ss i = Some s -> nth_error ns i = Some np ->
  ~ at_most_one d (rsome s) (rsome np) ->
  root_enc_patch e w x (S f) n (RPatch ds ss ns) = Err EPatch.
Proof. exact RootPatchProofs.root_double_touch_is_illegal_partial_update. Qed.

(* ---- the $delete list: X_PartialUpdate_Delete_Fields.UnmarshalRestLi, exactly as the generated switch ---- *)
Theorem root_delete_list_decoding : forall fs ds name,
  root_unmarshal_delete fs ds name =
  match index_of name (map f_name fs) 0 with
  | None => Ok ds
  | Some j =>
      match nth_error fs j with
      | Some fd => if is_required (f_opt fd) then Err EPatch else Ok (set_nth j true ds)
      | None => Ok ds
      end
  end.
Proof. exact RootPatchProofs.root_delete_list_decoding. Qed.

Theorem root_delete_required_rejected : forall fs ds j fd,
  NoDup (map f_name fs) -> nth_error fs j = Some fd -> is_required (f_opt fd) = true ->
  root_unmarshal_delete fs ds (f_name fd) = Err EPatch.
Proof. exact RootPatchProofs.root_delete_required_rejected. Qed.

Theorem root_delete_unknown_ignored : forall fs ds name,
  ~ In name (map f_name fs) -> root_unmarshal_delete fs ds name = Ok ds.
Proof. exact RootPatchProofs.root_delete_unknown_ignored. Qed.

Theorem root_delete_optional_sets_flag : forall fs ds j fd,
  NoDup (map f_name fs) -> nth_error fs j = Some fd -> is_required (f_opt fd) = false ->
  root_unmarshal_delete fs ds (f_name fd) = Ok (set_nth j true ds).
Proof. exact RootPatchProofs.root_delete_optional_sets_flag. Qed.

Theorem root_delete_array_with_required_rejected : forall fs items j fd,
  NoDup (map f_name fs) -> nth_error fs j = Some fd -> is_required (f_opt fd) = true ->
  In (JStr (f_name fd)) items -> forall ds tr, is_ok (root_dec_deletes fs (JArr items) ds tr) = false.
Proof. exact RootPatchProofs.root_delete_array_with_required_rejected. Qed.

Theorem root_delete_array_unknown_ignored : forall fs names ds tr,
  (forall s, In s names -> ~ In s (map f_name fs)) ->
  root_dec_deletes fs (JArr (map JStr names)) ds tr = Ok (ds, tr).
Proof. exact RootPatchProofs.root_delete_array_unknown_ignored. Qed.

(* through the whole of UnmarshalRestLiPatch, wherever the "$delete" member stands in the document *)
Theorem root_patch_delete_required_rejected : forall e w x ig pF f n fd0 fs items j fd p tr before after,
  lookup e n = Some (DRecord [] (fd0 :: fs)) -> NoDup (map f_name (fd0 :: fs)) ->
  nth_error (fd0 :: fs) j = Some fd -> is_required (f_opt fd) = true -> In (JStr (f_name fd)) items ->
  is_ok (root_dec_patch_at e w x ig pF (S f) n (JObj (before ++ (op_delete, JArr items) :: after)) p tr) = false.
Proof. exact RootPatchProofs.root_patch_delete_required_rejected. Qed.

(* ---- decoding: whatever is accepted passed checkAllFields with the reader as KeyChecker ---- *)
Theorem root_dec_accepts_only_checked : forall e w x ig pF f n fd fs jd p tr p1 tr1,
  lookup e n = Some (DRecord [] (fd :: fs)) ->
  root_dec_patch_at e w x ig pF (S f) n jd p tr = Ok (p1, tr1) ->
  exists hs, root_check_fields e n (fun k => is_key_excluded w x ig k tr1) p1 = Ok hs.
Proof. exact RootPatchProofs.root_dec_accepts_only_checked. Qed.

Theorem root_patch_illegal_rejected_on_decode : forall e w x ig pF f n fd fs jd p tr ds ss ns tr1,
  lookup e n = Some (DRecord [] (fd :: fs)) -> rtfields e (fd :: fs) ds ss ns ->
  root_dec_patch_at e w x ig pF (S f) n jd p tr = Ok (RPatch ds ss ns, tr1) ->
  rlevel_legal (fun k => is_key_excluded w x ig k tr1) (fd :: fs) ds ss ns.
Proof. exact RootPatchProofs.root_patch_illegal_rejected_on_decode. Qed.

(* ---- C07, server: leadingScopeToIgnore = 1 (partial_update, pre = []) or 3 (batch_partial_update, pre = [entities; key]);
        the reader-level facts (enterMapScope on a "$set" key / a nested key rejects iff the field is excluded relative to the record)
        are Props/C11_patch.v server_set_key_rejected_iff / server_nested_key_rejected_iff: they are about restlicodec's tracker
        only, which both generations share ---- *)
Theorem root_server_final_check : forall e w x ig pF f n fd0 fs jd p tr ds ss ns tr1,
  lookup e n = Some (DRecord [] (fd0 :: fs)) ->
  root_dec_patch_at e w x ig pF (S f) n jd p tr = Ok (RPatch ds ss ns, tr1) ->
  forall i fd d s np, nth_error (fd0 :: fs) i = Some fd -> nth_error ds i = Some d -> nth_error ss i = Some s -> nth_error ns i = Some np ->
    ((is_required (f_opt fd) = false /\ d = true) \/ s <> None \/ (root_rec_of e (f_ty fd) <> None /\ np <> None)) ->
    is_key_excluded w x ig (f_name fd) tr1 = false.
Proof. exact RootPatchProofs.root_server_final_check. Qed.

Theorem root_server_accepts_no_excluded_touch : forall e w x pF f n fd0 fs jd p tr ds ss ns tr1 pre path,
  lookup e n = Some (DRecord [] (fd0 :: fs)) ->
  root_dec_patch_at e w x (S (length pre)) pF (S f) n jd p tr = Ok (RPatch ds ss ns, tr1) ->
  t_scope tr1 = map SKey (pre ++ root_patch_key :: path) ->
  forall i fd d s np, nth_error (fd0 :: fs) i = Some fd -> nth_error ds i = Some d -> nth_error ss i = Some s -> nth_error ns i = Some np ->
    ((is_required (f_opt fd) = false /\ d = true) \/ s <> None \/ (root_rec_of e (f_ty fd) <> None /\ np <> None)) ->
    rclient_ex w x (path ++ [f_name fd]) = false.
Proof. exact RootPatchProofs.root_server_accepts_no_excluded_touch. Qed.

(* ---- round trip (no excluded fields): what MarshalRestLiPatch / MarshalRestLi write for a partial update, as the JSON tree the
        reader sees, is read back by UnmarshalRestLiPatch / UnmarshalRestLi into the same partial update - every set value with the
        schema defaults filled in (rexpect: Ror2RoundTrip.expect on the set values, as for any decoded value) - and the reader's
        scope and missing-field list are left as they were.  Premises: the float oracle and schema well-formedness of C01
        (json_float_oracle_ok, wf_env), no field called "$set" / "$delete" (names_plain), set values in the ranges of their types
        (rsets_typed: Ror2RoundTrip.typed, the typing of the C01 round trip - int32 / int64 ranges, no NaN, distinct map keys, declared
        enum constants), a decoder budget of at least rpsize p ---- *)
Theorem root_patch_body_roundtrip : forall fmtF parseF e wc ignore,
  json_float_oracle_ok fmtF parseF -> wf_env e -> names_plain e ->
  forall fe fd scope n p d tr,
    rtpatch e n p -> rsets_typed e n p ->
    root_enc_patch_at e wc ps_empty fe scope n p = Ok d ->
    rpsize p <= fd ->
    root_dec_patch_at e wc ps_empty ignore parseF fd n (to_jdoc fmtF d) (root_zero_patch e n) tr
    = Ok (rexpect parseF e wc ignore fd n p, tr).
Proof. exact RootPatchRoundTrip.root_patch_body_roundtrip. Qed.

Theorem root_patch_roundtrip : forall fmtF parseF e wc ignore,
  json_float_oracle_ok fmtF parseF -> wf_env e -> names_plain e ->
  forall fe fd n p d,
    rtpatch e n p -> rsets_typed e n p ->
    root_enc_patch e wc ps_empty fe n p = Ok d ->
    rpsize p <= fd ->
    root_finish_patch true (root_dec_patch e wc ps_empty ignore parseF fd n (to_jdoc fmtF d) tracker0)
    = Ok (rexpect parseF e wc ignore fd n p).
Proof. exact RootPatchRoundTrip.root_patch_roundtrip. Qed.

(* the premises of the round trip hold of the example below *)
Example rex_patch_roundtrip_premises : rsets_typed rrx_env 3 rex_patch.
Proof. exact RootPatchRoundTrip.rsets_typed_example. Qed.

(* ---- non-vacuity, on the flattened twin of the v2 example environment: a legal partial update on Incl2 with a delete of a field
        inherited through two includes and a nested partial update on an inherited record-typed field (the two shapes the v2
        bindings lose: Props/C11_patch.v inherited_nested_patch_dropped / transitive_delete_dropped), emitted in the
        patch / $delete / $set shape and read back; refused on the client and on the server once a touched field is excluded ---- *)
Example root_patch_roundtrip_example :
  exists d, root_enc_patch rrx_env rwc ps_empty 8 3 rex_patch = Ok d /\
            d = DObj [(root_patch_key,
                       DObj [(op_delete, DArr [DLeaf (LStr rn_s)]); (op_set, DObj [(rn_w, DLeaf (LInt 7))]);
                             (rn_dr, DObj [(op_delete, DArr [DLeaf (LStr rn_s)]); (op_set, DObj [(rn_a, DLeaf (LInt 5))])])])] /\
            root_dec_patch rrx_env rwc ps_empty 1 rno_floats 8 3 (rjv d) tracker0 = Ok (rex_patch, tracker0).
Proof. exact RootPatchProofs.root_patch_roundtrip_example. Qed.

Example rex_patch_is_legal : rtpatch rrx_env 3 rex_patch /\ rlegal rrx_env (rclient_ex rwc ps_empty) [] 3 rex_patch.
Proof. exact (conj RootPatchProofs.rex_patch_typed RootPatchProofs.rex_patch_legal). Qed.

Example root_excluded_example :
  root_enc_patch rrx_env rwc (new_pathspec [[x64; x72; x2f; x61]]) 8 3 rex_patch = Err EPatch /\
  root_enc_patch rrx_env rwc (new_pathspec [rn_dr]) 8 3 rex_patch = Err EPatch /\
  root_enc_patch rrx_env rwc (new_pathspec [rn_s]) 8 3 rex_patch = Err EPatch.
Proof. exact RootPatchProofs.root_excluded_example. Qed.

Example root_server_example :
  let body := JObj [(root_patch_key, JObj [(rn_dr, JObj [(op_set, JObj [(rn_a, JNum [x35])])])])] in
  is_ok (root_dec_patch rrx_env rwc (new_pathspec [[x64; x72; x2f; x61]]) 1 rno_floats 8 3 body tracker0) = false /\
  is_ok (root_dec_patch rrx_env rwc (new_pathspec [[x64; x72; x2f; x61]]) 3 rno_floats 8 3 body
                        {| t_scope := [SKey [x65]; SKey [x6b]]; t_missing := [] |}) = false /\
  is_ok (root_dec_patch rrx_env rwc ps_empty 1 rno_floats 8 3 body tracker0) = true /\
  root_dec_patch rrx_env rwc ps_empty 1 rno_floats 8 3 (JObj [(root_patch_key, JObj [(op_delete, JArr [JStr rn_a])])]) tracker0
    = Err EPatch /\
  root_dec_patch rrx_env rwc ps_empty 1 rno_floats 8 3 (JObj [(root_patch_key, JObj [(op_delete, JArr [JStr [x71]])])]) tracker0
    = Ok (root_zero_patch rrx_env 3, tracker0).
Proof. exact RootPatchProofs.root_server_example. Qed.

Print Assumptions root_check_fields_legal_iff.
Print Assumptions root_check_fields_flags.
Print Assumptions root_check_fields_error_class.
Print Assumptions root_patch_legal_iff.
Print Assumptions root_enc_ok_legal.
Print Assumptions root_legal_enc_ok.
Print Assumptions root_enc_patch_shape.
Print Assumptions root_excluded_patch_fails_before_send.
Print Assumptions root_excluded_touch_is_illegal_partial_update.
Print Assumptions root_double_touch_is_illegal_partial_update.
Print Assumptions root_delete_list_decoding.
Print Assumptions root_delete_required_rejected.
Print Assumptions root_delete_unknown_ignored.
Print Assumptions root_delete_optional_sets_flag.
Print Assumptions root_delete_array_with_required_rejected.
Print Assumptions root_delete_array_unknown_ignored.
Print Assumptions root_patch_delete_required_rejected.
Print Assumptions root_dec_accepts_only_checked.
Print Assumptions root_patch_illegal_rejected_on_decode.
Print Assumptions root_server_final_check.
Print Assumptions root_server_accepts_no_excluded_touch.
Print Assumptions root_patch_body_roundtrip.
Print Assumptions root_patch_roundtrip.
