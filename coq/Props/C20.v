(* C20 — Regeneration never touches files the generator does not own.
   Only statements here; proofs are in Proofs/CleanProofs.v.  The model (Gen2/Clean.v) is instantiated with the
   constants the translator re-reads from /repo on every run (Gen/TablesClean.v), for both module generations. *)
From Coq Require Import List Bool.
From Coq.Strings Require Import Byte.
From GR Require Import Base.Bytes Gen.TablesClean Gen2.Clean Proofs.CleanProofs.
Import ListNotations.

(* The statements hold for every suffix and manifest name; the two instances that matter are the constants of the
   current tree (v2: v2_generated_file_suffix / v2_manifest_file, root: root_generated_file_suffix /
   root_manifest_file), whose specificity is the table obligation further down. *)

(* Every file the generator does not own is still there, at the same path with the same content — whether or
   not the clean ran to completion (an aborted clean leaves foreign files alone as well). *)
Theorem foreign_files_preserved : forall suffix manifest dot cs p c,
  file_in cs p c -> owned suffix manifest (basename p) = false ->
  file_in (after suffix manifest (Some (dot, cs))) p c.
Proof. exact CleanProofs.foreign_files_preserved. Qed.

(* What disappears is an owned file, or a directory under which every file was owned. *)
Theorem only_owned_or_empty_removed : forall suffix manifest dot cs,
  (forall p c, file_in cs p c -> ~ file_in (after suffix manifest (Some (dot, cs))) p c ->
               owned suffix manifest (basename p) = true) /\
  (forall p, dir_in cs p -> ~ dir_in (after suffix manifest (Some (dot, cs))) p ->
     forall q c, q <> [] -> file_in cs (p ++ q) c -> owned suffix manifest (basename (p ++ q)) = true).
Proof. exact CleanProofs.only_owned_or_empty_removed. Qed.

Theorem nothing_created : forall suffix manifest dot cs,
  (forall p c, file_in (after suffix manifest (Some (dot, cs))) p c -> file_in cs p c) /\
  (forall p, dir_in (after suffix manifest (Some (dot, cs))) p -> dir_in cs p).
Proof. exact CleanProofs.nothing_created. Qed.

(* A clean that succeeds removes every owned file at every depth and leaves no empty directory. *)
Theorem success_leaves_no_owned : forall suffix manifest dot cs,
  succeeded suffix manifest (Some (dot, cs)) = true ->
  (forall p c, file_in (after suffix manifest (Some (dot, cs))) p c -> owned suffix manifest (basename p) = false) /\
  (forall p, dir_in (after suffix manifest (Some (dot, cs))) p ->
     exists q c, file_in (after suffix manifest (Some (dot, cs))) (p ++ q) c).
Proof. exact CleanProofs.success_leaves_no_owned. Qed.

Theorem clean_idempotent : forall suffix manifest dot cs,
  succeeded suffix manifest (Some (dot, cs)) = true ->
  let t1 := match fst (clean_target suffix manifest (Some (dot, cs))) with Some cs1 => Some (dot, cs1) | None => None end in
  clean_target suffix manifest t1 = (fst (clean_target suffix manifest (Some (dot, cs))), true).
Proof. exact CleanProofs.clean_idempotent. Qed.

Theorem missing_target_ok : forall suffix manifest, clean_target suffix manifest None = (None, true).
Proof. exact CleanProofs.missing_target_ok. Qed.

Theorem current_directory_kept : forall suffix manifest cs,
  exists cs', fst (clean_target suffix manifest (Some (true, cs))) = Some cs'.
Proof. exact CleanProofs.current_directory_kept. Qed.

(* Table obligations: with the constants of the current tree, a hand-written Go file, a Go test file, a JSON file and a
   file that merely contains the suffix in the middle are NOT owned; generated files and the manifest are. *)
Definition foreign_samples : list bytes :=
  [ [x63;x75;x73;x74;x6f;x6d;x2e;x67;x6f]                     (* custom.go *)
  ; [x61;x5f;x74;x65;x73;x74;x2e;x67;x6f]                     (* a_test.go *)
  ; [x61;x2e;x67;x72;x2e;x67;x6f;x2e;x62;x61;x6b]             (* a.gr.go.bak *)
  ; [x67;x72;x2e;x67;x6f]                                     (* gr.go *)
  ; [x67;x6f]                                                 (* go *)
  ; [x6d;x61;x6e;x69;x66;x65;x73;x74;x2e;x6a;x73;x6f;x6e]     (* manifest.json *)
  ; [x67;x6f;x2e;x6d;x6f;x64]                                 (* go.mod *)
  ; [x61;x2e;x67;x72;x2e;x67;x6f;x2e;x74;x6d;x70]   (* a.gr.go.tmp *)
  ; [x61;x2e;x67;x72;x2e;x67;x6f;x7e]   (* a.gr.go~ *)
  ; [x2e;x61;x2e;x67;x72;x2e;x67;x6f;x2e;x73;x77;x70]   (* .a.gr.go.swp *)
  ; [x23;x61;x2e;x67;x72;x2e;x67;x6f;x23]   (* #a.gr.go# *)
  ; [] ].
Definition owned_samples (manifest : bytes) : list bytes :=
  [ [x61;x2e;x67;x72;x2e;x67;x6f]; [x2e;x67;x72;x2e;x67;x6f]; manifest ].

Theorem v2_constants_specific :
  forallb (fun n => negb (owned v2_generated_file_suffix v2_manifest_file n)) foreign_samples = true /\
  forallb (owned v2_generated_file_suffix v2_manifest_file) (owned_samples v2_manifest_file) = true /\
  is_generated v2_generated_file_suffix v2_manifest_file = false.
Proof. vm_compute. auto. Qed.

Theorem root_constants_specific :
  forallb (fun n => negb (owned root_generated_file_suffix root_manifest_file n)) foreign_samples = true /\
  forallb (owned root_generated_file_suffix root_manifest_file) (owned_samples root_manifest_file) = true /\
  is_generated root_generated_file_suffix root_manifest_file = false.
Proof. vm_compute. auto. Qed.

(* Non-vacuity: a tree with a foreign file beside generated ones; the clean succeeds, keeps it, removes the rest. *)
Example c20_nonvacuous :
  let gen := [x61;x2e;x67;x72;x2e;x67;x6f] in
  let usr := [x63;x2e;x67;x6f] in
  let d := [x64] in
  let t := [Dir d [File gen []; Dir d [File gen []]]; File usr [x01]; File gen []] in
  clean_target v2_generated_file_suffix v2_manifest_file (Some (false, t)) = (Some [File usr [x01]], true).
Proof. vm_compute. reflexivity. Qed.

Print Assumptions foreign_files_preserved.
Print Assumptions only_owned_or_empty_removed.
Print Assumptions nothing_created.
Print Assumptions success_leaves_no_owned.
Print Assumptions clean_idempotent.
Print Assumptions missing_target_ok.
Print Assumptions current_directory_kept.
Print Assumptions v2_constants_specific.
Print Assumptions root_constants_specific.
