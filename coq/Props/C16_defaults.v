(* C16, record keys with schema defaults.  Statements only; proofs in Proofs/KeySetDefaults.v.

   Props/C16.v states re-keying over ABSTRACT decoded keys: [locate_returns_original] has the premise
   [equalsV e f t o k = true] (the decoded reply key k is key-equal to the caller's key o), and [response_filed_under_original]
   assumes [fill ... = inr m] (the reply was accepted) for an arbitrary [decode_key].  Neither says that the echo of a requested key
   decodes to a key that is key-equal to it.  With the codec of the current tree it does not: the echoed key is decoded by the
   generated UnmarshalRestLi, which fills the schema defaults of unset fields in (C01: decode (encode k) = expect k), so a caller's
   record key that leaves a defaulted field unset is not Equal to its own echo, LocateOriginalKey fails, and a reply that mentions
   requested keys only is rejected ("Unknown key returned by batch method").

   Here the statement is made over the codec instances the correspondence check uses (Corr/KeySetCorr.v: query/header ROR2 writer,
   NewRor2Reader + UnmarshalRestLi), without the key-equality premise: it is refuted by a concrete key, and proved under the side
   condition that every key is default-complete. *)
From Coq Require Import List Bool Arith ZArith NArith Permutation.
From Coq.Strings Require Import Byte.
From GR Require Import Base.Bytes Base.Res Base.Dec Codec.Schema Codec.Doc Codec.Escape Codec.Tracker Codec.Render Codec.Encode
  Codec.Decode Gen.TablesCodec Gen.TablesFnv Hash.Fnv Hash.Equals Hash.HashSpec Hash.KeySet
  Proofs.KeySetProofs Proofs.KeySetInst Proofs.Ror2RoundTrip Proofs.JsonRoundTrip Proofs.KeySetDefaults Corr.CodecCorr Corr.KeySetCorr.
Import ListNotations.

(* the decoding of a raw reply key is the correspondence model's, with the float oracle and the fuel as parameters *)
Theorem key_decode_is_model : forall ce (c : case) raw,
  KeySetCorr.decode_key ce c raw = key_decode (lookup_parse (c_parse c)) ce fuel0 (c_ty c) raw.
Proof. reflexivity. Qed.
Print Assumptions key_decode_is_model.

(* ---- the statement without the key-equality premise.  For every schema (as the codec sees it: ce, t; as Equals / ComputeHash see
   it: he, ht), every list ks of well-formed keys of the key type that AddAllKeys accepts (no two are key-equal), and every reply map
   that mentions exactly the requested keys (in any order ks', each under its echo - the text BatchResponse.MarshalRestLi writes for
   it with the ROR2 header writer - with payloads ps): UnmarshalWithKeyLocator's re-keying succeeds and files every entry, in order,
   under the caller's original key. *)
Definition reply_of_requested_keys_accepted_full : Prop :=
  forall (fmtF : bool -> N -> bytes) (parseF : nat -> bytes -> option N) (ce : env) (t : ty) (he : henv) (ht : hty)
         (f fe fd : nat) (P : Type) (ks ks' : list value) (s : kset value) (ps : list P),
  float_oracle_ok fmtF parseF -> wf_env ce -> wf_ty t ->
  Forall (key_ok ce t he ht f fe fd) ks ->
  add_all value (shash he f ht) (skeq he f ht) (empty_g value) ks = Some s ->
  Permutation ks ks' -> length ps = length ks' ->
  fill value (shash he f ht) (skeq he f ht) (key_decode parseF ce fd t) P s []
       (combine (map (echo_key fmtF ce fe t) ks') (map Some ps)) = inr (combine ks' ps).

(* ---- the witness: key type  record { d : int = 42, r : int }  and the single key {r: 1} (d left unset).  It is sent as (r:1), echoed
   as (r:1), decoded as {d: 42, r: 1}, which is not Equal to {r: 1}: UnknownKey. *)
(* w_ce  := [DRecord [] [{d : int, Default "42"}; {r : int, Required}]]       (Proofs/KeySetDefaults.v)
   w_he  := [HRecord [] [{HPrim PInt, pointer}; {HPrim PInt, value}]]
   w_key := VRec [] [None; Some (VInt 1)]
   w_set := the generic set holding w_key in the bucket of its hash *)
Theorem echo_of_unset_default_is_unknown_key :
  wf_env w_ce /\ key_ok w_ce (TRef 0) w_he (HRef 0) 8 8 8 w_key /\
  add_all value (shash w_he 8 (HRef 0)) (skeq w_he 8 (HRef 0)) (empty_g value) [w_key] = Some w_set /\
  echo_key toy_fmt w_ce 8 (TRef 0) w_key = [x28; x72; x3a; x31; x29] /\
  key_decode toy_parse w_ce 8 (TRef 0) [x28; x72; x3a; x31; x29] = Some (VRec [] [Some (VInt 42); Some (VInt 1)]) /\
  skeq w_he 8 (HRef 0) w_key (VRec [] [Some (VInt 42); Some (VInt 1)]) = false /\
  fill value (shash w_he 8 (HRef 0)) (skeq w_he 8 (HRef 0)) (key_decode toy_parse w_ce 8 (TRef 0)) unit w_set []
       (combine (map (echo_key toy_fmt w_ce 8 (TRef 0)) [w_key]) (map Some [tt])) = inl UnknownKey.
Proof. exact KeySetDefaults.witness_unknown_key. Qed.
Print Assumptions echo_of_unset_default_is_unknown_key.

Theorem reply_of_requested_keys_accepted_full_refuted : ~ reply_of_requested_keys_accepted_full.
Proof.
  intros H. destruct echo_of_unset_default_is_unknown_key as (Hwe & Hok & Hadd & _ & _ & _ & Hfill).
  specialize (H toy_fmt toy_parse w_ce (TRef 0) w_he (HRef 0) 8 8 8 unit [w_key] [w_key] w_set [tt]
                toy_oracle_ror2 Hwe I (Forall_cons _ Hok (Forall_nil _)) Hadd (Permutation_refl _) eq_refl).
  rewrite Hfill in H. discriminate H.
Qed.
Print Assumptions reply_of_requested_keys_accepted_full_refuted.

(* ---- the positive companion: the statement holds when every key is default-complete (no field that has a schema default is
   unset, at any depth).  The decoded echo is then the canonical form of the key (map entries sorted), which is key-equal to it. *)
Theorem reply_of_requested_keys_accepted_partial :
  forall (fmtF : bool -> N -> bytes) (parseF : nat -> bytes -> option N) (ce : env) (t : ty) (he : henv) (ht : hty)
         (f fe fd : nat) (P : Type) (ks ks' : list value) (s : kset value) (ps : list P),
  float_oracle_ok fmtF parseF -> wf_env ce -> wf_ty t ->
  Forall (key_ok ce t he ht f fe fd) ks ->
  Forall (default_complete ce t) ks ->
  add_all value (shash he f ht) (skeq he f ht) (empty_g value) ks = Some s ->
  Permutation ks ks' -> length ps = length ks' ->
  fill value (shash he f ht) (skeq he f ht) (key_decode parseF ce fd t) P s []
       (combine (map (echo_key fmtF ce fe t) ks') (map Some ps)) = inr (combine ks' ps).
Proof. exact simple_reply_of_requested_keys_accepted. Qed.
Print Assumptions reply_of_requested_keys_accepted_partial.

(* the two lemmas it rests on: the decoded echo of a default-complete key is its canonical form; a key and its canonical form are
   key-equal *)
Theorem echo_of_default_complete_key_decodes_to_canon : forall fmtF parseF ce t fe fd k,
  float_oracle_ok fmtF parseF -> wf_env ce -> wf_ty t -> typed ce t k -> vsize k <= fd ->
  (exists d, enc ce v2_wildcard ps_empty fe [] t k = Ok d) -> default_complete ce t k ->
  key_decode parseF ce fd t (echo_key fmtF ce fe t k) = Some (canon k).
Proof. exact echo_decodes_canon. Qed.
Print Assumptions echo_of_default_complete_key_decodes_to_canon.

Theorem key_equals_its_canonical_form : forall he f ht k, sgood he f ht k ->
  sgood he f ht (canon k) /\ equalsV he f ht k (canon k) = true.
Proof. exact canon_key_equal. Qed.
Print Assumptions key_equals_its_canonical_form.

(* non-vacuity of the positive theorem: the same key type, the two keys {d: 42, r: 1} and {d: 7, r: 1} (default-complete), a reply
   that lists them in the other order: both premises hold and the entries are filed under the caller's keys *)
Example reply_of_requested_keys_accepted_nonvacuous :
  let k1 := VRec [] [Some (VInt 42); Some (VInt 1)] in let k2 := VRec [] [Some (VInt 7); Some (VInt 1)] in
  Forall (key_ok w_ce (TRef 0) w_he (HRef 0) 8 8 8) [k1; k2] /\ Forall (default_complete w_ce (TRef 0)) [k1; k2] /\
  exists s, add_all value (shash w_he 8 (HRef 0)) (skeq w_he 8 (HRef 0)) (empty_g value) [k1; k2] = Some s /\
    fill value (shash w_he 8 (HRef 0)) (skeq w_he 8 (HRef 0)) (key_decode toy_parse w_ce 8 (TRef 0)) nat s []
      (combine (map (echo_key toy_fmt w_ce 8 (TRef 0)) [k2; k1]) (map Some [20; 10])) = inr [(k2, 20); (k1, 10)].
Proof. exact KeySetDefaults.partial_nonvacuous. Qed.
