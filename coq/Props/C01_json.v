(* C01 - codec round trip, JSON part (statements only; proofs in Proofs/JsonRoundTrip.v).
   Reading back, with the strict JSON parser (Codec/Json.parse_json, standing for the lexer) and the generated unmarshalers
   (decJ / decode_json), the rendering (render_json: compactJsonWriter and prettyJsonWriter with jwriter's escaper) of an encoded
   value (enc) gives the value back - the SAME value (Ror2RoundTrip.expect) the ROR2 reader returns for the ROR2 rendering.
     J1 tree level   c01_json_tree_roundtrip        decJ on the JSON tree a document denotes (to_jdoc)
     J2/J3 bytes     c01_json_parse_render          parse_json (render_json fmtF pretty 0 d) = Some (to_jdoc fmtF d), both writers
     J4 top level    c01_json_roundtrip             decode_json (render_json ...) = DOk (expect ...)
   Floats are external: json_float_oracle_ok lists the strconv facts used (trusted; shown satisfiable by a toy instance).
   Strings, map keys and schema names must be valid UTF-8: without that premise the statement is false of the code (the writer
   replaces ill-formed bytes by U+FFFD) - c01_json_roundtrip_full / _refuted. *)
From Coq Require Import List Bool ZArith NArith.
From Coq.Strings Require Import Byte.
From GR Require Import Base.Bytes Base.Res Base.Dec Codec.Schema Codec.Doc Codec.Escape Codec.Utf8 Codec.Json Codec.Tracker
  Codec.Render Codec.Encode Codec.Decode Gen.TablesCodec Proofs.ConformProofs Proofs.Ror2RoundTrip Proofs.JsonRoundTrip.
Import ListNotations.

(* ---- lexical layer ---- *)
(* WriteBytes (one code point below 256 per byte) is inverted by the reader, for every byte string *)
Theorem c01_json_latin1 : forall s, latin1_decode (S (length (latin1_utf8 s))) (latin1_utf8 s) = Some s.
Proof. exact JsonRoundTrip.latin1_roundtrip. Qed.

(* jwriter's escaper against the parser's escape handling: every valid UTF-8 string is read back *)
Theorem c01_json_string : forall s rest, valid_utf8 s = true ->
  parse_string_body (S (length (json_str_body (S (length s)) s ++ x22 :: rest))) (json_str_body (S (length s)) s ++ x22 :: rest)
  = Some (s, rest).
Proof. exact JsonRoundTrip.json_string_parses. Qed.

(* the text of an integer is a JSON number that the parser reads back entirely *)
Theorem c01_json_integer : forall z rest, ends_number rest -> parse_number (print_dec z ++ rest) = Some (print_dec z, rest).
Proof. exact JsonRoundTrip.print_dec_number. Qed.

(* the premise on float text can be checked by running the parser on the text alone *)
Theorem c01_json_number_text : forall t, json_number_text t = true -> json_number_ok t.
Proof. exact JsonRoundTrip.json_number_text_ok. Qed.

(* ---- J1: the tree level, all schemas and values, any position ---- *)
Theorem c01_json_tree_roundtrip : forall fmtF parseF e wc ignore,
  (forall b, (b < 2 ^ 64)%N -> classify_float false b <> FNaN -> parseF 0 (float_text fmtF false b) = Some b) ->
  (forall b, (b < 2 ^ 32)%N -> classify_float true b <> FNaN -> parseF 2 (float_text fmtF true b) = Some b) ->
  wf_env e ->
  forall fe scope t v d fd top tr,
  wf_ty t -> typed e t v -> enc e wc ps_empty fe scope t v = Ok d -> vsize v <= fd -> (top = false \/ t_missing tr = []) ->
  decJ e wc ps_empty ignore parseF fd top t (to_jdoc fmtF d) tr = Ok (expect parseF e wc ignore v fd t, tr).
Proof. exact JsonRoundTrip.json_tree_roundtrip. Qed.

Theorem c01_json_tree_roundtrip_top : forall fmtF parseF e wc ignore fe scope t v d fd,
  json_float_oracle_ok fmtF parseF ->
  wf_env e -> wf_ty t -> typed e t v -> enc e wc ps_empty fe scope t v = Ok d -> vsize v <= fd ->
  exists tr, decJ e wc ps_empty ignore parseF fd true t (to_jdoc fmtF d) tracker0 = Ok (expect parseF e wc ignore v fd t, tr)
             /\ t_missing tr = [].
Proof. exact JsonRoundTrip.json_tree_roundtrip_top. Qed.

(* ---- J2 (pretty = false) and J3 (pretty = true): the bytes parse to the tree; this is C03's json_parse_render_full ---- *)
Theorem c01_json_parse_render : forall fmtF,
  (forall is32 b, classify_float is32 b = FFinite -> json_number_ok (fmtF is32 b)) ->
  forall pretty d, doc_utf8 d -> parse_json (render_json fmtF pretty 0 d) = Some (to_jdoc fmtF d).
Proof. exact JsonRoundTrip.parse_render_json. Qed.

(* valid UTF-8 in the schema (field names, aliases, enum symbols) and in the value (strings, map keys) gives a valid document *)
Theorem c01_json_enc_utf8 : forall e wc fe scope t v d,
  env_utf8 e -> ty_utf8 t -> val_utf8 v -> enc e wc ps_empty fe scope t v = Ok d -> doc_utf8 d.
Proof. exact JsonRoundTrip.enc_doc_utf8. Qed.

(* ---- J4: NewJsonReader + UnmarshalRestLi on the writer's output ---- *)
Theorem c01_json_decode_roundtrip : forall fmtF parseF e wc ignore fe scope t v d fd pretty,
  json_float_oracle_ok fmtF parseF ->
  wf_env e -> wf_ty t -> typed e t v -> enc e wc ps_empty fe scope t v = Ok d -> vsize v <= fd -> doc_utf8 d ->
  decode_json e wc ps_empty ignore parseF fd t (render_json fmtF pretty 0 d) = DOk (expect parseF e wc ignore v fd t).
Proof. exact JsonRoundTrip.decode_json_roundtrip. Qed.

Theorem c01_json_roundtrip : forall fmtF parseF e wc ignore fe scope t v d fd pretty,
  json_float_oracle_ok fmtF parseF ->
  wf_env e -> wf_ty t -> typed e t v -> env_utf8 e -> ty_utf8 t -> val_utf8 v ->
  enc e wc ps_empty fe scope t v = Ok d -> vsize v <= fd ->
  decode_json e wc ps_empty ignore parseF fd t (render_json fmtF pretty 0 d) = DOk (expect parseF e wc ignore v fd t).
Proof. exact JsonRoundTrip.json_roundtrip. Qed.

(* without default literals in the schema the decoded value is the canonical form of the original (map entries sorted) *)
Theorem c01_json_roundtrip_nodefaults : forall fmtF parseF e wc ignore fe scope t v d fd pretty,
  json_float_oracle_ok fmtF parseF ->
  wf_env e -> no_defaults e -> wf_ty t -> typed e t v -> env_utf8 e -> ty_utf8 t -> val_utf8 v ->
  enc e wc ps_empty fe scope t v = Ok d -> vsize v <= fd ->
  decode_json e wc ps_empty ignore parseF fd t (render_json fmtF pretty 0 d) = DOk (canon v).
Proof. exact JsonRoundTrip.json_roundtrip_nodefaults. Qed.

(* both wire formats decode to the same value *)
Theorem c01_json_ror2_same_value : forall fmtF parseF e wc ignore fl qr fe scope t v d fd qp pretty,
  float_oracle_ok fmtF parseF -> json_float_oracle_ok fmtF parseF ->
  wf_env e -> wf_ty t -> typed e t v -> env_utf8 e -> ty_utf8 t -> val_utf8 v ->
  enc e wc ps_empty fe scope t v = Ok d -> vsize v <= fd ->
  decode_json e wc ps_empty ignore parseF fd t (render_json fmtF pretty 0 d) =
  decode_ror2 e wc ps_empty ignore parseF (unescape (plus_of fl)) v2_empty_string v2_list_prefix qr fd qp t
    (render_ror2 fmtF v2_hex_chars v2_unescaped_path_chars v2_unescaped_query_chars v2_header_escaped_chars
       v2_empty_string v2_list_prefix fl d).
Proof. exact JsonRoundTrip.json_ror2_same_value. Qed.

(* the float premises are jointly satisfiable (toy strconv: the bit pattern in decimal), for both formats *)
Theorem c01_json_oracle_consistent : json_float_oracle_ok toy_fmt toy_parse /\ float_oracle_ok toy_fmt toy_parse.
Proof. exact (conj JsonRoundTrip.json_float_oracle_consistent JsonRoundTrip.toy_oracle_ror2). Qed.

(* ---- the full statement (no UTF-8 premise) is false of the code ---- *)
Definition c01_json_roundtrip_full : Prop :=
  forall fmtF parseF e wc ignore fe scope t v d fd pretty,
  json_float_oracle_ok fmtF parseF ->
  wf_env e -> wf_ty t -> typed e t v -> enc e wc ps_empty fe scope t v = Ok d -> vsize v <= fd ->
  decode_json e wc ps_empty ignore parseF fd t (render_json fmtF pretty 0 d) = DOk (expect parseF e wc ignore v fd t).

(* witness: the one-byte string FF comes back as U+FFFD (EF BF BD), with both writers and whatever the float oracle *)
Theorem c01_json_roundtrip_refuted :
  exists e wc ignore fe scope t v d fd,
    wf_env e /\ wf_ty t /\ typed e t v /\ enc e wc ps_empty fe scope t v = Ok d /\ vsize v <= fd /\
    forall fmtF parseF pretty,
      decode_json e wc ps_empty ignore parseF fd t (render_json fmtF pretty 0 d) <> DOk (expect parseF e wc ignore v fd t).
Proof. exact JsonRoundTrip.json_roundtrip_refuted. Qed.

Theorem c01_json_roundtrip_full_false : ~ c01_json_roundtrip_full.
Proof. exact JsonRoundTrip.json_roundtrip_full_false. Qed.

Theorem c01_json_bad_string_witness : forall fmtF parseF pretty,
  decode_json [] [] ps_empty 0 parseF 1 (TPrim PString) (render_json fmtF pretty 0 (DLeaf (LStr [xff]))) = DOk (VStr [xef; xbf; xbd]).
Proof. exact JsonRoundTrip.bad_str_decodes. Qed.

Theorem c01_json_bad_key_witness :
  decode_json [] [] ps_empty 0 toy_parse 3 (TMap (TPrim PInt))
    (render_json toy_fmt false 0 (DObj [([xc3], DLeaf (LInt 1))])) = DOk (VMap [([xef; xbf; xbd], VInt 1)]).
Proof. exact JsonRoundTrip.bad_key_decodes. Qed.

(* non-vacuity: record with an include, optional map, default (filled with 42), array of unions; compact and pretty *)
Example c01_json_nonvacuous :
  exists d, enc ex_env [] ps_empty 10 [] (TRef 2) ex_v = Ok d /\ doc_utf8 d /\
    decode_json ex_env [] ps_empty 0 toy_parse 30 (TRef 2) (render_json toy_fmt false 0 d)
      = DOk (expect toy_parse ex_env [] 0 ex_v 30 (TRef 2)) /\
    decode_json ex_env [] ps_empty 0 toy_parse 30 (TRef 2) (render_json toy_fmt true 0 d)
      = DOk (expect toy_parse ex_env [] 0 ex_v 30 (TRef 2)).
Proof. exact JsonRoundTrip.json_nonvacuous. Qed.

Print Assumptions c01_json_latin1.
Print Assumptions c01_json_string.
Print Assumptions c01_json_integer.
Print Assumptions c01_json_number_text.
Print Assumptions c01_json_tree_roundtrip.
Print Assumptions c01_json_tree_roundtrip_top.
Print Assumptions c01_json_parse_render.
Print Assumptions c01_json_enc_utf8.
Print Assumptions c01_json_decode_roundtrip.
Print Assumptions c01_json_roundtrip.
Print Assumptions c01_json_roundtrip_nodefaults.
Print Assumptions c01_json_ror2_same_value.
Print Assumptions c01_json_oracle_consistent.
Print Assumptions c01_json_roundtrip_refuted.
Print Assumptions c01_json_roundtrip_full_false.
Print Assumptions c01_json_bad_string_witness.
Print Assumptions c01_json_bad_key_witness.
Print Assumptions c01_json_nonvacuous.
