(* C17 - Shared objects are safe for concurrent use and requests do not interfere.     (PARTIAL, DESIGN.md section 7)

   Only statements here; proofs are in Proofs/FootprintProofs.v; the model is Conc/Footprint.v: an access-logging
   interpretation of Http/Router.v (route_root / receive / exec), D2/Announce.v (handle_uri_update with its write log)
   and transcriptions of chooseHost, the client call and the custom-typeref registry.

   WHAT IS DECIDED BY PROOF: non-interference of the MODELLED accesses, for all trees, requests, filter lists,
   resource behaviours (shared error / success objects included), handler copies, histories of D2 events and all
   interleavings.
   WHAT IS NOT: that the real Go program performs exactly the modelled accesses, and the Go memory model / scheduler /
   race detector's happens-before themselves.  Data-race freedom of the real program is a runtime fact; it is TESTED by
   the race-detector runs of harness/cmd/c17 (N concurrent mixed requests / client calls / resolutions / registry
   operations under varying GOMAXPROCS), which is what connects [footprint] to the code.  [full_statement] below spells
   the gap out: race freedom is proved GIVEN adequacy of the footprints ([race_free_given_adequacy]); adequacy is
   an assumption validated only by test.  A race inside user code (a Filter, a resource method) is out of scope. *)
From Coq Require Import List Bool Arith NArith Lia.
From Coq.Strings Require Import Byte.
From GR Require Import Base.Bytes Gen.TablesRouter Http.Router Http.RouterHeap Conc.Footprint Proofs.FootprintProofs.
From GR Require D2.Announce Proofs.AnnounceProofs Proofs.RouterHeapProofs.
Import ListNotations.

(* The instrumented walk is Router.receive: logging changes no routing decision. *)
Theorem footprint_route_is_router : forall o r fuel p at_ ps ks rem req,
  fst (receive_fp o r fuel p at_ ps ks rem req) = receive fuel p ps ks rem req.
Proof. exact FootprintProofs.receive_fp_route. Qed.

(* Every write of serving a request - through any Handler() copy, any tree, any filters, whatever the resource returns -
   is a plain write to a cell allocated by that request (RequestContext, response header map, per-request readers and
   writers, its own error objects).  Stronger than "or a cell owned by the resource implementation": the library never
   writes the resource's objects. *)
Theorem handler_steps_request_local : forall k r s fs beh req a,
  In a (serve_fp current k r s fs beh req) -> a_write a = true -> exists p, a_cell a = CReq r p.
Proof. exact FootprintProofs.handler_steps_request_local. Qed.

(* ... and every other cell it touches is only READ: the tree of its own handler copy, the method-name table, the error
   or success object the resource returned. *)
Theorem handler_shared_reads_only : forall k r s fs beh req a,
  In a (serve_fp current k r s fs beh req) -> (forall p, a_cell a <> CReq r p) ->
  a_write a = false /\ a_sync a = Plain /\ serve_ro (Copy k) (a_cell a).
Proof. exact FootprintProofs.handler_shared_reads_only. Qed.

(* Data-race freedom of the model.  Two operations of different requests / goroutines - a request, a client call, a
   host selection on a snapshot published before the concurrent update started, a URI update (one updater at a time:
   go-restli runs one goroutine per cluster), a registry lookup or registration - never conflict. *)
Theorem no_conflict : forall n r1 r2 o1 o2 a b,
  r1 <> r2 -> op_ok n o1 -> op_ok n o2 -> ~ (is_update o1 = true /\ is_update o2 = true) ->
  In a (footprint current r1 o1) -> In b (footprint current r2 o2) -> ~ conflict a b.
Proof. exact FootprintProofs.no_conflict. Qed.

Theorem requests_no_conflict : forall r1 r2 k1 k2 s1 s2 fs1 fs2 beh1 beh2 req1 req2 a b,
  r1 <> r2 ->
  In a (serve_fp current k1 r1 s1 fs1 beh1 req1) -> In b (serve_fp current k2 r2 s2 fs2 beh2 req2) -> ~ conflict a b.
Proof. exact FootprintProofs.requests_no_conflict. Qed.

(* A request served through a Handler() copy never conflicts with a registration made on the live server meanwhile ... *)
Theorem registration_vs_handler : forall k r s fs beh req segs a b,
  In a (serve_fp current k r s fs beh req) -> In b (register_fp segs) -> ~ conflict a b.
Proof. exact FootprintProofs.registration_vs_handler. Qed.

(* ... the cells of a copy ARE different cells: at heap level (Http/RouterHeap.v) every Handler() copy's nodes are
   disjoint from the live tree's, in every reachable world. *)
Theorem handler_copies_disjoint_from_live : forall ops prefix hw,
  (forall segs w, In (OpRegister segs w) ops -> segs <> []) ->
  hrun ops (new_hworld prefix) = Some hw ->
  exists t F, RouterHeapProofs.rep (hw_heap hw) (hw_root hw) t F /\
    Forall (fun l => exists t' F', RouterHeapProofs.rep (hw_heap hw) l t' F' /\ RouterHeapProofs.disjoint F' F)
           (hw_handlers hw).
Proof. exact FootprintProofs.handler_copies_disjoint_from_live. Qed.

(* Serial equivalence, general form: threads whose accesses never interfere; any interleaving ([interleave]: each
   thread's steps in order, to the end); every thread reads the values of its isolated run and every cell it touches
   ends as in its isolated run. *)
Theorem noninterference_serial : forall ps sched,
  interleave ps sched ->
  (forall i j a b, i <> j -> In a (map fst (nth i ps [])) -> In b (map fst (nth j ps [])) -> ~ interfere a b) ->
  forall m0 i,
    snd (run_sched sched (init m0)) i = snd (alone i (nth i ps []) (init m0)) i /\
    forall a, In a (map fst (nth i ps [])) ->
      fst (run_sched sched (init m0)) (a_cell a) = fst (alone i (nth i ps []) (init m0)) (a_cell a).
Proof. exact FootprintProofs.noninterference_serial. Qed.

(* Serial equivalence for N requests (request i = thread i): ANY programs whose accesses are the footprints of serving
   the N requests, ANY interleaving, ANY initial memory: the per-request outcome (everything it reads; the final
   contents of its response status / headers / body cells) is that of serving it alone.  No leakage between requests. *)
Theorem serial_equivalence : forall (jobs : list job) (ps : list (list step)) sched,
  length ps = length jobs ->
  (forall i j, nth_error jobs i = Some j -> map fst (nth i ps []) = job_fp i j) ->
  interleave ps sched ->
  forall m0 i,
    snd (run_sched sched (init m0)) i = snd (alone i (nth i ps []) (init m0)) i /\
    forall a, In a (map fst (nth i ps [])) ->
      fst (run_sched sched (init m0)) (a_cell a) = fst (alone i (nth i ps []) (init m0)) (a_cell a).
Proof. exact FootprintProofs.serial_equivalence. Qed.

(* D2 snapshots are copy-on-write, in access terms: cut any history of URI events anywhere; every plain write the rest
   of the history performs targets a cell that did not exist at the cut (contents: C19's snapshots_immutable). *)
Theorem d2_snapshots_cow : forall h1 h2 w0 s0 w1 s1,
  (w0 < length (Announce.heap s0))%nat ->
  Announce.run h1 w0 s0 = Announce.Done (w1, s1) ->
  forall a, In a (history_fp h2 w1 s1) -> a_write a = true -> a_sync a = Plain ->
    exists x, a_cell a = CSnap x /\ (length (Announce.heap s1) <= x)%nat.
Proof. exact FootprintProofs.d2_snapshots_cow. Qed.

(* Hence a host selection on any snapshot that existed at the cut never conflicts with what the updater does later. *)
Theorem old_snapshot_readers_never_conflict : forall h1 h2 w0 s0 w1 s1 w k a b,
  (w0 < length (Announce.heap s0))%nat ->
  Announce.run h1 w0 s0 = Announce.Done (w1, s1) ->
  (w < length (Announce.heap s1))%nat ->
  In a (resolve_fp current w k) -> In b (history_fp h2 w1 s1) -> ~ conflict a b.
Proof. exact FootprintProofs.old_snapshot_readers_never_conflict. Qed.

(* Every access to the rand state, in every operation, holds rngLock. *)
Theorem rng_locked : forall r o a, In a (footprint current r o) -> a_cell a = CRng -> a_sync a = Locked rng_lock.
Proof. exact FootprintProofs.rng_locked. Qed.

(* Every access to the custom-typeref registry, in every operation, is one sync.Map step; lookup and registration are
   single steps. *)
Theorem registry_atomic : forall r o a, In a (footprint current r o) -> a_cell a = CRegistry -> a_sync a = Atomic.
Proof. exact FootprintProofs.registry_atomic. Qed.

Theorem registry_single_step : length reg_lookup_fp = 1%nat /\ length reg_register_fp = 1%nat /\
  Forall (fun a => a_cell a = CRegistry /\ a_sync a = Atomic) (reg_lookup_fp ++ reg_register_fp).
Proof. exact FootprintProofs.registry_single_step. Qed.

(* ---- the model is sensitive: the pinned code's defects, and two careless edits, make no_conflict false ------------ *)

(* D24 as pinned (errRes.Message defaulted in place): two requests that get the same error object conflict. *)
Theorem shared_error_inplace_would_conflict :
  exists a b,
    In a (serve_fp inplace 0 1 one_root [] (BErr 7 true) get_a1) /\
    In b (serve_fp inplace 0 2 one_root [] (BErr 7 true) get_a1) /\ conflict a b.
Proof. exact FootprintProofs.shared_error_inplace_would_conflict. Qed.

(* D31 as pinned (rng.Float64() without the lock): any two host selections conflict. *)
Theorem unlocked_rng_would_conflict : forall w k1 k2, (0 < k1)%nat -> (0 < k2)%nat ->
  exists a b, In a (resolve_fp unlocked w k1) /\ In b (resolve_fp unlocked w k2) /\ conflict a b.
Proof. exact FootprintProofs.unlocked_rng_would_conflict. Qed.

(* Handler() sharing its tree with the live server: a request conflicts with a later registration. *)
Theorem shared_tree_would_conflict :
  exists a b,
    In a (serve_fp shallow 0 1 one_root [] (BOk None) get_a1) /\
    In b (register_fp [([x61], true)]) /\ conflict a b.
Proof. exact FootprintProofs.shared_tree_would_conflict. Qed.

(* Per-request state in a rootNode field: two requests conflict. *)
Theorem root_state_would_conflict :
  exists a b,
    In a (serve_fp rootstate 0 1 one_root [] (BOk None) get_a1) /\
    In b (serve_fp rootstate 0 2 one_root [] (BOk None) get_a1) /\ conflict a b.
Proof. exact FootprintProofs.root_state_would_conflict. Qed.

(* EncodeTunnelledQuery assembling bodies in a recycled package-level buffer and handing out a slice of it: any two
   client calls conflict (one still reads its request body while the other writes its own) ... *)
Theorem pooled_tunnel_buffer_would_conflict : forall c1 c2 r1 r2 res1 res2,
  exists a b, In a (call_fp pooled c1 r1 res1) /\ In b (call_fp pooled c2 r2 res2) /\ conflict a b.
Proof. exact FootprintProofs.pooled_tunnel_buffer_would_conflict. Qed.

(* ... on the current code the buffer is allocated per call: no operation touches a shared tunnel buffer. *)
Theorem tunnel_buffer_is_private : forall r o a, In a (footprint current r o) -> a_cell a <> CTunnelBuf.
Proof. exact FootprintProofs.tunnel_buffer_is_private. Qed.

(* A RequiredFields object (the package-level XxxRequiredFields of every generated record) that builds a field index IN
   PLACE, unsynchronised, when a record is first read with it: any two client calls conflict (each decodes a response
   record), and so do any two requests that reach their resource method ... *)
Theorem lazy_required_index_would_conflict : forall c1 c2 r1 r2 res1 res2,
  exists a b, In a (call_fp lazyidx c1 r1 res1) /\ In b (call_fp lazyidx c2 r2 res2) /\ conflict a b.
Proof. exact FootprintProofs.lazy_required_index_would_conflict. Qed.

Theorem lazy_required_index_requests_would_conflict :
  exists a b,
    In a (serve_fp lazyidx 0 1 one_root [] (BOk None) get_a1) /\
    In b (serve_fp lazyidx 0 2 one_root [] (BOk None) get_a1) /\ conflict a b.
Proof. exact FootprintProofs.lazy_required_index_requests_would_conflict. Qed.

(* ... on the current code every operation only reads RequiredFields objects (plain reads of objects that are complete since
   package initialisation), and requests and calls do read them.  THAT THE REAL OBJECTS ARE COMPLETE WHEN FIRST SHARED is not
   decided here: it is what the fresh-state bursts of harness/cmd/c17 (burst.go) test. *)
Theorem required_fields_read_only : forall r o a,
  In a (footprint current r o) -> a_cell a = CReqFields -> a_write a = false /\ a_sync a = Plain.
Proof. exact FootprintProofs.required_fields_read_only. Qed.

Theorem required_fields_are_read :
  In (rd CReqFields) (serve_fp current 0 1 one_root [] (BOk None) get_a1) /\
  forall c r res, In (rd CReqFields) (call_fp current c r res).
Proof. exact FootprintProofs.required_fields_are_read. Qed.

(* ---- the honest full statement ---------------------------------------------------------------------------------- *)

(* [observed r o]: the accesses the REAL program performs when goroutine r runs operation o.  The property's full
   statement is race freedom of THOSE.  It is not decided by proof: nothing in this development says what the real
   program's accesses are.  What is proved is the implication from adequacy (every real access is a modelled one);
   adequacy is validated only by the race-detector runs (a test), and the meaning of Atomic / Locked relies on the Go
   memory model (sync.Map, sync.Mutex), which is modelled, not verified. *)
Definition full_statement (observed : rid -> op -> list access) : Prop :=
  forall n r1 r2 o1 o2 a b,
    r1 <> r2 -> op_ok n o1 -> op_ok n o2 -> ~ (is_update o1 = true /\ is_update o2 = true) ->
    In a (observed r1 o1) -> In b (observed r2 o2) -> ~ conflict a b.

Theorem race_free_given_adequacy : forall observed, adequate observed -> full_statement observed.
Proof. exact FootprintProofs.race_free_given_adequacy. Qed.

(* Non-vacuity: on the current code both requests really touch the shared error object (and the same tree node), and
   do not conflict; schedules that genuinely interleave exist. *)
Example c17_nonvacuous :
  (exists a, In a (serve_fp current 0 1 one_root [] (BErr 7 true) get_a1) /\ a_cell a = CResErr 7) /\
  forall a b, In a (serve_fp current 0 1 one_root [] (BErr 7 true) get_a1) ->
              In b (serve_fp current 0 2 one_root [] (BErr 7 true) get_a1) -> ~ conflict a b.
Proof. exact FootprintProofs.shared_error_copy_is_safe. Qed.

Print Assumptions footprint_route_is_router.
Print Assumptions handler_steps_request_local.
Print Assumptions handler_shared_reads_only.
Print Assumptions no_conflict.
Print Assumptions requests_no_conflict.
Print Assumptions registration_vs_handler.
Print Assumptions handler_copies_disjoint_from_live.
Print Assumptions noninterference_serial.
Print Assumptions serial_equivalence.
Print Assumptions d2_snapshots_cow.
Print Assumptions old_snapshot_readers_never_conflict.
Print Assumptions rng_locked.
Print Assumptions registry_atomic.
Print Assumptions registry_single_step.
Print Assumptions shared_error_inplace_would_conflict.
Print Assumptions unlocked_rng_would_conflict.
Print Assumptions shared_tree_would_conflict.
Print Assumptions root_state_would_conflict.
Print Assumptions pooled_tunnel_buffer_would_conflict.
Print Assumptions tunnel_buffer_is_private.
Print Assumptions lazy_required_index_would_conflict.
Print Assumptions lazy_required_index_requests_would_conflict.
Print Assumptions required_fields_read_only.
Print Assumptions required_fields_are_read.
Print Assumptions race_free_given_adequacy.
