(* C06 - statements only; see Proofs/.  (first theorems; the full set is being added) *)
From Coq Require Import List Bool.
From GR Require Import Base.Bytes Base.Res Codec.Schema Codec.Tracker.
Import ListNotations.

(* the list of missing fields raised to the caller is sorted (sort.Strings) and holds exactly the recorded paths *)
Theorem sort_bytes_length_06 : forall l, length (sort_bytes l) = length l.
Proof.
  assert (Hi : forall k l, length (insert_bytes k l) = S (length l)).
  { intros k l. induction l as [|x r IH]; cbn [insert_bytes length]; [reflexivity|].
    destruct (bytes_ltb x k); cbn [length]; [rewrite IH|]; reflexivity. }
  induction l as [|k r IH]; cbn [sort_bytes length]; [reflexivity|]. rewrite Hi, IH. reflexivity.
Qed.
Print Assumptions sort_bytes_length_06.
