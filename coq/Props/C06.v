(* C06 - required-field accounting and unknown-field tolerance of the JSON tree decoder (statements only; proofs in
   Proofs/MissingProofs.v).

   Vocabulary (all defined in Proofs/MissingProofs.v, independent of the tracker and of the document order):
     wf_schema e             distinct JSON names over a record and its (transitive) includes; includes are records, acyclic
     well_shaped e pF f t d  d has the shape of t down to depth f: objects for records / maps / unions (JSON null = empty object
                             where an object is expected), arrays for arrays, leaves that parse, no duplicate key in an object,
                             exactly one known non-null member in a union; unknown record fields of ANY shape are allowed
     missing_spec e f t d sc the specification of the missing set: every Required field (own or inherited, flattened) with no
                             non-null value, at every position reached through present values, rendered by scope_string
     missing_at e t d sc p   the same as an inductive relation (no fuel)
     decode_spec .. f r t d  the decoded value, computed field by field in SCHEMA order (never looks at unknown keys or at the
                             order of an object)
   excl = ps_empty throughout (exclusion is C07).  Fuel: the hypotheses [well_shaped ... fuel ...] carry the depth bound. *)
From Coq.Strings Require Import Byte String.
From Coq Require Import List Bool Arith ZArith NArith Permutation.
From GR Require Import Base.Bytes Base.Res Codec.Schema Codec.Doc Codec.Json Codec.Tracker Codec.Decode Proofs.MissingProofs.
Import ListNotations.

(* ---- the decoder, exactly: value and recorded paths, at any depth and under any scope ---- *)
Theorem decJ_exact : forall e wildcard ignore parseF, wf_schema e ->
  forall fuel top t d tr,
    well_shaped e parseF fuel t d ->
    t_scope tr <> [SKey []] -> (t_scope tr = [] -> keys_nonempty (entries_of d)) ->
    exists tr',
      decJ e wildcard ps_empty ignore parseF fuel top t d tr
      = Ok (decode_spec e wildcard ignore parseF fuel (raises e fuel top t d tr) t d, tr') /\
      t_scope tr' = t_scope tr /\
      Permutation (t_missing tr') (t_missing tr ++ missing_spec e fuel t d (t_scope tr)).
Proof. exact MissingProofs.decJ_exact. Qed.

(* ---- missing_exact: a record at the start of the input raises exactly the specified paths, sorted, once, and still returns
   the partially populated value; nothing is raised when nothing is missing ---- *)
Theorem missing_exact : forall e wildcard ignore parseF, wf_schema e ->
  forall fuel t data jd,
    is_record e t = true -> top_ok data jd -> well_shaped e parseF fuel t jd ->
    decode_json e wildcard ps_empty ignore parseF fuel t data =
    match missing_spec e fuel t jd [] with
    | [] => DOk (decode_spec e wildcard ignore parseF fuel false t jd)
    | ms => DMissing (sort_bytes ms) (decode_spec e wildcard ignore parseF fuel true t jd)
    end.
Proof. exact MissingProofs.missing_exact. Qed.

Theorem missing_exact_iff : forall e wildcard ignore parseF, wf_schema e ->
  forall fuel t data jd fs v,
    is_record e t = true -> top_ok data jd -> well_shaped e parseF fuel t jd ->
    (decode_json e wildcard ps_empty ignore parseF fuel t data = DMissing fs v <->
     fs = sort_bytes (missing_spec e fuel t jd []) /\ fs <> [] /\ v = decode_spec e wildcard ignore parseF fuel true t jd).
Proof. exact MissingProofs.missing_exact_iff. Qed.

Theorem missing_none_iff : forall e wildcard ignore parseF, wf_schema e ->
  forall fuel t data jd,
    is_record e t = true -> top_ok data jd -> well_shaped e parseF fuel t jd ->
    (missing_spec e fuel t jd [] = [] <->
     decode_json e wildcard ps_empty ignore parseF fuel t data = DOk (decode_spec e wildcard ignore parseF fuel false t jd)).
Proof. exact MissingProofs.missing_none_iff. Qed.

(* the list raised does not depend on the order in which the paths were recorded *)
Theorem sort_bytes_perm_invariant : forall l1 l2, Permutation l1 l2 -> sort_bytes l1 = sort_bytes l2.
Proof. exact MissingProofs.sort_bytes_perm_invariant. Qed.

(* ---- the exception (finding D33): only a RECORD at the start of the input raises ---- *)
Definition missing_exact_full : Prop := MissingProofs.missing_exact_full.   (* missing_exact without [is_record e t = true] *)

Theorem top_non_record_never_raises : forall e wildcard ignore parseF, wf_schema e ->
  forall fuel t data jd,
    is_record e t = false -> top_ok data jd -> well_shaped e parseF fuel t jd ->
    decode_json e wildcard ps_empty ignore parseF fuel t data
    = DOk (decode_spec e wildcard ignore parseF fuel (negb (is_nilb (missing_spec e fuel t jd []))) t jd).
Proof. exact MissingProofs.top_non_record_never_raises. Qed.

Theorem missing_exact_full_refuted : ~ missing_exact_full.
Proof. exact MissingProofs.missing_exact_full_refuted. Qed.

Theorem top_level_non_record_witness :
  decode_json c06_env c06_star ps_empty 0 c06_pf 8 (TArray (TRef 0)) (c06_b "[{},{""a"":1}]"%string)
  = DOk (VArr [VRec [] [Some (VInt 0); None; Some (VInt 7)]; VRec [] [Some (VInt 1); None; Some (VInt 7)]])
  /\ missing_spec c06_env 8 (TArray (TRef 0)) (c06_json "[{},{""a"":1}]"%string) [] = [c06_b "[0].a"%string]
  /\ decode_json c06_env c06_star ps_empty 0 c06_pf 8 (TRef 2) (c06_b "{""t.Inner"":{}}"%string)
     = DOk (VUnion [Some (VRec [] [Some (VInt 0); None; Some (VInt 7)]); None])
  /\ missing_spec c06_env 8 (TRef 2) (c06_json "{""t.Inner"":{}}"%string) [] = [c06_b "t.Inner.a"%string].
Proof. exact MissingProofs.top_level_non_record_witness. Qed.

(* ---- path rendering: the side condition of decJ_exact on the lone empty key is necessary ---- *)
Definition paths_exact_full : Prop := MissingProofs.paths_exact_full.       (* decJ_exact without the two scope hypotheses *)

Theorem paths_exact_full_refuted : ~ paths_exact_full.
Proof. exact MissingProofs.paths_exact_full_refuted. Qed.

(* ---- only Required fields, only below present values: optional and defaulted fields are never reported ---- *)
Theorem missing_spec_sound : forall e fuel t d sc p, In p (missing_spec e fuel t d sc) -> missing_at e t d sc p.
Proof. exact MissingProofs.missing_spec_sound. Qed.

Theorem optional_default_never_reported : forall e wildcard ignore parseF, wf_schema e ->
  forall fuel top t d tr v tr',
    well_shaped e parseF fuel t d -> t_scope tr <> [SKey []] -> (t_scope tr = [] -> keys_nonempty (entries_of d)) ->
    decJ e wildcard ps_empty ignore parseF fuel top t d tr = Ok (v, tr') ->
    forall p, In p (t_missing tr') ->
      In p (t_missing tr) \/
      (missing_at e t d (t_scope tr) p /\
       exists rest n incs fs fd,
         lookup e n = Some (DRecord incs fs) /\ In fd (fields_of e n) /\ f_opt fd = Required /\
         p = scope_string ((t_scope tr ++ rest) ++ [SKey (f_name fd)])).
Proof. exact MissingProofs.optional_default_never_reported. Qed.

(* ---- the result is a function of the KNOWN CONTENT of the document ----
   sim e fuel t d1 d2 ("same known content at type t"): equal leaves; arrays related item by item; map and union objects related
   entry by entry up to a permutation; record objects only required to agree, field by field (own and inherited), on the
   non-null value under each field name - whatever else the two objects contain, in whatever order. *)
Theorem same_content_same_result : forall e wildcard ignore parseF, wf_schema e ->
  forall fuel top t d1 d2 tr,
    well_shaped e parseF fuel t d1 -> sim e fuel t d1 d2 ->
    t_scope tr <> [SKey []] ->
    (t_scope tr = [] -> keys_nonempty (entries_of d1)) -> (t_scope tr = [] -> keys_nonempty (entries_of d2)) ->
    exists v tr1 tr2,
      decJ e wildcard ps_empty ignore parseF fuel top t d1 tr = Ok (v, tr1) /\
      decJ e wildcard ps_empty ignore parseF fuel top t d2 tr = Ok (v, tr2) /\
      t_scope tr1 = t_scope tr2 /\ Permutation (t_missing tr1) (t_missing tr2) /\
      sort_bytes (t_missing tr1) = sort_bytes (t_missing tr2).
Proof. exact MissingProofs.same_content_same_result. Qed.

(* ---- order_independent: jperm = the congruence generated by permuting the entries of objects, at any depth ---- *)
Theorem order_independent : forall e parseF wildcard ignore, wf_schema e ->
  forall fuel top t d1 d2 tr,
    well_shaped e parseF fuel t d1 -> jperm d1 d2 ->
    t_scope tr <> [SKey []] -> (t_scope tr = [] -> keys_nonempty (entries_of d1)) ->
    exists v tr1 tr2,
      decJ e wildcard ps_empty ignore parseF fuel top t d1 tr = Ok (v, tr1) /\
      decJ e wildcard ps_empty ignore parseF fuel top t d2 tr = Ok (v, tr2) /\
      t_scope tr1 = t_scope tr2 /\ Permutation (t_missing tr1) (t_missing tr2) /\
      sort_bytes (t_missing tr1) = sort_bytes (t_missing tr2).
Proof. exact MissingProofs.order_independent. Qed.

Theorem jperm_sim : forall e parseF fuel t d1 d2, well_shaped e parseF fuel t d1 -> jperm d1 d2 -> sim e fuel t d1 d2.
Proof. exact MissingProofs.jperm_sim. Qed.

(* ---- unknown_fields_skipped: an extra entry of ANY shape under a key that is no field of the record (own or inherited), at
   any position of the object, at any depth (the record is decoded under an arbitrary scope / tracker) ---- *)
Theorem unknown_fields_skipped : forall e parseF wildcard ignore, wf_schema e ->
  forall n incs fs f top l1 l2 k x tr,
    lookup e n = Some (DRecord incs fs) -> field_of e n k = None -> ~ In k (map fst (l1 ++ l2)) ->
    well_shaped e parseF (S f) (TRef n) (JObj (l1 ++ l2)) ->
    t_scope tr <> [SKey []] -> (t_scope tr = [] -> keys_nonempty (l1 ++ l2) /\ k <> []) ->
    exists v tr1 tr2,
      decJ e wildcard ps_empty ignore parseF (S f) top (TRef n) (JObj (l1 ++ l2)) tr = Ok (v, tr1) /\
      decJ e wildcard ps_empty ignore parseF (S f) top (TRef n) (JObj (l1 ++ (k, x) :: l2)) tr = Ok (v, tr2) /\
      t_scope tr1 = t_scope tr2 /\ Permutation (t_missing tr1) (t_missing tr2) /\
      sort_bytes (t_missing tr1) = sort_bytes (t_missing tr2).
Proof. exact MissingProofs.unknown_fields_skipped. Qed.

(* ---- non-vacuity ---- *)
Example c06_nonvacuous :
  wf_schema c06_env /\ is_record c06_env (TRef 1) = true /\ top_ok (c06_b c06_text) c06_doc /\
  well_shaped c06_env c06_pf 8 (TRef 1) c06_doc /\
  sort_bytes (missing_spec c06_env 8 (TRef 1) c06_doc []) = map c06_b ["a"; "l[1].a"; "l[2].a"; "m.k.a"; "u.t.Inner.a"; "x"]%string /\
  (exists fs v, decode_json c06_env c06_star ps_empty 0 c06_pf 8 (TRef 1) (c06_b c06_text) = DMissing fs v /\
                fs = map c06_b ["a"; "l[1].a"; "l[2].a"; "m.k.a"; "u.t.Inner.a"; "x"]%string) /\
  decode_json c06_env c06_star ps_empty 0 c06_pf 8 (TRef 1) (c06_b c06_text_perm)
  = decode_json c06_env c06_star ps_empty 0 c06_pf 8 (TRef 1) (c06_b c06_text).
Proof. exact MissingProofs.c06_nonvacuous. Qed.

Print Assumptions decJ_exact.
Print Assumptions missing_exact.
Print Assumptions missing_exact_iff.
Print Assumptions missing_none_iff.
Print Assumptions sort_bytes_perm_invariant.
Print Assumptions top_non_record_never_raises.
Print Assumptions missing_exact_full_refuted.
Print Assumptions top_level_non_record_witness.
Print Assumptions paths_exact_full_refuted.
Print Assumptions missing_spec_sound.
Print Assumptions optional_default_never_reported.
Print Assumptions same_content_same_result.
Print Assumptions order_independent.
Print Assumptions jperm_sim.
Print Assumptions unknown_fields_skipped.
Print Assumptions c06_nonvacuous.
