(* C01 - codec round trip (statements only; proofs in Proofs/) *)
From Coq Require Import List Bool.
From Coq.Strings Require Import Byte.
From GR Require Import Base.Bytes Codec.Escape Proofs.EscapeProofs Gen.TablesCodec.
Import ListNotations.

(* Escaping is inverted by the decoders of the readers, for every byte string, with the tables of the current tree *)
Theorem unescape_escape_path : forall s,
  unescape_fl FPath (escape v2_hex_chars v2_unescaped_path_chars v2_unescaped_query_chars v2_header_escaped_chars FPath s) = Some s.
Proof. intro s. apply unescape_escape; vm_compute; reflexivity. Qed.
Theorem unescape_escape_query : forall s,
  unescape_fl FQuery (escape v2_hex_chars v2_unescaped_path_chars v2_unescaped_query_chars v2_header_escaped_chars FQuery s) = Some s.
Proof. intro s. apply unescape_escape; vm_compute; reflexivity. Qed.
Theorem unescape_escape_header : forall s,
  unescape_fl FHeader (escape v2_hex_chars v2_unescaped_path_chars v2_unescaped_query_chars v2_header_escaped_chars FHeader s) = Some s.
Proof. intro s. apply unescape_escape; vm_compute; reflexivity. Qed.

Print Assumptions unescape_escape_path.
Print Assumptions unescape_escape_query.
Print Assumptions unescape_escape_header.
