(* C04 - decoder robustness (statements only; proofs in Proofs/Ror2NoPanic.v).
   For ALL environments, schemas, inputs, fuels and external oracles (float parser, unescaper) the cursor-level ROR2 decoder and
   the JSON tree decoder of Codec/Decode.v never reach the explicit [Panic] outcome (a Go index-out-of-range / slice-bounds
   panic: [idx] on an empty suffix).  No hypothesis, no bound. *)
From Coq.Strings Require Import Byte String.
From Coq Require Import List Bool Arith ZArith NArith.   (* after String: [length] is List.length *)
From GR Require Import Base.Bytes Base.Res Codec.Schema Codec.Doc Codec.Escape Codec.Json Codec.Tracker Codec.Decode
  Proofs.Ror2NoPanic.
Import ListNotations.

(* ---- the theorems ---- *)
Theorem decR_never_panics : forall e wildcard excl ignore parseF unesc empty_marker list_prefix query_reader fuel t s,
  decR e wildcard excl ignore parseF unesc empty_marker list_prefix query_reader fuel t s <> Panic.
Proof. exact Ror2NoPanic.decR_never_panics. Qed.

Theorem decode_ror2_never_panics :
  forall e wildcard excl ignore parseF unesc empty_marker list_prefix query_reader fuel qp t data,
  decode_ror2 e wildcard excl ignore parseF unesc empty_marker list_prefix query_reader fuel qp t data <> DPanic.
Proof. exact Ror2NoPanic.decode_ror2_never_panics. Qed.

Theorem decJ_never_panics : forall e wildcard excl ignore parseF fuel top t d tr,
  decJ e wildcard excl ignore parseF fuel top t d tr <> Panic.
Proof. exact Ror2NoPanic.decJ_never_panics. Qed.

Theorem decode_json_never_panics : forall e wildcard excl ignore parseF fuel t data,
  decode_json e wildcard excl ignore parseF fuel t data <> DPanic.
Proof. exact Ror2NoPanic.decode_json_never_panics. Qed.

(* ---- why: the index and its guards ---- *)
Theorem idx_panic_iff : forall s, idx s = Panic <-> r_rest s = [].
Proof. exact Ror2NoPanic.idx_panic_iff. Qed.

Theorem check_not_at_end_idx : forall s, check_not_at_end s = Ok tt -> exists c, idx s = Ok c.
Proof. exact Ror2NoPanic.check_not_at_end_idx. Qed.

(* atArray's comparison is strict: the remaining input is LONGER than "List(" ... *)
Theorem at_array_strict : forall list_prefix s,
  at_array list_prefix s = true -> length list_prefix < length (r_rest s) /\ has_prefix list_prefix (r_rest s) = true.
Proof. exact Ror2NoPanic.at_array_strict. Qed.

(* ... and strictness is exactly what the index after the prefix needs ... *)
Theorem idx_after_prefix : forall n s, n < length (r_rest s) -> idx (advance n s) <> Panic.
Proof. exact Ror2NoPanic.idx_after_prefix. Qed.

Theorem at_array_idx : forall list_prefix s,
  at_array list_prefix s = true -> idx (advance (length list_prefix) s) <> Panic.
Proof. exact Ror2NoPanic.at_array_idx. Qed.

(* ... because with <= the input that is exactly the prefix would pass the test and index out of range *)
Theorem prefix_alone_would_panic : forall list_prefix tr,
  has_prefix list_prefix list_prefix = true ->
  length list_prefix <= length (r_rest (rinit list_prefix tr)) /\
  has_prefix list_prefix (r_rest (rinit list_prefix tr)) = true /\
  idx (advance (length list_prefix) (rinit list_prefix tr)) = Panic.
Proof. exact Ror2NoPanic.prefix_alone_would_panic. Qed.

(* ---- non-vacuity: hostile (truncated / unbalanced) inputs through the whole decoder end in an error, a well-formed one in a
   value; [Panic] is a real outcome of the model ([idx] on the empty suffix), so the theorems are not trivially true ---- *)
Definition c04_b (s : string) : bytes := list_byte_of_string s.
Definition c04_env : env :=
  [ DRecord [] [ {| f_name := c04_b "a"; f_ty := TRef 1; f_opt := Optional |};
                 {| f_name := c04_b "l"; f_ty := TArray (TPrim PInt); f_opt := Optional |} ];
    DRecord [] [ {| f_name := c04_b "b"; f_ty := TPrim PInt; f_opt := Required |} ] ].
Definition c04_dec (t : ty) (s : string) : dres :=
  decode_ror2 c04_env (c04_b "$*") ps_empty 0 (fun _ _ => None) (unescape false) (c04_b "''") (c04_b "List(") false 64 None
    t (c04_b s).
Definition c04_hostile : list (ty * string) :=
  [ (TRef 0, ""); (TRef 0, "("); (TRef 0, "(a"); (TRef 0, "(a:"); (TRef 0, "(a:("); (TRef 0, "(a:(b:1)"); (TRef 0, "(a:(b:1),");
    (TRef 0, "(l:List("); (TRef 0, "(l:List(1"); (TRef 0, "(l:List(1,"); (TRef 0, "(zz:List(");
    (TArray (TRef 1), "List("); (TArray (TRef 1), "List"); (TArray (TRef 1), "List((b:1)"); (TArray (TRef 1), "List((");
    (TMap (TPrim PInt), "("); (TMap (TPrim PInt), "(k:1"); (TMap (TPrim PInt), "(k:") ]%string.

Example hostile_inputs_are_errors_not_panics :
  map (fun p => c04_dec (fst p) (snd p)) c04_hostile = map (fun _ => DErr EDeser) c04_hostile
  /\ c04_dec (TRef 0) "(a:(b:1),l:List(1,2))" = DOk (VRec [] [Some (VRec [] [Some (VInt 1)]); Some (VArr [VInt 1; VInt 2])])
  /\ c04_dec (TArray (TRef 1)) "List()" = DOk (VArr [])
  /\ idx (rinit [] tracker0) = Panic.
Proof. vm_compute. repeat split. Qed.

Print Assumptions decR_never_panics.
Print Assumptions decode_ror2_never_panics.
Print Assumptions decJ_never_panics.
Print Assumptions decode_json_never_panics.
Print Assumptions idx_panic_iff.
Print Assumptions check_not_at_end_idx.
Print Assumptions at_array_strict.
Print Assumptions idx_after_prefix.
Print Assumptions at_array_idx.
Print Assumptions prefix_alone_would_panic.
Print Assumptions hostile_inputs_are_errors_not_panics.
