(* C13 - the generated constructors New<X>WithDefaultValues (statements only; model Codec/Ctor.v, proofs in Proofs/CtorProofs.v).

     ctor e w pF fuel n             New<record n>WithDefaultValues(): Ok v | Panic (a default literal is not readable: log.Panicln) |
                                    Err EType (no constructor is generated: n declares no default ITSELF) | Err EFuel
     has_ctor e n                   record n declares a default itself (the generator's hasDefaultValue: own fields only)
     lit_value e w ig pF f t lit    the decoding of the literal, THE function of Props/C13.v (fresh JSON reader: no exclusions, scope 0)
     ctor_slot_ok e w pF f fd ov    slot fd of an instance constructed at fuel S f holds ov:
                                      Default lit -> Some x, x the literal read with a fresh JSON reader
                                      Optional    -> None (nil)
                                      Required, of a record type WITH a constructor -> Some x, x = the constructed value of that record
                                      Required otherwise -> the Go zero value
     reach e n v path               the (record, value) reached from instance v of record n along own-field indices, through required
                                    record-typed fields only;  chain e n path: every record entered on the way has a constructor
     needs_ctor e fd                fd is required and of a record type with a constructor

   (d) Determinism / equality of two constructed instances is a triviality of a pure model (ctor is a function: nothing to state);
   that two Go instances share no memory is decided on the implementation by the driver's scribble test (harness/codecdrv/c13.go:
   every slice / map / field reachable from one instance is overwritten, a second instance and a later third one must be unchanged
   and equal to the model's value - Corr/CtorCorr.v cases "first" and "after-mutation").
   Three full statements are false of the model of the current code and kept with refutations: the constructor as the decoder of `{}`
   without side condition (D35), defaults at every depth without "every record on the way declares a default itself", and defaults
   of included records (D28). *)
From Coq.Strings Require Import Byte String.
From Coq Require Import List Bool Arith ZArith NArith.
From GR Require Import Base.Bytes Base.Res Codec.Schema Codec.Doc Codec.Json Codec.Tracker Codec.Decode Codec.Ctor
  Proofs.MissingProofs Proofs.DefaultsProofs Proofs.CtorProofs.
Import ListNotations.

(* ---- every slot of a constructed instance, exactly (all schemas, no well-formedness needed) ---- *)
Theorem ctor_exact : forall e wildcard parseF f n incs fs v,
  lookup e n = Some (DRecord incs fs) -> ctor e wildcard parseF (S f) n = Ok v ->
  own_has_default fs = true /\
  exists fvs, v = VRec (map (fun i => zero_value e (S (length e)) (TRef i)) incs) fvs /\ length fvs = length fs /\
    forall j fd, nth_error fs j = Some fd -> exists ov, nth_error fvs j = Some ov /\ ctor_slot_ok e wildcard parseF f fd ov.
Proof. exact CtorProofs.ctor_exact. Qed.

(* ---- (a) every own defaulted field holds exactly the decoding of its literal ---- *)
Theorem ctor_fills_own_defaults : forall e wildcard parseF ignore f n incs fs v,
  lookup e n = Some (DRecord incs fs) -> ctor e wildcard parseF (S f) n = Ok v ->
  exists ivs fvs, v = VRec ivs fvs /\ length fvs = length fs /\
    forall j fd lit, nth_error fs j = Some fd -> f_opt fd = Default lit ->
      nth_error fvs j = Some (lit_value e wildcard ignore parseF f (f_ty fd) lit) /\
      lit_value e wildcard ignore parseF f (f_ty fd) lit <> None.
Proof. exact CtorProofs.ctor_fills_own_defaults. Qed.

Theorem ctor_leaves_optional_unset : forall e wildcard parseF f n incs fs v,
  lookup e n = Some (DRecord incs fs) -> ctor e wildcard parseF (S f) n = Ok v ->
  exists ivs fvs, v = VRec ivs fvs /\
    forall j fd, nth_error fs j = Some fd -> f_opt fd = Optional -> nth_error fvs j = Some None.
Proof. exact CtorProofs.ctor_leaves_optional_unset. Qed.

(* ---- (b) constructor = decoder on the empty object ---- *)
(* at the start of the input: the record has no required field, own or inherited *)
Theorem ctor_is_decode_of_empty_document : forall e wildcard parseF excl ignore f n incs fs v,
  lookup e n = Some (DRecord incs fs) -> required_fields e (S (length e)) n = [] ->
  ctor e wildcard parseF (S f) n = Ok v ->
  decode_json e wildcard excl ignore parseF (S f) (TRef n) [x7b; x7d] (* {} *) = DOk v.
Proof. exact CtorProofs.ctor_is_decode_of_empty_document. Qed.

(* in nested position required fields are only reported: no required field of a record type with a constructor *)
Theorem ctor_is_nested_decode_of_empty_object : forall e wildcard parseF excl ignore f n incs fs v tr,
  lookup e n = Some (DRecord incs fs) -> forallb (fun fd => negb (needs_ctor e fd)) fs = true ->
  ctor e wildcard parseF (S f) n = Ok v ->
  decJ e wildcard excl ignore parseF (S f) false (TRef n) (JObj []) tr
  = Ok (v, record_missing wildcard excl ignore (required_fields e (S (length e)) n) tr).
Proof. exact CtorProofs.ctor_is_nested_decode_of_empty_object. Qed.

Definition ctor_is_decode_of_empty_document_full : Prop := CtorProofs.ctor_is_decode_of_empty_document_full.

Theorem ctor_is_decode_of_empty_document_refuted : ~ ctor_is_decode_of_empty_document_full.
Proof. exact CtorProofs.ctor_is_decode_of_empty_document_refuted. Qed.

(* Base { id : int; c : int = 7 }: the constructor fills c; the decoder of {} reports id and leaves c nil *)
Theorem ctor_vs_decode_witness :
  ctor c13_env c13_star c13_pf 4 0 = Ok (VRec [] [Some (VInt 0); Some (VInt 7)])
  /\ decode_json c13_env c13_star ps_empty 0 c13_pf 4 (TRef 0) [x7b; x7d]
     = DMissing [c13_b "id"%string] (VRec [] [Some (VInt 0); None]).
Proof. exact CtorProofs.ctor_vs_decode_witness. Qed.

(* ---- (c) recursion: required record-typed fields ---- *)
Theorem ctor_required_record_field : forall e wildcard parseF f n incs fs v j fd m,
  lookup e n = Some (DRecord incs fs) -> ctor e wildcard parseF (S f) n = Ok v ->
  nth_error fs j = Some fd -> f_opt fd = Required -> f_ty fd = TRef m ->
  exists ivs fvs, v = VRec ivs fvs /\
    if has_ctor e m then exists x, nth_error fvs j = Some (Some x) /\ ctor e wildcard parseF f m = Ok x
    else nth_error fvs j = Some (Some (zero_value e (S (length e)) (TRef m))).
Proof. exact CtorProofs.ctor_required_record_field. Qed.

(* at any depth (induction on the path): what sits at the end of a chain is the constructed value of its record ... *)
Theorem ctor_at_every_depth : forall e wildcard parseF path f n v,
  ctor e wildcard parseF (length path + S f) n = Ok v -> chain e n path = true ->
  exists m x, reach e n v path = Some (m, x) /\ ctor e wildcard parseF (S f) m = Ok x.
Proof. exact CtorProofs.ctor_at_every_depth. Qed.

(* ... so its own defaults are there *)
Theorem ctor_defaults_at_every_depth : forall e wildcard parseF ignore path f n v,
  ctor e wildcard parseF (length path + S f) n = Ok v -> chain e n path = true ->
  exists m x ivs fvs, reach e n v path = Some (m, x) /\ x = VRec ivs fvs /\
    forall incs fs, lookup e m = Some (DRecord incs fs) ->
      length fvs = length fs /\
      forall j fd lit, nth_error fs j = Some fd -> f_opt fd = Default lit ->
        nth_error fvs j = Some (lit_value e wildcard ignore parseF f (f_ty fd) lit) /\
        lit_value e wildcard ignore parseF f (f_ty fd) lit <> None.
Proof. exact CtorProofs.ctor_defaults_at_every_depth. Qed.

Definition ctor_defaults_at_every_depth_full : Prop := CtorProofs.ctor_defaults_at_every_depth_full.

Theorem ctor_defaults_at_every_depth_refuted : ~ ctor_defaults_at_every_depth_full.
Proof. exact CtorProofs.ctor_defaults_at_every_depth_refuted. Qed.

(* L1 { mid : L2; j = 1 }, L2 { deep : L3 } (no default of its own: no constructor), L3 { x = 5 }: New_L1 leaves mid.deep.x nil *)
Theorem ctor_gap_witness :
  ctor gap_env c13_star c13_pf 5 2 = Ok (VRec [] [Some (VRec [] [Some (VRec [] [None])]); Some (VInt 1)])
  /\ reach gap_env 2 (VRec [] [Some (VRec [] [Some (VRec [] [None])]); Some (VInt 1)]) [0; 0] = Some (0, VRec [] [None])
  /\ ctor gap_env c13_star c13_pf 5 0 = Ok (VRec [] [Some (VInt 5)])
  /\ has_ctor gap_env 1 = false.
Proof. exact CtorProofs.ctor_gap_witness. Qed.

(* ---- (e) D28: included records ---- *)
Definition ctor_included_defaults_full : Prop := CtorProofs.ctor_included_defaults_full.

Theorem ctor_included_defaults_refuted : ~ ctor_included_defaults_full.
Proof. exact CtorProofs.ctor_included_defaults_refuted. Qed.

(* New_Outer (Outer includes Base {id; c = 7}, own {name?; k = 5}): k is filled, the inherited c is not *)
Theorem ctor_included_defaults_witness :
  ctor c13_env c13_star c13_pf 4 1 = Ok (VRec [VRec [] [Some (VInt 0); None]] [None; Some (VInt 5)]).
Proof. exact CtorProofs.ctor_included_defaults_witness. Qed.

(* what holds: the embedded structs of the included records are the zero values new(X) made (the own fields: ctor_fills_own_defaults) *)
Theorem ctor_includes_are_zero : forall e wildcard parseF f n incs fs v,
  lookup e n = Some (DRecord incs fs) -> ctor e wildcard parseF (S f) n = Ok v ->
  exists fvs, v = VRec (map (fun i => zero_value e (S (length e)) (TRef i)) incs) fvs.
Proof. exact CtorProofs.ctor_includes_are_zero. Qed.

(* ---- non-vacuity: D1 { rRec : D2; j = 1 } -> D2 { deep : D3; k = 2 } -> D3 { x = 5; tags = ["t"]; o? } (the family's chain) ---- *)
Example ctor_chain_nonvacuous :
  ctor chain_env c13_star c13_pf 6 2 = Ok chain_d1
  /\ chain chain_env 2 [0; 0] = true
  /\ reach chain_env 2 chain_d1 [0; 0] = Some (0, chain_d3)
  /\ ctor chain_env c13_star c13_pf 4 0 = Ok chain_d3
  /\ lit_value chain_env c13_star 0 c13_pf 3 (TArray (TPrim PString)) (c13_b "[""t""]"%string) = Some (VArr [VStr (c13_b "t"%string)])
  /\ required_fields chain_env 4 0 = []
  /\ decode_json chain_env c13_star ps_empty 0 c13_pf 4 (TRef 0) [x7b; x7d] = DOk chain_d3.
Proof. exact CtorProofs.ctor_chain_nonvacuous. Qed.

Print Assumptions ctor_exact.
Print Assumptions ctor_fills_own_defaults.
Print Assumptions ctor_leaves_optional_unset.
Print Assumptions ctor_is_decode_of_empty_document.
Print Assumptions ctor_is_nested_decode_of_empty_object.
Print Assumptions ctor_is_decode_of_empty_document_refuted.
Print Assumptions ctor_vs_decode_witness.
Print Assumptions ctor_required_record_field.
Print Assumptions ctor_at_every_depth.
Print Assumptions ctor_defaults_at_every_depth.
Print Assumptions ctor_defaults_at_every_depth_refuted.
Print Assumptions ctor_gap_witness.
Print Assumptions ctor_included_defaults_refuted.
Print Assumptions ctor_included_defaults_witness.
Print Assumptions ctor_includes_are_zero.
Print Assumptions ctor_chain_nonvacuous.
