(* C08 - Resource results reach the client with the right status and error object.
   Only statements here; proofs are in Proofs/StatusProofs.v.  Model: Http/Status.v (the Register* adapters, receive's
   recover, ServeHTTP's tail, the generated client's reading of the reply) over Gen/TablesStatus.v, regenerated from
   v2/restli on every run (default statuses, the newErrorResponsef call sites with status and format, the fields ServeHTTP
   assigns through the resource's error pointer).  The vocabulary (status_or_500, protocol_default, delivered, infix,
   heap_after, returns_pointer, guard_response ...) is defined at the top of Proofs/StatusProofs.v with LITERAL statuses:
   a regenerated table that disagrees breaks the proofs. *)
From Coq Require Import List Bool Arith NArith ZArith.
From Coq.Strings Require Import Byte.
From GR Require Import Base.Bytes Gen.TablesStatus Http.Status Proofs.StatusProofs.
Import ListNotations.
Local Open Scope Z_scope.

(* An error response returned by the implementation (of ANY method kind, whatever status it overrode before) reaches the
   client: HTTP status = its status, or 500 when it has none; the error header is set; the body is the object, its message
   defaulted to the status text when absent; the client's *restli.Error carries exactly that, with the status filled in;
   the resource's object is untouched. *)
Theorem error_response_delivered : forall h m i l e, h_get h l = Some e -> i_outcome i = OErrResp l ->
  valid_code (status_or_500 e) = true ->
  exists r, call h m RqOk i = Exchanged r (CError (delivered e) true) h true /\
            r_status r = status_or_500 e /\ r_errhdr r = true /\
            r_body r = WError (match e_message e with Some _ => e
                                                    | None => with_message e (Some (status_text (status_or_500 e))) end).
Proof. exact StatusProofs.error_response_delivered. Qed.

(* ... every field of the object arrives *)
Theorem delivered_fields : forall e,
  e_svc (delivered e) = e_svc e /\ e_code (delivered e) = e_code e /\ e_exc (delivered e) = e_exc e /\
  e_doc (delivered e) = e_doc e /\ e_reqid (delivered e) = e_reqid e /\ e_dtype (delivered e) = e_dtype e /\
  e_stack (delivered e) = e_stack e /\ e_details (delivered e) = e_details e /\
  e_status (delivered e) = Some (status_or_500 e) /\
  e_message (delivered e) = Some (match e_message e with Some t => t | None => status_text (status_or_500 e) end).
Proof. exact StatusProofs.delivered_fields. Qed.

Theorem delivered_complete : forall e s t, e_status e = Some s -> e_message e = Some t -> delivered e = e.
Proof. exact StatusProofs.delivered_complete. Qed.

(* Any other failure - a plain error, a panic, a nil pointer result - is an error response with a 4xx/5xx status and the
   failure's text in its message.  (For a nil result of a non-create method the text is the serializer's, so the status
   left in ctx must be one ServeHTTP lets through to the serializer: [nil_reaches_marshal].) *)
Theorem other_failure_is_error_response : forall h m i msg,
  ( i_outcome i = OPlain msg \/ i_outcome i = OPanic msg \/
    (i_outcome i = OReturn RNil /\ returns_pointer (m_kind m) = true /\ msg = nil_deref /\
     (is_create (m_kind m) = true \/
      valid_code (match i_override i with Some o => o | None => protocol_default (m_kind m) end) = true)) ) ->
  exists r e s msg', call h m RqOk i = Exchanged r (CError e true) h true /\
     r_status r = s /\ 400 <= s <= 599 /\ r_errhdr r = true /\ r_body r = WError e /\ e_status e = Some s /\
     e_message e = Some msg' /\ infix msg msg'.
Proof. exact StatusProofs.other_failure_is_error_response. Qed.

(* Without that premise the statement is false (since ServeHTTP checks the status before serializing): get sets
   ctx.ResponseStatus = 0 and returns a nil pointer; the reply is the guard's error response, whose message does not
   mention the nil dereference.  Witness [nil_meth], [nil_override_impl] (replayed on the implementation). *)
Definition other_failure_full : Prop := forall h m i msg,
  ( i_outcome i = OPlain msg \/ i_outcome i = OPanic msg \/
    (i_outcome i = OReturn RNil /\ returns_pointer (m_kind m) = true /\ msg = nil_deref) ) ->
  exists r e s msg', call h m RqOk i = Exchanged r (CError e true) h true /\
     r_status r = s /\ 400 <= s <= 599 /\ r_errhdr r = true /\ r_body r = WError e /\ e_status e = Some s /\
     e_message e = Some msg' /\ infix msg msg'.

Theorem other_failure_refuted : ~ other_failure_full.
Proof. exact StatusProofs.other_failure_refuted. Qed.

Theorem nil_override_witness :
  call [] nil_meth RqOk nil_override_impl = Exchanged (guard_response 0 false) (CError (guard_err 0) true) [] true.
Proof. exact StatusProofs.nil_override_witness. Qed.

(* ... what does hold unconditionally for a nil pointer result: 500, the error header, an error response with a message *)
Theorem nil_result_is_500 : forall h m i, i_outcome i = OReturn RNil -> returns_pointer (m_kind m) = true ->
  exists r e msg', call h m RqOk i = Exchanged r (CError e true) h true /\
     r_status r = 500 /\ r_errhdr r = true /\ r_body r = WError e /\ e_status e = Some 500 /\ e_message e = Some msg'.
Proof. exact StatusProofs.nil_result_is_500. Qed.

(* ... precisely: a plain error answers the wrapping site's status, which is 500 - except 400 for actions - ... *)
Theorem plain_error_response : forall h m i msg, i_outcome i = OPlain msg ->
  let s := s_status (wrap_site (m_kind m)) in
  let e := fresh_err s (sprintf (s_fmt (wrap_site (m_kind m))) [m_name m; msg]) in
  call h m RqOk i = Exchanged {| r_status := s; r_errhdr := true; r_idhdr := false; r_body := WError e |} (CError e true) h true.
Proof. exact StatusProofs.plain_error_response. Qed.

Theorem plain_error_status : forall k, s_status (wrap_site k) = match reg_adapter k with AdAction => 400 | _ => 500 end.
Proof. exact StatusProofs.plain_error_status. Qed.

(* ... and a panic answers 500 with the panic's text *)
Theorem panic_error_response : forall h m i msg, i_outcome i = OPanic msg ->
  call h m RqOk i = Exchanged {| r_status := 500; r_errhdr := true; r_idhdr := false; r_body := WError (recovered msg) |}
                              (CError (recovered msg) true) h true.
Proof. exact StatusProofs.panic_error_response. Qed.

(* ServeHTTP never modifies an error object of the resource: for every request, outcome and heap.  The proof goes
   through [in_place f_message = false], read off the regenerated list of in-place writes ... *)
Theorem error_objects_not_modified : forall h m d i, heap_after (call h m d i) = h.
Proof. exact StatusProofs.error_objects_not_modified. Qed.

(* ... which matters: the model's error-response branch with that flag as a parameter is the model's at the table's value,
   and with the flag set it does modify the resource's object. *)
Theorem in_place_write_would_modify :
  (forall h ev, serve_error_response_flag (in_place f_message) h ev = serve_error_response h ev) /\
  forall h l e, h_get h l = Some e -> e_message e = None ->
  exists e' st h', serve_error_response_flag true h (EShared l) = Some (e', st, h') /\
                   h_get h' l = Some e' /\ e_message e' = Some (status_text (status_or_500 e)) /\ h' <> h.
Proof. exact (conj StatusProofs.serve_error_response_flag_is_model StatusProofs.in_place_write_would_modify). Qed.

(* Success: the status is the override if the implementation set one, else the protocol's default; create uses the
   CreatedEntity's status when it is set. *)
Theorem success_statuses : forall h m i, i_outcome i = OReturn (RValue MOk) -> i_id_marshals i = true ->
  let s := match i_override i with Some o => o | None => protocol_default (m_kind m) end in
  let s' := match m_kind m with
            | RegisterCreate | RegisterCreateWithReturnEntity => if Z.eqb (i_created_status i) 0 then s else i_created_status i
            | _ => s
            end in
  valid_code s' = true ->
  exists r c, call h m RqOk i = Exchanged r c h true /\ r_errhdr r = false /\ r_status r = s'.
Proof. exact StatusProofs.success_statuses. Qed.

(* Without override: 201 for create, 204 for update / partial_update / delete, 200 otherwise, and the client returns its
   result (the created entity with status 201 for the two create kinds). *)
Theorem success_default_statuses : forall h m i, i_outcome i = OReturn (RValue MOk) -> i_id_marshals i = true ->
  i_override i = None -> i_created_status i = 0 ->
  exists r, call h m RqOk i =
            Exchanged r (match client_reading (m_kind m) with
                         | RdCreated | RdCreatedAndUnmarshal => CCreated 201
                         | _ => COk
                         end) h true /\
            r_status r = protocol_default (m_kind m) /\ r_errhdr r = false /\ r_idhdr r = is_create (m_kind m).
Proof. exact StatusProofs.success_default_statuses. Qed.

Theorem success_no_result : forall h m i r0, no_result (m_kind m) = true -> i_outcome i = OReturn r0 ->
  let s := match i_override i with Some o => o | None => protocol_default (m_kind m) end in
  valid_code s = true ->
  exists r c, call h m RqOk i = Exchanged r c h true /\ r_status r = s /\ r_errhdr r = false /\ r_idhdr r = false /\
              r_body r = WNone /\ c = (if Z.eqb (s / 100) 2 then COk else CUnexpected s).
Proof. exact StatusProofs.success_no_result. Qed.

(* the adapters' defaults (server.go) are the protocol's *)
Theorem default_statuses_table : forall k,
  match reg_default_status k with Some d => d | None => serve_initial_status end = protocol_default k.
Proof. exact StatusProofs.reg_default_is_protocol_default. Qed.

(* A request that does not decode is answered 400 with an error response, and the implementation is not invoked. *)
Theorem malformed_request_is_400 : forall h m d i e0, decode_request m d = Some e0 ->
  exists r e, call h m d i = Exchanged r (CError e true) h false /\ r_status r = 400 /\ r_errhdr r = true /\
              r_body r = WError e /\ e_status e = Some 400.
Proof. exact StatusProofs.malformed_request_is_400. Qed.

(* ... which requests those are; every other one is handled exactly like a well-formed request *)
Theorem malformed_iff : forall m d,
  decode_request m d = None <->
  (d = RqOk \/ (d = RqExtraBody /\ (reg_adapter (m_kind m) = AdBody \/ reg_adapter (m_kind m) = AdAction)) \/
   (exists c, d = RqBadQuery c /\ reg_adapter (m_kind m) = AdAction)).
Proof. exact StatusProofs.malformed_iff. Qed.

Theorem call_decoded : forall h m d i, decode_request m d = None -> call h m d i = call h m RqOk i.
Proof. exact StatusProofs.call_decoded. Qed.

(* every newErrorResponsef call site of the package answers 4xx or 5xx *)
Theorem all_site_statuses_ge_400 : forall s, In s all_site_statuses -> 400 <= s <= 599.
Proof. exact StatusProofs.all_site_statuses_ge_400. Qed.

(* No panic escapes ServeHTTP, whatever statuses the resource chooses (its error object's, its override, its created
   status), and the heap is unchanged.  The proof depends on the status guard found in the tree
   (Gen/TablesStatus.serve_status_guard = Some (100, 999)) and on the server's own statuses being ones net/http accepts. *)
Theorem no_crash : forall h m d i, no_dangling h i -> exists r c inv, call h m d i = Exchanged r c h inv.
Proof. exact StatusProofs.no_crash. Qed.

(* A status net/http cannot write is answered 500 with the error header and a server-made error response: the error
   object's status ... *)
Theorem invalid_error_status_is_500 : forall h m i l e s, h_get h l = Some e -> i_outcome i = OErrResp l ->
  e_status e = Some s -> valid_code s = false ->
  call h m RqOk i = Exchanged (guard_response s false) (CError (guard_err s) true) h true.
Proof. exact StatusProofs.invalid_error_status_is_500. Qed.

(* ... the override or create's CreatedEntity.Status of a successful outcome ... *)
Theorem invalid_success_status_is_500 : forall h m i, i_outcome i = OReturn (RValue MOk) ->
  (is_create (m_kind m) = true -> i_id_marshals i = true) ->
  valid_code (success_status (m_kind m) i) = false ->
  call h m RqOk i = Exchanged (guard_response (success_status (m_kind m) i) (is_create (m_kind m)))
                              (CError (guard_err (success_status (m_kind m) i)) true) h true.
Proof. exact StatusProofs.invalid_success_status_is_500. Qed.

(* ... in one statement, with the literals *)
Theorem invalid_status_is_500 : forall h m i,
  ( (exists l e s, h_get h l = Some e /\ i_outcome i = OErrResp l /\ e_status e = Some s /\ valid_code s = false) \/
    (i_outcome i = OReturn (RValue MOk) /\ i_id_marshals i = true /\
     let s := match i_override i with Some o => o | None => protocol_default (m_kind m) end in
     valid_code (match m_kind m with
                 | RegisterCreate | RegisterCreateWithReturnEntity =>
                     if Z.eqb (i_created_status i) 0 then s else i_created_status i
                 | _ => s
                 end) = false) ) ->
  exists r e, call h m RqOk i = Exchanged r (CError e true) h true /\
              r_status r = 500 /\ r_errhdr r = true /\ r_body r = WError e /\ e_status e = Some 500.
Proof. exact StatusProofs.invalid_status_is_500. Qed.

Theorem guard_response_fields : forall s idh,
  r_status (guard_response s idh) = 500 /\ r_errhdr (guard_response s idh) = true /\
  r_body (guard_response s idh) = WError (guard_err s) /\ e_status (guard_err s) = Some 500 /\
  e_message (guard_err s) = Some (sprintf_d serve_guard_fmt s).
Proof. exact StatusProofs.guard_response_fields. Qed.

(* Servers with filters (restli.Filter; model Status.serve_f / call_f: PreRequest hooks in order inside receive, PostRequest
   hooks in reverse order only when receive returned no error).  Without filters it is the model above. *)
Theorem call_f_nil : forall h m d i, call_f h [] m d i = call h m d i.
Proof. exact StatusProofs.call_f_nil. Qed.

(* Filters whose hooks do not fail are transparent: every theorem above holds behind them. *)
Theorem passing_filters_transparent : forall h fs m d i, forallb passing fs = true -> call_f h fs m d i = call h m d i.
Proof. exact StatusProofs.passing_filters_transparent. Qed.

(* A failed call (error response, other error, panic of the implementation) reaches the client as without filters whatever
   the PostRequest hooks would return (failing or not): no filter can replace or drop the failure. *)
Theorem resource_failure_not_masked : forall h fs m i,
  run_pre_filters fs = None ->
  (exists l, i_outcome i = OErrResp l) \/ (exists msg, i_outcome i = OPlain msg) \/ (exists msg, i_outcome i = OPanic msg) ->
  call_f h fs m RqOk i = call h m RqOk i.
Proof. exact StatusProofs.resource_failure_not_masked. Qed.

(* A failing PreRequest hook answers the request: the implementation is not invoked. *)
Theorem pre_failure_not_invoked : forall h fs m d i e, run_pre_filters fs = Some e -> snd (serve_f h fs m d i) = false.
Proof. exact StatusProofs.pre_failure_not_invoked. Qed.

(* Non-vacuity (filters): delete fails with a plain error behind a filter whose PostRequest succeeds and one whose
   PostRequest fails: the reply is the 500 error response of the failed delete, not a 204 and not the filter's error. *)
Example c08_filters_nonvacuous :
  exists r e, call_f [] [ {| f_pre := FOk; f_post := FOk |}; {| f_pre := FOk; f_post := FPlain [x78] |} ]
                   {| m_kind := RegisterDelete; m_name := [x64; x65; x6c; x65; x74; x65] |} RqOk
                   {| i_override := None; i_outcome := OPlain [x62; x6f; x6f; x6d]; i_created_status := 0; i_id_marshals := true |}
              = Exchanged r (CError e true) [] true /\ r_status r = 500 /\ r_errhdr r = true.
Proof. eexists. eexists. vm_compute. repeat split. Qed.

(* Non-vacuity: get returns &ErrorResponse{Status: 404, ServiceErrorCode: 7} held at location 0; the wire carries 404, the
   error header and the object with the message "Not Found"; the client's error carries the same; the heap is unchanged. *)
Example c08_nonvacuous :
  let e := mkErr (Some 404) (Some 7) None None None None None None None false in
  let e' := with_message e (Some [x4e; x6f; x74; x20; x46; x6f; x75; x6e; x64]) in
  call [e] {| m_kind := RegisterGet; m_name := [x67; x65; x74] |} RqOk
       {| i_override := Some 202; i_outcome := OErrResp 0%nat; i_created_status := 0; i_id_marshals := true |} =
  Exchanged {| r_status := 404; r_errhdr := true; r_idhdr := false; r_body := WError e' |} (CError e' true) [e] true.
Proof. vm_compute. reflexivity. Qed.

Print Assumptions error_response_delivered.
Print Assumptions delivered_fields.
Print Assumptions delivered_complete.
Print Assumptions other_failure_is_error_response.
Print Assumptions plain_error_response.
Print Assumptions plain_error_status.
Print Assumptions panic_error_response.
Print Assumptions other_failure_refuted.
Print Assumptions nil_override_witness.
Print Assumptions nil_result_is_500.
Print Assumptions error_objects_not_modified.
Print Assumptions in_place_write_would_modify.
Print Assumptions success_statuses.
Print Assumptions success_default_statuses.
Print Assumptions success_no_result.
Print Assumptions default_statuses_table.
Print Assumptions malformed_request_is_400.
Print Assumptions malformed_iff.
Print Assumptions call_decoded.
Print Assumptions all_site_statuses_ge_400.
Print Assumptions no_crash.
Print Assumptions invalid_error_status_is_500.
Print Assumptions invalid_success_status_is_500.
Print Assumptions invalid_status_is_500.
Print Assumptions guard_response_fields.
Print Assumptions call_f_nil.
Print Assumptions passing_filters_transparent.
Print Assumptions resource_failure_not_masked.
Print Assumptions pre_failure_not_invoked.
