(* C16 - Batch calls correlate every response entry with the caller's original key.  Statements only; proofs in
   Proofs/KeySetProofs.v (abstract key sets), Proofs/KeySetInst.v (instances through the C10 lemmas).
   Model: Hash/KeySet.v (batchkeyset/{generic,primitive,set}.go and BatchResponse.UnmarshalWithKeyLocator), keys are abstract values,
   key equality / hash are the C10 models of the generated Equals / ComputeHash (Hash/Equals.v, Hash/Fnv.v). *)
From Coq Require Import List Bool Arith ZArith NArith Permutation Sorting.Sorted.
From Coq.Strings Require Import Byte.
From GR Require Import Base.Bytes Codec.Schema Codec.Tracker Gen.TablesFnv Hash.Fnv Hash.Equals Hash.HashSpec Hash.KeySet
  Proofs.KeySetProofs Proofs.KeySetInst.
Import ListNotations.

(* ---- duplicate keys are rejected before anything is sent: the fold of AddKey fails iff two keys are equal under key equality.
   Simple keys (typeref, enum, fixed, record keys: Equals / ComputeHash), for all schemas e, key types t and key lists. *)
Theorem add_rejects_duplicates : forall e f t ks, Forall (sgood e f t) ks ->
  (add_all value (shash e f t) (skeq e f t) (empty_g value) ks = None <->
   exists i j a b, i < j /\ nth_error ks i = Some a /\ nth_error ks j = Some b /\ equalsV e f t a b = true).
Proof. exact simple_add_rejects_duplicates. Qed.
Print Assumptions add_rejects_duplicates.

(* complex keys: equality looks at the key part only (ck_equalsV), so keys that differ in their params only are duplicates *)
Theorem add_rejects_duplicates_complex : forall e f n ks, Forall (cgood e f n) ks ->
  (add_all value (chash e f n) (ckeq e f n) (empty_g value) ks = None <->
   exists i j a b, i < j /\ nth_error ks i = Some a /\ nth_error ks j = Some b /\ ck_equalsV e f n a b = true).
Proof. exact complex_add_rejects_duplicates. Qed.
Print Assumptions add_rejects_duplicates_complex.

Theorem complex_keys_ignore_params : forall e f n k ia ib fa fb,
  ck_equalsV e f n (VRec (k :: ia) fa) (VRec (k :: ib) fb) = ck_equalsV e f n (VRec [k] []) (VRec [k] []) /\
  ck_hashV v2_params e f n (VRec (k :: ia) fa) = ck_hashV v2_params e f n (VRec (k :: ib) fb).
Proof. exact complex_params_ignored. Qed.
Print Assumptions complex_keys_ignore_params.

(* AddAllMapKeys (batch update / partial update: the entities are a Go map keyed by the keys, pointer keys being distinct map keys
   even when they denote equal keys) is the same fold of AddKey over the map's keys in iteration order: whether it rejects does
   not depend on that order, so it rejects exactly when two keys of the map are equal under key equality *)
Theorem add_all_map_keys_order_independent : forall e f t ks ks', Forall (sgood e f t) ks -> Permutation ks ks' ->
  (add_all value (shash e f t) (skeq e f t) (empty_g value) ks = None <-> add_all value (shash e f t) (skeq e f t) (empty_g value) ks' = None).
Proof. exact simple_add_all_order_independent. Qed.
Print Assumptions add_all_map_keys_order_independent.

Theorem add_all_map_keys_order_independent_complex : forall e f n ks ks', Forall (cgood e f n) ks -> Permutation ks ks' ->
  (add_all value (chash e f n) (ckeq e f n) (empty_g value) ks = None <-> add_all value (chash e f n) (ckeq e f n) (empty_g value) ks' = None).
Proof. exact complex_add_all_order_independent. Qed.
Print Assumptions add_all_map_keys_order_independent_complex.

(* primitive keys (int32, int64, float32, float64, bool, string): the set is a Go map, equality is == *)
Theorem add_rejects_duplicates_primitive : forall p ks, Forall (pgood p) ks ->
  (add_all value phash (pkeq p) (empty_p value) ks = None <->
   exists i j a b, i < j /\ nth_error ks i = Some a /\ nth_error ks j = Some b /\ prim_equal p a b = true).
Proof. exact primitive_add_rejects_duplicates. Qed.
Print Assumptions add_rejects_duplicates_primitive.

(* ---- each id is transmitted exactly once: for every kind of set and every key encoder, the ids are the individually encoded
   keys of the caller's list, each once (a permutation), in sorted order; without repetition when the encoder separates
   different keys (C01: decoding inverts encoding) *)
Theorem ids_once_sorted : forall (key : Type) (khash : key -> N) (keq : key -> key -> bool) (encode_key : key -> bytes) s0,
  s0 = empty_g key \/ s0 = empty_p key ->
  forall ks s, add_all key khash keq s0 ks = Some s ->
  encode_ids key encode_key s = sort_bytes (map encode_key ks) /\
  Permutation (encode_ids key encode_key s) (map encode_key ks) /\
  StronglySorted (fun a b => bytes_ltb b a = false) (encode_ids key encode_key s).
Proof. exact ids_sorted_once. Qed.
Print Assumptions ids_once_sorted.

Theorem ids_no_repetition : forall e f t (encode_key : value -> bytes),
  (forall a b, sgood e f t a -> sgood e f t b -> encode_key a = encode_key b -> equalsV e f t a b = true) ->
  forall ks s, Forall (sgood e f t) ks -> add_all value (shash e f t) (skeq e f t) (empty_g value) ks = Some s ->
  NoDup (encode_ids value encode_key s).
Proof. exact simple_ids_no_repetition. Qed.
Print Assumptions ids_no_repetition.

(* ---- LocateOriginalKey returns the STORED key - the caller's own value, at its position in the caller's list - for every key
   equal to it, whatever the other keys in the same hash bucket (colliding hashes included).  Needs "Equal => same hash" (C10):
   otherwise the equal key is looked up in another bucket and not found. *)
Theorem locate_returns_original : forall e f t ks s k o, Forall (sgood e f t) ks -> sgood e f t k ->
  add_all value (shash e f t) (skeq e f t) (empty_g value) ks = Some s ->
  In o ks -> equalsV e f t o k = true -> locate value (shash e f t) (skeq e f t) s k = Some o.
Proof. exact simple_locate_returns_original. Qed.
Print Assumptions locate_returns_original.

Theorem locate_returns_original_complex : forall e f n ks s k o, Forall (cgood e f n) ks -> cgood e f n k ->
  add_all value (chash e f n) (ckeq e f n) (empty_g value) ks = Some s ->
  In o ks -> ck_equalsV e f n o k = true -> locate value (chash e f n) (ckeq e f n) s k = Some o.
Proof. exact complex_locate_returns_original. Qed.
Print Assumptions locate_returns_original_complex.

(* primitive sets (a Go map from each key to the value the caller supplied): the stored value too - for floats the caller's own
   sign of zero, not the looked-up one *)
Theorem locate_returns_original_primitive : forall p ks s k o, Forall (pgood p) ks -> pgood p k ->
  add_all value phash (pkeq p) (empty_p value) ks = Some s ->
  In o ks -> prim_equal p o k = true -> locate value phash (pkeq p) s k = Some o.
Proof. exact primitive_locate_returns_original. Qed.
Print Assumptions locate_returns_original_primitive.

(* a key that was NOT requested is not found even when its hash collides with a requested key's - whatever the size of the
   bucket (the equality is always consulted) *)
Theorem locate_unrequested_colliding_is_none : forall (key : Type) khash keq s0, s0 = empty_g key \/ s0 = empty_p key ->
  forall ks s k o, add_all key khash keq s0 ks = Some s -> In o ks -> khash k = khash o ->
  (forall o', In o' ks -> keq o' k = false) -> locate key khash keq s k = None.
Proof. exact KeySetProofs.locate_unrequested_colliding_is_none. Qed.
Print Assumptions locate_unrequested_colliding_is_none.

(* ---- every entry of a map of the reply is filed under the caller's ORIGINAL key: entries and result correspond one to one, in
   order (none lost, duplicated or moved), each under a key of the caller's list that is equal to the decoded key.  Premise on
   the reply: no two entries of the map carry equal keys (a Go map would keep the later one). *)
Theorem response_filed_under_original : forall e f t (decode_key : bytes -> option value) (P : Type),
  (forall raw k, decode_key raw = Some k -> sgood e f t k) ->
  forall ks s (entries : list (bytes * option P)) m, Forall (sgood e f t) ks ->
  add_all value (shash e f t) (skeq e f t) (empty_g value) ks = Some s ->
  reply_nodup value (skeq e f t) decode_key P entries ->
  fill value (shash e f t) (skeq e f t) decode_key P s [] entries = inr m ->
  Forall2 (fun en kp => snd en = Some (snd kp) /\ In (fst kp) ks /\ exists k, decode_key (fst en) = Some k /\ equalsV e f t (fst kp) k = true) entries m.
Proof. exact simple_response_filed_under_original. Qed.
Print Assumptions response_filed_under_original.

Theorem response_filed_under_original_complex : forall e f n (decode_key : bytes -> option value) (P : Type),
  (forall raw k, decode_key raw = Some k -> cgood e f n k) ->
  forall ks s (entries : list (bytes * option P)) m, Forall (cgood e f n) ks ->
  add_all value (chash e f n) (ckeq e f n) (empty_g value) ks = Some s ->
  reply_nodup value (ckeq e f n) decode_key P entries ->
  fill value (chash e f n) (ckeq e f n) decode_key P s [] entries = inr m ->
  Forall2 (fun en kp => snd en = Some (snd kp) /\ In (fst kp) ks /\ exists k, decode_key (fst en) = Some k /\ ck_equalsV e f n (fst kp) k = true) entries m.
Proof. exact complex_response_filed_under_original. Qed.
Print Assumptions response_filed_under_original_complex.

Theorem response_filed_under_original_primitive : forall p (decode_key : bytes -> option value) (P : Type),
  (forall raw k, decode_key raw = Some k -> pgood p k) ->
  forall ks s (entries : list (bytes * option P)) m, Forall (pgood p) ks ->
  add_all value phash (pkeq p) (empty_p value) ks = Some s ->
  reply_nodup value (pkeq p) decode_key P entries ->
  fill value phash (pkeq p) decode_key P s [] entries = inr m ->
  Forall2 (fun en kp => snd en = Some (snd kp) /\ In (fst kp) ks /\ exists k, decode_key (fst en) = Some k /\ prim_equal p (fst kp) k = true) entries m.
Proof. exact primitive_response_filed_under_original. Qed.
Print Assumptions response_filed_under_original_primitive.

(* the three maps of the reply are each filled that way (a member that occurs once) *)
Theorem response_maps : forall (key : Type) khash keq (decode_key : bytes -> option key) (P : Type) s pre fl entries post b,
  fl <> FOther -> (forall x, In x (pre ++ post) -> fst x <> fl) ->
  unmarshal_with_locator key khash keq decode_key P s (pre ++ (fl, entries) :: post) = inr b ->
  exists m, fill key khash keq decode_key P s [] entries = inr m /\
            match fl with FResults => b_results key P b | FStatuses => b_statuses key P b | FErrors => b_errors key P b | FOther => None end = Some m.
Proof. exact unmarshal_field_once. Qed.
Print Assumptions response_maps.

(* a member the envelope does not know is skipped (readRecord on NoSuchFieldErr): it neither adds nor removes entries *)
Theorem unknown_member_skipped : forall (key : Type) khash keq (decode_key : bytes -> option key) (P : Type) s pre entries post,
  unmarshal_with_locator key khash keq decode_key P s (pre ++ (FOther, entries) :: post) =
  unmarshal_with_locator key khash keq decode_key P s (pre ++ post).
Proof. exact unmarshal_other_skipped. Qed.
Print Assumptions unknown_member_skipped.

(* ---- a reply that mentions a key that was never requested is an error, for every kind of set, whichever of the three maps
   mentions it and wherever *)
Theorem unknown_key_is_error : forall (key : Type) khash keq (decode_key : bytes -> option key) (P : Type) s0,
  s0 = empty_g key \/ s0 = empty_p key ->
  forall ks s fields fl entries raw op k,
  add_all key khash keq s0 ks = Some s ->
  In (fl, entries) fields -> fl <> FOther -> In (raw, op) entries -> decode_key raw = Some k ->
  (forall o, In o ks -> keq o k = false) ->
  exists er, unmarshal_with_locator key khash keq decode_key P s fields = inl er.
Proof. exact unmarshal_unknown_is_error. Qed.
Print Assumptions unknown_key_is_error.

(* non-vacuity: two colliding int64 typeref keys (both hash to the same bucket under the FNV constants of the current tree), a third
   key; all are added, each is located as itself, a stranger is not found *)
Example keyset_nonvacuous :
  let e : henv := [] in let t := HTyperef PLong in
  let ks := [VLong 838517077; VLong 149557353; VLong 5] in
  shash e 2 t (VLong 838517077) = shash e 2 t (VLong 149557353) /\
  exists s, add_all value (shash e 2 t) (skeq e 2 t) (empty_g value) ks = Some s /\
            locate value (shash e 2 t) (skeq e 2 t) s (VLong 149557353) = Some (VLong 149557353) /\
            locate value (shash e 2 t) (skeq e 2 t) s (VLong 7) = None /\
            add_all value (shash e 2 t) (skeq e 2 t) (empty_g value) (ks ++ [VLong 838517077]) = None.
Proof. vm_compute. split; [reflexivity|]. eexists. repeat split. Qed.

Example colliding_stranger_nonvacuous :
  let t := HTyperef PLong in
  shash [] 2 t (VLong 838517077) = shash [] 2 t (VLong 149557353) /\
  exists s, add_all value (shash [] 2 t) (skeq [] 2 t) (empty_g value) [VLong 838517077] = Some s /\
            locate value (shash [] 2 t) (skeq [] 2 t) s (VLong 149557353) = None.
Proof. exact colliding_stranger_not_found. Qed.

(* a primitive set hands the caller's +0 back for a reply that names -0 *)
Example primitive_signed_zero_nonvacuous :
  exists s, add_all value phash (pkeq PDouble) (empty_p value) [VDouble 0] = Some s /\
            locate value phash (pkeq PDouble) s (VDouble 9223372036854775808) = Some (VDouble 0).
Proof. exact primitive_signed_zero_original. Qed.
