(* C18 — Lazy map publishes each key's value once under every interleaving.
   Only statements here; proofs are in Proofs/LazyMapProofs.v, the model in D2/LazyMap.v (one model step = the code
   between two yield points of the hooked lazymap.go, i.e. one sync.Map / WaitGroup operation).  Every theorem is for
   UNBOUNDED programs: [prog : tid -> list op] gives any number of goroutines any number of LoadOrStore / Load /
   Store calls on any keys, and a schedule is any list of goroutine ids ([reachable] = the state after some schedule).
   The property's own space (<= 3 goroutines x <= 2 operations x 2 keys) is an instance. *)
From Coq Require Import List Bool Arith.
From GR Require Import D2.LazyMap Proofs.LazyMapProofs Proofs.LazyMapStores Proofs.LazyMapLin Gen.TablesLazyMap Proofs.LazyMapShape.
Import ListNotations.

(* The compute function for a key runs at most once - among racing callers and over the whole execution, because a
   placeholder is only inserted into an absent key and keys are never deleted (counts the caller's f and Store's
   internal closure alike). *)
Theorem compute_at_most_once : forall prog s, reachable prog s -> forall k, computes s k <= 1.
Proof. exact LazyMapProofs.compute_at_most_once. Qed.

(* A completed LoadOrStore returned a real value, a completed Load a real value or "absent": never a placeholder and
   never a placeholder's still-unwritten content. *)
Theorem no_placeholder_escapes : forall prog s, reachable prog s ->
  forall t o r, In (ERes t o r) (hist s) ->
  match o with
  | OLos _ _ => exists v, r = RVal v
  | OLoad _ => r = RAbsent \/ exists v, r = RVal v
  | OStore _ _ => r = RUnit
  end.
Proof. exact LazyMapProofs.no_placeholder_escapes. Qed.

(* A goroutine parked before Wait on placeholder q is enabled as soon as no goroutine is inside the winning call that
   owns q any more (its computation returned and Done ran): no blocking after the computation has returned. *)
Theorem load_does_not_block_after_return : forall prog s t q, reachable prog s ->
  tpc (threads s t) = PWait q ->
  (forall t', match tpc (threads s t') with PCall p | PWrite p _ | PInner p _ | PDone p _ => p <> q | _ => True end) ->
  step s t <> None.
Proof. exact LazyMapStores.load_does_not_block_after_return'. Qed.

(* Callers racing on one computation agree: as long as no Store on k has been invoked, every value returned so far by
   LoadOrStore(k) and Load(k) calls is the same. *)
Theorem racing_callers_agree : forall prog s k, reachable prog s ->
  (forall t v, ~ In (EInv t (OStore k v)) (hist s)) ->
  forall t1 o1 v1 t2 o2 v2,
    In (ERes t1 o1 (RVal v1)) (hist s) -> In (ERes t2 o2 (RVal v2)) (hist s) ->
    op_key o1 = k -> op_key o2 = k -> v1 = v2.
Proof. exact LazyMapStores.racing_callers_agree. Qed.

(* A store is never lost to an in-flight computation: if the program's stores on k all write v, then from the moment
   one of them has returned the key holds v (or the placeholder of the store that won), whatever LoadOrStore
   computations race with it; and at quiescence the map holds exactly v.  (The general "last store wins" form is the
   final-state clause of [linearizable] below: at quiescence the real map equals the specification's map after a
   linearization, which respects the real-time order of calls.) *)
Theorem store_not_lost : forall prog s k v, reachable prog s ->
  (forall t v', In (OStore k v') (prog t) -> v' = v) ->
  (exists t r, In (ERes t (OStore k v) r) (hist s)) ->
  match smap s k with Some (Val v') => v' = v | Some (Placeholder _) => ~ final s | None => False end.
Proof. exact LazyMapStores.store_not_lost. Qed.

(* No deadlock: whenever some goroutine still has operations to run, some goroutine can take a step. *)
Theorem no_deadlock : forall prog s, reachable prog s ->
  (exists t, tops (threads s t) <> []) -> exists t, step s t <> None.
Proof. exact LazyMapProofs.no_deadlock. Qed.

(* Linearizability w.r.t. a plain map with compute-if-absent, for every program and every schedule (forward
   simulation; the linearization points are: the sync.Map.LoadOrStore that inserts the placeholder for a winning
   LoadOrStore/Store, the sync.Map read for a losing LoadOrStore and for a Load, the final overwrite for a Store that
   lost).  [linearization h hl m]: hl is the history h decorated with one linearization point inside the interval of
   every completed call, the calls taken atomically in the order of their points are a legal run of the
   specification from the empty map returning the same values, and m is the specification's final map.  At
   quiescence the real map is exactly m. *)
Theorem linearizable : forall prog sched,
  let s := run (init prog) sched in
  exists hl m, linearization (hist s) hl m /\
               (final s -> forall k, smap s k = match m k with Some v => Some (Val v) | None => None end).
Proof. exact LazyMapProofs.linearizable_all. Qed.

(* What [linearization] means in textbook terms: in a well-formed decorated history every response is preceded by the
   linearization point of the same call (same goroutine, operation and returned value) which is preceded by that
   call's invocation, with no other event of that goroutine in between ([quiet t l]: no event of t in l).  Every
   point therefore lies inside its call's interval, so the order of the points - which is the legal sequential
   run - preserves real-time precedence (response of a before invocation of b => point of a before point of b). *)
Theorem lin_point_inside_interval : forall hl l1 t o r l2,
  wf_run (fun _ => TIdle) hl <> None -> hl = l1 ++ LRes t o r :: l2 ->
  exists la lb lc, l1 = la ++ LInv t o :: lb ++ LLin t o r :: lc /\ quiet t lb /\ quiet t lc.
Proof. exact LazyMapLin.lin_point_inside_interval. Qed.

(* The source still has the shape the model transcribes: the sequence of yield points and atomic calls of each
   function of lazymap.go (both module generations), re-read from /repo on every run. *)
Theorem source_shape_is_modelled :
  v2_lazymap_shape = LazyMapShape.modelled_shape /\ root_lazymap_shape = LazyMapShape.modelled_shape.
Proof. exact LazyMapShape.source_shape_is_modelled. Qed.

(* Two facts of that shape on their own.  A waiter - LoadOrStore after yield point 2, Load after yield point 7 - first
   calls Wait (directly: not deferred, not in a new goroutine) and only then evaluates the return statement that reads
   the placeholder's result field: the model's PWait step returns the field as it is after Done. *)
Theorem waiters_read_result_after_wait : forall sh, In sh LazyMapShape.shapes ->
  LazyMapShape.waits_then_reads 2 (nth 0 sh []) /\ LazyMapShape.waits_then_reads 7 (nth 1 sh []).
Proof. exact LazyMapShape.waiters_read_result_after_wait. Qed.

(* Store declares a flag false, its closure (yield point 8) sets that flag, and the overwrite (yield point 9) is guarded
   by the negation of that flag alone: the model's Store goes to PRaw exactly when its own closure did not run, whatever
   the values are. *)
Theorem store_overwrites_iff_its_closure_did_not_run : forall sh, In sh LazyMapShape.shapes ->
  nth 2 sh [] = LazyMapShape.store_shape.
Proof. exact LazyMapShape.store_overwrites_iff_its_closure_did_not_run. Qed.

(* Non-vacuity: goroutine 0 wins LoadOrStore(0, 11); goroutine 1's Store(0, 21) finds the placeholder, waits, then
   overwrites; its Load sees 21; f ran once; every call completed. *)
Example c18_nonvacuous :
  let s := run (init (prog_of [[OLos 0 11]; [OStore 0 21; OLoad 0]])) [0;1;0;0;0;1;0;1;1;1] in
  hist s = [EInv 0 (OLos 0 11); EInv 1 (OStore 0 21); ERes 0 (OLos 0 11) (RVal 11);
            ERes 1 (OStore 0 21) RUnit; EInv 1 (OLoad 0); ERes 1 (OLoad 0) (RVal 21)] /\
  computes s 0 = 1 /\ smap s 0 = Some (Val 21) /\ tops (threads s 0) = [] /\ tops (threads s 1) = [].
Proof. vm_compute. repeat split; reflexivity. Qed.

Print Assumptions compute_at_most_once.
Print Assumptions no_placeholder_escapes.
Print Assumptions load_does_not_block_after_return.
Print Assumptions racing_callers_agree.
Print Assumptions store_not_lost.
Print Assumptions no_deadlock.
Print Assumptions linearizable.
Print Assumptions lin_point_inside_interval.
Print Assumptions source_shape_is_modelled.
Print Assumptions waiters_read_result_after_wait.
Print Assumptions store_overwrites_iff_its_closure_did_not_run.
