(* C10 - Equals / hash contract of generated and key types.  Statements only; proofs in Proofs/HashProofs.v, Proofs/HashInst.v.
   Models: Hash/Fnv.v (fnv1a/hasher.go + the generated ComputeHash), Hash/Equals.v (restli/equals + the generated Equals), over ALL
   schemas (e : henv), types t and values; vocabulary in Hash/HashSpec.v:
     wfV e f t v  - v is a value of type t as Go's type system shapes it (distinct map keys, fixed size, ...), every enum constant
                    valid, no NaN, and the fuel f suffices to traverse it ("valid NaN-free value");
     same a b     - a and b differ at no field, element, union member or optional presence; floats related by Go's == (so +0 / -0
                    are the same); map entries in any order.  nil and empty collections are one abstract value by representation. *)
From Coq Require Import List Bool Arith ZArith NArith Permutation.
From Coq.Strings Require Import Byte.
From GR Require Import Base.Bytes Codec.Schema Gen.TablesFnv Hash.Fnv Hash.Equals Hash.HashSpec Proofs.HashProofs Proofs.HashInst.
Import ListNotations.

(* both module generations hash alike (constants, byte order, zero normalisation, sorted map entries): the theorems below are
   stated on the v2 instance *)
Theorem fnv_modules_agree : root_params = v2_params.
Proof. exact HashProofs.fnv_modules_agree. Qed.
Print Assumptions fnv_modules_agree.

Theorem root_module_shares_sources : root_fnv1a_source_same_as_v2 = true /\ root_equals_source_same_as_v2 = true.
Proof. exact modules_share_sources. Qed.
Print Assumptions root_module_shares_sources.

(* ---- Equals is an equivalence on valid NaN-free values *)
Theorem equals_reflexive : forall e f t v, wfV e f t v = true -> equalsV e f t v v = true.
Proof. exact equals_refl. Qed.
Print Assumptions equals_reflexive.

Theorem equals_symmetric : forall e f t a b, wfV e f t a = true -> wfV e f t b = true -> equalsV e f t a b = equalsV e f t b a.
Proof. exact equals_sym. Qed.
Print Assumptions equals_symmetric.

Theorem equals_transitive : forall e f t a b c, equalsV e f t a b = true -> equalsV e f t b c = true -> equalsV e f t a c = true.
Proof. exact equals_trans. Qed.
Print Assumptions equals_transitive.

(* ---- insensitive to the order of map entries (and +0 / -0; nil vs empty by representation): the same value is Equal *)
Theorem equals_map_order_nil : forall e f t a b, same a b -> wfV e f t a = true -> equalsV e f t a b = true.
Proof. exact same_equals. Qed.
Print Assumptions equals_map_order_nil.

(* ---- and it distinguishes values that differ anywhere: Equal values are the same value *)
Theorem equals_discriminates : forall e f t a b, wfV e f t a = true -> wfV e f t b = true -> ~ same a b -> equalsV e f t a b = false.
Proof. exact HashInst.equals_discriminates. Qed.
Print Assumptions equals_discriminates.

Theorem equals_characterised : forall e f t a b, wfV e f t a = true -> wfV e f t b = true -> (equalsV e f t a b = true <-> same a b).
Proof. exact equals_iff_same. Qed.
Print Assumptions equals_characterised.

(* ---- the key theorem: Equal values have equal hashes.  General form: for any FNV constants, provided zeros are normalised
   and the per-entry hashes of a map are sorted; then for the hasher of the current tree (both modules). *)
Theorem equal_implies_same_hash_general : forall P e f t a b,
  fp_norm32 P = true -> fp_norm64 P = true -> fp_map_sorted P = true ->
  wfV e f t a = true -> wfV e f t b = true -> equalsV e f t a b = true -> hashV P e f t a = hashV P e f t b.
Proof. exact HashProofs.equal_implies_same_hash. Qed.
Print Assumptions equal_implies_same_hash_general.

Theorem equal_implies_same_hash : forall e f t a b,
  wfV e f t a = true -> wfV e f t b = true -> equalsV e f t a b = true -> hashV v2_params e f t a = hashV v2_params e f t b.
Proof. exact equal_implies_same_hash_v2. Qed.
Print Assumptions equal_implies_same_hash.

Theorem equal_implies_same_hash_root_module : forall e f t a b,
  wfV e f t a = true -> wfV e f t b = true -> equalsV e f t a b = true -> hashV root_params e f t a = hashV root_params e f t b.
Proof. exact equal_implies_same_hash_root. Qed.
Print Assumptions equal_implies_same_hash_root_module.

(* ---- the hash is a function of the value: independent of map order (pointer identity and process do not exist in the model:
   hashV is a Gallina function of the abstract value; the driver checks separately built copies and the model's own numbers) *)
Theorem hash_is_pure : forall e f t a b, same a b -> wfV e f t a = true -> hashV v2_params e f t a = hashV v2_params e f t b.
Proof. exact hash_is_pure_v2. Qed.
Print Assumptions hash_is_pure.

(* ---- library key types: primitives (fnv1a.HashX / == / equals.Bytes are the HPrim instances), complex keys on their key part *)
Theorem keyset_types_primitive : forall e p a b,
  (equalsV e 1 (HPrim p) a b = prim_equal p a b) /\ (hashV v2_params e 1 (HPrim p) a = add_prim v2_params p a (new_hash v2_params)) /\
  (wfV e 1 (HPrim p) a = prim_wf p a).
Proof. exact prim_key_facts. Qed.
Print Assumptions keyset_types_primitive.

Theorem keyset_types_complex_equivalence : forall e f n,
  (forall v, ck_wfV e f n v = true -> ck_equalsV e f n v v = true) /\
  (forall a b, ck_wfV e f n a = true -> ck_wfV e f n b = true -> ck_equalsV e f n a b = ck_equalsV e f n b a) /\
  (forall a b c, ck_equalsV e f n a b = true -> ck_equalsV e f n b c = true -> ck_equalsV e f n a c = true).
Proof. exact ck_equivalence. Qed.
Print Assumptions keyset_types_complex_equivalence.

Theorem keyset_types_complex_hash : forall e f n a b,
  ck_wfV e f n a = true -> ck_wfV e f n b = true -> ck_equalsV e f n a b = true -> ck_hashV v2_params e f n a = ck_hashV v2_params e f n b.
Proof. exact ck_equal_implies_same_hash_v2. Qed.
Print Assumptions keyset_types_complex_hash.

(* ---- regression witnesses: without the zero normalisation (the pinned tree before the fix of D25), resp. without sorting the
   per-entry hashes, Equal values hash differently *)
Theorem hash_without_normalisation_refuted :
  exists a b, wfV [] 2 (HPrim PDouble) a = true /\ wfV [] 2 (HPrim PDouble) b = true /\ equalsV [] 2 (HPrim PDouble) a b = true /\
              hashV (unnormalised v2_params) [] 2 (HPrim PDouble) a <> hashV (unnormalised v2_params) [] 2 (HPrim PDouble) b.
Proof. exact HashProofs.hash_without_normalisation_refuted. Qed.
Print Assumptions hash_without_normalisation_refuted.

Theorem hash_unsorted_map_refuted :
  exists a b, wfV [] 3 (HMap (HPrim PInt)) a = true /\ wfV [] 3 (HMap (HPrim PInt)) b = true /\ equalsV [] 3 (HMap (HPrim PInt)) a b = true /\
              hashV (unsorted v2_params) [] 3 (HMap (HPrim PInt)) a <> hashV (unsorted v2_params) [] 3 (HMap (HPrim PInt)) b.
Proof. exact HashProofs.hash_unsorted_map_refuted. Qed.
Print Assumptions hash_unsorted_map_refuted.

(* non-vacuity: a record {m : map<double>, o : optional int32} with its map listed in two orders and a zero of either sign: the
   two values are well-formed, the same, Equal, and hash alike; a value that differs in optional presence is not Equal *)
Example contract_nonvacuous :
  let e : henv := [HRecord [] [{| hf_ty := HMap (HPrim PDouble); hf_ptr := false |}; {| hf_ty := HPrim PInt; hf_ptr := true |}]] in
  let a := VRec [] [Some (VMap [([x61], VDouble 0); ([x62], VDouble 4607182418800017408)]); None] in
  let b := VRec [] [Some (VMap [([x62], VDouble 4607182418800017408); ([x61], VDouble 9223372036854775808)]); None] in
  let c := VRec [] [Some (VMap [([x61], VDouble 0); ([x62], VDouble 4607182418800017408)]); Some (VInt 0)] in
  wfV e 4 (HRef 0) a = true /\ wfV e 4 (HRef 0) b = true /\ equalsV e 4 (HRef 0) a b = true /\
  hashV v2_params e 4 (HRef 0) a = hashV v2_params e 4 (HRef 0) b /\ equalsV e 4 (HRef 0) a c = false /\
  hashV v2_params e 4 (HRef 0) a <> zero_hash.
Proof. vm_compute. repeat split; try reflexivity. discriminate. Qed.
