(* C12 - Code generation is total, deterministic and yields compilable bindings.   PARTIAL (DESIGN.md section 7).
   Only statements here; proofs are in Proofs/IdentProofs.v and Proofs/RegistryProofs.v.
   Decided by proof: the identifier rules and the type registry core (Gen2/Ident.v, Gen2/Registry.v).
   NOT decided by proof - decided only by the generator runs of ./check C12: "the output compiles and type-checks",
   "byte-identical files on every run", "the checked-in bindings are what the generator produces".                  *)
From Coq Require Import List Bool Permutation.
From Coq.Strings Require Import Byte.
From GR Require Import Base.Bytes Gen.TablesGen Gen2.Ident Gen2.Registry Proofs.IdentProofs Proofs.RegistryProofs.
Import ListNotations.

(* ---- identifiers: every legal name is exported to a valid, exported Go identifier that is not a keyword *)
Theorem exported_identifier_valid : forall s, legal_pegasus_name s = true ->
  exists r, exported_identifier s = Ok r /\ go_identifier r = true /\ is_exported r = true /\ is_keyword r = false.
Proof. exact IdentProofs.exported_identifier_valid. Qed.

(* ---- table obligations: the regular expressions the model transcribes by hand are still the ones in the source *)
Theorem modelled_regexes_unchanged :
  namespace_escape_regex = [x28;x5b;x2f;x2e;x5d;x29;x5f;x3f;x69;x6e;x74;x65;x72;x6e;x61;x6c;x28;x5b;x2f;x2e;x5d;x3f;x29] /\  (* ([/.])_?internal([/.]?) *)
  namespace_escape_template = [x24;x7b;x31;x7d;x5f;x69;x6e;x74;x65;x72;x6e;x61;x6c;x24;x7b;x32;x7d] /\                    (* ${1}_internal${2} *)
  imports_regex = [x5b;x5e;x61;x2d;x7a;x30;x2d;x39;x5d].                                                                  (* [^a-z0-9] *)
Proof. repeat split; reflexivity. Qed.

(* ---- registry_total: for every manifest whose references are registered and whose names are legal (wf_core, the first
        clauses of wf_manifest) Finalize terminates within its fuel, never panics (no reg.get on an unknown identifier, no
        empty namespace, no illegal identifier character), and can only fail with one of the two documented Go errors:
        a cycle across package roots (excluded by the layering clause of wf_manifest) or a rename that fails on every
        attempt (excluded by its last clause; registry_total_needs_distinct_full_names shows it is needed).           *)
Theorem registry_total : forall reg, wf_core reg ->
  match finalize reg with Ok _ => True | Err ECrossRootCycle => True | Err ERename => True | _ => False end.
Proof. exact RegistryProofs.registry_total. Qed.

(* ---- several manifests (cmd.RegisterManifests: the input types of EVERY manifest first, then the dependency copies,
        leniently): a type is filed under the package root of the manifest that OWNS it (lists it in inputDataTypes), with
        the references the owner declared - whatever copies other manifests carry in dependencyDataTypes and in whatever
        order the manifests were read (a dependency manifest read early cannot plant its copies first). *)
Theorem owner_wins : forall init ms reg m d,
  register_inputs_then_deps init ms = Ok reg -> In m ms -> In d (m_inputs m) ->
  lookup reg (d_id d) = Some (entry_of (m_root m) d).
Proof. exact RegistryProofs.owner_wins. Qed.

(* registration of a schema set in which every type has ONE owner cannot fail ... *)
Theorem registration_total : forall init ms,
  NoDup (map e_id (init ++ input_entries ms)) -> exists reg, register_inputs_then_deps init ms = Ok reg.
Proof. exact RegistryProofs.registration_total. Qed.

(* ... in any order of the manifests, and every owned type is filed the same way in all of them *)
Theorem registration_order_independent : forall init ms ms',
  NoDup (map e_id (init ++ input_entries ms)) -> Permutation ms ms' ->
  exists reg reg',
    register_inputs_then_deps init ms = Ok reg /\ register_inputs_then_deps init ms' = Ok reg' /\
    forall m d, In m ms -> In d (m_inputs m) ->
      lookup reg (d_id d) = Some (entry_of (m_root m) d) /\ lookup reg' (d_id d) = Some (entry_of (m_root m) d).
Proof. exact RegistryProofs.registration_order_independent. Qed.

(* non-vacuity: beta owns b.M, alpha carries a copy of it and is read FIRST - b.M is still filed under beta's root *)
Example owner_wins_nonvacuous :
  let money := mkId [x4d] [x62] in let cart := mkId [x43] [x61] in
  let alpha := mkManifest [x41] [mkDecl cart [money]] [mkDecl money []] in
  let beta := mkManifest [x42] [mkDecl money []] [] in
  match register_inputs_then_deps [] [alpha; beta] with
  | Ok reg => option_map e_root (lookup reg money) = Some [x42] /\ option_map e_root (lookup reg cart) = Some [x41]
  | _ => False
  end.
Proof. exact RegistryProofs.owner_wins_nonvacuous. Qed.

(* ---- the full statements of the registry properties, as DESIGN.md states them.  Three of them are FALSE of the
        faithful model of the current code (and of the code: the witnesses are replayed on the real generator).      *)
Definition full_statement_order_independent : Prop :=
  forall reg1 reg2, wf_manifest reg1 -> reordered reg1 reg2 -> results_agree (finalize reg1) (finalize reg2).
Definition full_statement_package_graph_acyclic : Prop :=
  forall reg r, wf_manifest reg -> finalize reg = Ok r -> acyclic (import_edges r).
Definition full_statement_no_duplicate_identifiers : Prop :=
  forall reg r e1 e2, wf_manifest reg -> finalize reg = Ok r -> In e1 r -> In e2 r -> e_id e1 <> e_id e2 ->
    out_pkg e1 = out_pkg e2 -> out_name e1 <> out_name e2.

(* What IS proved of the two refuted statements: on inputs whose package graph is already acyclic (stratified by some
   rank: every reference stays in its package or goes strictly down) Finalize succeeds and leaves the registry untouched -
   nothing is moved to conflictResolution, nothing is renamed - for EVERY iteration order of the type map and of every
   ReferencedTypes() set, so the assignment of packages and names is order-independent and the import graph is acyclic.
   (registry_order_independent_partial and package_graph_acyclic_partial in one statement; the excluded inputs are
   exactly those with some package-level cycle, where the witnesses below live.)                                     *)
Theorem acyclic_input_untouched : forall rank reg1 reg2,
  NoDup (map e_id reg1) -> closed reg1 -> unflagged_all reg1 -> stratified rank reg1 -> reordered reg1 reg2 ->
  finalize reg1 = Ok reg1 /\ finalize reg2 = Ok reg2 /\ same_assignment reg1 reg2 /\ acyclic (import_edges reg1).
Proof. exact RegistryProofs.acyclic_input_untouched. Qed.

(* What IS proved of name uniqueness (no_duplicate_identifiers_partial): types that stay in their namespace package never
   clash with anything - every pair of distinct types generated under the same (package, type name) lies inside
   conflictResolution (that is where the witness below lives: a renamed type colliding with a type of another group). *)
Theorem duplicates_only_in_conflict_resolution : forall reg r e1 e2,
  wf_core reg -> fresh_registry reg -> paths_injective reg = true -> ns_not_conflict reg = true ->
  finalize reg = Ok r -> In e1 r -> In e2 r -> e_id e1 <> e_id e2 ->
  out_pkg e1 = out_pkg e2 -> out_name e1 = out_name e2 ->
  e_cyc e1 = true /\ e_cyc e2 = true.
Proof. exact RegistryProofs.duplicates_only_in_conflict_resolution. Qed.

Theorem registry_order_independent_refuted :
  exists reg1 reg2 r1 r2, wf_manifest reg1 /\ reordered reg1 reg2 /\
    finalize reg1 = Ok r1 /\ finalize reg2 = Ok r2 /\ ~ same_assignment r1 r2.
Proof. exact RegistryProofs.registry_order_independent_refuted. Qed.

Theorem package_graph_acyclic_refuted :
  exists reg r, wf_manifest reg /\ finalize reg = Ok r /\ ~ acyclic (import_edges r).
Proof. exact RegistryProofs.package_graph_acyclic_refuted. Qed.

Theorem no_duplicate_identifiers_refuted :
  exists reg r e1 e2, wf_manifest reg /\ finalize reg = Ok r /\ In e1 r /\ In e2 r /\
    e_id e1 <> e_id e2 /\ out_pkg e1 = out_pkg e2 /\ out_name e1 = out_name e2.
Proof. exact RegistryProofs.no_duplicate_identifiers_refuted. Qed.

(* totality needs the last clause of wf_manifest: with legal names only, resolveConflicts can fail on every attempt *)
Theorem registry_total_needs_distinct_full_names :
  exists reg, forallb (fun e => legal_pegasus_name (id_name (e_id e)) && legal_ns (id_ns (e_id e))) reg = true /\
              ids_nodup reg = true /\ forallb (fun e => forallb (known reg) (e_refs e)) reg = true /\
              finalize reg = Err ERename.
Proof. exact RegistryProofs.registry_total_needs_distinct_full_names. Qed.

(* Non-vacuity: a well-formed manifest with a cross-namespace cycle and clashing names finalizes; both Node types move
   to conflictResolution and are renamed with their namespace prefixes. *)
Example c12_nonvacuous :
  let a := [x61] in let b := [x62] in let node := [x4e;x6f;x64;x65] in let r := [x72] in
  let reg := [fresh (mkId node a) r [mkId node b]; fresh (mkId node b) r [mkId node a]] in
  wf_manifestb reg = true /\
  match finalize reg with
  | Ok fin => map (fun e => (out_pkg e, out_name e)) fin =
              [(package_path r conflict_pkg, [x41] ++ node); (package_path r conflict_pkg, [x42] ++ node)]
  | _ => False
  end.
Proof. vm_compute. split; reflexivity. Qed.

Print Assumptions exported_identifier_valid.
Print Assumptions modelled_regexes_unchanged.
Print Assumptions registry_total.
Print Assumptions owner_wins.
Print Assumptions registration_total.
Print Assumptions registration_order_independent.
Print Assumptions acyclic_input_untouched.
Print Assumptions duplicates_only_in_conflict_resolution.
Print Assumptions registry_order_independent_refuted.
Print Assumptions package_graph_acyclic_refuted.
Print Assumptions no_duplicate_identifiers_refuted.
Print Assumptions registry_total_needs_distinct_full_names.
