(* C02 - A call of a generated client method reaches the resource method it names.
   Only statements here; proofs are in Proofs/EndToEndProofs.v.  Model: Http/EndToEnd.v (generated ResourcePath() /
   EncodeQueryParams() + restli.newRequest on the client side, composed with the router model Http/Router.v of C05 on
   the request as the server sees it after DecodeTunnelledQuery - C14's tunnel_transparent_end_to_end).  The character
   tables are regenerated from the Go source on every run (Gen/TablesCodec.v, Gen/TablesRouter.v).
   [fmtF] is the float text oracle (strconv): every statement holds for EVERY such function - the ROR2 writer escapes
   the float text, so no premise about it is needed.
   The reply direction (response status / headers / body back to the caller) has no model in Http/EndToEnd.v: it is
   covered empirically by the driver and, for statuses and error responses, by Props/C08.v; no statement here. *)
From Coq Require Import List Bool Arith NArith ZArith.
From Coq.Strings Require Import Byte.
From GR Require Import Base.Bytes Codec.Doc Codec.Escape Codec.Render Gen.TablesCodec Gen.TablesRouter
                       Http.Router Http.RouterSpec Http.EndToEnd Proofs.EndToEndProofs.
Import ListNotations.

(* A. An encoded path key - of ANY shape: primitive, string, bytes, array, complex key (object) - never contains '/':
   the path escaper's output alphabet, the integer text, the literal words and the ROR2 punctuation all exclude it. *)
Theorem no_slash_in_encoded_key : forall fmtF d, mem_byte x2f (ror2 fmtF FPath d) = false.
Proof. exact EndToEndProofs.no_slash_in_encoded_key. Qed.

(* A2. Hence splitting the resource path the client built on '/' (what ServeHTTP does after the prefix) gives back
   exactly the segments the client wrote: names and encoded keys, one per segment. *)
Theorem path_segments_recovered : forall fmtF c,
  cl_segs c <> [] -> Forall (fun s => mem_byte x2f (sg_name s) = false) (cl_segs c) ->
  split_on x2f (join_with [x2f] (path_segs fmtF (cl_segs c) (cl_keys c))) = path_segs fmtF (cl_segs c) (cl_keys c) /\
  exists rest, resource_path fmtF c = x2f :: rest /\ split_on x2f rest = path_segs fmtF (cl_segs c) (cl_keys c).
Proof. exact EndToEndProofs.path_segments_recovered. Qed.

(* B. A string key of any content (empty, '/', '%', quotes, parentheses, non-ASCII bytes ...) written into the path is
   read back unchanged by the server's ROR2 reader. *)
Theorem key_roundtrip_through_path : forall fmtF s, read_string_segment (ror2 fmtF FPath (DLeaf (LStr s))) = Some s.
Proof. exact EndToEndProofs.key_roundtrip_through_path. Qed.

(* B2. Every encoded key (and, more generally, every encoded document in every flavour: query parameter values too)
   passes ValidateRor2Input, the check receive applies to a key segment before going on. *)
Theorem encoded_key_valid_ror2 : forall fmtF d, valid_ror2 (ror2 fmtF FPath d) = true.
Proof. exact EndToEndProofs.encoded_key_valid_ror2. Qed.

Theorem encoded_doc_valid_ror2 : forall fmtF fl d, valid_ror2 (ror2 fmtF fl d) = true.
Proof. exact EndToEndProofs.encoded_doc_valid_ror2. Qed.

(* C. The client always sends X-RestLi-Method with the method's name, tunnelled or not, and the server reads that very
   method back from it. *)
Theorem method_header_always_sent : forall fmtF ctx c, cl_method c <> Method_Unknown ->
  header_method (r_header (as_served fmtF ctx c)) = cl_method c /\
  forall th, w_method_header (on_wire fmtF ctx th c) = method_name (cl_method c).
Proof. exact EndToEndProofs.method_header_always_sent. Qed.

(* C2. The verb the client picks never contradicts the header it sends: every request of a generated client lies in
   the domain where C05's inference_table / header_wins / route_iff_spec apply. *)
Theorem verb_specified : forall coll m, m <> Method_Unknown ->
  specified coll (header_method (method_name m)) (verb_of m).
Proof. exact EndToEndProofs.verb_specified. Qed.

(* D. The call reaches the method it names.
   The design statement: for every well-formed server mounted under ctx ++ "/" whose tree contains the chain of nodes the
   call's resource path names (matching collection flags; [chain]), every call carrying one key per parent collection and
   its own key exactly when the method is entity-level ([keys_fit]), whose method is one the protocol defines for that
   kind of URI ([method_fits]) and is registered on that node ([registered_call]): the router dispatches the request the
   client sends to exactly [call_target]: that resource path, that method, the encoded keys, that finder / action name. *)
Definition call_reaches_method_full : Prop :=
  forall (fmtF : bool -> N -> bytes) (s : server) (ctx : bytes) (c : call) (p : node) (hasEntity : bool),
    wf_server s -> s_prefix s = ctx ++ [x2f] ->
    Forall (fun g => mem_byte x2f (sg_name g) = false) (cl_segs c) ->
    chain (s_roots s) (cl_segs c) p -> keys_fit (cl_segs c) (cl_keys c) hasEntity ->
    cl_method c <> Method_Unknown ->
    method_fits (n_coll p) (cl_method c) hasEntity (method_eqb (cl_method c) Method_action) ->
    registered_call p c ->
    route_root s (as_served fmtF ctx c) = Dispatch (call_target fmtF c).

(* It holds under the query-side condition [wf_query]: declared query parameter names consist of characters the query
   escaper leaves alone and are none of the reserved q / action / ids; the finder / action name is such a name and is not
   empty (what the generator emits: identifiers).  Everything is derived: the path splits back into names and keys (A, A2),
   the keys pass ValidateRor2Input (B2), the header names the method (C), the verb fits it (C2, so C05's route_iff_spec
   applies), ParseQueryParams accepts the query the client built and yields q = the finder name, action = the action name
   and no action parameter otherwise. *)
Theorem call_reaches_method_partial : forall fmtF s ctx c p hasEntity,
  wf_server s -> s_prefix s = ctx ++ [x2f] ->
  Forall (fun g => mem_byte x2f (sg_name g) = false) (cl_segs c) ->
  chain (s_roots s) (cl_segs c) p -> keys_fit (cl_segs c) (cl_keys c) hasEntity ->
  cl_method c <> Method_Unknown -> wf_query c ->
  method_fits (n_coll p) (cl_method c) hasEntity (method_eqb (cl_method c) Method_action) ->
  registered_call p c ->
  route_root s (as_served fmtF ctx c) = Dispatch (call_target fmtF c).
Proof. exact EndToEndProofs.call_reaches_method_partial. Qed.

(* The path / header / inference part alone, for ANY query: relative to what ParseQueryParams yields for it. *)
Theorem call_reaches_method_relative : forall fmtF s ctx c p hasEntity params,
  wf_server s -> s_prefix s = ctx ++ [x2f] ->
  Forall (fun g => mem_byte x2f (sg_name g) = false) (cl_segs c) ->
  chain (s_roots s) (cl_segs c) p -> keys_fit (cl_segs c) (cl_keys c) hasEntity ->
  cl_method c <> Method_Unknown ->
  parse_query (client_query fmtF c) = Some params ->
  method_fits (n_coll p) (cl_method c) hasEntity (negb (bytes_eqb (param_or_empty param_action params) [])) ->
  registered p (cl_method c) (target_name c) params ->
  route_root s (as_served fmtF ctx c) = Dispatch (call_target fmtF c).
Proof. exact EndToEndProofs.call_reaches_method_relative. Qed.

(* Without [wf_query] the design statement is false of the model: an action named ")" (not an identifier, so not a name
   the generator emits) is written raw into the query and ParseQueryParams answers 400. *)
Theorem call_reaches_method_refuted :
  exists (fmtF : bool -> N -> bytes) (s : server) (ctx : bytes) (c : call) (p : node) (hasEntity : bool),
    wf_server s /\ s_prefix s = ctx ++ [x2f] /\
    Forall (fun g => mem_byte x2f (sg_name g) = false) (cl_segs c) /\
    chain (s_roots s) (cl_segs c) p /\ keys_fit (cl_segs c) (cl_keys c) hasEntity /\
    cl_method c <> Method_Unknown /\
    method_fits (n_coll p) (cl_method c) hasEntity (method_eqb (cl_method c) Method_action) /\
    registered_call p c /\
    route_root s (as_served fmtF ctx c) <> Dispatch (call_target fmtF c).
Proof. exact EndToEndProofs.call_reaches_method_refuted. Qed.

(* Non-vacuity: the sub-resource strs/{key}/subs with the string key "a/b": the client writes /strs/a%2Fb/subs, and a
   server with that tree dispatches the get_all call to subs with the key segment a%2Fb, which reads back as a/b. *)
Example c02_nonvacuous :
  let fmtF := fun (_ : bool) (_ : N) => @nil byte in
  let strs := [x73; x74; x72; x73] in let subs := [x73; x75; x62; x73] in
  let key := [x61; x2f; x62] in let enc := [x61; x25; x32; x46; x62] in
  let c := {| cl_segs := [{| sg_name := strs; sg_coll := true |}; {| sg_name := subs; sg_coll := true |}];
              cl_keys := [DLeaf (LStr key)]; cl_method := Method_get_all; cl_name := None; cl_params := [];
              cl_ids := None; cl_has_query := false |} in
  let s := {| s_prefix := [x2f];
              s_roots := [Node strs true [Method_get] [] [] [Node subs true [Method_get_all] [] [] []]] |} in
  resource_path fmtF c = [x2f] ++ strs ++ [x2f] ++ enc ++ [x2f] ++ subs /\
  route_root s (as_served fmtF [] c) = Dispatch ([(strs, true); (subs, true)], Method_get_all, [enc], None) /\
  call_target fmtF c = ([(strs, true); (subs, true)], Method_get_all, [enc], None) /\
  read_string_segment enc = Some key.
Proof. vm_compute. repeat split. Qed.

Print Assumptions no_slash_in_encoded_key.
Print Assumptions path_segments_recovered.
Print Assumptions key_roundtrip_through_path.
Print Assumptions encoded_key_valid_ror2.
Print Assumptions encoded_doc_valid_ror2.
Print Assumptions method_header_always_sent.
Print Assumptions verb_specified.
Print Assumptions call_reaches_method_partial.
Print Assumptions call_reaches_method_relative.
Print Assumptions call_reaches_method_refuted.
