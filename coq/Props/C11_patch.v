(* C11 (partial updates) and C07 (a partial update touching a read-only / create-only field fails on the client before anything is
   sent; the server rejects one that carries such a field).  Only statements here; model in Codec/Patch.v (the generated
   X_PartialUpdate code + restli/patch/partial_update_utils.go), proofs and vocabulary in Proofs/PatchProofs.v:

     tpatch e n p            p has the shape of the Go struct X_PartialUpdate of record n (a required field has no delete flag: a
                             partial update that deletes a required field cannot even be represented); records without includes
     legal e ex path n p     at every depth of nested partial updates: no field both deleted and set, set and patched, or deleted
                             and patched; no touched field excluded (ex = exclusion of the path of field names from the record)
     touches_excluded        some deleted / set / nested-patched field, at some depth, is excluded
     sets_valid              the set values satisfy the union / enum constraints (first half of C11)
     client_ex w x path      = ps_matches w x path: the writer as KeyChecker after SetScope()
   The statements are for records WITHOUT included records; with includes they are false of the generated code: see the last
   section (witnesses replayed on the implementation by the driver, known findings "patch:includes:..."). *)
From Coq Require Import List Bool ZArith.
From Coq.Strings Require Import Byte.
From GR Require Import Base.Bytes Base.Res Codec.Schema Codec.Doc Codec.Tracker Codec.Encode Codec.Json Codec.Decode Codec.Patch
  Proofs.PathSpecProofs Proofs.ValidityProofs Proofs.PatchProofs.
Import ListNotations.

(* ---- CheckFields / CheckField: one level ---- *)
Theorem check_patch_legal_iff : forall e f n exc fs ds ss ns,
  lookup e n = Some (DRecord [] fs) -> tfields e fs ds ss ns ->
  ((exists hs, check_patch e (S f) n exc (PPatch [] ds ss ns) = Ok hs) <-> level_legal exc fs ds ss ns).
Proof. exact PatchProofs.check_patch_legal_iff. Qed.

Theorem check_patch_flags : forall e f n exc fs ds ss ns hd hs,
  lookup e n = Some (DRecord [] fs) -> tfields e fs ds ss ns ->
  check_patch e (S f) n exc (PPatch [] ds ss ns) = Ok (hd, hs) ->
  hd = existsb (fun b => b) ds /\ hs = existsb is_some ss.
Proof. exact PatchProofs.check_patch_flags. Qed.

(* ---- encoding: accepted <-> legal, at every depth of nested partial updates ---- *)
Theorem patch_legal_iff : forall e w x fuel n p,
  excluded w x [patch_key] = false -> tpatch e n p -> sets_valid e n p -> fuel_ok fuel p ->
  ((exists d, enc_patch e w x fuel n p = Ok d) <-> legal e (client_ex w x) [] n p).
Proof. exact PatchProofs.patch_legal_iff. Qed.

(* the direction "accepted -> legal" needs neither valid set values nor a budget, and holds below any writer scope *)
Theorem enc_ok_legal : forall e w x scope0 fuel path n p d,
  tpatch e n p -> enc_patch_at e w x fuel (scope0 ++ path) n p = Ok d -> legal e (ex0 w x scope0) path n p.
Proof. exact PatchProofs.enc_ok_legal. Qed.

Theorem enc_patch_shape : forall e w x fuel n p d,
  excluded w x [patch_key] = false -> enc_patch e w x fuel n p = Ok d -> exists body, d = DObj [(patch_key, body)].
Proof. exact PatchProofs.enc_patch_shape. Qed.

(* ---- C07, client ---- *)
Theorem excluded_patch_fails_before_send : forall e w x fuel n p,
  excluded w x [patch_key] = false -> tpatch e n p -> touches_excluded e (client_ex w x) [] n p ->
  is_ok (enc_patch e w x fuel n p) = false.
Proof. exact PatchProofs.excluded_patch_fails_before_send. Qed.

Theorem excluded_touch_is_illegal_partial_update : forall e w x f n fs ds ss ns i fd d s np,
  excluded w x [patch_key] = false -> lookup e n = Some (DRecord [] fs) -> tfields e fs ds ss ns ->
  nth_error fs i = Some fd -> nth_error ds i = Some d -> nth_error ss i = Some s -> nth_error ns i = Some np ->
  touched d (is_some s) (is_some np) -> client_ex w x [f_name fd] = true ->
  enc_patch e w x (S (S f)) n (PPatch [] ds ss ns) = Err EPatch.
Proof. exact PatchProofs.excluded_touch_is_illegal_partial_update. Qed.

(* ---- the $delete list ---- *)
Theorem delete_list_decoding : forall e n fs ips ds ss ns name,
  lookup e n = Some (DRecord [] fs) ->
  unmarshal_delete e n (PPatch ips ds ss ns) name =
  match index_of name (map f_name fs) 0 with
  | None => Ok (PPatch ips ds ss ns)
  | Some j =>
      match nth_error fs j with
      | Some fd => if is_required (f_opt fd) then Err EPatch else Ok (PPatch ips (set_nth j true ds) ss ns)
      | None => Ok (PPatch ips ds ss ns)
      end
  end.
Proof. exact PatchProofs.delete_list_decoding. Qed.

Theorem delete_required_rejected : forall e n fs p j fd,
  lookup e n = Some (DRecord [] fs) -> NoDup (map f_name fs) -> nth_error fs j = Some fd -> is_required (f_opt fd) = true ->
  unmarshal_delete e n p (f_name fd) = Err EPatch.
Proof. exact PatchProofs.delete_required_rejected. Qed.

Theorem delete_unknown_tolerated : forall e n fs p name,
  lookup e n = Some (DRecord [] fs) -> ~ In name (map f_name fs) -> unmarshal_delete e n p name = Ok p.
Proof. exact PatchProofs.delete_unknown_tolerated. Qed.

Theorem delete_optional_sets_flag : forall e n fs ips ds ss ns j fd,
  lookup e n = Some (DRecord [] fs) -> NoDup (map f_name fs) -> nth_error fs j = Some fd -> is_required (f_opt fd) = false ->
  unmarshal_delete e n (PPatch ips ds ss ns) (f_name fd) = Ok (PPatch ips (set_nth j true ds) ss ns).
Proof. exact PatchProofs.delete_optional_sets_flag. Qed.

Theorem delete_array_with_required_rejected : forall e n fs items j fd,
  lookup e n = Some (DRecord [] fs) -> NoDup (map f_name fs) -> nth_error fs j = Some fd -> is_required (f_opt fd) = true ->
  In (JStr (f_name fd)) items -> forall p tr, is_ok (dec_deletes e n (JArr items) p tr) = false.
Proof. exact PatchProofs.delete_array_with_required_rejected. Qed.

(* ---- decoding: whatever is accepted passed CheckFields with the reader as KeyChecker ---- *)
Theorem dec_accepts_only_checked : forall e w x ig pF f n jd p tr p1 tr1,
  dec_patch_at e w x ig pF (S f) n jd p tr = Ok (p1, tr1) ->
  exists hs, check_patch e f n (fun k => is_key_excluded w x ig k tr1) p1 = Ok hs.
Proof. exact PatchProofs.dec_accepts_only_checked. Qed.

Theorem patch_illegal_rejected_on_decode : forall e w x ig pF f n fs jd p tr ds ss ns tr1,
  lookup e n = Some (DRecord [] fs) -> tfields e fs ds ss ns ->
  dec_patch_at e w x ig pF (S (S f)) n jd p tr = Ok (PPatch [] ds ss ns, tr1) ->
  level_legal (fun k => is_key_excluded w x ig k tr1) fs ds ss ns.
Proof. exact PatchProofs.patch_illegal_rejected_on_decode. Qed.

(* ---- C07, server: leadingScopeToIgnore = 1 (partial_update, pre = []) or 3 (batch_partial_update, pre = [entities; key]) ---- *)
Theorem set_operator_skipped : forall w p path k,
  Forall (fun s => is_patch_op s = false) path -> is_patch_op k = false ->
  ps_matches w p (path ++ [op_set; k]) = ps_matches w p (path ++ [k]).
Proof. exact PatchProofs.set_operator_skipped. Qed.

Theorem server_set_key_rejected_iff : forall w x pre path k ms,
  Forall (fun s => is_patch_op s = false) path -> is_patch_op k = false ->
  ((exists s, enter_map w x (S (length pre)) k {| t_scope := map SKey (pre ++ patch_key :: path ++ [op_set]); t_missing := ms |}
              = Err (EExcluded s))
   <-> client_ex w x (path ++ [k]) = true).
Proof. exact PatchProofs.server_set_key_rejected_iff. Qed.

Theorem server_nested_key_rejected_iff : forall w x pre path k ms,
  ((exists s, enter_map w x (S (length pre)) k {| t_scope := map SKey (pre ++ patch_key :: path); t_missing := ms |}
              = Err (EExcluded s))
   <-> client_ex w x (path ++ [k]) = true).
Proof. exact PatchProofs.server_nested_key_rejected_iff. Qed.

Theorem server_final_check : forall e w x ig pF f n fs jd p tr ips ds ss ns tr1,
  lookup e n = Some (DRecord [] fs) ->
  dec_patch_at e w x ig pF (S (S f)) n jd p tr = Ok (PPatch ips ds ss ns, tr1) ->
  forall i fd d s np, nth_error fs i = Some fd -> nth_error ds i = Some d -> nth_error ss i = Some s -> nth_error ns i = Some np ->
    ((is_required (f_opt fd) = false /\ d = true) \/ s <> None \/ (rec_of e (f_ty fd) <> None /\ np <> None)) ->
    is_key_excluded w x ig (f_name fd) tr1 = false.
Proof. exact PatchProofs.server_final_check. Qed.

Theorem server_accepts_no_excluded_touch : forall e w x pF f n fs jd p tr ips ds ss ns tr1 pre path,
  lookup e n = Some (DRecord [] fs) ->
  dec_patch_at e w x (S (length pre)) pF (S (S f)) n jd p tr = Ok (PPatch ips ds ss ns, tr1) ->
  t_scope tr1 = map SKey (pre ++ patch_key :: path) ->
  forall i fd d s np, nth_error fs i = Some fd -> nth_error ds i = Some d -> nth_error ss i = Some s -> nth_error ns i = Some np ->
    ((is_required (f_opt fd) = false /\ d = true) \/ s <> None \/ (rec_of e (f_ty fd) <> None /\ np <> None)) ->
    client_ex w x (path ++ [f_name fd]) = false.
Proof. exact PatchProofs.server_accepts_no_excluded_touch. Qed.

(* ---- non-vacuity: a legal partial update with a nested one, emitted in the patch / $set / $delete shape and read back;
        refused on the client and on the server (leading scope 1 and 3) once the nested field is excluded ---- *)
Example patch_roundtrip_example :
  exists d, enc_patch rx_env wc ps_empty 8 1 ex_patch = Ok d /\
            d = DObj [(patch_key, DObj [(n_dr, DObj [(op_delete, DArr [DLeaf (LStr n_s)]); (op_set, DObj [(n_a, DLeaf (LInt 5))])])])] /\
            dec_patch rx_env wc ps_empty 1 no_floats 8 1 (jv d) tracker0 = Ok (ex_patch, tracker0).
Proof. exact PatchProofs.patch_roundtrip_example. Qed.

Example ex_patch_is_legal : tpatch rx_env 1 ex_patch /\ legal rx_env (client_ex wc ps_empty) [] 1 ex_patch.
Proof. exact (conj PatchProofs.ex_patch_typed PatchProofs.ex_patch_legal). Qed.

Example excluded_example :
  enc_patch rx_env wc (new_pathspec [[x64; x72; x2f; x61]]) 8 1 ex_patch = Err EPatch /\
  enc_patch rx_env wc (new_pathspec [n_dr]) 8 1 ex_patch = Err EPatch.
Proof. exact PatchProofs.excluded_example. Qed.

Example server_example :
  let body := JObj [(patch_key, JObj [(n_dr, JObj [(op_set, JObj [(n_a, JNum [x35])])])])] in
  is_ok (dec_patch rx_env wc (new_pathspec [[x64; x72; x2f; x61]]) 1 no_floats 8 1 body tracker0) = false /\
  is_ok (dec_patch rx_env wc (new_pathspec [[x64; x72; x2f; x61]]) 3 no_floats 8 1 body
                   {| t_scope := [SKey [x65]; SKey [x6b]]; t_missing := [] |}) = false /\
  is_ok (dec_patch rx_env wc ps_empty 1 no_floats 8 1 body tracker0) = true /\
  is_ok (dec_patch rx_env wc (new_pathspec [[x64; x72; x2f; x61]]) 0 no_floats 8 1 body tracker0) = true.
Proof. exact PatchProofs.server_example. Qed.

(* ---- included records: the full statements are false of the generated code (witnesses replayed on the implementation) ---- *)
Theorem inherited_nested_patch_dropped :
  enc_patch rx_env wc ps_empty 8 2 rx_p1 = Ok (DObj [(patch_key, DObj [])]) /\
  dec_patch rx_env wc ps_empty 1 no_floats 8 2
            (JObj [(patch_key, JObj [(n_dr, JObj [(op_set, JObj [(n_a, JNum [x35])])])])]) tracker0
  = Ok (zero_patch rx_env 8 2, tracker0).
Proof. exact PatchProofs.inherited_nested_patch_dropped. Qed.

Theorem transitive_delete_dropped :
  enc_patch rx_env wc ps_empty 8 3 rx_p2 = Ok (DObj [(patch_key, DObj [(op_delete, DArr [])])]) /\
  dec_patch rx_env wc ps_empty 1 no_floats 8 3 (JObj [(patch_key, JObj [(op_delete, JArr [JStr n_s])])]) tracker0
  = Ok (zero_patch rx_env 8 3, tracker0).
Proof. exact PatchProofs.transitive_delete_dropped. Qed.

Theorem required_delete_rejected_refuted : ~ required_delete_rejected_full.
Proof. exact PatchProofs.required_delete_rejected_refuted. Qed.

Print Assumptions check_patch_legal_iff.
Print Assumptions patch_legal_iff.
Print Assumptions enc_ok_legal.
Print Assumptions excluded_patch_fails_before_send.
Print Assumptions excluded_touch_is_illegal_partial_update.
Print Assumptions delete_list_decoding.
Print Assumptions delete_array_with_required_rejected.
Print Assumptions patch_illegal_rejected_on_decode.
Print Assumptions server_set_key_rejected_iff.
Print Assumptions server_nested_key_rejected_iff.
Print Assumptions server_final_check.
Print Assumptions server_accepts_no_excluded_touch.
Print Assumptions inherited_nested_patch_dropped.
Print Assumptions transitive_delete_dropped.
Print Assumptions required_delete_rejected_refuted.
