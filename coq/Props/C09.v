(* C09 - Deterministic, canonical serialization (v2): the same abstract value gives the same bytes, independently of Go map
   iteration order / of the order in which map entries were supplied, and object keys are in ascending byte order.
   Statements only; proofs are in Proofs/SortProofs.v and Proofs/CanonProofs.v.  The model is Codec/Encode.v ([enc]: the
   generated MarshalRestLi code through genericWriter, whose WriteMap buffers the entries and emits them sorted by key)
   and Codec/Render.v (document tree -> bytes, five wire formats). *)
From Coq Require Import List Bool ZArith Permutation Sorting.Sorted.
From Coq.Strings Require Import Byte.
From GR Require Import Base.Bytes Base.Res Codec.Schema Codec.Doc Codec.Escape Codec.Render Codec.Encode
  Proofs.SortProofs Proofs.CanonProofs.
Import ListNotations.

(* ---- the canonical order of entries (writer.go: sort.Slice by key) ---- *)

Theorem sort_entries_perm : forall (A : Type) (l : list (bytes * A)), Permutation (sort_entries l) l.
Proof. exact @SortProofs.sort_entries_perm. Qed.

(* in general (keys possibly repeated): ascending, non-strictly *)
Theorem sort_entries_sorted_le : forall (A : Type) (l : list (bytes * A)),
  StronglySorted (fun a b => bytes_ltb (fst b) (fst a) = false) (sort_entries l).
Proof. exact @SortProofs.sort_entries_sorted_le. Qed.

(* with unique keys: strictly ascending in the bytewise order (Go's string <) *)
Theorem sort_entries_sorted : forall (A : Type) (l : list (bytes * A)),
  NoDup (map fst l) -> StronglySorted (fun a b => bytes_ltb (fst a) (fst b) = true) (sort_entries l).
Proof. exact @SortProofs.sort_entries_sorted. Qed.

(* a strictly key-sorted list is determined by its SET of entries *)
Theorem sorted_perm_unique : forall (A : Type) (l1 l2 : list (bytes * A)),
  Permutation l1 l2 ->
  StronglySorted (fun a b => bytes_ltb (fst a) (fst b) = true) l1 ->
  StronglySorted (fun a b => bytes_ltb (fst a) (fst b) = true) l2 ->
  l1 = l2.
Proof. exact @SortProofs.sorted_perm_unique. Qed.

(* hence the emitted order is a function of the set of entries: independent of Go map iteration order *)
Theorem sort_entries_perm_invariant : forall (A : Type) (l1 l2 : list (bytes * A)),
  Permutation l1 l2 -> NoDup (map fst l1) -> sort_entries l1 = sort_entries l2.
Proof. exact @SortProofs.sort_entries_perm_invariant. Qed.

(* ---- the encoder ---- *)

(* The encoder never panics. *)
Theorem enc_no_panic : forall e wildcard excl fuel scope t v, is_panic (enc e wildcard excl fuel scope t v) = false.
Proof. exact CanonProofs.enc_no_panic. Qed.

(* Same value up to the order of the entries of every map at every depth (vperm) => same outcome: both runs succeed with
   the SAME document, or both fail with an error; neither panics.  ([res_equiv r1 r2] is
   [match r1, r2 with Ok a, Ok b => a = b | Err _, Err _ => True | _, _ => False end].)
   This is the strongest true statement: WHICH error is reported is not invariant (next statement). *)
Theorem encode_perm_invariant : forall e wildcard excl fuel scope t v1 v2,
  vperm v1 v2 -> keys_nodup v1 ->
  res_equiv (enc e wildcard excl fuel scope t v1) (enc e wildcard excl fuel scope t v2).
Proof. exact CanonProofs.encode_perm_invariant. Qed.

Theorem res_equiv_spec : forall (A : Type) (r1 r2 : res A),
  res_equiv r1 r2 <->
  (is_ok r1 = is_ok r2 /\ is_panic r1 = false /\ is_panic r2 = false /\
   forall d1 d2, r1 = Ok d1 -> r2 = Ok d2 -> d1 = d2).
Proof. exact @CanonProofs.res_equiv_spec. Qed.

Theorem encode_perm_invariant_ok : forall e wildcard excl fuel scope t v1 v2 d,
  vperm v1 v2 -> keys_nodup v1 ->
  (enc e wildcard excl fuel scope t v1 = Ok d <-> enc e wildcard excl fuel scope t v2 = Ok d).
Proof. exact CanonProofs.encode_perm_invariant_ok. Qed.

(* The literal equality of outcomes is FALSE of the model (and of the code: the marshaler returns at the first entry that
   fails, in iteration order): when two entries of a map fail differently, the error that is reported depends on the order. *)
Definition encode_perm_invariant_exact : Prop := forall e wildcard excl fuel scope t v1 v2,
  vperm v1 v2 -> keys_nodup v1 ->
  enc e wildcard excl fuel scope t v1 = enc e wildcard excl fuel scope t v2.

Definition cx_env : env := [DUnion false [([x78], TEnum [[x41]])]].          (* union U { x : enum {A} }, not nullable *)
Definition cx_bad_enum : value := VUnion [Some (VEnum 0)].                  (* member set to the _unknown constant *)
Definition cx_unset : value := VUnion [None].                               (* no member set *)
Definition cx_v1 : value := VMap [([x61], cx_bad_enum); ([x62], cx_unset)].
Definition cx_v2 : value := VMap [([x62], cx_unset); ([x61], cx_bad_enum)].

Theorem encode_perm_invariant_exact_refuted : ~ encode_perm_invariant_exact.
Proof.
  intros H.
  assert (Hv : vperm cx_v1 cx_v2) by (apply vperm_map_perm, perm_swap).
  assert (Hk : keys_nodup cx_v1).
  { constructor.
    - simpl. constructor; [intros [E|[]]; discriminate|]. constructor; [intros []|constructor].
    - repeat constructor. }
  specialize (H cx_env [x2a] ps_empty 5 [] (TMap (TRef 0)) cx_v1 cx_v2 Hv Hk).
  vm_compute in H. discriminate.
Qed.

(* Byte level, all five wire formats (compact JSON, pretty JSON, ROR2 header / path / query), for every escaping table and
   float formatter: same value => same bytes. *)
Theorem encode_bytes_perm_invariant : forall (rnd : doc -> bytes) e wildcard excl fuel scope t v1 v2,
  vperm v1 v2 -> keys_nodup v1 ->
  res_equiv (render_res rnd (enc e wildcard excl fuel scope t v1)) (render_res rnd (enc e wildcard excl fuel scope t v2)).
Proof. exact CanonProofs.encode_bytes_perm_invariant. Qed.

Theorem encode_json_perm_invariant : forall fmtF pretty depth e wildcard excl fuel scope t v1 v2,
  vperm v1 v2 -> keys_nodup v1 ->
  res_equiv (render_res (render_json fmtF pretty depth) (enc e wildcard excl fuel scope t v1))
            (render_res (render_json fmtF pretty depth) (enc e wildcard excl fuel scope t v2)).
Proof. exact CanonProofs.encode_json_perm_invariant. Qed.

Theorem encode_ror2_perm_invariant :
  forall fmtF hex path_chars query_chars header_chars empty_marker list_prefix fl e wildcard excl fuel scope t v1 v2,
  vperm v1 v2 -> keys_nodup v1 ->
  res_equiv (render_res (render_ror2 fmtF hex path_chars query_chars header_chars empty_marker list_prefix fl)
                        (enc e wildcard excl fuel scope t v1))
            (render_res (render_ror2 fmtF hex path_chars query_chars header_chars empty_marker list_prefix fl)
                        (enc e wildcard excl fuel scope t v2)).
Proof. exact CanonProofs.encode_ror2_perm_invariant. Qed.

(* ---- ascending keys ---- *)

(* Every object anywhere in the output has strictly ascending keys, provided the schema is well formed (the field names of a
   record, those of its transitively included records included, are pairwise distinct, and only records are included:
   [wf_env]; [wf_envb] is an executable sufficient check) and no map of the value holds a key twice. *)
Theorem keys_ascending : forall e wildcard excl fuel scope t v d,
  wf_env e -> keys_nodup v -> enc e wildcard excl fuel scope t v = Ok d -> doc_sorted d.
Proof. exact CanonProofs.keys_ascending. Qed.

Theorem wf_envb_sound : forall e, wf_envb e = true -> wf_env e.
Proof. exact CanonProofs.wf_envb_sound. Qed.

(* With no premise at all (any schema, any value, duplicate keys included): ascending, non-strictly. *)
Theorem keys_ascending_le : forall e wildcard excl fuel scope t v d,
  enc e wildcard excl fuel scope t v = Ok d -> doc_sorted_le d.
Proof. exact CanonProofs.keys_ascending_le. Qed.

(* The premises of [keys_ascending] are needed for strictness: a (non-Pegasus) record declaring the same field name twice
   encodes to an object holding that key twice. *)
Definition keys_ascending_unconditional : Prop := forall e wildcard excl fuel scope t v d,
  enc e wildcard excl fuel scope t v = Ok d -> doc_sorted d.

Definition dup_env : env :=
  [DRecord [] [ {| f_name := [x61]; f_ty := TPrim PInt; f_opt := Required |};
                {| f_name := [x61]; f_ty := TPrim PInt; f_opt := Required |} ]].

Theorem keys_ascending_unconditional_refuted : ~ keys_ascending_unconditional.
Proof.
  intros H.
  specialize (H dup_env [x2a] ps_empty 3 [] (TRef 0) (VRec [] [Some (VInt 1); Some (VInt 2)]) _ eq_refl).
  vm_compute in H. inversion H as [| |? HS _]; subst. inversion HS as [|? ? _ HF]; subst.
  inversion HF as [|? ? Hlt _]; subst. vm_compute in Hlt. discriminate.
Qed.

(* ---- non-vacuity ---- *)
(* record R { m : map<long> (required); id : int (optional) }; two values of R whose map entries come in different orders *)
Definition ex_env : env :=
  [DRecord [] [ {| f_name := [x6d]; f_ty := TMap (TPrim PLong); f_opt := Required |};
                {| f_name := [x69; x64]; f_ty := TPrim PInt; f_opt := Optional |} ]].
Definition ex_v1 : value := VRec [] [Some (VMap [([x62], VLong 2); ([x61], VLong 1)]); Some (VInt 7)].
Definition ex_v2 : value := VRec [] [Some (VMap [([x61], VLong 1); ([x62], VLong 2)]); Some (VInt 7)].
Definition ex_doc : doc :=
  DObj [([x69; x64], DLeaf (LInt 7)); ([x6d], DObj [([x61], DLeaf (LInt 1)); ([x62], DLeaf (LInt 2))])].

Example canonical_nonvacuous :
  vperm ex_v1 ex_v2 /\ keys_nodup ex_v1 /\ ex_v1 <> ex_v2 /\ wf_env ex_env /\
  enc ex_env [x2a] ps_empty 5 [] (TRef 0) ex_v1 = Ok ex_doc /\
  enc ex_env [x2a] ps_empty 5 [] (TRef 0) ex_v2 = Ok ex_doc /\
  doc_sorted ex_doc.
Proof.
  split; [|split; [|split; [|split; [|split; [|split]]]]].
  - constructor; [constructor|]. constructor; [constructor; apply vperm_map_perm, perm_swap|].
    constructor; [constructor; apply vperm_refl | constructor].
  - constructor; [constructor|]. constructor; [|repeat constructor].
    constructor. constructor; [|repeat constructor].
    simpl. constructor; [intros [E|[]]; discriminate|]. constructor; [intros []|constructor].
  - discriminate.
  - apply wf_envb_sound. vm_compute. reflexivity.
  - vm_compute. reflexivity.
  - vm_compute. reflexivity.
  - constructor.
    + repeat constructor.
    + constructor; [constructor|]. constructor; [|constructor]. simpl. constructor; repeat constructor.
Qed.

Print Assumptions sort_entries_perm.
Print Assumptions sort_entries_sorted_le.
Print Assumptions sort_entries_sorted.
Print Assumptions sorted_perm_unique.
Print Assumptions sort_entries_perm_invariant.
Print Assumptions enc_no_panic.
Print Assumptions encode_perm_invariant.
Print Assumptions res_equiv_spec.
Print Assumptions encode_perm_invariant_ok.
Print Assumptions encode_perm_invariant_exact_refuted.
Print Assumptions encode_bytes_perm_invariant.
Print Assumptions encode_json_perm_invariant.
Print Assumptions encode_ror2_perm_invariant.
Print Assumptions keys_ascending.
Print Assumptions wf_envb_sound.
Print Assumptions keys_ascending_le.
Print Assumptions keys_ascending_unconditional_refuted.
Print Assumptions canonical_nonvacuous.
