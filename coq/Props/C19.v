(* C19 - D2 announcement tracking and host selection follow the event history.
   Only statements here; proofs are in Proofs/AnnounceProofs.v and Proofs/ChooseProofs.v; the models are
   D2/Announce.v (handleUriUpdate / handleServiceUpdate / copy, with a heap and a write log) and D2/Choose.v
   (chooseHost / filterAndChooseHost / iterateHostWeights).
   Premises that appear in the statements: the starting snapshot is a map (no duplicate keys); every iteration order
   is a permutation of the announced entries (two independent orders per attempt); every draw r i lies in [0,1);
   weights are not negative.  Weights and arithmetic are rationals (Go: float64 - named gap).                *)
From Coq Require Import List Bool Arith QArith Permutation.
From Coq.Strings Require Import Byte.
From GR Require Import Base.Bytes D2.Announce D2.Choose Proofs.AnnounceProofs Proofs.ChooseProofs.
Import ListNotations.

(* ---- tracking ------------------------------------------------------------------------------------------- *)

(* After ANY history of znode events (added / changed / removed; well-formed, malformed or weight-less payloads) the
   loop has not panicked and the published snapshot is a map that answers every lookup like the fold of the history:
   last write per znode wins, deletions remove, malformed and weight-less payloads are ignored. *)
Theorem uris_is_fold : forall (hist : list zevent) zk init w s,
  read w s = Some (Cell zk init) -> NoDup (map fst init) ->
  exists w' s' m,
    run (map to_tce hist) w s = Done (w', s') /\
    read w' s' = Some (Cell zk m) /\ NoDup (map fst m) /\
    forall k, alookup k m = fold_spec zk init hist k.
Proof. exact AnnounceProofs.uris_is_fold. Qed.

(* The event-delivery layer: however the events reach the loop - one at a time or in bursts that are already waiting
   in the channel when the loop runs again - the snapshot published once a burst is consumed is the fold of ALL
   events delivered so far (no event of a burst is dropped, none is applied to a stale base). *)
Theorem bursts_publish_fold : forall (bursts : list (list zevent)) zk init w s,
  read w s = Some (Cell zk init) -> NoDup (map fst init) ->
  exists ws s' m,
    run_bursts bursts w s = Done (ws, s') /\
    read (last ws w) s' = Some (Cell zk m) /\ NoDup (map fst m) /\
    forall k, alookup k m = fold_spec zk init (concat bursts) k.
Proof. exact AnnounceProofs.bursts_publish_fold. Qed.

(* Snapshots handed out earlier are never modified afterwards: cut any history anywhere; the snapshot published at
   the cut (and every other cell that existed then) reads the same after the rest of the history, and no cell
   written by the rest of the history existed at the cut. *)
Theorem snapshots_immutable : forall h1 h2 w0 s0 w2 s2,
  (w0 < length (heap s0))%nat ->
  run (h1 ++ h2) w0 s0 = Done (w2, s2) ->
  exists w1 s1,
    run h1 w0 s0 = Done (w1, s1) /\
    (w1 < length (heap s1))%nat /\
    read w1 s2 = read w1 s1 /\
    (forall a, (a < length (heap s1))%nat -> read a s2 = read a s1) /\
    exists written, wlog s2 = wlog s1 ++ written /\ Forall (fun a => ~ (a < length (heap s1))%nat) written.
Proof. exact AnnounceProofs.snapshots_immutable. Qed.

(* Both together: the snapshot taken after a prefix still is the fold of that prefix after any continuation. *)
Theorem old_snapshot_is_fold_of_prefix : forall (h1 h2 : list zevent) zk init w0 s0,
  read w0 s0 = Some (Cell zk init) -> NoDup (map fst init) ->
  exists w1 s1 w2 s2 m,
    run (map to_tce h1) w0 s0 = Done (w1, s1) /\
    run (map to_tce (h1 ++ h2)) w0 s0 = Done (w2, s2) /\
    read w1 s2 = Some (Cell zk m) /\ NoDup (map fst m) /\
    forall k, alookup k m = fold_spec zk init h1 k.
Proof. exact AnnounceProofs.old_snapshot_is_fold_of_prefix. Qed.

(* Service definitions: for every history of service events, removals, events for other paths and payloads that do
   not decode are ignored - the last well-formed definition is the one in force. *)
Theorem service_malformed_ignored : forall path hist init,
  run_service path hist init = last_good_service path hist init.
Proof. exact AnnounceProofs.service_is_last_good. Qed.

(* ---- selection ------------------------------------------------------------------------------------------- *)

(* Only ever an announced host, of the highest-priority scheme for which any host exists (any scheme when no
   priorities are configured). *)
Theorem chosen_is_eligible : forall (m : umap) o1 o2 r schemes e,
  wf_inputs (flat m) o1 o2 r ->
  choose_host schemes o1 o2 r = Some e ->
  In e (flat m) /\ (schemes = [] \/ best_scheme schemes (flat m) = Some (h_scheme (fst e))).
Proof. exact ChooseProofs.chosen_is_eligible_m. Qed.

(* No eligible host: no host (chooseHost returns nil, ResolveHostnameAndContextForQuery turns that into an error). *)
Theorem none_eligible_is_error : forall (m : umap) o1 o2 r schemes,
  wf_inputs (flat m) o1 o2 r ->
  (forall e, ~ eligible schemes (flat m) e) -> choose_host schemes o1 o2 r = None.
Proof. exact ChooseProofs.none_eligible_is_error_m. Qed.

(* ... and only then (over the rationals). *)
Theorem eligible_gets_host : forall (m : umap) o1 o2 r schemes e',
  wf_inputs (flat m) o1 o2 r ->
  eligible schemes (flat m) e' -> exists e, choose_host schemes o1 o2 r = Some e.
Proof. exact ChooseProofs.eligible_gets_host_m. Qed.

(* Never a zero-weight host while an eligible host with positive weight exists - for every draw, 0 included. *)
Theorem no_zero_weight : forall (m : umap) o1 o2 r schemes e,
  wf_inputs (flat m) o1 o2 r ->
  choose_host schemes o1 o2 r = Some e ->
  (exists e', eligible schemes (flat m) e' /\ 0 < snd e') ->
  0 < snd e.
Proof. exact ChooseProofs.no_zero_weight_m. Qed.

(* at a draw of exactly 0 the first eligible entry WITH weight of the second pass is returned ... *)
Theorem draw_zero_picks_first_weighted : forall fl filt o1 o2 r,
  Permutation fl o1 -> Permutation fl o2 -> nonneg fl -> r == 0 -> 0 < tsum filt fl ->
  filter_and_choose filt o1 o2 r = find (posf filt) o2.
Proof. exact ChooseProofs.draw_zero_picks_first_weighted. Qed.

(* ... and when no eligible entry has weight, the first eligible entry, whatever the draw *)
Theorem no_weight_picks_first : forall fl filt o1 o2 r,
  Permutation fl o1 -> Permutation fl o2 -> nonneg fl -> tsum filt fl <= 0 ->
  filter_and_choose filt o1 o2 r = find (hostf filt) o2.
Proof. exact ChooseProofs.no_weight_picks_first. Qed.

(* Choice in proportion to the weights: for EVERY pair of iteration orders, with eligible total T > 0, the entry that
   stands after the eligible prefix l1 in the second pass is returned exactly for the draws r in
   ( S/T , (S+w)/T ],  S = eligible weight before it, w = its weight (empty for an entry without weight: it is
   never returned while T > 0); the single draw r = 0 is draw_zero_picks_first_weighted ... *)
Theorem proportional : forall fl filt o1 o2 r e,
  Permutation fl o1 -> Permutation fl o2 -> nonneg fl ->
  0 < r -> 0 < tsum filt fl ->
  (filter_and_choose filt o1 o2 r = Some e <->
   exists l1 l2, o2 = l1 ++ e :: l2 /\ filt (fst e) = true /\
                 tsum filt l1 / tsum filt fl < r /\ r <= (tsum filt l1 + snd e) / tsum filt fl).
Proof. exact ChooseProofs.proportional. Qed.

(* ... an interval of length w / T: the measure of the draws that select the entry is its share of the weight.
   (The intervals of distinct positions are disjoint because the result is a function of r, and they cover (0,1)
   by eligible_gets_host.) *)
Theorem proportional_interval_length : forall S w T, 0 < T -> (S + w) / T - S / T == w / T.
Proof. exact ChooseProofs.interval_length. Qed.

(* the sum the first pass computes does not depend on its iteration order *)
Theorem total_order_independent : forall filt l l', Permutation l l' -> total filt l == total filt l'.
Proof. exact ChooseProofs.total_order_independent. Qed.

(* what the correspondence check relies on: whatever the iteration orders, the result is in [possible] *)
Theorem possible_complete : forall fl o1 o2 r schemes,
  wf_inputs fl o1 o2 r -> In (choose_host schemes o1 o2 r) (possible schemes fl r).
Proof. exact ChooseProofs.possible_complete. Qed.

(* ---- non-vacuity ------------------------------------------------------------------------------------------ *)
(* A history over two znodes with an add, a malformed update (whose failed decoding left weights in the struct), a
   weight-less update, a replacement and a deletion;
   then a selection with priorities [https; http] over the surviving announcement at r = 3/4. *)
Example c19_nonvacuous :
  let zk := [x2f; x7a] in
  let n1 := [x2f; x7a; x2f; x31] in
  let n2 := [x2f; x7a; x2f; x32] in
  let http := [x68; x74; x74; x70] in
  let https := [x68; x74; x74; x70; x73] in
  let a1 := [(Host http [x61], 1)] in
  let a2 := [(Host https [x62], 1); (Host http [x62], 3)] in
  let hist := [Added n1 (PDecoded a1); Added n2 (PDecoded a1); Updated n1 (PMalformed a2); Updated n1 (PDecoded []);
               Updated n2 (PDecoded a2); Removed n1] in
  (exists w s, run (map to_tce hist) 0%nat (St [Cell zk []] []) = Done (w, s) /\
               read w s = Some (Cell zk [([x2f; x32], a2)]) /\
               read 1%nat s = Some (Cell zk [([x2f; x31], a1)])) /\
  fold_spec zk [] hist [x2f; x32] = Some a2 /\ fold_spec zk [] hist [x2f; x31] = None /\
  choose_host [https; http] (fun _ => a2) (fun _ => a2) (fun _ => 3 # 4) = Some (Host https [x62], 1) /\
  choose_host [] (fun _ => a2) (fun _ => a2) (fun _ => 3 # 4) = Some (Host http [x62], 3) /\
  (* the input that used to refute no_zero_weight (D32): weight 0 iterated first, r = 0 *)
  choose_host [] (fun _ => [d32_a; d32_b]) (fun _ => [d32_a; d32_b]) (fun _ => 0) = Some d32_b /\
  (* a service definition that does not decode leaves the one in force alone (D37) *)
  run_service [x2f; x73] [Stce [x2f; x73] (Some (SDecoded (Service [x63] [https])));
                          Stce [x2f; x73] (Some (SMalformed (Service [] [])))] None = Some (Service [x63] [https]).
Proof. vm_compute. repeat split; eauto. Qed.

Print Assumptions uris_is_fold.
Print Assumptions bursts_publish_fold.
Print Assumptions snapshots_immutable.
Print Assumptions old_snapshot_is_fold_of_prefix.
Print Assumptions service_malformed_ignored.
Print Assumptions chosen_is_eligible.
Print Assumptions none_eligible_is_error.
Print Assumptions eligible_gets_host.
Print Assumptions no_zero_weight.
Print Assumptions draw_zero_picks_first_weighted.
Print Assumptions no_weight_picks_first.
Print Assumptions proportional.
Print Assumptions proportional_interval_length.
Print Assumptions total_order_independent.
Print Assumptions possible_complete.
