(* C15 — Request URL construction preserves resolver base, resource path and query.
   Only statements here; proofs are in Proofs/UrlProofs.v.  Model: Http/Url.v (formatQueryUrl, joinContextAndResourcePath,
   the URL part of newRequest) over Http/UrlModel.v (net/url and http.NewRequest's URL handling: MODELLED, NOT VERIFIED,
   validated by the correspondence stream).

   Inputs: the base URL a resolver returns, [mk_base scheme host bp]: scheme, host and the escaped context path bp as
   url.Parse / setPath store it; the root resource name; the encoder-produced escaped resource path; the encoded query
   (None: no query parameters).  The context grammar: bp = render_ctx segs trailing = /seg1/.../segn[/] for ANY number of
   non-empty segments of pchar bytes with well-formed %XX (in_grammar: lower-case scheme or none, reg-name[:port] host or
   none, the root name as a complete segment at most in the LAST position - contexts holding it earlier are left unspecified
   by the property).  encoded_path / encoded_query: the output alphabets of the ROR2 path / query writers, from the tables
   the translator re-reads (Gen/TablesUrl.v), for either module generation (module_tables).

   [context bp root] is specified independently of the code: drop one trailing slash, split at '/', cut at the last
   segment equal to root, join. *)
From Coq Require Import List Bool ZArith.
From Coq.Strings Require Import Byte.
From GR Require Import Base.Bytes Gen.TablesUrl Gen.TablesTunnel Http.UrlModel Http.Url Http.UrlEnc Proofs.UrlProofs.
Import ListNotations.

(* The request is always built, keeps the resolver's scheme and host, its escaped path is the context followed by the
   resource path, and the raw query is the encoder's (with "no query" and "empty query" kept apart). *)
Theorem url_preserves_base_and_path : forall ptab qtab scheme host segs trailing root rpath q,
  In (ptab, qtab) module_tables ->
  in_grammar scheme host segs root = true -> encoded_path ptab root rpath = true -> encoded_query qtab q = true ->
  exists u,
    new_request_url (mk_base scheme host (render_ctx segs trailing)) root rpath q = UOk u /\
    u_scheme u = scheme /\ u_host u = host /\
    escaped_path u = context (render_ctx segs trailing) root ++ rpath /\
    u_rawquery u = raw_query_of q /\ u_forcequery u = force_query_of q.
Proof. exact UrlProofs.url_preserves_base_and_path. Qed.

(* The root resource segment occurs exactly once at the junction: the kept context holds no complete root segment and is
   followed by "/root", then by the end of the path or a slash. *)
Theorem root_segment_once : forall ptab qtab scheme host segs trailing root rpath q u,
  In (ptab, qtab) module_tables ->
  in_grammar scheme host segs root = true -> encoded_path ptab root rpath = true -> encoded_query qtab q = true ->
  new_request_url (mk_base scheme host (render_ctx segs trailing)) root rpath q = UOk u ->
  exists tail,
    escaped_path u = context (render_ctx segs trailing) root ++ c_slash :: root ++ tail /\
    (tail = [] \/ exists t, tail = c_slash :: t) /\
    ~ In root (split_on c_slash (context (render_ctx segs trailing) root)).
Proof. exact UrlProofs.root_segment_once. Qed.

(* No double encoding, decoding, dot-segment or slash normalisation, no lost query: the escaped path ends with the
   encoder's bytes, the request line (RequestURI) and URL.String() are context ++ path ++ ?query byte for byte. *)
Theorem no_normalisation : forall ptab qtab scheme host segs trailing root rpath q u,
  In (ptab, qtab) module_tables ->
  in_grammar scheme host segs root = true -> encoded_path ptab root rpath = true -> encoded_query qtab q = true ->
  new_request_url (mk_base scheme host (render_ctx segs trailing)) root rpath q = UOk u ->
  (exists ctx, escaped_path u = ctx ++ rpath /\
               request_uri u = ctx ++ rpath ++ query_suffix q /\
               url_string u = UOk (authority_prefix scheme host ++ (ctx ++ rpath) ++ query_suffix q)) /\
  u_rawquery u = raw_query_of q /\ u_forcequery u = force_query_of q.
Proof. exact UrlProofs.no_normalisation. Qed.

(* The same for a client with ANY QueryTunnellingThreshold (new_request_url_t: http.go:171-201 with the tunnelling branch;
   [tunnels] is the threshold test of the module generation, transcribed from the current source, on the length of the
   encoder's query).  A tunnelled request goes to the very same scheme, host and escaped path - context followed by the
   encoder's resource path, byte for byte - with no query at all (the query is in the body: C14); an untunnelled one is
   as above.  In both cases URL.String() is authority + context + path (+ ?query when not tunnelled). *)
Theorem tunnelled_url_preserves_base_and_path : forall v2 th ptab qtab scheme host segs trailing root rpath q,
  In (ptab, qtab) module_tables ->
  in_grammar scheme host segs root = true -> encoded_path ptab root rpath = true -> encoded_query qtab q = true ->
  exists u,
    new_request_url_t v2 th (mk_base scheme host (render_ctx segs trailing)) root rpath q = UOk u /\
    u_scheme u = scheme /\ u_host u = host /\
    escaped_path u = context (render_ctx segs trailing) root ++ rpath /\
    u_rawquery u = (if tunnels v2 th q then [] else raw_query_of q) /\
    u_forcequery u = (if tunnels v2 th q then false else force_query_of q) /\
    url_string u = UOk (authority_prefix scheme host ++ (context (render_ctx segs trailing) root ++ rpath)
                        ++ (if tunnels v2 th q then [] else query_suffix q)).
Proof. exact UrlProofs.tunnelled_url_preserves_base_and_path. Qed.

(* Histories.  newRequest / formatQueryUrl read the client's tunnelling threshold and ask its resolver for the base URL of
   the request at hand; they keep nothing.  Whatever was requested before (other root resources, other bases, other
   resolver answers) and whatever is requested afterwards on the same client, the URL of a request is the URL of that
   request alone - so the three theorems above hold of EVERY request of EVERY history.  The correspondence run replays
   this on the real client: requests are issued in histories on long-lived clients and each is compared with
   [request_url] of that request alone. *)
Theorem url_of_request_history_independent : forall v2 th before r after,
  nth_error (client_urls v2 th (before ++ r :: after)) (length before) = Some (request_url v2 th r).
Proof. exact UrlProofs.url_of_request_history_independent. Qed.

(* Table obligations (256-byte sweeps against the tables of the current tree): every byte the ROR2 path writer leaves raw
   or emits as structure is accepted by Go's validEncoded, so EscapedPath returns the encoder's text instead of encoding
   it again; every byte the ROR2 query writer can emit survives url.Parse (no control byte, no '#'). *)
Theorem encoder_output_accepted_by_net_url :
  path_table_ok v2_unescaped_path_characters = true /\ path_table_ok root_unescaped_path_characters = true /\
  query_table_ok v2_unescaped_query_characters = true /\ query_table_ok root_unescaped_query_characters = true.
Proof.
  exact (conj UrlProofs.v2_path_table_ok (conj UrlProofs.root_path_table_ok (conj UrlProofs.v2_query_table_ok UrlProofs.root_query_table_ok))).
Qed.

(* The code's strings.LastIndex surgery agrees with the specification on every context of the grammar. *)
Theorem strip_agrees_with_specification : forall root segs,
  root_ok root = true -> forallb seg_ok segs = true -> root_only_final root segs = true ->
  strip_root (concat (map (cons c_slash) segs)) root = context (render_ctx segs false) root.
Proof. exact UrlProofs.strip_agrees_with_specification. Qed.

(* Non-vacuity: base http://h:80/x/collx/coll/ (a segment that merely starts with the root name, then the root as last
   segment, trailing slash), key ".." and a complex key, query with %28: premises hold and the URL is as specified. *)
Example c15_nonvacuous :
  let scheme := [x68;x74;x74;x70] in
  let host := [x68;x3a;x38;x30] in
  let segs := [[x78]; [x63;x6f;x6c;x6c;x78]; [x63;x6f;x6c;x6c]] in
  let root := [x63;x6f;x6c;x6c] in
  let rpath := [x2f;x63;x6f;x6c;x6c;x2f;x28;x61;x3a;x31;x29;x2f;x2e;x2e;x2f;x25;x32;x45] in
  let q := Some [x71;x3d;x25;x32;x38] in
  in_grammar scheme host segs root = true /\
  encoded_path v2_unescaped_path_characters root rpath = true /\
  encoded_query v2_unescaped_query_characters q = true /\
  match new_request_url (mk_base scheme host (render_ctx segs true)) root rpath q with
  | UOk u => url_string u
  | UErr e => UErr e
  end = UOk ([x68;x74;x74;x70;x3a;x2f;x2f;x68;x3a;x38;x30] ++ [x2f;x78;x2f;x63;x6f;x6c;x6c;x78] ++ rpath ++ [x3f;x71;x3d;x25;x32;x38]).
Proof. vm_compute. repeat split; reflexivity. Qed.

(* Non-vacuity of the tunnelled case: threshold 3, base http://h/x/coll, a complex key and an empty-string key in the path,
   query ids=List(1,2): tunnelled, and the URL is http://h/x/coll/(a:1)/''/s without query. *)
Example c15_tunnelled_nonvacuous :
  let scheme := [x68;x74;x74;x70] in
  let host := [x68] in
  let segs := [[x78]; [x63;x6f;x6c;x6c]] in
  let root := [x63;x6f;x6c;x6c] in
  let rpath := [x2f;x63;x6f;x6c;x6c;x2f;x28;x61;x3a;x31;x29;x2f;x27;x27;x2f;x73] in
  let q := Some [x69;x64;x73;x3d;x4c;x69;x73;x74;x28;x31;x2c;x32;x29] in
  in_grammar scheme host segs root = true /\
  encoded_path v2_unescaped_path_characters root rpath = true /\
  encoded_query v2_unescaped_query_characters q = true /\
  tunnels true 3 q = true /\
  match new_request_url_t true 3 (mk_base scheme host (render_ctx segs false)) root rpath q with
  | UOk u => url_string u
  | UErr e => UErr e
  end = UOk ([x68;x74;x74;x70;x3a;x2f;x2f;x68] ++ [x2f;x78] ++ rpath).
Proof. vm_compute. repeat split; reflexivity. Qed.

Print Assumptions url_preserves_base_and_path.
Print Assumptions tunnelled_url_preserves_base_and_path.
Print Assumptions url_of_request_history_independent.
Print Assumptions root_segment_once.
Print Assumptions no_normalisation.
Print Assumptions encoder_output_accepted_by_net_url.
Print Assumptions strip_agrees_with_specification.
