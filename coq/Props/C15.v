(* C15 — Request URL construction preserves resolver base, resource path and query.
   Only statements here; proofs are in Proofs/UrlProofs.v.  Model: Http/Url.v (formatQueryUrl, joinContextAndResourcePath,
   the URL part of newRequest) over Http/UrlModel.v (net/url and http.NewRequest's URL handling: MODELLED, NOT VERIFIED,
   validated by the correspondence stream).

   Inputs: the base URL a resolver returns, [mk_base scheme host bp]: scheme, host and the escaped context path bp as
   url.Parse / setPath store it; the root resource name; the encoder-produced escaped resource path; the encoded query
   (None: no query parameters).  The context grammar: bp = render_ctx segs trailing = /seg1/.../segn[/] for ANY number of
   non-empty segments of pchar bytes with well-formed %XX (in_grammar: lower-case scheme or none, reg-name[:port] host or
   none, the root name as a complete segment at most in the LAST position - contexts holding it earlier are left unspecified
   by the property).  encoded_path / encoded_query: the output alphabets of the ROR2 path / query writers, from the tables
   the translator re-reads (Gen/TablesUrl.v), for either module generation (module_tables).

   [context bp root] is specified independently of the code: drop one trailing slash, split at '/', cut at the last
   segment equal to root, join. *)
From Coq Require Import List Bool.
From Coq.Strings Require Import Byte.
From GR Require Import Base.Bytes Gen.TablesUrl Http.UrlModel Http.Url Http.UrlEnc Proofs.UrlProofs.
Import ListNotations.

(* The request is always built, keeps the resolver's scheme and host, its escaped path is the context followed by the
   resource path, and the raw query is the encoder's (with "no query" and "empty query" kept apart). *)
Theorem url_preserves_base_and_path : forall ptab qtab scheme host segs trailing root rpath q,
  In (ptab, qtab) module_tables ->
  in_grammar scheme host segs root = true -> encoded_path ptab root rpath = true -> encoded_query qtab q = true ->
  exists u,
    new_request_url (mk_base scheme host (render_ctx segs trailing)) root rpath q = UOk u /\
    u_scheme u = scheme /\ u_host u = host /\
    escaped_path u = context (render_ctx segs trailing) root ++ rpath /\
    u_rawquery u = raw_query_of q /\ u_forcequery u = force_query_of q.
Proof. exact UrlProofs.url_preserves_base_and_path. Qed.

(* The root resource segment occurs exactly once at the junction: the kept context holds no complete root segment and is
   followed by "/root", then by the end of the path or a slash. *)
Theorem root_segment_once : forall ptab qtab scheme host segs trailing root rpath q u,
  In (ptab, qtab) module_tables ->
  in_grammar scheme host segs root = true -> encoded_path ptab root rpath = true -> encoded_query qtab q = true ->
  new_request_url (mk_base scheme host (render_ctx segs trailing)) root rpath q = UOk u ->
  exists tail,
    escaped_path u = context (render_ctx segs trailing) root ++ c_slash :: root ++ tail /\
    (tail = [] \/ exists t, tail = c_slash :: t) /\
    ~ In root (split_on c_slash (context (render_ctx segs trailing) root)).
Proof. exact UrlProofs.root_segment_once. Qed.

(* No double encoding, decoding, dot-segment or slash normalisation, no lost query: the escaped path ends with the
   encoder's bytes, the request line (RequestURI) and URL.String() are context ++ path ++ ?query byte for byte. *)
Theorem no_normalisation : forall ptab qtab scheme host segs trailing root rpath q u,
  In (ptab, qtab) module_tables ->
  in_grammar scheme host segs root = true -> encoded_path ptab root rpath = true -> encoded_query qtab q = true ->
  new_request_url (mk_base scheme host (render_ctx segs trailing)) root rpath q = UOk u ->
  (exists ctx, escaped_path u = ctx ++ rpath /\
               request_uri u = ctx ++ rpath ++ query_suffix q /\
               url_string u = UOk (authority_prefix scheme host ++ (ctx ++ rpath) ++ query_suffix q)) /\
  u_rawquery u = raw_query_of q /\ u_forcequery u = force_query_of q.
Proof. exact UrlProofs.no_normalisation. Qed.

(* Table obligations (256-byte sweeps against the tables of the current tree): every byte the ROR2 path writer leaves raw
   or emits as structure is accepted by Go's validEncoded, so EscapedPath returns the encoder's text instead of encoding
   it again; every byte the ROR2 query writer can emit survives url.Parse (no control byte, no '#'). *)
Theorem encoder_output_accepted_by_net_url :
  path_table_ok v2_unescaped_path_characters = true /\ path_table_ok root_unescaped_path_characters = true /\
  query_table_ok v2_unescaped_query_characters = true /\ query_table_ok root_unescaped_query_characters = true.
Proof.
  exact (conj UrlProofs.v2_path_table_ok (conj UrlProofs.root_path_table_ok (conj UrlProofs.v2_query_table_ok UrlProofs.root_query_table_ok))).
Qed.

(* The code's strings.LastIndex surgery agrees with the specification on every context of the grammar. *)
Theorem strip_agrees_with_specification : forall root segs,
  root_ok root = true -> forallb seg_ok segs = true -> root_only_final root segs = true ->
  strip_root (concat (map (cons c_slash) segs)) root = context (render_ctx segs false) root.
Proof. exact UrlProofs.strip_agrees_with_specification. Qed.

(* Non-vacuity: base http://h:80/x/collx/coll/ (a segment that merely starts with the root name, then the root as last
   segment, trailing slash), key ".." and a complex key, query with %28: premises hold and the URL is as specified. *)
Example c15_nonvacuous :
  let scheme := [x68;x74;x74;x70] in
  let host := [x68;x3a;x38;x30] in
  let segs := [[x78]; [x63;x6f;x6c;x6c;x78]; [x63;x6f;x6c;x6c]] in
  let root := [x63;x6f;x6c;x6c] in
  let rpath := [x2f;x63;x6f;x6c;x6c;x2f;x28;x61;x3a;x31;x29;x2f;x2e;x2e;x2f;x25;x32;x45] in
  let q := Some [x71;x3d;x25;x32;x38] in
  in_grammar scheme host segs root = true /\
  encoded_path v2_unescaped_path_characters root rpath = true /\
  encoded_query v2_unescaped_query_characters q = true /\
  match new_request_url (mk_base scheme host (render_ctx segs true)) root rpath q with
  | UOk u => url_string u
  | UErr e => UErr e
  end = UOk ([x68;x74;x74;x70;x3a;x2f;x2f;x68;x3a;x38;x30] ++ [x2f;x78;x2f;x63;x6f;x6c;x6c;x78] ++ rpath ++ [x3f;x71;x3d;x25;x32;x38]).
Proof. vm_compute. repeat split; reflexivity. Qed.

Print Assumptions url_preserves_base_and_path.
Print Assumptions root_segment_once.
Print Assumptions no_normalisation.
Print Assumptions encoder_output_accepted_by_net_url.
Print Assumptions strip_agrees_with_specification.
