(* file-ownership constants of the generator (C20) — REGENERATED from /repo by harness/cmd/extract on every check run.  Do not edit. *)
From Coq Require Import List NArith ZArith.
From Coq.Strings Require Import Byte.
From GR Require Import Base.Bytes.
Import ListNotations.

(* v2/codegen/utils/codefile.go:21:2 = ".gr.go" *)
Definition v2_generated_file_suffix : bytes := [x2e; x67; x72; x2e; x67; x6f].

(* v2/codegen/utils/codefile.go:22:2 = "go-restli-manifest.gr.json" *)
Definition v2_manifest_file : bytes := [x67; x6f; x2d; x72; x65; x73; x74; x6c; x69; x2d; x6d; x61; x6e; x69; x66; x65; x73; x74; x2e; x67; x72; x2e; x6a; x73; x6f; x6e].

(* codegen/utils/codefile.go:19:2 = ".gr.go" *)
Definition root_generated_file_suffix : bytes := [x2e; x67; x72; x2e; x67; x6f].

(* codegen/utils/codefile.go:20:2 = "parsed-specs.gr.json" *)
Definition root_manifest_file : bytes := [x70; x61; x72; x73; x65; x64; x2d; x73; x70; x65; x63; x73; x2e; x67; x72; x2e; x6a; x73; x6f; x6e].

