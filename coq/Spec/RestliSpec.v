(* RestliSpec: an INDEPENDENT reference for the Rest.li protocol-2.0 wire formats, written from the protocol description
   (Pegasus data model -> JSON; Rest.li 2.0 URL / header object notation "ROR2") and not from the Go code.

   Style: inductive RELATIONS between wire documents and abstract values (the model in Codec/* is made of executable
   functions).  What is shared with the model - and therefore trusted to mean the same thing on both sides - is only:
     - the types  bytes, ty / def / field / env, value (Codec/Schema.v)  and  jdoc (the JSON tree type of Codec/Json.v; none of
       the functions of that file is used here),
     - Utf8.utf8_encode (code point -> UTF-8 bytes) and Dec.print_dec (decimal text of an integer), Bytes.bn / nb (byte <-> N).
   Nothing of Codec/Doc, Escape, Render, Encode, Decode, Tracker is imported.

   Structure:
     1. the data-model mapping, generic in the tree type: which tree DENOTES which value of which schema type (records with
        flattened includes, unknown members, any member order; unions; maps; arrays) - [denotes];
     2. JSON: the leaf rules (numbers, the three reserved float strings, strings, bytes/fixed as strings of code points <= 0xFF,
        enum symbols) and the instance [json_denotes] on JSON trees;
     3. ROR2: percent-encoded text per context (header / URL path segment / URL query value), the grammar
        (k:v,...) | List(...) | '' | text  as a relation between BYTES and trees, the leaf rules, and [ror2_denotes] on bytes;
     4. validity of values (what "a valid value of the schema" means in the converse direction);
     5. the envelope member names and protocol headers the protocol prescribes. *)
From Coq Require Import List Bool Arith ZArith NArith Lia.
From Coq.Strings Require Import Byte.
From GR Require Import Base.Bytes Base.Dec Codec.Schema Codec.Utf8 Codec.Json.
Import ListNotations.

(* ------------------------------------------------------------------------------------------------------------------ *)
(* 0. IEEE-754 bit patterns: which are NaN, +Infinity, -Infinity (by magnitude comparison, not by field extraction)     *)
(* ------------------------------------------------------------------------------------------------------------------ *)
Inductive fkind := KNaN | KPosInf | KNegInf | KFinite.

Definition sign_bit (is32 : bool) : N := if is32 then 2147483648%N else 9223372036854775808%N.              (* 2^31, 2^63 *)
Definition inf_magnitude (is32 : bool) : N := if is32 then 2139095040%N else 9218868437227405312%N.         (* 0x7F800000, 0x7FF0000000000000 *)

Definition float_kind (is32 : bool) (bits : N) : fkind :=
  let magnitude := (bits mod sign_bit is32)%N in
  if (inf_magnitude is32 <? magnitude)%N then KNaN
  else if (magnitude =? inf_magnitude is32)%N then (if (bits <? sign_bit is32)%N then KPosInf else KNegInf)
  else KFinite.

(* the three reserved strings *)
Definition txt_NaN : bytes := [x4e; x61; x4e].
Definition txt_Infinity : bytes := [x49; x6e; x66; x69; x6e; x69; x74; x79].
Definition txt_NegInfinity : bytes := [x2d; x49; x6e; x66; x69; x6e; x69; x74; x79].
Definition reserved_float_text (k : fkind) : option bytes :=
  match k with KNaN => Some txt_NaN | KPosInf => Some txt_Infinity | KNegInf => Some txt_NegInfinity | KFinite => None end.

Definition txt_true : bytes := [x74; x72; x75; x65].
Definition txt_false : bytes := [x66; x61; x6c; x73; x65].
Definition bool_text (b : bool) : bytes := if b then txt_true else txt_false.

(* bytes / fixed in JSON: a string with one code point (0..255) per byte *)
Inductive latin1_text : bytes -> bytes -> Prop :=
| l1_nil : latin1_text [] []
| l1_cons c t s : latin1_text t s -> latin1_text (utf8_encode (bn c) ++ t) (c :: s).

(* which types are leaves of the data model *)
Definition is_leaf_ty (t : ty) : bool := match t with TPrim _ | TEnum _ | TFixed _ => true | _ => false end.

(* ------------------------------------------------------------------------------------------------------------------ *)
(* 1. The data-model mapping, for any tree type                                                                        *)
(* ------------------------------------------------------------------------------------------------------------------ *)
Section DataModel.
  Variable e : env.
  Variable T : Type.
  Variable obj_of : T -> option (list (bytes * T)).     (* the members of an object, in document order *)
  Variable list_of : T -> option (list T).              (* the items of an array *)
  Variable is_null : T -> Prop.                         (* the null literal (JSON only) *)
  Variable leaf : ty -> T -> value -> Prop.             (* primitives, enums, fixed: format specific *)

  (* a member named k is absent, or present with the value null *)
  Definition absent_or_null (k : bytes) (ms : list (bytes * T)) : Prop := forall x, In (k, x) ms -> is_null x.

  Inductive denotes : ty -> T -> value -> Prop :=
  | dn_leaf t x v : is_leaf_ty t = true -> leaf t x v -> denotes t x v
  (* arrays: item by item, in order *)
  | dn_array t x xs vs : list_of x = Some xs -> items_denote t xs vs -> denotes (TArray t) x (VArr vs)
  (* maps: an object with exactly the map's keys (member names are unique in a conforming document), in any order *)
  | dn_map t x ms es :
      obj_of x = Some ms -> NoDup (map fst ms) -> entries_denote t ms es -> incl (map fst ms) (map fst es) ->
      denotes (TMap t) x (VMap es)
  (* records: an object; see [record_denotes] *)
  | dn_record n x ms v : obj_of x = Some ms -> NoDup (map fst ms) -> record_denotes n ms v -> denotes (TRef n) x v
  (* unions: an object with a single member, named by the alias of the member that is set *)
  | dn_union n nullable members x alias y vs :
      lookup e n = Some (DUnion nullable members) -> obj_of x = Some [(alias, y)] -> member_denotes members alias y vs ->
      denotes (TRef n) x (VUnion vs)
  (* the null member of a union that declares one: the null literal *)
  | dn_union_null n members x :
      lookup e n = Some (DUnion true members) -> is_null x -> denotes (TRef n) x (VUnion (map (fun _ => None) members))

  with items_denote : ty -> list T -> list value -> Prop :=
  | it_nil t : items_denote t [] []
  | it_cons t x v xs vs : denotes t x v -> items_denote t xs vs -> items_denote t (x :: xs) (v :: vs)

  with entries_denote : ty -> list (bytes * T) -> list (bytes * value) -> Prop :=
  | en_nil t ms : entries_denote t ms []
  | en_cons t ms k v x es : In (k, x) ms -> denotes t x v -> entries_denote t ms es -> entries_denote t ms ((k, v) :: es)

  (* the members ms of ONE object denote the record value: the fields of included records are members of the same object
     (flattened); every field that is set appears as a member named by the field name whose value denotes the field's value;
     an optional field (or one with a default) that is unset is absent or null; members with other names are unconstrained
     (unknown fields of any shape are allowed) *)
  with record_denotes : nat -> list (bytes * T) -> value -> Prop :=
  | rc_intro n incs fs ms ivs fvs :
      lookup e n = Some (DRecord incs fs) -> includes_denote ms incs ivs -> fields_denote ms fs fvs ->
      record_denotes n ms (VRec ivs fvs)

  with includes_denote : list (bytes * T) -> list nat -> list value -> Prop :=
  | in_nil ms : includes_denote ms [] []
  | in_cons ms i iv is ivs : record_denotes i ms iv -> includes_denote ms is ivs -> includes_denote ms (i :: is) (iv :: ivs)

  with fields_denote : list (bytes * T) -> list field -> list (option value) -> Prop :=
  | fl_nil ms : fields_denote ms [] []
  | fl_set ms fd fs v vs x :
      In (f_name fd, x) ms -> denotes (f_ty fd) x v -> fields_denote ms fs vs -> fields_denote ms (fd :: fs) (Some v :: vs)
  | fl_unset ms fd fs vs :
      is_required (f_opt fd) = false -> absent_or_null (f_name fd) ms -> fields_denote ms fs vs ->
      fields_denote ms (fd :: fs) (None :: vs)

  (* exactly one member of the union is set, and it is the one named by the alias *)
  with member_denotes : list (bytes * ty) -> bytes -> T -> list (option value) -> Prop :=
  | mb_here alias t rest x v :
      denotes t x v -> member_denotes ((alias, t) :: rest) alias x (Some v :: map (fun _ => None) rest)
  | mb_later a t rest alias x vs : member_denotes rest alias x vs -> member_denotes ((a, t) :: rest) alias x (None :: vs).

  (* the name k is a field that is set in the record value (own field, or field of an included record, transitively) *)
  Inductive set_field : nat -> value -> bytes -> Prop :=
  | sf_own n incs fs ivs fvs i fd v :
      lookup e n = Some (DRecord incs fs) -> nth_error fs i = Some fd -> nth_error fvs i = Some (Some v) ->
      set_field n (VRec ivs fvs) (f_name fd)
  | sf_inc n incs fs ivs fvs i m iv k :
      lookup e n = Some (DRecord incs fs) -> nth_error incs i = Some m -> nth_error ivs i = Some iv -> set_field m iv k ->
      set_field n (VRec ivs fvs) k.
End DataModel.

Scheme denotes_mind := Minimality for denotes Sort Prop
  with items_denote_mind := Minimality for items_denote Sort Prop
  with entries_denote_mind := Minimality for entries_denote Sort Prop
  with record_denotes_mind := Minimality for record_denotes Sort Prop
  with includes_denote_mind := Minimality for includes_denote Sort Prop
  with fields_denote_mind := Minimality for fields_denote Sort Prop
  with member_denotes_mind := Minimality for member_denotes Sort Prop.
Combined Scheme denotes_mutind from denotes_mind, items_denote_mind, entries_denote_mind, record_denotes_mind,
  includes_denote_mind, fields_denote_mind, member_denotes_mind.

(* ------------------------------------------------------------------------------------------------------------------ *)
(* 2. JSON                                                                                                             *)
(* ------------------------------------------------------------------------------------------------------------------ *)
Section Json.
  Variable e : env.
  (* "the JSON number / text t denotes the float with these bits" (is32: as a 32-bit float): decimal -> binary conversion is
     external (IEEE round-to-nearest); the theorems state what they assume about it *)
  Variable float_text : bool -> bytes -> N -> Prop.

  Inductive json_leaf : ty -> jdoc -> value -> Prop :=
  | jl_int z : json_leaf (TPrim PInt) (JNum (print_dec z)) (VInt z)
  | jl_long z : json_leaf (TPrim PLong) (JNum (print_dec z)) (VLong z)
  | jl_float t b : float_kind true b = KFinite -> float_text true t b -> json_leaf (TPrim PFloat) (JNum t) (VFloat b)
  | jl_float_reserved s b : reserved_float_text (float_kind true b) = Some s -> json_leaf (TPrim PFloat) (JStr s) (VFloat b)
  | jl_double t b : float_kind false b = KFinite -> float_text false t b -> json_leaf (TPrim PDouble) (JNum t) (VDouble b)
  | jl_double_reserved s b : reserved_float_text (float_kind false b) = Some s -> json_leaf (TPrim PDouble) (JStr s) (VDouble b)
  | jl_bool b : json_leaf (TPrim PBool) (JBool b) (VBool b)
  | jl_string s : json_leaf (TPrim PString) (JStr s) (VStr s)
  | jl_bytes t s : latin1_text t s -> json_leaf (TPrim PBytes) (JStr t) (VBytes s)
  | jl_enum syms i s : nth_error syms i = Some s -> json_leaf (TEnum syms) (JStr s) (VEnum (S i))
  | jl_fixed n t s : latin1_text t s -> json_leaf (TFixed n) (JStr t) (VFixed s).

  Definition json_obj (d : jdoc) : option (list (bytes * jdoc)) := match d with JObj ms => Some ms | _ => None end.
  Definition json_list (d : jdoc) : option (list jdoc) := match d with JArr xs => Some xs | _ => None end.
  Definition json_null (d : jdoc) : Prop := d = JNull.

  Definition json_denotes : ty -> jdoc -> value -> Prop := denotes e jdoc json_obj json_list json_null json_leaf.
  Definition json_record_denotes := record_denotes e jdoc json_obj json_list json_null json_leaf.
End Json.

(* ------------------------------------------------------------------------------------------------------------------ *)
(* 3. ROR2 (Rest.li 2.0 object notation in URLs and headers)                                                           *)
(* ------------------------------------------------------------------------------------------------------------------ *)
Inductive context := InHeader | InPath | InQuery.

Definition one_of (l : list N) (c : byte) : bool := existsb (N.eqb (bn c)) l.
Definition in_range (lo hi : N) (c : byte) : bool := ((lo <=? bn c) && (bn c <=? hi))%N.

(* the characters of the notation itself: ( ) , : ' and the escape character % *)
Definition grammar_reserved (c : byte) : bool := one_of [40; 41; 44; 58; 39; 37]%N c.
(* RFC 3986 unreserved: ALPHA DIGIT - . _ ~ *)
Definition uri_unreserved (c : byte) : bool :=
  in_range 65 90 c || in_range 97 122 c || in_range 48 57 c || one_of [45; 46; 95; 126]%N c.

(* which bytes may appear unencoded inside a text token:
   - never a character of the notation;
   - header values: everything else;
   - a URL path segment: pchar = unreserved / sub-delims / ":" / "@" (RFC 3986) minus the notation, i.e. unreserved ! $ & * + ; = @
   - a URL query value: query chars minus the notation and minus the form separators & = and + (which stands for a space),
     i.e. unreserved ! $ * ; @ / ?    (so never a space, a hash, a percent sign, a double quote, angle brackets, control bytes or bytes >= 0x80) *)
Definition may_be_raw (cx : context) (c : byte) : bool :=
  negb (grammar_reserved c) &&
  match cx with
  | InHeader => true
  | InPath => uri_unreserved c || one_of [33; 36; 38; 42; 43; 59; 61; 64]%N c
  | InQuery => uri_unreserved c || one_of [33; 36; 42; 59; 64; 47; 63]%N c
  end.

(* hexadecimal digits, upper or lower case *)
Definition hex_value (c : byte) : option N :=
  if in_range 48 57 c then Some (bn c - 48)%N
  else if in_range 65 70 c then Some (bn c - 55)%N
  else if in_range 97 102 c then Some (bn c - 87)%N
  else None.

(* percent-encoded text: ANY byte may be written %HH; a byte may be written raw only where [may_be_raw] allows it; in the query
   context a space may be written '+' *)
Inductive pct_text (cx : context) : bytes -> bytes -> Prop :=
| pt_nil : pct_text cx [] []
| pt_raw c w s : may_be_raw cx c = true -> pct_text cx w s -> pct_text cx (c :: w) (c :: s)
| pt_esc h l a b w s :
    hex_value h = Some a -> hex_value l = Some b -> pct_text cx w s -> pct_text cx (x25 :: h :: l :: w) (nb (16 * a + b) :: s)
(* in a URL QUERY string (application/x-www-form-urlencoded heritage) a space may also be written '+'.  Only there: in a path
   segment and in a header '+' is a literal plus (it is in [may_be_raw InPath] / [may_be_raw InHeader] and never in
   [may_be_raw InQuery], so the two readings never overlap).  Readers must accept it; a Rest.li writer writes %20 (see
   Props/C03.v query_output_never_plus). *)
| pt_plus w s : cx = InQuery -> pct_text cx w s -> pct_text cx (x2b :: w) (x20 :: s).

Definition txt_empty_string : bytes := [x27; x27].                      (* '' *)
Definition txt_list_open : bytes := [x4c; x69; x73; x74; x28].          (* List( *)

(* a string (or key): '' for the empty string, else its percent-encoded text *)
Inductive str_text (cx : context) : bytes -> bytes -> Prop :=
| st_empty : str_text cx txt_empty_string []
| st_some w s : s <> [] -> pct_text cx w s -> str_text cx w s.

Fixpoint comma_join (l : list bytes) : bytes :=
  match l with
  | [] => []
  | [a] => a
  | a :: r => a ++ x2c :: comma_join r
  end.

(* trees of the notation; a text token keeps its wire text (its meaning depends on the schema type), keys are decoded *)
Inductive rtree := RText (w : bytes) | RList (items : list rtree) | RObj (ents : list (bytes * rtree)).

(* the grammar, as a relation between BYTES and trees:
     value := text | '' | List( value,... ) | ( key:value,... ) *)
Inductive ror2_text (cx : context) : bytes -> rtree -> Prop :=
| rt_token w s : str_text cx w s -> ror2_text cx w (RText w)
| rt_list ws ts : Forall2 (ror2_text cx) ws ts -> ror2_text cx (txt_list_open ++ comma_join ws ++ [x29]) (RList ts)
| rt_obj ews ents :
    Forall2 (fun ew ent => exists kw vw, ew = kw ++ x3a :: vw /\ str_text cx kw (fst ent) /\ ror2_text cx vw (snd ent)) ews ents ->
    ror2_text cx (x28 :: comma_join ews ++ [x29]) (RObj ents).

Section Ror2.
  Variable e : env.
  Variable float_text : bool -> bytes -> N -> Prop.
  Variable cx : context.

  (* decision D11: bytes and fixed values are the percent-decoded OCTETS of the token *)
  Inductive ror2_leaf : ty -> rtree -> value -> Prop :=
  | rl_int z w : pct_text cx w (print_dec z) -> ror2_leaf (TPrim PInt) (RText w) (VInt z)
  | rl_long z w : pct_text cx w (print_dec z) -> ror2_leaf (TPrim PLong) (RText w) (VLong z)
  | rl_float t b w : float_kind true b = KFinite -> float_text true t b -> pct_text cx w t -> ror2_leaf (TPrim PFloat) (RText w) (VFloat b)
  | rl_float_reserved s b w :
      reserved_float_text (float_kind true b) = Some s -> pct_text cx w s -> ror2_leaf (TPrim PFloat) (RText w) (VFloat b)
  | rl_double t b w : float_kind false b = KFinite -> float_text false t b -> pct_text cx w t -> ror2_leaf (TPrim PDouble) (RText w) (VDouble b)
  | rl_double_reserved s b w :
      reserved_float_text (float_kind false b) = Some s -> pct_text cx w s -> ror2_leaf (TPrim PDouble) (RText w) (VDouble b)
  | rl_bool b w : pct_text cx w (bool_text b) -> ror2_leaf (TPrim PBool) (RText w) (VBool b)
  | rl_string s w : str_text cx w s -> ror2_leaf (TPrim PString) (RText w) (VStr s)
  | rl_bytes s w : str_text cx w s -> ror2_leaf (TPrim PBytes) (RText w) (VBytes s)
  | rl_enum syms i s w : nth_error syms i = Some s -> str_text cx w s -> ror2_leaf (TEnum syms) (RText w) (VEnum (S i))
  | rl_fixed n s w : str_text cx w s -> ror2_leaf (TFixed n) (RText w) (VFixed s).

  Definition ror2_obj (t : rtree) : option (list (bytes * rtree)) := match t with RObj ms => Some ms | _ => None end.
  Definition ror2_list (t : rtree) : option (list rtree) := match t with RList xs => Some xs | _ => None end.
  Definition ror2_null (t : rtree) : Prop := False.       (* the notation has no null *)

  Definition rtree_denotes : ty -> rtree -> value -> Prop := denotes e rtree ror2_obj ror2_list ror2_null ror2_leaf.

  (* directly on bytes *)
  Definition ror2_denotes (t : ty) (bs : bytes) (v : value) : Prop :=
    exists tr, ror2_text cx bs tr /\ rtree_denotes t tr v.
End Ror2.

(* ------------------------------------------------------------------------------------------------------------------ *)
(* 4. Valid values of a schema (premise of the converse direction)                                                     *)
(* ------------------------------------------------------------------------------------------------------------------ *)
Section Valid.
  Variable e : env.
  Inductive valid_value : ty -> value -> Prop :=
  | vv_int z : in_i32 z = true -> valid_value (TPrim PInt) (VInt z)
  | vv_long z : in_i64 z = true -> valid_value (TPrim PLong) (VLong z)
  | vv_float b : (b < 4294967296)%N -> valid_value (TPrim PFloat) (VFloat b)
  | vv_double b : (b < 18446744073709551616)%N -> valid_value (TPrim PDouble) (VDouble b)
  | vv_bool b : valid_value (TPrim PBool) (VBool b)
  | vv_string s : valid_value (TPrim PString) (VStr s)
  | vv_bytes s : valid_value (TPrim PBytes) (VBytes s)
  | vv_enum syms i s : nth_error syms i = Some s -> NoDup syms -> valid_value (TEnum syms) (VEnum (S i))
  | vv_fixed n s : length s = n -> valid_value (TFixed n) (VFixed s)
  | vv_array t vs : Forall (valid_value t) vs -> valid_value (TArray t) (VArr vs)
  | vv_map t es : NoDup (map fst es) -> Forall (fun kv => valid_value t (snd kv)) es -> valid_value (TMap t) (VMap es)
  (* records: one value per included record, one slot per field; a required field is set *)
  | vv_record n incs fs ivs fvs :
      lookup e n = Some (DRecord incs fs) ->
      Forall2 (fun i iv => valid_value (TRef i) iv) incs ivs ->
      Forall2 (fun fd ov => (forall v, ov = Some v -> valid_value (f_ty fd) v) /\ (ov = None -> is_required (f_opt fd) = false)) fs fvs ->
      valid_value (TRef n) (VRec ivs fvs)
  (* unions: one slot per member (aliases are distinct), at most one of them set - exactly one unless the union declares null *)
  | vv_union n nullable ms vs :
      lookup e n = Some (DUnion nullable ms) -> NoDup (map fst ms) ->
      Forall2 (fun m ov => forall v, ov = Some v -> valid_value (snd m) v) ms vs ->
      valid_value (TRef n) (VUnion vs).
End Valid.

(* ------------------------------------------------------------------------------------------------------------------ *)
(* 5. Envelopes and headers prescribed by the protocol                                                                 *)
(* ------------------------------------------------------------------------------------------------------------------ *)
(* member names of the request / response envelopes (Rest.li protocol 2.0, "Rest.li Protocol" document):
   collection / finder results  {"elements":[...],"paging":{"start","count","total"?,"links":[...]},"metadata"?:{...}};
   action results {"value":...}; batch_get / batch requests {"entities":{key:...}}; batch responses {"results":{key:...},
   "statuses"?, "errors":{key:...}}; batch_create {"elements":[{"id"?,"location"?,"status","error"?,"entity"?}]} *)
Definition p_elements : bytes := [x65; x6c; x65; x6d; x65; x6e; x74; x73].
Definition p_paging : bytes := [x70; x61; x67; x69; x6e; x67].
Definition p_metadata : bytes := [x6d; x65; x74; x61; x64; x61; x74; x61].
Definition p_value : bytes := [x76; x61; x6c; x75; x65].
Definition p_entities : bytes := [x65; x6e; x74; x69; x74; x69; x65; x73].
Definition p_entity : bytes := [x65; x6e; x74; x69; x74; x79].
Definition p_results : bytes := [x72; x65; x73; x75; x6c; x74; x73].
Definition p_statuses : bytes := [x73; x74; x61; x74; x75; x73; x65; x73].
Definition p_errors : bytes := [x65; x72; x72; x6f; x72; x73].
Definition p_id : bytes := [x69; x64].
Definition p_location : bytes := [x6c; x6f; x63; x61; x74; x69; x6f; x6e].
Definition p_status : bytes := [x73; x74; x61; x74; x75; x73].
Definition p_error : bytes := [x65; x72; x72; x6f; x72].
(* headers *)
Definition p_hdr_protocol_version : bytes :=     (* X-RestLi-Protocol-Version *)
  [x58; x2d; x52; x65; x73; x74; x4c; x69; x2d; x50; x72; x6f; x74; x6f; x63; x6f; x6c; x2d; x56; x65; x72; x73; x69; x6f; x6e].
Definition p_protocol_version : bytes := [x32; x2e; x30; x2e; x30].                                          (* 2.0.0 *)
Definition p_hdr_method : bytes := [x58; x2d; x52; x65; x73; x74; x4c; x69; x2d; x4d; x65; x74; x68; x6f; x64].   (* X-RestLi-Method *)
Definition p_hdr_error_response : bytes :=       (* X-RestLi-Error-Response *)
  [x58; x2d; x52; x65; x73; x74; x4c; x69; x2d; x45; x72; x72; x6f; x72; x2d; x52; x65; x73; x70; x6f; x6e; x73; x65].
Definition p_hdr_id : bytes := [x58; x2d; x52; x65; x73; x74; x4c; x69; x2d; x49; x64].                          (* X-RestLi-Id *)

(* the names of an implementation, in the order: elements paging metadata value entities entity results statuses errors id
   location status error | protocol-version header, version, method header, error-response header, id header *)
Definition protocol_names : list bytes :=
  [p_elements; p_paging; p_metadata; p_value; p_entities; p_entity; p_results; p_statuses; p_errors; p_id; p_location; p_status; p_error;
   p_hdr_protocol_version; p_protocol_version; p_hdr_method; p_hdr_error_response; p_hdr_id].
