(* Decimal text of integers (strconv.FormatInt / AppendInt base 10) and strconv.ParseInt(s, 10, bits). *)
From Coq Require Import List Bool ZArith NArith Lia Decimal DecimalZ DecimalPos DecimalN.
From Coq.Strings Require Import Byte.
From GR Require Import Base.Bytes.
Import ListNotations.

Fixpoint uint_bytes (u : Decimal.uint) : bytes :=
  match u with
  | Nil => []
  | D0 r => x30 :: uint_bytes r | D1 r => x31 :: uint_bytes r | D2 r => x32 :: uint_bytes r
  | D3 r => x33 :: uint_bytes r | D4 r => x34 :: uint_bytes r | D5 r => x35 :: uint_bytes r
  | D6 r => x36 :: uint_bytes r | D7 r => x37 :: uint_bytes r | D8 r => x38 :: uint_bytes r
  | D9 r => x39 :: uint_bytes r
  end.

Definition print_dec (z : Z) : bytes :=
  match Z.to_int z with
  | Pos u => uint_bytes u
  | Neg u => x2d :: uint_bytes u
  end.

(* digits -> uint; None on a non-digit *)
Fixpoint bytes_uint (s : bytes) : option Decimal.uint :=
  match s with
  | [] => Some Nil
  | c :: r =>
      match bytes_uint r with
      | None => None
      | Some u =>
          let n := bn c in
          if (n =? 48)%N then Some (D0 u) else if (n =? 49)%N then Some (D1 u) else if (n =? 50)%N then Some (D2 u)
          else if (n =? 51)%N then Some (D3 u) else if (n =? 52)%N then Some (D4 u) else if (n =? 53)%N then Some (D5 u)
          else if (n =? 54)%N then Some (D6 u) else if (n =? 55)%N then Some (D7 u) else if (n =? 56)%N then Some (D8 u)
          else if (n =? 57)%N then Some (D9 u) else None
      end
  end.

(* strconv.ParseInt(s, 10, _) without the range check: optional sign, at least one digit *)
Definition parse_dec (s : bytes) : option Z :=
  match s with
  | [] => None
  | c :: r =>
      if Byte.eqb c x2d then match r with [] => None | _ => option_map (fun u => Z.of_int (Neg u)) (bytes_uint r) end
      else if Byte.eqb c x2b then match r with [] => None | _ => option_map (fun u => Z.of_int (Pos u)) (bytes_uint r) end
      else option_map (fun u => Z.of_int (Pos u)) (bytes_uint s)
  end.

Definition parse_int (lo hi : Z) (s : bytes) : option Z :=
  match parse_dec s with
  | Some z => if ((lo <=? z) && (z <=? hi))%Z then Some z else None
  | None => None
  end.
Definition parse_i32 := parse_int (-2147483648) 2147483647.
Definition parse_i64 := parse_int (-9223372036854775808) 9223372036854775807.

Lemma bytes_uint_bytes u : bytes_uint (uint_bytes u) = Some u.
Proof. induction u; cbn [uint_bytes bytes_uint]; try reflexivity; rewrite IHu; reflexivity. Qed.

Lemma uint_bytes_nil u : uint_bytes u = [] -> u = Nil.
Proof. destruct u; cbn; congruence. Qed.

Lemma to_uint_nonnil p : Pos.to_uint p <> Nil.
Proof. apply DecimalPos.Unsigned.to_uint_nonnil. Qed.

Theorem parse_print_dec z : parse_dec (print_dec z) = Some z.
Proof.
  unfold print_dec. pose proof (DecimalZ.of_to z) as H.
  destruct (Z.to_int z) as [u|u] eqn:E.
  - (* non-negative: the first byte is a digit, neither '-' nor '+' *)
    unfold parse_dec. destruct (uint_bytes u) as [|c r] eqn:Eu.
    + apply uint_bytes_nil in Eu. subst u. destruct z; cbn in E; try discriminate;
        injection E as E; exfalso; eapply to_uint_nonnil; exact E.
    + assert (Hc : Byte.eqb c x2d = false /\ Byte.eqb c x2b = false).
      { destruct u; cbn in Eu; try discriminate; injection Eu as <- _; split; reflexivity. }
      destruct Hc as [-> ->]. rewrite <- Eu, bytes_uint_bytes. cbn [option_map]. rewrite H. reflexivity.
  - unfold parse_dec. rewrite byte_eqb_refl.
    destruct (uint_bytes u) as [|c r] eqn:Eu.
    + apply uint_bytes_nil in Eu. subst u. destruct z; cbn in E; try discriminate;
        injection E as E; exfalso; eapply to_uint_nonnil; exact E.
    + rewrite <- Eu, bytes_uint_bytes. cbn [option_map]. rewrite H. reflexivity.
Qed.

Lemma parse_print_i32 z : (-2147483648 <= z <= 2147483647)%Z -> parse_i32 (print_dec z) = Some z.
Proof.
  intros H. unfold parse_i32, parse_int. rewrite parse_print_dec.
  destruct (Z.leb_spec (-2147483648) z); destruct (Z.leb_spec z 2147483647); try lia. reflexivity.
Qed.
Lemma parse_print_i64 z : (-9223372036854775808 <= z <= 9223372036854775807)%Z -> parse_i64 (print_dec z) = Some z.
Proof.
  intros H. unfold parse_i64, parse_int. rewrite parse_print_dec.
  destruct (Z.leb_spec (-9223372036854775808) z); destruct (Z.leb_spec z 9223372036854775807); try lia. reflexivity.
Qed.

(* the text of an integer consists of digits and possibly a leading '-' *)
Definition dec_byte (c : byte) : bool := ((48 <=? bn c) && (bn c <=? 57))%N || Byte.eqb c x2d.
Lemma uint_bytes_digits u : Forall (fun c => dec_byte c = true) (uint_bytes u).
Proof. induction u; cbn; constructor; auto. Qed.
Lemma print_dec_alphabet z : Forall (fun c => dec_byte c = true) (print_dec z).
Proof. unfold print_dec. destruct (Z.to_int z); [|constructor; [reflexivity|]]; apply uint_bytes_digits. Qed.
Lemma print_dec_nonempty z : print_dec z <> [].
Proof.
  unfold print_dec. destruct (Z.to_int z) as [u|u] eqn:E; [|discriminate].
  intros Hn. apply uint_bytes_nil in Hn. subst u. destruct z; cbn in E; try discriminate;
    injection E as E; eapply to_uint_nonnil; exact E.
Qed.
