(* Bytes: Go strings / []byte as lists of Coq bytes.  No definition matches on byte constructors. *)
From Coq Require Import List Bool Arith NArith ZArith Lia.
From Coq.Strings Require Import Byte.
Import ListNotations.

Definition bytes := list byte.

Definition all_bytes : list byte :=
  map (fun n => match Byte.of_N (N.of_nat n) with Some b => b | None => x00 end) (seq 0 256).

Lemma all_bytes_complete : forall b, In b all_bytes.
Proof.
  intro b. unfold all_bytes. apply in_map_iff.
  exists (N.to_nat (Byte.to_N b)). split.
  - rewrite N2Nat.id, Byte.of_to_N. reflexivity.
  - apply in_seq. pose proof (Byte.to_N_bounded b). lia.
Qed.

Lemma forall_bytes (P : byte -> bool) : forallb P all_bytes = true -> forall b, P b = true.
Proof. intros H b. rewrite forallb_forall in H. apply H, all_bytes_complete. Qed.

Lemma forall_bytes2 (P : byte -> byte -> bool) :
  forallb (fun a => forallb (P a) all_bytes) all_bytes = true -> forall a b, P a b = true.
Proof. intros H a b. apply (forall_bytes (P a)). apply (forall_bytes _ H a). Qed.

Lemma byte_eqb_eq a b : Byte.eqb a b = true <-> a = b.
Proof. split; [apply Byte.byte_dec_bl | apply Byte.byte_dec_lb]. Qed.

Lemma byte_eqb_refl a : Byte.eqb a a = true.
Proof. apply Byte.byte_dec_lb; reflexivity. Qed.

Lemma byte_eqb_neq a b : Byte.eqb a b = false <-> a <> b.
Proof.
  split.
  - intros H E. subst. rewrite byte_eqb_refl in H. discriminate.
  - intros H. destruct (Byte.eqb a b) eqn:E; [|reflexivity]. apply byte_eqb_eq in E. contradiction.
Qed.

Definition byte_eq_dec (a b : byte) : {a = b} + {a <> b}.
Proof. destruct (Byte.eqb a b) eqn:E; [left; apply byte_eqb_eq; exact E | right; apply byte_eqb_neq; exact E]. Defined.

Definition bn (b : byte) : N := Byte.to_N b.
Definition nb (n : N) : byte := match Byte.of_N (n mod 256) with Some b => b | None => x00 end.

Lemma nb_bn b : nb (bn b) = b.
Proof.
  unfold nb, bn. pose proof (Byte.to_N_bounded b).
  rewrite N.mod_small by lia. rewrite Byte.of_to_N. reflexivity.
Qed.

Lemma bn_nb n : (n < 256)%N -> bn (nb n) = n.
Proof.
  intros H. unfold nb, bn. rewrite N.mod_small by lia.
  destruct (Byte.of_N n) eqn:E.
  - apply Byte.to_of_N in E. exact E.
  - apply Byte.of_N_None_iff in E. lia.
Qed.

Lemma bn_inj a b : bn a = bn b -> a = b.
Proof. intros H. rewrite <- (nb_bn a), <- (nb_bn b), H. reflexivity. Qed.

Lemma bn_bounded b : (bn b < 256)%N.
Proof. unfold bn. pose proof (Byte.to_N_bounded b). lia. Qed.

Fixpoint bytes_eqb (a b : bytes) : bool :=
  match a, b with
  | [], [] => true
  | x :: a', y :: b' => Byte.eqb x y && bytes_eqb a' b'
  | _, _ => false
  end.

Lemma bytes_eqb_eq a b : bytes_eqb a b = true <-> a = b.
Proof.
  revert b; induction a as [|x a IH]; intros [|y b]; simpl; split; intros H; try reflexivity; try discriminate.
  - apply andb_true_iff in H as [H1 H2]. apply byte_eqb_eq in H1. apply IH in H2. subst; reflexivity.
  - injection H as -> ->. rewrite byte_eqb_refl. simpl. apply IH. reflexivity.
Qed.

Lemma bytes_eqb_refl a : bytes_eqb a a = true.
Proof. apply bytes_eqb_eq; reflexivity. Qed.

Lemma bytes_eqb_neq a b : bytes_eqb a b = false <-> a <> b.
Proof.
  split.
  - intros H E. subst. rewrite bytes_eqb_refl in H. discriminate.
  - intros H. destruct (bytes_eqb a b) eqn:E; [|reflexivity]. apply bytes_eqb_eq in E. contradiction.
Qed.

Definition bytes_eq_dec (a b : bytes) : {a = b} + {a <> b} := list_eq_dec byte_eq_dec a b.

(* lexicographic bytewise order: Go's string < *)
Fixpoint bytes_ltb (a b : bytes) : bool :=
  match a, b with
  | [], [] => false
  | [], _ :: _ => true
  | _ :: _, [] => false
  | x :: a', y :: b' => if N.ltb (bn x) (bn y) then true else if N.ltb (bn y) (bn x) then false else bytes_ltb a' b'
  end.

Definition bytes_leb (a b : bytes) : bool := negb (bytes_ltb b a).

Lemma bytes_ltb_irrefl a : bytes_ltb a a = false.
Proof. induction a as [|x a IH]; simpl; [reflexivity|]. rewrite N.ltb_irrefl. exact IH. Qed.

Lemma bytes_ltb_trans a b c : bytes_ltb a b = true -> bytes_ltb b c = true -> bytes_ltb a c = true.
Proof.
  revert b c; induction a as [|x a IH]; intros [|y b] [|z c]; simpl; intros H1 H2; try discriminate; try reflexivity.
  destruct (N.ltb_spec (bn x) (bn y)), (N.ltb_spec (bn y) (bn z)), (N.ltb_spec (bn x) (bn z)); try reflexivity; try lia;
  destruct (N.ltb_spec (bn y) (bn x)); try discriminate; try lia;
  destruct (N.ltb_spec (bn z) (bn y)); try discriminate; try lia;
  destruct (N.ltb_spec (bn z) (bn x)); try lia.
  eapply IH; eassumption.
Qed.

Lemma bytes_ltb_total a b : bytes_ltb a b = false -> bytes_ltb b a = false -> a = b.
Proof.
  revert b; induction a as [|x a IH]; intros [|y b]; simpl; intros H1 H2; try discriminate; try reflexivity.
  destruct (N.ltb_spec (bn x) (bn y)); try discriminate.
  destruct (N.ltb_spec (bn y) (bn x)); try discriminate.
  assert (bn x = bn y) by lia. apply bn_inj in H3. subst. f_equal. apply IH; assumption.
Qed.

Lemma bytes_ltb_asym a b : bytes_ltb a b = true -> bytes_ltb b a = false.
Proof.
  intros H. destruct (bytes_ltb b a) eqn:E; [|reflexivity].
  pose proof (bytes_ltb_trans _ _ _ H E) as T. rewrite bytes_ltb_irrefl in T. discriminate.
Qed.

(* prefix / suffix *)
Fixpoint has_prefix (p s : bytes) : bool :=
  match p, s with
  | [], _ => true
  | x :: p', y :: s' => Byte.eqb x y && has_prefix p' s'
  | _ :: _, [] => false
  end.

Definition has_suffix (suf s : bytes) : bool := has_prefix (rev suf) (rev s).

Lemma has_prefix_spec p s : has_prefix p s = true <-> exists r, s = p ++ r.
Proof.
  revert s; induction p as [|x p IH]; intros s; simpl.
  - split; [intros _; exists s; reflexivity | reflexivity].
  - destruct s as [|y s].
    + split; [discriminate | intros [r H]; discriminate].
    + rewrite andb_true_iff, byte_eqb_eq, IH. split.
      * intros [-> [r ->]]. exists r. reflexivity.
      * intros [r H]. injection H as -> ->. split; [reflexivity | exists r; reflexivity].
Qed.

Lemma has_suffix_spec suf s : has_suffix suf s = true <-> exists r, s = r ++ suf.
Proof.
  unfold has_suffix. rewrite has_prefix_spec. split.
  - intros [r H]. exists (rev r). apply (f_equal (@rev byte)) in H.
    rewrite rev_involutive, rev_app_distr, rev_involutive in H. exact H.
  - intros [r ->]. exists (rev r). rewrite rev_app_distr. reflexivity.
Qed.

(* first index of a byte *)
Fixpoint index_byte (c : byte) (s : bytes) : option nat :=
  match s with
  | [] => None
  | x :: r => if Byte.eqb x c then Some 0 else option_map S (index_byte c r)
  end.

Fixpoint mem_byte (c : byte) (s : bytes) : bool :=
  match s with [] => false | x :: r => Byte.eqb x c || mem_byte c r end.

Lemma mem_byte_In c s : mem_byte c s = true <-> In c s.
Proof.
  induction s as [|x r IH]; simpl; [split; [discriminate|tauto]|].
  rewrite orb_true_iff, byte_eqb_eq, IH. tauto.
Qed.

(* split on a separator byte, as strings.Split(s, string(c)) *)
Fixpoint split_on (c : byte) (s : bytes) : list bytes :=
  match s with
  | [] => [[]]
  | x :: r =>
      if Byte.eqb x c then [] :: split_on c r
      else match split_on c r with
           | [] => [[x]]
           | h :: t => (x :: h) :: t
           end
  end.

Fixpoint join_with (sep : bytes) (l : list bytes) : bytes :=
  match l with
  | [] => []
  | [a] => a
  | a :: r => a ++ sep ++ join_with sep r
  end.

Lemma split_on_nonempty c s : split_on c s <> [].
Proof. destruct s as [|x r]; simpl; [discriminate|]. destruct (Byte.eqb x c); [discriminate|]. destruct (split_on c r); discriminate. Qed.

Lemma join_split c s : join_with [c] (split_on c s) = s.
Proof.
  induction s as [|x r IH]; simpl; [reflexivity|].
  destruct (Byte.eqb x c) eqn:E.
  - apply byte_eqb_eq in E; subst. pose proof (split_on_nonempty c r). destruct (split_on c r) as [|h t] eqn:S; [contradiction|].
    simpl in *. rewrite IH. reflexivity.
  - pose proof (split_on_nonempty c r). destruct (split_on c r) as [|h t] eqn:S; [contradiction|].
    destruct t; simpl in *; rewrite <- IH; reflexivity.
Qed.

Lemma split_join_no_sep c l : l <> [] -> Forall (fun s => mem_byte c s = false) l -> split_on c (join_with [c] l) = l.
Proof.
  induction l as [|a r IH]; [congruence|]. intros _ HF. inversion HF as [|? ? Ha Hr]; subst.
  destruct r as [|b r'].
  - simpl. clear IH HF Hr. induction a as [|x a IHa]; simpl; [reflexivity|].
    simpl in Ha. apply orb_false_iff in Ha as [Hx Ha]. rewrite Hx. rewrite (IHa Ha). reflexivity.
  - assert (IH' := IH ltac:(discriminate) Hr). clear IH.
    change (join_with [c] (a :: b :: r')) with (a ++ [c] ++ join_with [c] (b :: r')).
    induction a as [|x a IHa].
    + simpl app. simpl split_on. rewrite byte_eqb_refl. f_equal. exact IH'.
    + simpl in Ha. apply orb_false_iff in Ha as [Hx Ha].
      assert (HF' : Forall (fun s => mem_byte c s = false) (a :: b :: r')) by (constructor; assumption).
      specialize (IHa HF' Ha).
      simpl app in *. simpl split_on. rewrite Hx. simpl in IHa. rewrite IHa. reflexivity.
Qed.
