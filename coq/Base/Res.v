(* Outcome of a modelled Go call: a value, an error of a small class (never the error text), or a panic.
   [Panic] is a first-class outcome: every index, type assertion and nil dereference of the modelled Go code is explicit. *)
From Coq Require Import List.
From GR Require Import Base.Bytes.
Import ListNotations.

Inductive err :=
| EDeser                      (* *DeserializationError / strconv / lexer error / invalid type *)
| EMissing (fs : list bytes)  (* *MissingRequiredFieldsError with its sorted field paths *)
| EExcluded (path : bytes)    (* ExcludedFieldError *)
| EUnion                      (* union constraint: not exactly (at most) one member, unknown member *)
| EFixedSize
| EEnumConst                  (* IllegalEnumConstant on write *)
| EPatch                      (* IllegalPartialUpdateError *)
| EType                       (* model artefact: the value does not have the shape of the type; impossible in Go (static types) *)
| EFuel.                      (* model artefact: recursion budget exhausted; excluded by the theorems' statements *)

Inductive res (A : Type) := Ok (a : A) | Err (e : err) | Panic.
Arguments Ok {A} a.
Arguments Err {A} e.
Arguments Panic {A}.

Definition bind {A B} (r : res A) (f : A -> res B) : res B :=
  match r with Ok a => f a | Err e => Err e | Panic => Panic end.
Notation "'do' x <- r ; k" := (bind r (fun x => k)) (at level 200, x pattern, r at level 100, k at level 200, right associativity).

Definition is_ok {A} (r : res A) : bool := match r with Ok _ => true | _ => false end.
Definition is_panic {A} (r : res A) : bool := match r with Panic => true | _ => false end.

Fixpoint mapM {A B} (f : A -> res B) (l : list A) : res (list B) :=
  match l with
  | [] => Ok []
  | x :: r => do y <- f x; do ys <- mapM f r; Ok (y :: ys)
  end.

(* outcome class, the projection compared with the implementation *)
Inductive oclass := COk | CErr | CMissing | CExcluded | CPanic | CFuel.
Definition class_of {A} (r : res A) : oclass :=
  match r with
  | Ok _ => COk
  | Err (EMissing _) => CMissing
  | Err (EExcluded _) => CExcluded
  | Err EFuel => CFuel
  | Err _ => CErr
  | Panic => CPanic
  end.
Definition oclass_eqb (a b : oclass) : bool :=
  match a, b with
  | COk, COk | CErr, CErr | CMissing, CMissing | CExcluded, CExcluded | CPanic, CPanic | CFuel, CFuel => true
  | _, _ => false
  end.
