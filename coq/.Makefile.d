Base/Bytes.vo Base/Bytes.glob Base/Bytes.v.beautified Base/Bytes.required_vo: Base/Bytes.v 
Base/Bytes.vio: Base/Bytes.v 
Base/Bytes.vos Base/Bytes.vok Base/Bytes.required_vos: Base/Bytes.v 
Gen/TablesClean.vo Gen/TablesClean.glob Gen/TablesClean.v.beautified Gen/TablesClean.required_vo: Gen/TablesClean.v Base/Bytes.vo
Gen/TablesClean.vio: Gen/TablesClean.v Base/Bytes.vio
Gen/TablesClean.vos Gen/TablesClean.vok Gen/TablesClean.required_vos: Gen/TablesClean.v Base/Bytes.vos
Gen2/Clean.vo Gen2/Clean.glob Gen2/Clean.v.beautified Gen2/Clean.required_vo: Gen2/Clean.v Base/Bytes.vo
Gen2/Clean.vio: Gen2/Clean.v Base/Bytes.vio
Gen2/Clean.vos Gen2/Clean.vok Gen2/Clean.required_vos: Gen2/Clean.v Base/Bytes.vos
Proofs/CleanProofs.vo Proofs/CleanProofs.glob Proofs/CleanProofs.v.beautified Proofs/CleanProofs.required_vo: Proofs/CleanProofs.v Base/Bytes.vo Gen2/Clean.vo
Proofs/CleanProofs.vio: Proofs/CleanProofs.v Base/Bytes.vio Gen2/Clean.vio
Proofs/CleanProofs.vos Proofs/CleanProofs.vok Proofs/CleanProofs.required_vos: Proofs/CleanProofs.v Base/Bytes.vos Gen2/Clean.vos
Props/C20.vo Props/C20.glob Props/C20.v.beautified Props/C20.required_vo: Props/C20.v Base/Bytes.vo Gen/TablesClean.vo Gen2/Clean.vo Proofs/CleanProofs.vo
Props/C20.vio: Props/C20.v Base/Bytes.vio Gen/TablesClean.vio Gen2/Clean.vio Proofs/CleanProofs.vio
Props/C20.vos Props/C20.vok Props/C20.required_vos: Props/C20.v Base/Bytes.vos Gen/TablesClean.vos Gen2/Clean.vos Proofs/CleanProofs.vos
