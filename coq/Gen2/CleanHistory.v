(* Model of ONE RUN of the generator as the file system sees it (cmd.GenerateCode, v2/cmd/cmd.go:243-313 and
   cmd/cmd.go:180-214), and of histories of such runs on one output directory:

     CleanTargetDir(out)                          Gen2/Clean.v
     os.MkdirAll(out)                             a target removed by the clean exists again, empty
     for each file the generator writes (the manifest first, then every code file, init_custom_typerefs, all_imports_test):
         os.MkdirAll(dir(file)) ; os.Remove(file) (error ignored) ; os.WriteFile(file)      codefile.go:96-113 WriteJenFile
     the first error aborts the run (whatever was written so far stays).

   WHICH files are written and with which content is a parameter (a list of (path, content)): the statements in
   Props/C20_history.v only assume that every written name is one the generator owns.  A run that fails before anything is
   written (RegisterManifests, LocateCustomTyperefs) is the run with the empty write list.
   Not modelled: permissions, symbolic links, the process being killed.  No proofs in this file. *)
From Coq Require Import List Bool.
From Coq.Strings Require Import Byte.
From GR Require Import Base.Bytes Gen2.Clean.
Import ListNotations.

Definition path := list bytes.                       (* relative to the output directory, outermost first *)
Definition path_base (p : path) : bytes := last p [].

Definition has_entry (nm : bytes) (cs : list node) : bool := existsb (fun x => bytes_eqb (node_name x) nm) cs.

(* a new entry is listed by os.ReadDir at its byte-sorted position *)
Fixpoint insert_node (n : node) (cs : list node) : list node :=
  match cs with
  | [] => [n]
  | x :: r => if bytes_ltb (node_name n) (node_name x) then n :: cs else x :: insert_node n r
  end.

(* os.Remove(nm) (error ignored) ; os.WriteFile(nm, c) where an entry called nm exists:
   a file is replaced; an empty directory is removed and the file created; a non-empty directory makes Remove fail
   (ENOTEMPTY, ignored) and WriteFile fail (EISDIR) *)
Fixpoint replace_entry (nm c : bytes) (cs : list node) : list node * bool :=
  match cs with
  | [] => ([], false)
  | x :: r =>
      if bytes_eqb (node_name x) nm then
        match x with
        | Dir _ (_ :: _) => (cs, false)
        | _ => (File nm c :: r, true)
        end
      else let '(r', ok) := replace_entry nm c r in (x :: r', ok)
  end.

Definition put_file (nm c : bytes) (cs : list node) : list node * bool :=
  if has_entry nm cs then replace_entry nm c cs else (insert_node (File nm c) cs, true).

(* MkdirAll(dir(p)) ; Remove(p) ; WriteFile(p, c) below a directory with children cs.
   A path component that exists as a regular file makes MkdirAll fail (ENOTDIR); missing components are created
   (and stay when a later step fails). *)
Fixpoint write_file (p : path) (c : bytes) (cs : list node) {struct p} : list node * bool :=
  match p with
  | [] => (cs, false)
  | d :: rest =>
      match rest with
      | [] => put_file d c cs
      | _ :: _ =>
          if has_entry d cs then
            (fix scan (l : list node) : list node * bool :=
               match l with
               | [] => ([], false)
               | x :: r =>
                   if bytes_eqb (node_name x) d then
                     match x with
                     | File _ _ => (l, false)
                     | Dir dn sub => let '(sub', ok) := write_file rest c sub in (Dir dn sub' :: r, ok)
                     end
                   else let '(r', ok) := scan r in (x :: r', ok)
               end) cs
          else let '(sub', ok) := write_file rest c [] in (insert_node (Dir d sub') cs, ok)
      end
  end.

Definition writes := list (path * bytes).

Fixpoint write_all (ws : writes) (cs : list node) : list node * bool :=
  match ws with
  | [] => (cs, true)
  | (p, c) :: r => let '(cs', ok) := write_file p c cs in if ok then write_all r cs' else (cs', false)
  end.

Section Round.
  Variable suffix : bytes.      (* GeneratedFileSuffix *)
  Variable manifest : bytes.    (* ManifestFile / ParsedSpecsFile *)

  (* every written name is one the generator owns *)
  Definition owned_writes (ws : writes) : bool :=
    forallb (fun w => owned suffix manifest (path_base (fst w))) ws.

  (* one run on an output directory with children cs ([dot]: it was given as "."): children afterwards, success *)
  Definition gen_round (dot : bool) (ws : writes) (cs : list node) : list node * bool :=
    let '(o, ok) := clean_target suffix manifest (Some (dot, cs)) in
    let cs1 := match o with Some x => x | None => [] end in
    if ok then write_all ws cs1 else (cs1, false).

  (* any number of runs, each with its own write list, successful or not *)
  Fixpoint run_history (h : list (bool * writes)) (cs : list node) : list node :=
    match h with
    | [] => cs
    | (dot, ws) :: r => run_history r (fst (gen_round dot ws cs))
    end.
End Round.
