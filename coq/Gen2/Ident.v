(* Model of the identifier rules of the v2 generator (v2/codegen/utils/codefile.go, identifier.go).
   No proofs here (Proofs/IdentProofs.v).  Constants come from Gen/TablesGen.v (regenerated from /repo).

   Scope: Go iterates over RUNES and asks the unicode tables (unicode.IsLetter / IsNumber / ToUpper).  The model
   is exact for ASCII input; a byte >= 0x80 yields the distinct outcome [OutOfModel] (never a guess).
   v2 has no "private identifier" or reserved-word handling at all (nothing to transcribe): exported identifiers
   start with an upper-case letter, which is why they can never be Go keywords (proved in IdentProofs).           *)
From Coq Require Import List Bool Arith NArith Lia.
From Coq.Strings Require Import Byte.
From GR Require Import Base.Bytes Gen.TablesGen.
Import ListNotations.

(* outcomes of generator functions: a Go error value, or a Go panic (log.Panicf), kept distinct *)
Inductive gerr := EDup | EUnknownType | ECrossRootCycle | ERename | EFuel.
Inductive gres (A : Type) :=
| Ok (a : A)
| Err (e : gerr)
| Panic
| OutOfModel.
Arguments Ok {A} a.
Arguments Err {A} e.
Arguments Panic {A}.
Arguments OutOfModel {A}.

Definition gbind {A B} (x : gres A) (f : A -> gres B) : gres B :=
  match x with Ok a => f a | Err e => Err e | Panic => Panic | OutOfModel => OutOfModel end.
Notation "x <- e1 ;; e2" := (gbind e1 (fun x => e2)) (at level 61, e1 at next level, right associativity).

(* ---- ASCII classes (by code point, never by matching on byte constructors) *)
Definition in_range (lo hi : N) (c : byte) : bool := (lo <=? bn c)%N && (bn c <=? hi)%N.
Definition is_upper (c : byte) : bool := in_range 65 90 c.
Definition is_lower (c : byte) : bool := in_range 97 122 c.
Definition is_letter (c : byte) : bool := is_upper c || is_lower c.       (* unicode.IsLetter on ASCII *)
Definition is_digit (c : byte) : bool := in_range 48 57 c.                (* unicode.IsNumber on ASCII *)
Definition is_ascii (c : byte) : bool := (bn c <? 128)%N.
Definition to_upper (c : byte) : byte := if is_lower c then nb (bn c - 32) else c.   (* unicode.ToUpper on ASCII *)
Definition to_lower (c : byte) : byte := if is_upper c then nb (bn c + 32) else c.   (* strings.ToLower on ASCII *)
Definition c_underscore : byte := x5f.
Definition c_dollar : byte := x24.
Definition c_dot : byte := x2e.
Definition c_slash : byte := x2f.

Definition lower_bytes (s : bytes) : bytes := map to_lower s.
Definition all_ascii (s : bytes) : bool := forallb is_ascii s.

(* ---- codefile.go:193-226 ExportedIdentifier.  [first] <-> i == 0. *)
Fixpoint exp_go (first : bool) (s : bytes) : gres bytes :=
  match s with
  | [] => Ok []
  | c :: r =>
      if negb (is_ascii c) then OutOfModel
      else if is_letter c then                                   (* case unicode.IsLetter(c) *)
        r' <- exp_go false r ;; Ok ((if first then to_upper c else c) :: r')
      else if is_digit c then                                    (* case unicode.IsNumber(c) *)
        r' <- exp_go false r ;; Ok ((if first then exp_digit_prefix else []) ++ c :: r')
      else if Byte.eqb c c_underscore then                       (* case c == '_' *)
        r' <- exp_go false r ;; Ok ((if first then exp_underscore_prefix else []) ++ c :: r')
      else if Byte.eqb c c_dollar then                           (* case c == '$' *)
        r' <- exp_go false r ;; Ok ((if first then [] else [c_underscore]) ++ exp_dollar ++ r')
      else Panic                                                 (* default: log.Panicf("Illegal identifier character") *)
  end.
Definition exported_identifier (s : bytes) : gres bytes := exp_go true s.

(* ---- what the theorems talk about *)
Definition ident_char (c : byte) : bool := is_letter c || is_digit c || Byte.eqb c c_underscore.
(* a Go identifier (ASCII): letter or '_' first, then letters, digits, '_' *)
Definition go_identifier (s : bytes) : bool :=
  match s with
  | [] => false
  | c :: r => (is_letter c || Byte.eqb c c_underscore) && forallb ident_char r
  end.
Definition is_exported (s : bytes) : bool := match s with c :: _ => is_upper c | [] => false end.
Definition is_keyword (s : bytes) : bool := existsb (bytes_eqb s) go_keywords.

(* the characters the generator accepts in a name: Pegasus names are [A-Za-z_][A-Za-z0-9_]*; '$' and a leading digit
   are additionally tolerated by ExportedIdentifier *)
Definition name_char (c : byte) : bool := ident_char c || Byte.eqb c c_dollar.
Definition legal_pegasus_name (s : bytes) : bool :=
  match s with [] => false | _ :: _ => forallb name_char s end.

(* ---- codefile.go:49-57 PackageName: lower-case path.Base(pkg) with everything outside [a-z0-9] removed *)
Fixpoint last_segment (acc : bytes) (s : bytes) : bytes :=        (* the last non-empty '/'-separated element *)
  match s with
  | [] => acc
  | c :: r => if Byte.eqb c c_slash then
                (match r with [] => acc | _ => if forallb (Byte.eqb c_slash) r then acc else last_segment [] r end)
              else last_segment (acc ++ [c]) r
  end.
Definition package_name (pkg : bytes) : bytes :=
  filter (fun c => is_lower c || is_digit c) (lower_bytes (last_segment [] pkg)).

(* ---- identifier.go:13,74-82 FqcpToPackagePath.
   namespaceEscape = ([/.])_?internal([/.]?)  replaced by ${1}_internal${2}, leftmost, non-overlapping (the optional
   trailing separator is CONSUMED by the match, so "a.internal.internal" becomes "a._internal.internal").        *)
Definition s_internal : bytes := [x69;x6e;x74;x65;x72;x6e;x61;x6c].
Definition is_sep (c : byte) : bool := Byte.eqb c c_slash || Byte.eqb c c_dot.

Fixpoint ns_escape (fuel : nat) (s : bytes) : bytes :=
  match fuel with
  | 0 => s
  | S f =>
      match s with
      | [] => []
      | c :: r =>
          if is_sep c then
            let after :=                                   (* the text after "_?internal", when it matches here *)
              if has_prefix (c_underscore :: s_internal) r then Some (skipn (S (length s_internal)) r)
              else if has_prefix s_internal r then Some (skipn (length s_internal) r)
              else None in
            match after with
            | Some t =>
                match t with
                | d :: t' => if is_sep d then c :: c_underscore :: s_internal ++ d :: ns_escape f t'
                             else c :: c_underscore :: s_internal ++ ns_escape f t
                | [] => c :: c_underscore :: s_internal
                end
            | None => c :: ns_escape f r
            end
          else c :: ns_escape f r
      end
  end.

Definition dots_to_slashes (s : bytes) : bytes := map (fun c => if Byte.eqb c c_dot then c_slash else c) s.

(* filepath.Join(packageRoot, path) = root ++ "/" ++ path for a clean non-empty root and a path whose elements are
   non-empty and neither "." nor ".." (namespaces with non-empty components; part of wf_manifest) *)
Definition package_path (root fqcp : bytes) : bytes :=
  let p := dots_to_slashes (ns_escape (length fqcp) fqcp) in
  match root with [] => p | _ => root ++ c_slash :: p end.

(* strings.TrimPrefix(pkgPath, packageRoot): the directory of a package below the output directory *)
Definition trim_prefix (p s : bytes) : bytes :=
  if has_prefix p s then skipn (length p) s else s.
