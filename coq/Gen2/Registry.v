(* Model of the type registry core of the v2 generator: v2/codegen/utils/type_registry.go (Register, Finalize =
   validateAllTypesSatisfied + flagCyclicDependencies + remediateConflictingNames) and the parts of identifier.go
   that read it (PackagePath, TypeName).  No proofs here (Proofs/RegistryProofs.v).

   Go maps: [reg.types] is an association list; the ORDER OF THE LIST IS THE MAP ITERATION ORDER of
   `for id := range reg.types` (flagCyclicDependencies), and the order of [e_refs] is the iteration order of
   `for c := range ReferencedTypes()`.  Statements quantify over every Permutation of both.
   Go panics (reg.get on an unknown identifier, Identifier.PackagePath on an empty namespace, ExportedIdentifier on an
   illegal character) are the outcome [Panic]; running out of fuel is [Err EFuel] (shown unreachable).              *)
From Coq Require Import List Bool Arith NArith Lia.
From Coq.Strings Require Import Byte.
From GR Require Import Base.Bytes Gen.TablesGen Gen2.Ident.
Import ListNotations.

(* utils.Identifier *)
Record ident := mkId { id_name : bytes; id_ns : bytes }.
Definition ident_eqb (a b : ident) : bool := bytes_eqb (id_name a) (id_name b) && bytes_eqb (id_ns a) (id_ns b).

(* registeredType: Type.GetIdentifier(), PackageRoot, Type.ReferencedTypes(), IsCyclic, TypeNameOverride ("" = none) *)
Record entry := mkEntry { e_id : ident; e_root : bytes; e_refs : list ident; e_cyc : bool; e_ovr : bytes }.
Definition registry := list entry.

Definition fresh (i : ident) (root : bytes) (refs : list ident) : entry := mkEntry i root refs false [].

Fixpoint lookup (reg : registry) (i : ident) : option entry :=
  match reg with
  | [] => None
  | e :: r => if ident_eqb (e_id e) i then Some e else lookup r i
  end.

(* reg.get: log.Panicf("Unknown type") *)
Definition get (reg : registry) (i : ident) : gres entry :=
  match lookup reg i with Some e => Ok e | None => Panic end.

(* type_registry.go:36-49 Register *)
Definition register (reg : registry) (t : entry) : gres registry :=
  match lookup reg (e_id t) with
  | Some _ => Err EDup
  | None => Ok (reg ++ [t])
  end.
Fixpoint register_all (reg : registry) (ts : list entry) : gres registry :=
  match ts with
  | [] => Ok reg
  | t :: r => reg' <- register reg t ;; register_all reg' r
  end.

(* type_registry.go:150-159 validateAllTypesSatisfied *)
Definition known (reg : registry) (i : ident) : bool := match lookup reg i with Some _ => true | None => false end.
Definition validate (reg : registry) : gres unit :=
  if forallb (fun e => forallb (known reg) (e_refs e)) reg then Ok tt else Err EUnknownType.

(* identifier.go:28-40 Identifier.PackagePath *)
Definition seg_of (e : entry) : bytes := if e_cyc e then conflict_pkg else id_ns (e_id e).
Definition entry_pkg (e : entry) : bytes := package_path (e_root e) (seg_of e).
Definition pkg_of (reg : registry) (i : ident) : gres bytes :=
  match id_ns i with
  | [] => Panic                                      (* log.Panicf("%+v has no namespace!") *)
  | _ :: _ => e <- get reg i ;; Ok (entry_pkg e)
  end.

(* type_registry.go:297-312 Path.IntroducesCycle.  [rp]: p[i], p[i-1], ... ; [suffix]: p[i+1:] *)
Fixpoint ic_loop (reg : registry) (nextPkg : bytes) (next : ident) (rp suffix : list ident) (inSame : bool)
  : gres (list ident) :=
  match rp with
  | [] => Ok []
  | x :: r =>
      pk <- pkg_of reg x ;;
      if negb (bytes_eqb pk nextPkg) then ic_loop reg nextPkg next r (x :: suffix) false
      else if negb inSame then Ok (x :: suffix ++ [next])
      else ic_loop reg nextPkg next r (x :: suffix) inSame
  end.
Definition introduces_cycle (reg : registry) (path : list ident) (next : ident) : gres (list ident) :=
  nextPkg <- pkg_of reg next ;; ic_loop reg nextPkg next (rev path) [] true.

(* type_registry.go:284-294 Path.SeenNode *)
Definition seen (path : list ident) (i : ident) : bool := existsb (ident_eqb i) path.

(* type_registry.go:88-108 findCycle.  Depth is bounded by the number of types (paths never repeat a node).
   [fc_children]: the loop `for c := range reg.get(nextNode).Type.ReferencedTypes()`; [rec] is the recursive call. *)
Fixpoint fc_children (rec : ident -> gres (list ident)) (reg : registry) (cs : list ident) : gres (list ident) :=
  match cs with
  | [] => Ok []
  | c :: r =>
      ce <- get reg c ;;                                  (* reg.IsCyclic(c) *)
      if e_cyc ce then fc_children rec reg r
      else p <- rec c ;;
           match p with _ :: _ => Ok p | [] => fc_children rec reg r end
  end.
Fixpoint find_cycle (fuel : nat) (reg : registry) (next : ident) (path : list ident) : gres (list ident) :=
  match fuel with
  | 0 => Err EFuel
  | S f =>
      c <- introduces_cycle reg path next ;;
      match c with
      | _ :: _ => Ok c
      | [] =>
          if seen path next then Ok []
          else
            e <- get reg next ;;
            fc_children (fun c => find_cycle f reg c (path ++ [next])) reg (e_refs e)
      end
  end.

Definition set_cyc (reg : registry) (i : ident) : registry :=
  map (fun e => if ident_eqb (e_id e) i then mkEntry (e_id e) (e_root e) (e_refs e) true (e_ovr e) else e) reg.

(* type_registry.go:110-122 flagCyclic: the node, then (recursively) every referenced type of the same package root
   that is not flagged yet (the flag is re-read at each child: state passing).  [flag_children]: the loop over
   node.Type.ReferencedTypes(); [rec] is the recursive call. *)
Fixpoint flag_children (rec : registry -> ident -> gres registry) (node_root : bytes) (cs : list ident) (reg : registry)
  : gres registry :=
  match cs with
  | [] => Ok reg
  | c :: r =>
      child <- get reg c ;;
      if negb (e_cyc child) && bytes_eqb node_root (e_root child)
      then reg' <- rec reg c ;; flag_children rec node_root r reg'
      else flag_children rec node_root r reg
  end.
Fixpoint flag_cyclic (fuel : nat) (reg : registry) (i : ident) : gres registry :=
  match fuel with
  | 0 => Err EFuel
  | S f =>
      node <- get reg i ;;
      flag_children (flag_cyclic f) (e_root node) (e_refs node) (set_cyc reg i)
  end.

Fixpoint flag_members (n : nat) (reg : registry) (cycle : list ident) : gres registry :=
  match cycle with
  | [] => Ok reg
  | c :: r => reg' <- flag_cyclic (S n) reg c ;; flag_members n reg' r
  end.

Fixpoint roots_of (reg : registry) (l : list ident) : gres (list bytes) :=
  match l with
  | [] => Ok []
  | i :: r => e <- get reg i ;; rs <- roots_of reg r ;; Ok (e_root e :: rs)
  end.
Definition all_same (l : list bytes) : bool :=
  match l with [] => true | a :: r => forallb (bytes_eqb a) r end.

(* type_registry.go:161-193 flagCyclicDependencies: the inner for{} for one start id ... *)
Fixpoint flag_loop (fuel n : nat) (reg : registry) (i : ident) : gres registry :=
  match fuel with
  | 0 => Err EFuel
  | S f =>
      cycle <- find_cycle (S n) reg i [] ;;
      match cycle with
      | [] => Ok reg
      | _ :: _ =>
          roots <- roots_of reg cycle ;;
          if all_same roots then reg' <- flag_members n reg cycle ;; flag_loop f n reg' i
          else Err ECrossRootCycle
      end
  end.
(* ... and the outer `for id := range reg.types` *)
Fixpoint flag_all (n : nat) (order : list ident) (reg : registry) : gres registry :=
  match order with
  | [] => Ok reg
  | i :: r => reg' <- flag_loop (S n) n reg i ;; flag_all n r reg'
  end.
Definition flag_cyclic_dependencies (reg : registry) : gres registry :=
  flag_all (length reg) (map e_id reg) reg.

(* ---- type_registry.go:195-275 remediateConflictingNames / resolveConflicts.
   The Go code groups, per package root, the CYCLIC identifiers by strings.ToLower(Name) (map of sets) and calls
   resolveConflicts on each group.  Here the group of an entry is computed by [filter]: the same set.            *)
Definition same_group (e u : entry) : bool :=
  e_cyc u && bytes_eqb (e_root u) (e_root e) &&
  bytes_eqb (lower_bytes (id_name (e_id u))) (lower_bytes (id_name (e_id e))).
Definition group_of (reg : registry) (e : entry) : list entry := filter (same_group e) reg.

Fixpoint map_res {A B} (f : A -> gres B) (l : list A) : gres (list B) :=
  match l with
  | [] => Ok []
  | a :: r => b <- f a ;; bs <- map_res f r ;; Ok (b :: bs)
  end.

(* strings.Split(id.Namespace, ".") with every element exported *)
Definition ns_parts (i : ident) : gres (list bytes) := map_res exported_identifier (split_on c_dot (id_ns i)).

Definition last_n {A} (n : nat) (l : list A) : list A := skipn (length l - n) l.
(* getOverriddenName(id, attempt) *)
Definition override_name (parts : list bytes) (name_exp : bytes) (attempt : nat) : bytes :=
  concat (last_n attempt parts) ++ name_exp.

Fixpoint nodupb (l : list bytes) : bool :=
  match l with
  | [] => true
  | a :: r => negb (existsb (bytes_eqb a) r) && nodupb r
  end.

Definition prepared := (ident * list bytes * bytes)%type.
Definition prepare (e : entry) : gres prepared :=
  parts <- ns_parts (e_id e) ;; nm <- exported_identifier (id_name (e_id e)) ;; Ok (e_id e, parts, nm).
(* ExportedIdentifier(id.Name) is evaluated inside the attempts in Go; an illegal character panics there as soon as
   the identifier is reached, which differs from this eager [prepare] only on names outside wf_manifest. *)

Definition names_at (attempt : nat) (g : list prepared) : list bytes :=
  map (fun p => match p with (_, parts, nm) => override_name parts nm attempt end) g.

(* for attempt := 1; attempt <= maxAttempts; attempt++ : [left] = maxAttempts - attempt + 1 *)
Fixpoint try_attempts (left attempt : nat) (g : list prepared) : gres (list (ident * bytes)) :=
  match left with
  | 0 => Err ERename                                   (* "Failed to rename types in import cycle ..." *)
  | S l =>
      let names := names_at attempt g in
      if nodupb names then Ok (combine (map (fun p => fst (fst p)) g) names)
      else try_attempts l (S attempt) g
  end.
Definition max_parts (g : list prepared) : nat := fold_right (fun p m => Nat.max (length (snd (fst p))) m) 0 g.

Definition resolve_conflicts (g : list entry) : gres (list (ident * bytes)) :=
  match g with
  | [] | [_] => Ok []                                   (* len(types) == 1: return nil *)
  | _ => ps <- map_res prepare g ;; try_attempts (max_parts ps) 1 ps
  end.

Fixpoint assoc (l : list (ident * bytes)) (i : ident) : option bytes :=
  match l with
  | [] => None
  | (j, v) :: r => if ident_eqb j i then Some v else assoc r i
  end.

Definition remediate_entry (reg : registry) (e : entry) : gres entry :=
  if e_cyc e then
    ov <- resolve_conflicts (group_of reg e) ;;
    match assoc ov (e_id e) with
    | Some o => Ok (mkEntry (e_id e) (e_root e) (e_refs e) (e_cyc e) o)
    | None => Ok e
    end
  else Ok e.
Definition remediate (reg : registry) : gres registry := map_res (remediate_entry reg) reg.

(* type_registry.go:124-148 Finalize *)
Definition finalize (reg : registry) : gres registry :=
  _ <- validate reg ;; reg1 <- flag_cyclic_dependencies reg ;; remediate reg1.

(* ---- cmd/json.go:48-71 RegisterManifests.  The manifests in the order they were read (dependency manifests in
   filepath.WalkDir order, the input manifest last).  inputDataTypes are the types a project OWNS; dependencyDataTypes are
   copies of the foreign types it mentions.  First pass: the input types of EVERY manifest, a duplicate is fatal (:49-59);
   second pass: the dependency types of every manifest, "already registered" is ignored (:65-69, `_ = Register`); then
   Finalize (:70).  The registry is first-come-first-served, so the two global passes are what makes the owner win whatever
   the order of the manifests.  [init]: what the process-global registry holds before (the runtime's native types). *)
Record decl := mkDecl { d_id : ident; d_refs : list ident }.
Record manifest := mkManifest { m_root : bytes; m_inputs : list decl; m_deps : list decl }.

Definition entry_of (root : bytes) (d : decl) : entry := fresh (d_id d) root (d_refs d).
Definition input_entries (ms : list manifest) : list entry := flat_map (fun m => map (entry_of (m_root m)) (m_inputs m)) ms.
Definition dep_entries (ms : list manifest) : list entry := flat_map (fun m => map (entry_of (m_root m)) (m_deps m)) ms.

(* `_ = utils.TypeRegistry.Register(...)` *)
Definition register_lenient (reg : registry) (t : entry) : registry :=
  match register reg t with Ok reg' => reg' | _ => reg end.

Definition register_inputs_then_deps (init : registry) (ms : list manifest) : gres registry :=
  reg1 <- register_all init (input_entries ms) ;;
  Ok (fold_left register_lenient (dep_entries ms) reg1).

Definition register_manifests (init : registry) (ms : list manifest) : gres registry :=
  reg <- register_inputs_then_deps init ms ;; finalize reg.

(* ---- what the generator derives from the final registry *)
Definition out_pkg (e : entry) : bytes := entry_pkg e.                               (* Identifier.PackagePath *)
Definition out_name (e : entry) : bytes :=                                           (* Identifier.TypeName *)
  match e_ovr e with [] => id_name (e_id e) | o => o end.

(* import edges between output packages (one per reference that crosses packages) *)
Definition import_edges (reg : registry) : list (bytes * bytes) :=
  flat_map (fun e => flat_map (fun d => match lookup reg d with
                                        | Some u => if bytes_eqb (out_pkg e) (out_pkg u) then [] else [(out_pkg e, out_pkg u)]
                                        | None => []
                                        end) (e_refs e)) reg.

(* ---- well-formed manifests (decidable; evaluated on every manifest of the correspondence run) *)
Definition legal_ns (ns : bytes) : bool := forallb legal_pegasus_name (split_on c_dot ns).
Definition ids_nodup (reg : registry) : bool :=
  (fix go (l : list entry) : bool :=
     match l with [] => true | e :: r => negb (existsb (fun u => ident_eqb (e_id u) (e_id e)) r) && go r end) reg.
Definition pkg_keys (reg : registry) : list (bytes * bytes) :=
  flat_map (fun e => [(e_root e, id_ns (e_id e)); (e_root e, conflict_pkg)]) reg.
Definition key_eqb (a b : bytes * bytes) : bool := bytes_eqb (fst a) (fst b) && bytes_eqb (snd a) (snd b).
Definition paths_injective (reg : registry) : bool :=
  let ks := pkg_keys reg in
  forallb (fun a => forallb (fun b => implb (bytes_eqb (package_path (fst a) (snd a)) (package_path (fst b) (snd b)))
                                            (key_eqb a b)) ks) ks.
(* a namespace never IS the conflict-resolution package of its root *)
Definition ns_not_conflict (reg : registry) : bool :=
  forallb (fun e => negb (bytes_eqb (id_ns (e_id e)) conflict_pkg)) reg.
(* references stay in the package root or go to a root registered earlier (dependency manifests come first) *)
Fixpoint root_rank (reg : registry) (root : bytes) : nat :=
  match reg with [] => 0 | e :: r => if bytes_eqb (e_root e) root then 0 else S (root_rank r root) end.
Definition layered_by (rank : bytes -> nat) (reg : registry) : bool :=
  forallb (fun e => forallb (fun d => match lookup reg d with
                                      | Some u => bytes_eqb (e_root u) (e_root e) || (rank (e_root u) <? rank (e_root e))
                                      | None => false
                                      end) (e_refs e)) reg.
(* within a package root, types whose names are equal up to case (the candidates for one conflict group) have pairwise
   distinct fully qualified Go-side names: what the last attempt of resolveConflicts relies on *)
Definition full_name (e : entry) : gres bytes :=
  parts <- ns_parts (e_id e) ;; nm <- exported_identifier (id_name (e_id e)) ;; Ok (concat parts ++ nm).
Definition name_class (e u : entry) : bool :=
  bytes_eqb (e_root u) (e_root e) && bytes_eqb (lower_bytes (id_name (e_id u))) (lower_bytes (id_name (e_id e))).
Definition full_names_distinct (reg : registry) : bool :=
  forallb (fun e => match map_res full_name (filter (name_class e) reg) with Ok l => nodupb l | _ => false end) reg.

Definition wf_manifestb (reg : registry) : bool :=
  ids_nodup reg &&
  forallb (fun e => forallb (known reg) (e_refs e)) reg &&
  forallb (fun e => legal_pegasus_name (id_name (e_id e)) && legal_ns (id_ns (e_id e))) reg &&
  ns_not_conflict reg && paths_injective reg && layered_by (root_rank reg) reg && full_names_distinct reg.
