(* Model of codegen/utils.CleanTargetDir (root module and v2; they differ only in the manifest file name).
   A directory is its list of children in os.ReadDir order (sorted by name; names unique within a directory —
   the harness only builds such trees, the theorems hold for every list).                                      *)
From Coq Require Import List Bool Arith.
From Coq.Strings Require Import Byte.
From GR Require Import Base.Bytes.
Import ListNotations.

Inductive node :=
| File (name content : bytes)
| Dir (name : bytes) (children : list node).

Definition node_name (n : node) : bytes := match n with File nm _ => nm | Dir nm _ => nm end.

Section Clean.
  Variable suffix : bytes.      (* GeneratedFileSuffix *)
  Variable manifest : bytes.    (* ManifestFile / ParsedSpecsFile *)

  Definition is_generated (nm : bytes) : bool := has_suffix suffix nm.
  Definition is_manifest (nm : bytes) : bool := bytes_eqb nm manifest.
  (* the files the generator owns *)
  Definition owned (nm : bytes) : bool := is_generated nm || is_manifest nm.

  (* os.Remove(filepath.Join(dir, ManifestFile)) fails (ENOTEMPTY) iff that name is a non-empty directory *)
  Fixpoint manifest_blocked (cs : list node) : bool :=
    match cs with
    | [] => false
    | Dir nm (_ :: _) :: r => is_manifest nm || manifest_blocked r
    | _ :: r => manifest_blocked r
    end.

  (* what os.Remove(dir/ManifestFile) at the start of CleanTargetDir(dir) removes: a file of that name, or an empty
     directory of that name (a non-empty one makes the call fail: manifest_blocked) *)
  Fixpoint drop_manifest (cs : list node) : list node :=
    match cs with
    | [] => []
    | File fn c :: r => if is_manifest fn then drop_manifest r else File fn c :: drop_manifest r
    | Dir dn [] :: r => if is_manifest dn then drop_manifest r else Dir dn [] :: drop_manifest r
    | x :: r => x :: drop_manifest r
    end.

  Definition ocons (o : option node) (l : list node) : list node :=
    match o with Some n => n :: l | None => l end.

  (* CleanTargetDir(sub) for an existing directory [Dir nm cs] that is not ".":
     result = (what is left of it: None when the directory itself was removed, ok flag: false = an error aborted) *)
  Fixpoint clean_node (n : node) : option node * bool :=
    match n with
    | File _ _ => (Some n, true)
    | Dir nm cs =>
        if manifest_blocked cs then (Some n, false)
        else
          let '(cs', ok) :=
            (fix go (l : list node) : list node * bool :=
               match l with
               | [] => ([], true)
               | c :: r =>
                   match c with
                   | File fn _ =>
                       if is_manifest fn then go r                 (* removed first, by the outer function *)
                       else if is_generated fn then go r           (* removed in the loop *)
                       else let '(r', ok) := go r in (c :: r', ok)
                   | Dir dn dcs =>
                       match dcs with
                       | [] => go r                                 (* empty dir: removed (also when named like the manifest) *)
                       | _ :: _ =>
                           let '(oc, okc) := clean_node c in
                           if okc then let '(r', ok) := go r in (ocons oc r', ok)
                           else (ocons oc (drop_manifest r), false) (* abort: the remaining children are untouched, except
                                                                        that the manifest entry was removed up front *)
                       end
                   end
               end) cs in
          if ok then match cs' with [] => (None, true) | _ :: _ => (Some (Dir nm cs'), true) end
          else (Some (Dir nm cs'), false)
    end.

  (* the loop over the children, as a top-level function (same body) for statements and for the "." case *)
  Fixpoint clean_children (l : list node) : list node * bool :=
    match l with
    | [] => ([], true)
    | c :: r =>
        match c with
        | File fn _ =>
            if is_manifest fn then clean_children r
            else if is_generated fn then clean_children r
            else let '(r', ok) := clean_children r in (c :: r', ok)
        | Dir dn dcs =>
            match dcs with
            | [] => clean_children r
            | _ :: _ =>
                let '(oc, okc) := clean_node c in
                if okc then let '(r', ok) := clean_children r in (ocons oc r', ok)
                else (ocons oc (drop_manifest r), false)
            end
        end
    end.

  (* The exported entry point.  [target]: None = the target path does not exist; Some (dot, cs) = it exists, is a
     directory with children cs, and [dot] says whether the path given is "." (never removed).
     Result: None = target does not exist afterwards; Some cs' = its children afterwards; plus the ok flag. *)
  Definition clean_target (target : option (bool * list node)) : option (list node) * bool :=
    match target with
    | None => (None, true)
    | Some (dot, cs) =>
        if manifest_blocked cs then (Some cs, false)
        else let '(cs', ok) := clean_children cs in
             if ok then match cs' with
                        | [] => if dot then (Some [], true) else (None, true)
                        | _ :: _ => (Some cs', true)
                        end
             else (Some cs', false)
    end.
End Clean.
