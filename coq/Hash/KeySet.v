(* restli/batchkeyset/{generic,primitive,set}.go (both modules) and BatchResponse.UnmarshalWithKeyLocator
   (restlidata/generated/com/linkedin/restli/common/structs.go:136-176), over an abstract key type with the hash and the equality
   the set was built with.  Instances (Props/C16.v): simple keys (ComputeHash / Equals), complex keys (ComputeComplexKeyHash /
   ComplexKeyEquals: key part only), bytes (HashBytes / equals.Bytes), primitives (a plain Go map).  No proofs here. *)
From Coq Require Import List Bool Arith NArith.
From Coq.Strings Require Import Byte.
From GR Require Import Base.Bytes Codec.Tracker.
Import ListNotations.

Section KeySet.
  Variable key : Type.
  Variable khash : key -> N.               (* s.hash(t).MapKey() *)
  Variable keq : key -> key -> bool.       (* s.equals(left, right); for the primitive set: Go's == on the key type *)

  (* ---- generic.go:12-17: originalKeys map[fnv1a.HashMapKey][]T as an association list hash -> bucket.  The order of the
     association list is immaterial: the Go code only indexes the map, except in encodeKeys whose result is sorted. *)
  Definition gset := list (N * list key).

  Fixpoint bucket (s : gset) (h : N) : list key :=
    match s with
    | [] => []
    | (h', ks) :: r => if N.eqb h h' then ks else bucket r h
    end.

  Fixpoint set_bucket (s : gset) (h : N) (ks : list key) : gset :=
    match s with
    | [] => [(h, ks)]
    | (h', ks') :: r => if N.eqb h h' then (h', ks) :: r else (h', ks') :: set_bucket r h ks
    end.

  (* generic.go:18-33 AddKey: scan the bucket of the key's hash with equals(t, key); append when not found; None = the error *)
  Definition g_add (s : gset) (t : key) : option gset :=
    let h := khash t in
    if existsb (fun k => keq t k) (bucket s h) then None
    else Some (set_bucket s h (bucket s h ++ [t])).

  (* generic.go:35-44 LocateOriginalKey: the first stored key k of the bucket with equals(k, key); the STORED key is returned *)
  Definition g_locate (s : gset) (k : key) : option key :=
    find (fun o => keq o k) (bucket s (khash k)).

  (* generic.go:59-72 encodeKeys traverses every bucket *)
  Definition g_keys (s : gset) : list key := flat_map snd s.

  (* ---- primitive.go:9-24: originalKeys map[T]T, each key mapped to the value the caller supplied; a Go map finds a stored key
     iff it is == to the looked-up key (so a NaN is never found and can be added repeatedly; +0 and -0 are one key).
     LocateOriginalKey returns the STORED value (`originalKey, found = s.originalKeys[key]`). *)
  Definition pset := list key.
  Definition p_add (s : pset) (t : key) : option pset :=
    if existsb (fun k => keq k t) s then None else Some (s ++ [t]).
  Definition p_locate (s : pset) (k : key) : option key :=
    find (fun o => keq o k) s.

  (* ---- the BatchKeySet interface (set.go:11-22), the constructor choice is NewBatchKeySet's (generic.go:115-160) *)
  Inductive kset := GSet (s : gset) | PSet (s : pset).

  Definition add (s : kset) (t : key) : option kset :=
    match s with
    | GSet g => option_map GSet (g_add g t)
    | PSet p => option_map PSet (p_add p t)
    end.
  Definition locate (s : kset) (k : key) : option key :=
    match s with GSet g => g_locate g k | PSet p => p_locate p k end.
  Definition keys (s : kset) : list key :=
    match s with GSet g => g_keys g | PSet p => p end.

  (* set.go:45-53 AddAllKeys (and AddAllMapKeys, the keys of a Go map being pairwise distinct values): stop at the first error *)
  Fixpoint add_all (s : kset) (ks : list key) : option kset :=
    match ks with
    | [] => Some s
    | k :: r => match add s k with Some s' => add_all s' r | None => None end
    end.

  (* ---- set.go:33-43 encode: every key encoded on its own with a query-params ROR2 writer (generic.go:62-68,
     primitive.go:47-51), the texts sorted (sort.Strings), written verbatim as the items of the array parameter "ids" *)
  Variable encode_key : key -> bytes.
  Definition encode_ids (s : kset) : list bytes := sort_bytes (map encode_key (keys s)).

  (* ---- structs.go:132-176 UnmarshalWithKeyLocator *)
  Variable decode_key : bytes -> option key.     (* NewRor2Reader(rawKey), UnmarshalRestLi[K]; None = an error *)

  Inductive berr :=
  | BadKey            (* the raw key does not decode *)
  | UnknownKey        (* generic.go:53-55 / primitive.go:33-35: "Unknown key returned by batch method" *)
  | BadPayload        (* the entry's value does not decode *)
  | MissingResults.   (* batchResponseRequiredFields: "results" *)

  (* generic.go:46-57 / primitive.go:26-37 LocateOriginalKeyFromReader *)
  Definition locate_raw (s : kset) (raw : bytes) : sum berr key :=
    match decode_key raw with
    | None => inl BadKey
    | Some k => match locate s k with None => inl UnknownKey | Some o => inr o end
    end.

  Variable P : Type.                              (* a decoded entry value (result entity / status / error response) *)

  (* m[k] = p on a Go map held as an association list: an entry whose key is == k (for pointer keys: the same pointer; the stored
     originals are pairwise different under keq) is replaced, otherwise the entry is new *)
  Fixpoint put (m : list (key * P)) (k : key) (p : P) : list (key * P) :=
    match m with
    | [] => [(k, p)]
    | (k', p') :: r => if keq k' k then (k, p) :: r else (k', p') :: put r k p
    end.

  (* the ReadMap callback over the entries of one of the three objects, in document order; an entry value that fails to
     decode is None *)
  Fixpoint fill (s : kset) (m : list (key * P)) (entries : list (bytes * option P)) : sum berr (list (key * P)) :=
    match entries with
    | [] => inr m
    | (raw, op) :: r =>
        match locate_raw s raw with
        | inl er => inl er
        | inr o => match op with None => inl BadPayload | Some p => fill s (put m o p) r end
        end
    end.

  Inductive bfield := FResults | FStatuses | FErrors | FOther.     (* FOther: any other member name: structs.go:145 returns
     restlicodec.NoSuchFieldErr, upon which readRecord (restlicodec/reader.go:129-141) skips the member *)

  Record bresp := { b_results : option (list (key * P)); b_statuses : option (list (key * P)); b_errors : option (list (key * P)) }.
  Definition bresp0 : bresp := {| b_results := None; b_statuses := None; b_errors := None |}.

  (* the ReadRecord callback over the fields of the reply in document order: the map is (re)made, then filled *)
  Fixpoint unmarshal_fields (s : kset) (b : bresp) (fields : list (bfield * list (bytes * option P))) : sum berr bresp :=
    match fields with
    | [] => inr b
    | (f, entries) :: r =>
        match f with
        | FOther => unmarshal_fields s b r
        | _ =>
            match fill s [] entries with
            | inl er => inl er
            | inr m =>
                let b' := match f with
                          | FResults => {| b_results := Some m; b_statuses := b_statuses b; b_errors := b_errors b |}
                          | FStatuses => {| b_results := b_results b; b_statuses := Some m; b_errors := b_errors b |}
                          | _ => {| b_results := b_results b; b_statuses := b_statuses b; b_errors := Some m |}
                          end in
                unmarshal_fields s b' r
            end
        end
    end.

  Definition unmarshal_with_locator (s : kset) (fields : list (bfield * list (bytes * option P))) : sum berr bresp :=
    match unmarshal_fields s bresp0 fields with
    | inl er => inl er
    | inr b => match b_results b with None => inl MissingResults | Some _ => inr b end
    end.
End KeySet.
