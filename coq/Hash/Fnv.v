(* fnv1a/hasher.go (both modules: the files are identical up to import paths), and what the generated ComputeHash methods
   (codegen/types/record_hash.go, enum.go, union.go, fixed.go, typeref.go, complexkey.go) compute with it, as functions of a schema
   and an abstract value.  32-bit arithmetic is explicit ([mod 2^32]).  No proofs here. *)
From Coq Require Import List Bool Arith ZArith NArith.
From Coq.Strings Require Import Byte.
From GR Require Import Base.Bytes Codec.Schema Gen.TablesFnv.
Import ListNotations.
Local Open Scope N_scope.

(* ---------------------------------------------------------------------------------------------------------------- *)
(* What the translator reads from hasher.go *)
Record fnv_params := {
  fp_offset : N;            (* initialHash *)
  fp_prime : N;             (* multiplier *)
  fp_mask : N;              (* mask *)
  fp_u32_shifts : list N;   (* addUint32: `hV ^= hash(v>>k) & mask; hV *= multiplier` for each k in order *)
  fp_u64_shifts : list N;   (* addUint64 *)
  fp_norm32 : bool;         (* AddFloat32: `if v == 0 { v = 0 }` *)
  fp_norm64 : bool;         (* AddFloat64 *)
  fp_map_sorted : bool      (* AddMap: sort.Slice(kvHashes, <) *)
}.

Definition v2_params : fnv_params :=
  {| fp_offset := v2_fnv_offset; fp_prime := v2_fnv_prime; fp_mask := v2_fnv_mask; fp_u32_shifts := v2_fnv_u32_shifts;
     fp_u64_shifts := v2_fnv_u64_shifts; fp_norm32 := v2_fnv_float32_normalises_zero; fp_norm64 := v2_fnv_float64_normalises_zero;
     fp_map_sorted := v2_fnv_map_sorted |}.
Definition root_params : fnv_params :=
  {| fp_offset := root_fnv_offset; fp_prime := root_fnv_prime; fp_mask := root_fnv_mask; fp_u32_shifts := root_fnv_u32_shifts;
     fp_u64_shifts := root_fnv_u64_shifts; fp_norm32 := root_fnv_float32_normalises_zero; fp_norm64 := root_fnv_float64_normalises_zero;
     fp_map_sorted := root_fnv_map_sorted |}.

Definition M32 : N := 4294967296.
Definition M64 : N := 18446744073709551616.

(* insertion sort of hashes, ascending: sort.Slice(kvHashes, func(i, j) { return kvHashes[i] < kvHashes[j] }) - the result of
   sorting a list of numbers does not depend on the algorithm *)
Fixpoint insertN (x : N) (l : list N) : list N :=
  match l with
  | [] => [x]
  | y :: r => if x <=? y then x :: l else y :: insertN x r
  end.
Fixpoint sortN (l : list N) : list N :=
  match l with [] => [] | x :: r => insertN x (sortN r) end.

(* IEEE-754 bit patterns: Go's `v == 0` and `v != v` *)
Definition is_zero32 (bits : N) : bool := (bits =? 0) || (bits =? 2147483648).
Definition is_zero64 (bits : N) : bool := (bits =? 0) || (bits =? 9223372036854775808).
(* NaN: exponent all ones, mantissa non-zero *)
Definition is_nan32 (bits : N) : bool := (N.land (N.shiftr bits 23) 255 =? 255) && negb (N.land bits 8388607 =? 0).
Definition is_nan64 (bits : N) : bool := (N.land (N.shiftr bits 52) 2047 =? 2047) && negb (N.land bits 4503599627370495 =? 0).

Section Fnv.
  Variable P : fnv_params.

  (* hasher.go:14-21 *)
  Definition zero_hash : N := 0.
  Definition new_hash : N := fp_offset P mod M32.        (* hash(2166136261): a uint32 *)

  (* `hV ^= x; hV *= multiplier` on uint32 *)
  Definition fstep (h x : N) : N := (N.lxor h x * fp_prime P) mod M32.

  (* hash(v>>k) & mask: the conversion to the 32-bit hash type truncates, then the mask *)
  Definition byte_at (v k : N) : N := N.land (N.shiftr v k mod M32) (fp_mask P).

  (* hasher.go:55-66 and 68-87 *)
  Definition add_u32 (h v : N) : N := fold_left (fun h k => fstep h (byte_at v k)) (fp_u32_shifts P) h.
  Definition add_u64 (h v : N) : N := fold_left (fun h k => fstep h (byte_at v k)) (fp_u64_shifts P) h.

  (* hasher.go:89-95: uint32(v) / uint64(v) of a signed value = two's complement *)
  Definition add_i32 (h : N) (z : Z) : N := add_u32 h (Z.to_N (z mod 4294967296)).
  Definition add_i64 (h : N) (z : Z) : N := add_u64 h (Z.to_N (z mod 18446744073709551616)).

  (* hasher.go:97-111 *)
  Definition norm32 (bits : N) : N := if fp_norm32 P && is_zero32 bits then 0 else bits.
  Definition norm64 (bits : N) : N := if fp_norm64 P && is_zero64 bits then 0 else bits.
  Definition add_f32 (h bits : N) : N := add_u32 h (norm32 bits).
  Definition add_f64 (h bits : N) : N := add_u64 h (norm64 bits).

  (* hasher.go:113-124 *)
  Definition add_bool (h : N) (b : bool) : N := fstep h (if b then 1 else 0).

  (* hasher.go:126-137: AddString = AddBytes([]byte(v)) *)
  Definition add_bytes (h : N) (s : bytes) : N := fold_left (fun h b => fstep h (bn b)) s h.

  (* hasher.go:139-153: Add(other) = add(other.underlying()) = addUint32(uint32(other)) *)
  Definition add_hash (h other : N) : N := add_u32 h (other mod M32).

  (* hasher.go:171-190: every entry hashed from the ZERO hash (kvHashes := make([]hash, n)), sorted, folded with add *)
  Definition add_map_hashes (h : N) (kv : list N) : N :=
    fold_left add_hash (if fp_map_sorted P then sortN kv else kv) h.

  (* the primitive adders by schema primitive (PrimitiveType.HasherName) *)
  Definition add_prim (p : prim) (v : value) (h : N) : N :=
    match p, v with
    | PInt, VInt z => add_i32 h z
    | PLong, VLong z => add_i64 h z
    | PFloat, VFloat b => add_f32 h b
    | PDouble, VDouble b => add_f64 h b
    | PBool, VBool b => add_bool h b
    | PString, VStr s => add_bytes h s
    | PBytes, VBytes s => add_bytes h s
    | _, _ => h      (* model artefact: value not of the type (impossible in Go: static types) *)
    end.
End Fnv.

(* ---------------------------------------------------------------------------------------------------------------- *)
(* The schema as Equals / ComputeHash see it.  It differs from Codec.Schema.ty in ONE respect: a non-custom typeref is a named Go
   type with its own ComputeHash, so a typeref-typed field is folded as hash.Add(v.ComputeHash()) where a primitive field is
   folded as hash.AddInt64(v); on the wire (and in Equals) the two are the same.  Values are Codec.Schema.value
   (a typeref value is the value of its primitive).  A complex key is the record the generator builds for it
   (complexkey.go:21-34): includes = [key record], fields = [optional $params]. *)
Inductive hty :=
| HPrim (p : prim)
| HTyperef (p : prim)
| HEnum (nsyms : nat)               (* IsValid: 0 < k <= nsyms *)
| HFixed (size : nat)
| HRef (n : nat)
| HArray (t : hty)
| HMap (t : hty).

Record hfield := { hf_ty : hty; hf_ptr : bool }.     (* hf_ptr = Field.IsOptionalOrDefault(): the Go field is a pointer *)

Inductive hdef :=
| HRecord (includes : list nat) (fields : list hfield)
| HUnion (members : list hty).

Definition henv := list hdef.
Definition hlookup (e : henv) (n : nat) : option hdef := nth_error e n.

Definition enum_valid (nsyms k : nat) : bool := Nat.ltb 0 k && Nat.leb k nsyms.

Section HashV.
  Variable P : fnv_params.
  Variable e : henv.

  (* addV = the statement emitted by record_hash.go:hash(h, t, false, accessor): fold one value of type t into the running hash h
     hashV = v.ComputeHash() for the named types; for primitives the library's HashInt32 ... HashBytes (hasher.go:198-238);
             for arrays/maps (no Go method) the fold from a fresh hash.
     The fuel decreases at every nesting level of the VALUE. *)
  Fixpoint addV (fuel : nat) (t : hty) (v : value) (h : N) {struct fuel} : N :=
    match fuel with
    | O => h
    | S f =>
        match t, v with
        | HPrim p, _ => add_prim P p v h                                         (* h.AddInt32(v) ... *)
        | HArray t', VArr l => fold_left (fun h x => addV f t' x h) l h           (* fnv1a.AddArray: hasher.go:155-159 *)
        | HMap t', VMap es =>                                                    (* fnv1a.AddMap: hasher.go:171-190 *)
            add_map_hashes P h (map (fun kv => addV f t' (snd kv) (add_bytes P zero_hash (fst kv))) es)
        | HArray _, _ | HMap _, _ => h
        | _, _ => add_hash P h (hashV f t v)                                     (* h.Add(v.ComputeHash()) *)
        end
    end
  with hashV (fuel : nat) (t : hty) (v : value) {struct fuel} : N :=
    match fuel with
    | O => zero_hash
    | S f =>
        (* one field / union member: `if x != nil { ... }` when the Go field is a pointer *)
        let add_opt (t' : hty) (ov : option value) (h : N) : N :=
          match ov with None => h | Some v' => addV f t' v' h end in
        match t, v with
        | HPrim p, _ => add_prim P p v (new_hash P)                               (* HashInt32(v) ... : hasher.go:198-238 *)
        | HTyperef p, _ => add_prim P p v (new_hash P)                            (* typeref.go:44-46 *)
        | HEnum n, VEnum k =>                                                    (* enum.go:72-77 *)
            if enum_valid n k then add_i32 P (new_hash P) (Z.of_nat k) else zero_hash
        | HFixed _, VFixed s => add_bytes P (new_hash P) s                        (* fixed.go:42-44 *)
        | HRef n, VRec ivs fvs =>                                                (* record_hash.go:26-37 *)
            match hlookup e n with
            | Some (HRecord incs fs) =>
                let h1 := (fix go (is : list nat) (vs : list value) (h : N) : N :=
                             match is, vs with
                             | i :: is', iv :: vs' => go is' vs' (add_hash P h (hashV f (HRef i) iv))
                             | _, _ => h
                             end) incs ivs (new_hash P) in
                (fix go (fs : list hfield) (vs : list (option value)) (h : N) : N :=
                   match fs, vs with
                   | fd :: fs', ov :: vs' => go fs' vs' (add_opt (hf_ty fd) ov h)
                   | _, _ => h
                   end) fs fvs h1
            | _ => zero_hash
            end
        | HRef n, VUnion ms =>                                                   (* union.go:42-46 *)
            match hlookup e n with
            | Some (HUnion mts) =>
                (fix go (mts : list hty) (vs : list (option value)) (h : N) : N :=
                   match mts, vs with
                   | mt :: mts', ov :: vs' => go mts' vs' (add_opt mt ov h)
                   | _, _ => h
                   end) mts ms (new_hash P)
            | _ => zero_hash
            end
        | HArray _, _ | HMap _, _ => addV f t v (new_hash P)
        | _, _ => zero_hash
        end
    end.

  (* complexkey.go:55-60: ComputeComplexKeyHash = the key part's ComputeHash (the first include), params ignored *)
  Definition ck_hashV (fuel : nat) (n : nat) (v : value) : N :=
    match hlookup e n, v with
    | Some (HRecord (k :: _) _), VRec (kv :: _) _ => hashV fuel (HRef k) kv
    | _, _ => zero_hash
    end.
End HashV.
