(* restli/equals/*.go (both modules: identical) and the generated Equals methods (codegen/types/record_equals.go, enum.go:65-70,
   union.go:35-40, fixed.go:36-40, typeref.go:36-42, complexkey.go:42-51), as a function of a schema and two abstract values.
   Pointer identity shortcuts (`if r == other { return true }`, GenericPointer's `left != right`) are not represented: abstract
   values have no identity, i.e. the model describes the comparison of two separately held values.  No proofs here. *)
From Coq Require Import List Bool Arith ZArith NArith.
From Coq.Strings Require Import Byte.
From GR Require Import Base.Bytes Codec.Schema Hash.Fnv.
Import ListNotations.

(* Go's == on float32 / float64 given the IEEE bit patterns: false when either side is NaN; +0 == -0 *)
Definition feq32 (a b : N) : bool := negb (is_nan32 a) && negb (is_nan32 b) && (N.eqb a b || (is_zero32 a && is_zero32 b)).
Definition feq64 (a b : N) : bool := negb (is_nan64 a) && negb (is_nan64 b) && (N.eqb a b || (is_zero64 a && is_zero64 b)).

(* `left == right` on a primitive (comparable.go) resp. bytes.Equal (bytes.go:5-7; nil and empty slices are equal: the abstract
   value does not distinguish them) *)
Definition prim_equal (p : prim) (a b : value) : bool :=
  match p, a, b with
  | PInt, VInt x, VInt y => Z.eqb x y
  | PLong, VLong x, VLong y => Z.eqb x y
  | PFloat, VFloat x, VFloat y => feq32 x y
  | PDouble, VDouble x, VDouble y => feq64 x y
  | PBool, VBool x, VBool y => Bool.eqb x y
  | PString, VStr x, VStr y => bytes_eqb x y
  | PBytes, VBytes x, VBytes y => bytes_eqb x y
  | _, _, _ => false
  end.

(* a Go map as an association list: m[k] *)
Fixpoint map_get {A} (k : bytes) (es : list (bytes * A)) : option A :=
  match es with
  | [] => None
  | (k', x) :: r => if bytes_eqb k k' then Some x else map_get k r
  end.

Section EqualsV.
  Variable e : henv.

  (* equalsV = equalsCondition(t, false, left, right) (record_equals.go:60-122): for the named types left.Equals(right), for
     primitives ==, for arrays/maps the equals.*Array / *Map helpers (generic.go:20-45).  Fuel decreases at each nesting level. *)
  Fixpoint equalsV (fuel : nat) (t : hty) (a b : value) {struct fuel} : bool :=
    match fuel with
    | O => false
    | S f =>
        (* equals.GenericPointer (generic.go:7-18) *)
        let eq_opt (t' : hty) (oa ob : option value) : bool :=
          match oa, ob with
          | None, None => true
          | Some x, Some y => equalsV f t' x y
          | _, _ => false
          end in
        match t, a, b with
        | HPrim p, _, _ => prim_equal p a b
        | HTyperef p, _, _ => prim_equal p a b                                   (* typeref.go:36-42 *)
        | HEnum n, VEnum x, VEnum y => enum_valid n x && enum_valid n y && Nat.eqb x y     (* enum.go:65-70 *)
        | HFixed _, VFixed x, VFixed y => bytes_eqb x y                          (* fixed.go:36-40 *)
        | HArray t', VArr la, VArr lb =>                                         (* generic.go:20-30 *)
            Nat.eqb (length la) (length lb) &&
            (fix go (x y : list value) : bool :=
               match x, y with
               | p :: x', q :: y' => equalsV f t' p q && go x' y'
               | _, _ => true
               end) la lb
        | HMap t', VMap ea, VMap eb =>                                           (* generic.go:32-45 *)
            Nat.eqb (length ea) (length eb) &&
            forallb (fun kv => match map_get (fst kv) eb with
                               | Some rv => equalsV f t' (snd kv) rv
                               | None => false
                               end) ea
        | HRef n, VRec ia fa, VRec ib fb =>                                      (* record_equals.go:27-58 *)
            match hlookup e n with
            | Some (HRecord incs fs) =>
                (fix go (is : list nat) (x y : list value) : bool :=
                   match is, x, y with
                   | i :: is', p :: x', q :: y' => equalsV f (HRef i) p q && go is' x' y'
                   | [], [], [] => true
                   | _, _, _ => false
                   end) incs ia ib &&
                (fix go (fs : list hfield) (x y : list (option value)) : bool :=
                   match fs, x, y with
                   | fd :: fs', p :: x', q :: y' => eq_opt (hf_ty fd) p q && go fs' x' y'
                   | [], [], [] => true
                   | _, _, _ => false
                   end) fs fa fb
            | _ => false
            end
        | HRef n, VUnion ma, VUnion mb =>                                        (* union.go:35-40 *)
            match hlookup e n with
            | Some (HUnion mts) =>
                (fix go (mts : list hty) (x y : list (option value)) : bool :=
                   match mts, x, y with
                   | mt :: mts', p :: x', q :: y' => eq_opt mt p q && go mts' x' y'
                   | [], [], [] => true
                   | _, _, _ => false
                   end) mts ma mb
            | _ => false
            end
        | _, _, _ => false
        end
    end.

  (* complexkey.go:42-51: ComplexKeyEquals compares the key parts (first include) only *)
  Definition ck_equalsV (fuel : nat) (n : nat) (a b : value) : bool :=
    match hlookup e n, a, b with
    | Some (HRecord (k :: _) _), VRec (ka :: _) _, VRec (kb :: _) _ => equalsV fuel (HRef k) ka kb
    | _, _, _ => false
    end.
End EqualsV.
