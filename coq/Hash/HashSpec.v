(* Specification vocabulary for C10 (definitions only): which values the theorems speak about (wfV), and when two abstract
   values are "the same value" for Go (same): equal position by position, floats compared with ==, map entries in any order. *)
From Coq Require Import List Bool Arith ZArith NArith Permutation.
From Coq.Strings Require Import Byte.
From GR Require Import Base.Bytes Codec.Schema Hash.Fnv Hash.Equals.
Import ListNotations.

(* a primitive value of the right kind that is not a NaN *)
Definition prim_wf (p : prim) (v : value) : bool :=
  match p, v with
  | PInt, VInt _ | PLong, VLong _ | PBool, VBool _ | PString, VStr _ | PBytes, VBytes _ => true
  | PFloat, VFloat b => negb (is_nan32 b)
  | PDouble, VDouble b => negb (is_nan64 b)
  | _, _ => false
  end.

(* the keys of a Go map are pairwise distinct *)
Fixpoint nodup_keys {A} (es : list (bytes * A)) : bool :=
  match es with
  | [] => true
  | (k, _) :: r => match map_get k r with Some _ => false | None => nodup_keys r end
  end.

Section WF.
  Variable e : henv.

  (* wfV fuel t v: v is a value of type t (the shape the Go type system enforces: fixed arrays have their size, non-pointer
     fields hold a value, map keys are distinct), every enum constant is valid (IsValid), no float is a NaN, and the fuel
     suffices to traverse v.  Union member counts are NOT constrained (Equals and ComputeHash do not look at them). *)
  Fixpoint wfV (fuel : nat) (t : hty) (v : value) {struct fuel} : bool :=
    match fuel with
    | O => false
    | S f =>
        let wf_opt (t' : hty) (ov : option value) : bool :=
          match ov with None => true | Some x => wfV f t' x end in
        match t, v with
        | HPrim p, _ => prim_wf p v
        | HTyperef p, _ => prim_wf p v
        | HEnum n, VEnum k => enum_valid n k
        | HFixed n, VFixed s => Nat.eqb (length s) n
        | HArray t', VArr l => forallb (wfV f t') l
        | HMap t', VMap es => nodup_keys es && forallb (fun kv => wfV f t' (snd kv)) es
        | HRef n, VRec ia fa =>
            match hlookup e n with
            | Some (HRecord incs fs) =>
                (fix go (is : list nat) (x : list value) : bool :=
                   match is, x with
                   | i :: is', p :: x' => wfV f (HRef i) p && go is' x'
                   | [], [] => true
                   | _, _ => false
                   end) incs ia &&
                (fix go (fs : list hfield) (x : list (option value)) : bool :=
                   match fs, x with
                   | fd :: fs', p :: x' =>
                       (hf_ptr fd || match p with Some _ => true | None => false end) && wf_opt (hf_ty fd) p && go fs' x'
                   | [], [] => true
                   | _, _ => false
                   end) fs fa
            | _ => false
            end
        | HRef n, VUnion ms =>
            match hlookup e n with
            | Some (HUnion mts) =>
                (fix go (mts : list hty) (x : list (option value)) : bool :=
                   match mts, x with
                   | mt :: mts', p :: x' => wf_opt mt p && go mts' x'
                   | [], [] => true
                   | _, _ => false
                   end) mts ms
            | _ => false
            end
        | _, _ => false
        end
    end.

  (* a complex key whose key part is well-formed (params unconstrained) *)
  Definition ck_wfV (fuel : nat) (n : nat) (v : value) : bool :=
    match hlookup e n, v with
    | Some (HRecord (k :: _) _), VRec (kv :: _) _ => wfV fuel (HRef k) kv
    | _, _ => false
    end.
End WF.

(* "the same value": no difference at any field, element, union member or optional presence; floats related by Go's ==
   (so +0 and -0 are the same, a NaN is not the same as anything); the entries of a map may be listed in any order. *)
Inductive same : value -> value -> Prop :=
| same_int z : same (VInt z) (VInt z)
| same_long z : same (VLong z) (VLong z)
| same_float x y : feq32 x y = true -> same (VFloat x) (VFloat y)
| same_double x y : feq64 x y = true -> same (VDouble x) (VDouble y)
| same_bool b : same (VBool b) (VBool b)
| same_str s : same (VStr s) (VStr s)
| same_bytes s : same (VBytes s) (VBytes s)
| same_enum k : same (VEnum k) (VEnum k)
| same_fixed s : same (VFixed s) (VFixed s)
| same_arr l l' : sames l l' -> same (VArr l) (VArr l')
| same_map es es1 es' : Permutation es es1 -> esames es1 es' -> same (VMap es) (VMap es')
| same_rec ia ib fa fb : sames ia ib -> osames fa fb -> same (VRec ia fa) (VRec ib fb)
| same_union ma mb : osames ma mb -> same (VUnion ma) (VUnion mb)
with sames : list value -> list value -> Prop :=
| sames_nil : sames [] []
| sames_cons x y l l' : same x y -> sames l l' -> sames (x :: l) (y :: l')
with esames : list (bytes * value) -> list (bytes * value) -> Prop :=
| esames_nil : esames [] []
| esames_cons k x y l l' : same x y -> esames l l' -> esames ((k, x) :: l) ((k, y) :: l')
with osames : list (option value) -> list (option value) -> Prop :=
| osames_nil : osames [] []
| osames_none l l' : osames l l' -> osames (None :: l) (None :: l')
| osames_some x y l l' : same x y -> osames l l' -> osames (Some x :: l) (Some y :: l').
