(* Model of host selection (v2/d2/serviceUris.go:16-72; root module identical): iterateHostWeights,
   filterAndChooseHost, chooseHost.

   - rng.Float64() is a parameter: one draw per call of filterAndChooseHost, i.e. one per scheme that is tried;
     [r i] is the draw of the i-th attempt (premise of the theorems: 0 <= r i < 1).
   - Weights and the arithmetic on them are exact rationals; Go computes in float64 (named gap: rounding of
     rng.Float64()*totalWeight and of the running subtraction).
   - Go's map iteration order is unspecified and changes from one range statement to the next: each of the two
     passes of each attempt gets its own order, [o1 i] and [o2 i], about which the theorems only assume that it is a
     permutation of the announced (host, weight) entries.  (The real orders are a subset of those: znodes in some
     order, then each znode's hosts in some order.)                                                            *)
From Coq Require Import List Bool Arith QArith.
From Coq.Strings Require Import Byte.
From GR Require Import Base.Bytes D2.Announce.
Import ListNotations.

Definition entry := (host * Q)%type.

(* what iterateHostWeights (serviceUris.go:16-24) hands to its receiver, for the identity iteration order *)
Definition flat (m : umap) : list entry := flat_map snd m.

(* first pass of filterAndChooseHost (:27-33): totalWeight, accumulated in iteration order *)
Fixpoint total_from (filt : host -> bool) (l : list entry) (acc : Q) : Q :=
  match l with
  | [] => acc
  | (h, w) :: r => if filt h then total_from filt r (acc + w) else total_from filt r acc
  end.
Definition total (filt : host -> bool) (l : list entry) : Q := total_from filt l 0.

(* second pass (:37-52): a host without weight is passed over while the total is positive (:41-44, the repair of D32);
   otherwise randomWeight -= weight; if randomWeight <= 0 { chosen; stop }.  [tot] is the totalWeight of the first pass. *)
Fixpoint pick (filt : host -> bool) (l : list entry) (tot rw : Q) : option entry :=
  match l with
  | [] => None
  | (h, w) :: r =>
      if filt h then
        if Qle_bool w 0 && negb (Qle_bool tot 0) then pick filt r tot rw      (* weight <= 0 && totalWeight > 0 *)
        else
          let rw' := rw - w in
          if Qle_bool rw' 0 then Some (h, w) else pick filt r tot rw'
      else pick filt r tot rw
  end.

(* filterAndChooseHost (:26-55); the returned entry's first component is the *url.URL the code returns (its weight
   is kept so that statements can talk about it) *)
Definition filter_and_choose (filt : host -> bool) (o1 o2 : list entry) (r : Q) : option entry :=
  let tot := total filt o1 in pick filt o2 tot (r * tot).

Definition scheme_is (s : bytes) (h : host) : bool := bytes_eqb (h_scheme h) s.   (* u.Scheme == scheme, :59 *)

(* the loop of chooseHost (:62-69), attempt counter i *)
Fixpoint choose_prio (schemes : list bytes) (i : nat) (o1 o2 : nat -> list entry) (r : nat -> Q) : option entry :=
  match schemes with
  | [] => None                                                                    (* :66 *)
  | s :: rest =>
      match filter_and_choose (scheme_is s) (o1 i) (o2 i) (r i) with
      | Some e => Some e
      | None => choose_prio rest (S i) o1 o2 r
      end
  end.

(* chooseHost (:57-72) *)
Definition choose_host (schemes : list bytes) (o1 o2 : nat -> list entry) (r : nat -> Q) : option entry :=
  match schemes with
  | [] => filter_and_choose (fun _ => true) (o1 O) (o2 O) (r O)                  (* :53-55 *)
  | _ :: _ => choose_prio schemes O o1 o2 r
  end.

(* ---------------------------------------------------------------------------------------------------------
   Used by the correspondence check (Go's iteration order cannot be controlled from outside): every result some
   iteration order can produce.                                                                              *)
Fixpoint insert_all {A} (x : A) (l : list A) : list (list A) :=
  match l with
  | [] => [[x]]
  | y :: t => (x :: y :: t) :: map (cons y) (insert_all x t)
  end.
Fixpoint perms {A} (l : list A) : list (list A) :=
  match l with
  | [] => [[]]
  | x :: t => flat_map (insert_all x) (perms t)
  end.

(* results of one attempt over all orders: only the eligible entries matter *)
Definition attempt_results (filt : host -> bool) (fl : list entry) (r : Q) : list (option entry) :=
  let el := filter (fun e => filt (fst e)) fl in
  let tot := total (fun _ => true) el in
  map (fun p => pick (fun _ => true) p tot (r * tot)) (perms el).

Fixpoint possible_prio (schemes : list bytes) (i : nat) (fl : list entry) (r : nat -> Q) : list (option entry) :=
  match schemes with
  | [] => [None]
  | s :: rest =>
      if existsb (fun e => scheme_is s (fst e)) fl then attempt_results (scheme_is s) fl (r i)
      else possible_prio rest (S i) fl r
  end.

Definition possible (schemes : list bytes) (fl : list entry) (r : nat -> Q) : list (option entry) :=
  match schemes with
  | [] => attempt_results (fun _ => true) fl (r O)
  | _ :: _ => possible_prio schemes O fl r
  end.
