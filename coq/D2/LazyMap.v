(* Executable small-step model of d2/lazymap/lazymap.go (identical in the root module and in v2).

   Granularity: one model step = the code a goroutine runs between two consecutive [yield] points of the hooked source
   (v2/d2/lazymap/lazymap.go, build tag verif), i.e. exactly one atomic operation on shared state:
     point 1  sync.Map.LoadOrStore(key, placeholder)          lazymap.go:16   (LoadOrStore, also reached from Store:47)
     point 2  placeholder.wg.Wait(); return placeholder.v     lazymap.go:18-19
     point 3  the call of f()                                 lazymap.go:25   (f's body then parks at point 8 / 100)
     point 8  (Store's closure) / 100 (the caller's f): f returns, value.v = result      lazymap.go:25, 48-49
     point 4  sync.Map.Store(key, value.v)                    lazymap.go:26
     point 5  value.wg.Done(); return value.v                 lazymap.go:27-28
     point 6  sync.Map.Load(key)                              lazymap.go:32
     point 7  placeholder.wg.Wait(); return placeholder.v     lazymap.go:38-39
     point 9  sync.Map.Store(key, value)  (Store lost)        lazymap.go:53
   sync.Map, sync.WaitGroup and the Go scheduler are modelled, not verified: each sync.Map call is one atomic step,
   Wait is enabled iff Done has run (the counter is 1 from wg.Add(1) at allocation), a schedule picks which goroutine
   runs its next segment.  The compute functions are pure (an op carries the value its f returns).
   No proofs in this file (Proofs/LazyMapProofs.v). *)
From Coq Require Import List Bool Arith.
Import ListNotations.

Definition key := nat.
Definition val := nat.
Definition pid := nat.   (* placeholder identity = allocation index *)
Definition tid := nat.

Inductive op :=
| OLos (k : key) (v : val)     (* m.LoadOrStore(k, func() { return v }) *)
| OLoad (k : key)              (* m.Load(k) *)
| OStore (k : key) (v : val).  (* m.Store(k, v) *)

Definition op_key (o : op) : key := match o with OLos k _ => k | OLoad k => k | OStore k _ => k end.
Definition op_val (o : op) : val := match o with OLos _ v => v | OLoad _ => 0 | OStore _ v => v end.

(* what the sync.Map holds for a key: lazymap.go:7-10 *)
Inductive entry := Placeholder (p : pid) | Val (v : val).

(* an inFlightValue: the field v (None = still the nil interface) and whether wg.Done() has run *)
Record cell := { cv : option val; cdone : bool }.

(* what a call returns.  RAbsent = Load's (nil,false); RNil = a nil interface read from a placeholder whose v was
   never written; RUnit = Store.  A *inFlightValue is not representable: the type switches at lazymap.go:17/37 are
   part of the model, and the driver reports a returned placeholder as an observation no model run can produce. *)
Inductive ret := RAbsent | RNil | RVal (v : val) | RUnit.

Inductive pc :=
| PStart                        (* parked at point 1 (LoadOrStore/Store) or 6 (Load) of the next operation *)
| PWait (p : pid)               (* parked at point 2 / 7: before wg.Wait() on placeholder p *)
| PCall (p : pid)               (* parked at point 3: own placeholder p is in the map, about to call f() *)
| PWrite (p : pid) (v : val)    (* inside f (point 8 / 100): f is about to return v, then value.v = v *)
| PInner (p : pid) (v : val)    (* parked at point 4: before sync.Map.Store(key, value.v) *)
| PDone (p : pid) (v : val)     (* parked at point 5: before wg.Done() *)
| PRaw.                         (* parked at point 9: Store did not win, before the overwrite *)

(* a goroutine: where it is in the current operation (head of tops) and the operations still to run *)
Record thread := { tpc : pc; tops : list op }.

Inductive event := EInv (t : tid) (o : op) | ERes (t : tid) (o : op) (r : ret).

Record state := {
  smap : key -> option entry;    (* the sync.Map *)
  cells : pid -> cell;           (* allocated placeholders *)
  ncells : nat;                  (* next placeholder id *)
  threads : tid -> thread;
  hist : list event;             (* invocations (first segment of a call) and responses, chronological *)
  computes : key -> nat          (* how many times an f() was called for the key (the caller's f or Store's closure) *)
}.

Definition upd {A} (f : nat -> A) (i : nat) (x : A) : nat -> A := fun j => if Nat.eqb j i then x else f j.

Definition set_thr (s : state) (t : tid) (p : pc) (ops : list op) (evs : list event) : state :=
  {| smap := smap s; cells := cells s; ncells := ncells s;
     threads := upd (threads s) t {| tpc := p; tops := ops |};
     hist := hist s ++ evs; computes := computes s |}.
Definition set_map (s : state) (k : key) (e : entry) : state :=
  {| smap := upd (smap s) k (Some e); cells := cells s; ncells := ncells s; threads := threads s;
     hist := hist s; computes := computes s |}.
Definition set_cell (s : state) (p : pid) (c : cell) : state :=
  {| smap := smap s; cells := upd (cells s) p c; ncells := ncells s; threads := threads s;
     hist := hist s; computes := computes s |}.
Definition alloc_cell (s : state) : state :=
  {| smap := smap s; cells := upd (cells s) (ncells s) {| cv := None; cdone := false |}; ncells := S (ncells s);
     threads := threads s; hist := hist s; computes := computes s |}.
Definition inc_compute (s : state) (k : key) : state :=
  {| smap := smap s; cells := cells s; ncells := ncells s; threads := threads s;
     hist := hist s; computes := upd (computes s) k (S (computes s k)) |}.

(* lazymap.go:19/39 "return v.v" *)
Definition cell_ret (c : cell) : ret := match cv c with Some v => RVal v | None => RNil end.
(* what the winner returns: LoadOrStore returns value.v (lazymap.go:28), Store returns nothing *)
Definition win_ret (o : op) (v : val) : ret := match o with OStore _ _ => RUnit | _ => RVal v end.

(* One segment of goroutine t.  None: t has finished, or is parked before a Wait whose Done has not run. *)
Definition step (s : state) (t : tid) : option state :=
  let th := threads s t in
  match tops th with
  | [] => None
  | o :: rest =>
    let k := op_key o in
    match tpc th, o with
    | PStart, OLoad _ =>                                        (* lazymap.go:32-42 *)
        match smap s k with
        | None => Some (set_thr s t PStart rest [EInv t o; ERes t o RAbsent])
        | Some (Placeholder q) => Some (set_thr s t (PWait q) (o :: rest) [EInv t o])
        | Some (Val v') => Some (set_thr s t PStart rest [EInv t o; ERes t o (RVal v')])
        end
    | PStart, OLos _ _ =>                                       (* lazymap.go:13-23 *)
        match smap s k with
        | None => Some (set_thr (set_map (alloc_cell s) k (Placeholder (ncells s))) t (PCall (ncells s)) (o :: rest) [EInv t o])
        | Some (Placeholder q) => Some (set_thr s t (PWait q) (o :: rest) [EInv t o])
        | Some (Val v') => Some (set_thr s t PStart rest [EInv t o; ERes t o (RVal v')])
        end
    | PStart, OStore _ _ =>                                     (* lazymap.go:46-47 then 13-23, 52 *)
        match smap s k with
        | None => Some (set_thr (set_map (alloc_cell s) k (Placeholder (ncells s))) t (PCall (ncells s)) (o :: rest) [EInv t o])
        | Some (Placeholder q) => Some (set_thr s t (PWait q) (o :: rest) [EInv t o])
        | Some (Val v') => Some (set_thr s t PRaw (o :: rest) [EInv t o])
        end
    | PWait q, OStore _ _ =>                                    (* lazymap.go:18-19, result dropped at :47, then :52 *)
        if cdone (cells s q) then Some (set_thr s t PRaw (o :: rest) []) else None
    | PWait q, _ =>                                             (* lazymap.go:18-19 / 38-39 *)
        if cdone (cells s q) then Some (set_thr s t PStart rest [ERes t o (cell_ret (cells s q))]) else None
    | PCall p, OLoad _ => None
    | PCall p, _ =>                                             (* lazymap.go:25 (call), f's body up to its return *)
        Some (set_thr (inc_compute s k) t (PWrite p (op_val o)) (o :: rest) [])
    | PWrite p v, _ =>                                          (* lazymap.go:25 (assignment) *)
        Some (set_thr (set_cell s p {| cv := Some v; cdone := cdone (cells s p) |}) t (PInner p v) (o :: rest) [])
    | PInner p v, _ =>                                          (* lazymap.go:26 *)
        Some (set_thr (set_map s k (Val v)) t (PDone p v) (o :: rest) [])
    | PDone p v, _ =>                                           (* lazymap.go:27-28 (and :52 not taken for Store) *)
        Some (set_thr (set_cell s p {| cv := cv (cells s p); cdone := true |}) t PStart rest [ERes t o (win_ret o v)])
    | PRaw, OStore _ v =>                                       (* lazymap.go:53 *)
        Some (set_thr (set_map s k (Val v)) t PStart rest [ERes t o RUnit])
    | PRaw, _ => None
    end
  end.

(* the yield point at which goroutine t is parked (0: finished) - what the controller observes on the real code *)
Definition point_of (s : state) (t : tid) : nat :=
  let th := threads s t in
  match tops th with
  | [] => 0
  | o :: _ =>
    match tpc th, o with
    | PStart, OLoad _ => 6
    | PStart, _ => 1
    | PWait _, OLoad _ => 7
    | PWait _, _ => 2
    | PCall _, _ => 3
    | PWrite _ _, OStore _ _ => 8
    | PWrite _ _, _ => 100
    | PInner _ _, _ => 4
    | PDone _ _, _ => 5
    | PRaw, _ => 9
    end
  end.

Definition program := tid -> list op.

Definition init (prog : program) : state :=
  {| smap := fun _ => None; cells := fun _ => {| cv := None; cdone := false |}; ncells := 0;
     threads := fun t => {| tpc := PStart; tops := prog t |};
     hist := []; computes := fun _ => 0 |}.

(* a schedule is a list of goroutine ids; picking a goroutine that cannot move is a no-op *)
Definition sstep (s : state) (t : tid) : state := match step s t with Some s' => s' | None => s end.
Definition run (s : state) (sched : list tid) : state := fold_left sstep sched s.

Definition reachable (prog : program) (s : state) : Prop := exists sched, run (init prog) sched = s.
Definition enabled (s : state) (t : tid) : Prop := step s t <> None.
Definition final (s : state) : Prop := forall t, tops (threads s t) = [].

(* strict variant for the correspondence: every pick must be enabled; also collects the yield points taken *)
Fixpoint run_strict (s : state) (sched : list tid) (pts : list nat) : option (state * list nat) :=
  match sched with
  | [] => Some (s, rev pts)
  | t :: r => match step s t with
              | Some s' => run_strict s' r (point_of s t :: pts)
              | None => None
              end
  end.

Definition prog_of (l : list (list op)) : program := fun t => nth t l [].

(* ---------------------------------------------------------------------------------------------------------------
   The specification: a plain map with compute-if-absent, and linearizability. *)

Definition smap_spec := key -> option val.

Definition spec_apply (m : smap_spec) (o : op) : smap_spec * ret :=
  match o with
  | OLos k v => match m k with Some v' => (m, RVal v') | None => (upd m k (Some v), RVal v) end
  | OLoad k => match m k with Some v' => (m, RVal v') | None => (m, RAbsent) end
  | OStore k v => (upd m k (Some v), RUnit)
  end.

Definition ret_eqb (a b : ret) : bool :=
  match a, b with
  | RAbsent, RAbsent | RNil, RNil | RUnit, RUnit => true
  | RVal x, RVal y => Nat.eqb x y
  | _, _ => false
  end.

(* runs a sequence of atomic operations on the specification, checking every returned value *)
Fixpoint spec_run (m : smap_spec) (l : list (op * ret)) : option smap_spec :=
  match l with
  | [] => Some m
  | (o, r) :: l' => let (m', r') := spec_apply m o in if ret_eqb r r' then spec_run m' l' else None
  end.

(* A history decorated with linearization points. *)
Inductive levent := LInv (t : tid) (o : op) | LLin (t : tid) (o : op) (r : ret) | LRes (t : tid) (o : op) (r : ret).

Definition erase (hl : list levent) : list event :=
  flat_map (fun e => match e with LInv t o => [EInv t o] | LLin _ _ _ => [] | LRes t o r => [ERes t o r] end) hl.
Definition lins (hl : list levent) : list (op * ret) :=
  flat_map (fun e => match e with LLin _ o r => [(o, r)] | _ => [] end) hl.

(* per goroutine: (invocation . linearization point . response)*, the point carrying the operation and the value
   the response will carry *)
Inductive tstate := TIdle | TInv (o : op) | TLin (o : op) (r : ret).

Definition op_eqb (a b : op) : bool :=
  match a, b with
  | OLos k v, OLos k' v' => Nat.eqb k k' && Nat.eqb v v'
  | OLoad k, OLoad k' => Nat.eqb k k'
  | OStore k v, OStore k' v' => Nat.eqb k k' && Nat.eqb v v'
  | _, _ => false
  end.

Definition wf_event (ts : tid -> tstate) (e : levent) : option (tid -> tstate) :=
  match e with
  | LInv t o => match ts t with TIdle => Some (upd ts t (TInv o)) | _ => None end
  | LLin t o r => match ts t with TInv o' => if op_eqb o o' then Some (upd ts t (TLin o r)) else None | _ => None end
  | LRes t o r => match ts t with
                  | TLin o' r' => if op_eqb o o' && ret_eqb r r' then Some (upd ts t TIdle) else None
                  | _ => None
                  end
  end.

Fixpoint wf_run (ts : tid -> tstate) (hl : list levent) : option (tid -> tstate) :=
  match hl with
  | [] => Some ts
  | e :: r => match wf_event ts e with Some ts' => wf_run ts' r | None => None end
  end.

(* A history is linearizable (w.r.t. the plain map, started empty) when a linearization point can be placed inside the
   interval of every completed call (and of some pending ones) so that the calls, taken atomically in the order of
   their points, are a legal run of the specification returning the same values.  [m] is the specification's
   final state.  (This is the interval formulation of Herlihy-Wing linearizability: the order of the points is a
   sequential history that preserves the real-time order, because each point lies between its call's invocation and
   response.) *)
Definition linearization (h : list event) (hl : list levent) (m : smap_spec) : Prop :=
  erase hl = h /\ wf_run (fun _ => TIdle) hl <> None /\ spec_run (fun _ => None) (lins hl) = Some m.

Definition linearizable (h : list event) : Prop := exists hl m, linearization h hl m.
