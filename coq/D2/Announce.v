(* Model of the D2 event handlers of go-restli (v2/d2/client.go:138-200 and serviceUris.go:74-85; the root module's
   d2/ is the same code up to import paths): handleUriUpdate, handleServiceUpdate, serviceUris.copy.

   ZooKeeper, the tree cache and JSON decoding are outside the model (DESIGN.md section 4): the model starts at the
   TreeCacheEvent channel, and an event's payload is the *outcome* of json.Unmarshal on its bytes (decoded
   announcement, or error) - which outcome a given byte string has is observed on the real decoder by the harness.

   Heap.  A *serviceUris object (struct + its map, which is never shared between two structs) is one heap cell; the
   *Uri objects stored in the map are never written after decoding and are therefore values.  Every allocation and
   every mutation of a cell is appended to a write log, so that "never writes a cell that was published earlier"
   is a statement about the log.                                                                              *)
From Coq Require Import List Bool Arith QArith.
From Coq.Strings Require Import Byte.
From GR Require Import Base.Bytes.
Import ListNotations.

(* url.URL as far as the code looks at it: the scheme and everything else (host:port, path, ...) *)
Record host := Host { h_scheme : bytes; h_rest : bytes }.

(* Uri.Weights (defs.go:31-35): host -> weight; Go float64 modelled by exact rationals (named gap) *)
Definition ann := list (host * Q).

(* map[string]*Uri: znode name (event path minus the zkPath prefix) -> announcement *)
Definition umap := list (bytes * ann).

Fixpoint alookup {A} (k : bytes) (m : list (bytes * A)) : option A :=
  match m with
  | [] => None
  | (k', v) :: r => if bytes_eqb k k' then Some v else alookup k r
  end.

(* delete(m, k) *)
Fixpoint aremove {A} (k : bytes) (m : list (bytes * A)) : list (bytes * A) :=
  match m with
  | [] => []
  | (k', v) :: r => if bytes_eqb k k' then aremove k r else (k', v) :: aremove k r
  end.

(* m[k] = v *)
Definition aset {A} (k : bytes) (v : A) (m : list (bytes * A)) : list (bytes * A) := (k, v) :: aremove k m.

(* ---------------------------------------------------------------------------------------------- events *)

(* outcome of json.Unmarshal on event.Data into uri (client.go:183-188, defs.go:37-85).  On an error the struct holds
   whatever Uri.UnmarshalJSON stored before it returned: nothing for the errors encoding/json raises itself (syntax,
   wrong JSON type: defs.go:47-50 return before the receiver is touched), but ALL weights for a host key of
   uriSpecificProperties / partitionDesc that url.Parse rejects (defs.go:65-80 run after the weights were filled in),
   and some of them for a bad key among the weights themselves (defs.go:57-63, map order).  The handler must not
   look at them. *)
Inductive payload :=
| PMalformed (partial : ann) (* err != nil; partial = what is left in uri.Weights *)
| PDecoded (weights : ann).  (* err == nil; weights = [] for a partition-only / empty announcement *)

(* TreeCacheEvent (treecache.go:28-32): Data == nil means the znode is gone *)
Record tce := Tce { ev_path : bytes; ev_data : option payload }.

(* the vocabulary of the property: what happened to a znode *)
Inductive zevent :=
| Added (path : bytes) (p : payload)
| Updated (path : bytes) (p : payload)
| Removed (path : bytes).

(* what the tree cache sends for it (treecache.go:154-157 and 222-225) *)
Definition to_tce (e : zevent) : tce :=
  match e with
  | Added p d => Tce p (Some d)
  | Updated p d => Tce p (Some d)
  | Removed p => Tce p None
  end.

(* strings.TrimPrefix *)
Fixpoint strip_prefix (p s : bytes) : option bytes :=
  match p, s with
  | [], _ => Some s
  | a :: p', b :: s' => if Byte.eqb a b then strip_prefix p' s' else None
  | _ :: _, [] => None
  end.
Definition trim_prefix (p s : bytes) : bytes :=
  match strip_prefix p s with Some r => r | None => s end.

(* ---------------------------------------------------------------------------------------------- heap *)

Definition addr := nat.

(* serviceUris (serviceUris.go:11-14) *)
Record cell := Cell { c_zk : bytes; c_uris : umap }.

Record st := St { heap : list cell; wlog : list addr }.

Inductive outcome (A : Type) := Done (a : A) | Panic.
Arguments Done {A} a.
Arguments Panic {A}.

Definition read (a : addr) (s : st) : option cell := nth_error (heap s) a.

(* &serviceUris{...}: a fresh cell; its initialisation is a write to that cell *)
Definition alloc (c : cell) (s : st) : addr * st :=
  (length (heap s), St (heap s ++ [c]) (wlog s ++ [length (heap s)])).

Fixpoint update_nth {A} (n : nat) (f : A -> A) (l : list A) : list A :=
  match l, n with
  | [], _ => []
  | x :: r, O => f x :: r
  | x :: r, S n' => x :: update_nth n' f r
  end.

(* in-place mutation of the map of cell a *)
Definition write (a : addr) (f : umap -> umap) (s : st) : st :=
  St (update_nth a (fun c => Cell (c_zk c) (f (c_uris c))) (heap s)) (wlog s ++ [a]).

(* serviceUris.copy (serviceUris.go:74-85): a new struct with a new map holding the same entries; the loop's
   stores all go to the new cell.  Dereferencing a nil receiver panics. *)
Definition copy (w : addr) (s : st) : outcome (addr * st) :=
  match read w s with
  | None => Panic
  | Some c => Done (alloc (Cell (c_zk c) (c_uris c)) s)
  end.

(* ---------------------------------------------------------------------------------------------- handlers *)

Definition is_nil {A} (l : list A) : bool := match l with [] => true | _ => false end.

(* handleUriUpdate (client.go:170-200): returns the snapshot to publish *)
Definition handle_uri_update (w : addr) (e : tce) (s : st) : outcome (addr * st) :=
  match read w s with
  | None => Panic                                                           (* watcher.zkPath on nil *)
  | Some c =>
      let path := trim_prefix (c_zk c) (ev_path e) in                       (* :171 *)
      if is_nil path then Done (w, s)                                       (* :173-175 *)
      else match ev_data e with
           | None =>                                                        (* :177-181 *)
               match copy w s with
               | Panic => Panic
               | Done (w', s') => Done (w', write w' (aremove path) s')
               end
           | Some (PMalformed _) => Done (w, s)                             (* :184-188 *)
           | Some (PDecoded u) =>
               if is_nil u then Done (w, s)                                 (* :190-193 *)
               else match copy w s with                                     (* :197-199 *)
                    | Panic => Panic
                    | Done (w', s') => Done (w', write w' (aset path u) s')
                    end
           end
  end.

(* waitForUriUpdates (client.go:163-168), one iteration per event; the state is (published snapshot, heap) *)
Fixpoint run (hist : list tce) (w : addr) (s : st) : outcome (addr * st) :=
  match hist with
  | [] => Done (w, s)
  | e :: r => match handle_uri_update w e s with
              | Panic => Panic
              | Done (w', s') => run r w' s'
              end
  end.

(* the same loop, also returning every snapshot that was published on the way (the one after each event) *)
Fixpoint run_trace (hist : list tce) (w : addr) (s : st) : outcome (list addr * st) :=
  match hist with
  | [] => Done ([], s)
  | e :: r => match handle_uri_update w e s with
              | Panic => Panic
              | Done (w', s') => match run_trace r w' s' with
                                 | Panic => Panic
                                 | Done (ws, s'') => Done (w' :: ws, s'')
                                 end
              end
  end.

(* the event-delivery layer: the loop consumes its channel burst by burst (a burst = the events that are already
   waiting when the loop runs again); a snapshot is published after every event, the last one of each burst is
   what a reader sees once the burst is consumed.  Returns the snapshot published at the end of each burst. *)
Fixpoint run_bursts (bursts : list (list zevent)) (w : addr) (s : st) : outcome (list addr * st) :=
  match bursts with
  | [] => Done ([], s)
  | b :: r => match run (map to_tce b) w s with
              | Panic => Panic
              | Done (w', s') => match run_bursts r w' s' with
                                 | Panic => Panic
                                 | Done (ws, s'') => Done (w' :: ws, s'')
                                 end
              end
  end.

(* ---------------------------------------------------------------------------------------------- services *)

(* Service (defs.go:18-24), the fields host selection uses *)
Record service := Service { s_cluster : bytes; s_schemes : list bytes }.

(* outcome of json.Unmarshal on event.Data into a fresh Service: on error the struct holds whatever was decoded
   before the error (the zero value for a syntax error) *)
Inductive spayload :=
| SMalformed (partial : service)
| SDecoded (s : service).

Record stce := Stce { sev_path : bytes; sev_data : option spayload }.

(* handleServiceUpdate (client.go:147-161); [path] = ServicesPath(serviceName).  None = nil (no update): another
   path, a removed node, or a payload that does not decode (:155-158, the repair of D37). *)
Definition handle_service_update (path : bytes) (e : stce) : option service :=
  if negb (bytes_eqb (sev_path e) path) then None
  else match sev_data e with
       | None => None
       | Some (SMalformed _) => None
       | Some (SDecoded s) => Some s
       end.

(* waitForServiceUpdates (client.go:138-145) *)
Fixpoint run_service (path : bytes) (hist : list stce) (cur : option service) : option service :=
  match hist with
  | [] => cur
  | e :: r => match handle_service_update path e with
              | Some s => run_service path r (Some s)
              | None => run_service path r cur
              end
  end.
