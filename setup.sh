#!/bin/sh
# Build the framework from files on disk only (offline): translator, tables, the whole Coq development.
set -e
cd "$(dirname "$0")"
export GOFLAGS=-mod=mod GOPROXY=off GOSUMDB=off GOTOOLCHAIN=local
python3 - <<'PY'
import sys, os
sys.path.insert(0, "checks")
import lib
srcs = lib.translate()
print("translator: %d symbols" % len(srcs))
lib.coq_project()
import codec
codec.write_fam_env()
lib.coq_project()
# -k: build everything that builds; a file that does not compile is reported by the check that depends on it
# (each check rebuilds its own targets and turns a failure into a proof-broken verdict)
rc, o = lib.sh(["make", "-j%d" % lib.NCPU, "-k"], cwd=lib.COQ, timeout=7000)
print(o[-3000:])
if rc != 0:
    print("setup: some Coq files did not build (see above); the checks depending on them will report it")
sys.exit(0)
PY
