#!/bin/sh
# Build the framework from files on disk only (offline): translator, tables, the whole Coq development.
set -e
cd "$(dirname "$0")"
export GOFLAGS=-mod=mod GOPROXY=off GOSUMDB=off GOTOOLCHAIN=local
python3 - <<'PY'
import sys, os
sys.path.insert(0, "checks")
import lib
srcs = lib.translate()
print("translator: %d symbols" % len(srcs))
lib.coq_project()
rc, o = lib.sh(["make", "-j%d" % lib.NCPU], cwd=lib.COQ, timeout=7000)
print(o[-3000:])
sys.exit(rc)
PY
