from generic import run_check


def main(tier, seed, replay):
    return run_check(
        "C18", tier, seed, replay,
        tables=["TablesLazyMap"],
        model_targets=["D2/LazyMap.vo", "Corr/C18Corr.vo"],
        prop_module="Props.C18",
        driver="c18",
        corr_name="corr:lazymap-forced-schedules (model run vs real LazySyncMap under the same forced schedule: return values, "
                  "compute counts, final loads, yield-point sequence; returned Go values are decoded bit-exactly to the model's "
                  "value tokens for each of the 12 value kinds; a run whose program, schedule and token-level observations are "
                  "identical to a case already written shares that case's model evaluation)",
        trusted=[
            "modelled, not verified: sync.Map (each LoadOrStore / Load / Store call is one atomic step on a map from keys to "
            "entries), sync.WaitGroup (Wait returns iff Done has run; the counter is 1 from Add(1) at allocation), the Go "
            "scheduler and memory model (a schedule is a sequence of goroutine ids; one step = the code between two yield points, "
            "which contains exactly one operation on shared state; weak-memory effects on the plain field inFlightValue.v are "
            "outside the model - the accesses are ordered by the sync.Map and WaitGroup operations)",
            "hooks: the yield(N) calls in /repo/d2/lazymap/lazymap.go and /repo/v2/d2/lazymap/lazymap.go (no-ops without the build "
            "tag verif, yield_off.go; with it, yield_on.go forwards to the package variable Hook) - the model's step boundaries "
            "are these yield points, and their sequence is part of every compared observation",
            "the Go schedule controller (harness/cmd/c18): parks every goroutine inside the hook, releases exactly one at a time "
            "in the order of the schedule and records return values, compute counts, final loads and yield points; schedules come "
            "from a Go copy of the model's step function (every case is re-run by the Coq model; besides choosing schedules the "
            "copy is used for one prediction, below: a wrong copy can reduce coverage or raise a false alarm there, never hide a "
            "defect); a goroutine parked before a Wait is only released when the model says Done has run, so the code between that "
            "yield point and the Wait runs before Done only in the separate wait probes: they release the waiter early, require that "
            "it blocks, then let everybody run freely and require that the waiter returns exactly the value the placeholder's owner "
            "computes (signature waiter-wrong-value; prediction from the Go copy of the model)",
            "free-running completions (after a wait probe, a strict prefix of a schedule, or a divergence from the model's step "
            "sequence) are not compared with the model (their interleaving is the Go scheduler's); what the calls returned and the "
            "final map are judged by the schedule-independent predicates only: no placeholder / nil returned, at most one compute "
            "(Store closures are not counted there), callers agree on a key nobody stores to, the final value of a stored key is a "
            "stored value and not one overwritten later by the same goroutine",
            "translator harness/cmd/extract/t_lazymap.go (go/parser AST walk, both modules): per function the sequence of yield "
            "points, atomic calls, returns, accesses to the result field v, type assertions, defer/go, the form of each if condition "
            "and each boolean flag assignment (variables by the parser's resolution); Props.C18.source_shape_is_modelled, "
            "waiters_read_result_after_wait and store_overwrites_iff_its_closure_did_not_run compare it with what D2/LazyMap.v "
            "transcribes - expressions inside calls and conditions other than these forms are not extracted",
            "the linearizability checker of the driver (brute force over <= 6 calls) is an independent oracle on the "
            "implementation's observations; the proof side is Props.C18.linearizable",
            "values: the model's values are abstract tokens with identity (LazyMap.v val := nat; the model never compares, copies "
            "partially or inspects a value, and Store always takes effect). The driver (harness/cmd/c18/values.go) represents the "
            "tokens as Go values of 12 kinds - int (every case, exactly the cases run before value kinds existed), pointer (distinct "
            "allocations with equal contents), string (incl. \"\"), float64 in two token assignments (+0/-0, two NaN payloads, "
            "infinities, denormal), complex128 (the four signed zeros, NaNs), slice, map, struct with a slice field (equal contents, "
            "distinct backing arrays), struct with float fields (the eight sign patterns of three zeros: pairwise Go-== yet "
            "distinguishable), a mixture of dynamic types incl. typed nil pointer and nil slice, and that mixture inside "
            "struct{V interface{}} - for a seeded rotation of 3 (thorough: 2; all 11 for exhaustively scheduled programs) further kinds "
            "per forced schedule and for all kinds on the sequential histories (one goroutine, <= 4 operations, thorough <= 5). "
            "Returned values are decoded BIT-EXACTLY (math.Float64bits: a NaN must come back as the same NaN, -0 is not +0; pointers, "
            "slices and maps by the identity of the allocation; structs field by field); a value that is not bit-for-bit one of the "
            "kind's values is reported like a leaked placeholder. The encoding tables are checked injective at start-up. A panic "
            "escaping LoadOrStore / Load / Store is recovered and is a failing input (signature panic:<operation>:<value kind>); the "
            "remaining goroutines of that schedule are then left to run freely under a deadline",
        ],
        assume=[
            "the compute functions passed to LoadOrStore are pure and total: they return a value, do not panic, do not block and "
            "do not call back into the same map (an operation carries the value its function returns)",
            "keys are never deleted (LazySyncMap exposes no Delete/Range; callers do not reach into the underlying sync.Map)",
            "values are not themselves *inFlightValue pointers, and are not the untyped nil interface (the model's RNil stands for a "
            "placeholder cell read before its value was written; typed nil pointers and nil slices ARE exercised)",
            "values are exercised for the 12 kinds above only: func and chan values, arrays, and keys other than the ints 0 and 1 "
            "(sync.Map requires hashable keys; NaN keys can never be found again) are not exercised",
        ],
        coqchk_modules=["GR.Props.C18"],
    )
