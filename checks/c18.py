from generic import run_check


def main(tier, seed, replay):
    return run_check(
        "C18", tier, seed, replay,
        tables=["TablesLazyMap"],
        model_targets=["D2/LazyMap.vo", "Corr/C18Corr.vo"],
        prop_module="Props.C18",
        driver="c18",
        corr_name="corr:lazymap-forced-schedules (model run vs real LazySyncMap under the same forced schedule: return values, "
                  "compute counts, final loads, yield-point sequence)",
        trusted=[
            "modelled, not verified: sync.Map (each LoadOrStore / Load / Store call is one atomic step on a map from keys to "
            "entries), sync.WaitGroup (Wait returns iff Done has run; the counter is 1 from Add(1) at allocation), the Go "
            "scheduler and memory model (a schedule is a sequence of goroutine ids; one step = the code between two yield points, "
            "which contains exactly one operation on shared state; weak-memory effects on the plain field inFlightValue.v are "
            "outside the model - the accesses are ordered by the sync.Map and WaitGroup operations)",
            "hooks: the yield(N) calls in /repo/d2/lazymap/lazymap.go and /repo/v2/d2/lazymap/lazymap.go (no-ops without the build "
            "tag verif, yield_off.go; with it, yield_on.go forwards to the package variable Hook) - the model's step boundaries "
            "are these yield points, and their sequence is part of every compared observation",
            "the Go schedule controller (harness/cmd/c18): parks every goroutine inside the hook, releases exactly one at a time "
            "in the order of the schedule and records return values, compute counts, final loads and yield points; schedules come "
            "from a Go copy of the model's step function (a wrong copy can only reduce coverage: every case is re-run by the Coq "
            "model); a goroutine parked before a Wait is only released when the model says Done has run, and separate wait probes "
            "check that releasing it earlier really blocks",
            "the linearizability checker of the driver (brute force over <= 6 calls) is an independent oracle on the "
            "implementation's observations; the proof side is Props.C18.linearizable",
        ],
        assume=[
            "the compute functions passed to LoadOrStore are pure and total: they return a value, do not panic, do not block and "
            "do not call back into the same map (an operation carries the value its function returns)",
            "keys are never deleted (LazySyncMap exposes no Delete/Range; callers do not reach into the underlying sync.Map)",
            "values are not themselves *inFlightValue pointers",
        ],
        coqchk_modules=["GR.Props.C18"],
    )
