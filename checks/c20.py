from generic import run_check


def main(tier, seed, replay):
    return run_check(
        "C20", tier, seed, replay,
        tables=["TablesClean"],
        model_targets=["Gen2/Clean.vo", "Gen2/CleanHistory.vo", "Corr/C20Corr.vo"],
        prop_module=["Props.C20", "Props.C20_history"],
        driver="c20",
        corr_name="corr:clean-tree (model clean_target vs real CleanTargetDir: resulting tree and success flag)",
        trusted=[
            "modelled, not verified: the file system (os.ReadDir sorted listing, os.Remove failing on a non-empty directory, "
            "os.Stat, os.MkdirAll, os.WriteFile) - a directory is its sorted list of children; symlinks and permissions are outside "
            "the model (symlinks are exercised by the driver's oracle; an unwritable directory only when the check does not run as root)",
            "WHAT THE COQ THEOREMS COVER: (1) Props/C20.v - the model of CleanTargetDir (Gen2/Clean.v, files and directories are "
            "distinct constructors: a directory named x.gr.go is a directory), compared with the real CleanTargetDir of both modules "
            "on every tree case (whole resulting tree, contents included, and the success flag); (2) Props/C20_history.v - histories of "
            "any number of generator runs on one directory, each run modelled as clean + MkdirAll + a list of writes of owned names "
            "(MkdirAll/Remove/WriteFile, aborted at the first failure): foreign files are invariant over every history (successful or "
            "failed runs), and a successful run leaves exactly the files it wrote as owned files whatever happened before "
            "(history_keeps_foreign_files, regeneration_after_any_history, regeneration_reproduces; by induction over the history)",
            "ORACLE-ONLY (tested, not proved): that the real cmd.GenerateCode does nothing to the file system except calling "
            "CleanTargetDir and writing owned names, that it writes the same files for the same schema set, and that a regeneration "
            "succeeds.  The driver runs the real cmd.GenerateCode of both modules in child processes over generate / regenerate / "
            "changed-schema / failing-generation histories (obstacle at every stage, namespaces and package roots with vendor, internal, "
            "testdata, .hidden, ... segments, output directory given by path or as '.') with foreign files present, and checks after EVERY "
            "run that nothing outside the output directory changed, every not-owned file is byte-identical, every new file has an owned "
            "name, and that a run with no obstacle succeeds and reproduces the owned files of a generation into a fresh directory.  No "
            "model is evaluated on these histories; the write model of Gen2/CleanHistory.v is not compared with the implementation",
            "determinism and compilability of the generated code itself are C12's, not checked here; the schema sets used in the "
            "histories are small (records, enums, a typeref made custom by a hand-written file, one collection resource)",
            "scratch trees are built on tmpfs (/dev/shm) when it is available, else under the system temporary directory",
        ],
        assume=["names within a directory are unique and listed in os.ReadDir (byte-sorted) order"],
        coqchk_modules=["GR.Props.C20", "GR.Props.C20_history"],
    )
