from generic import run_check


def main(tier, seed, replay):
    return run_check(
        "C20", tier, seed, replay,
        tables=["TablesClean"],
        model_targets=["Gen2/Clean.vo", "Corr/C20Corr.vo"],
        prop_module="Props.C20",
        driver="c20",
        corr_name="corr:clean-tree (model clean_target vs real CleanTargetDir: resulting tree and success flag)",
        trusted=[
            "modelled, not verified: the file system (os.ReadDir sorted listing, os.Remove failing on a non-empty directory, "
            "os.Stat) - a directory is its sorted list of children; symlinks and permissions are outside the model",
            "regeneration ('regenerating after cleaning reproduces the same files') is covered by C12's generator runs, not here",
        ],
        assume=["names within a directory are unique and listed in os.ReadDir (byte-sorted) order"],
        coqchk_modules=["GR.Props.C20"],
    )
