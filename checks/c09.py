from codecmode import run


def main(tier, seed, replay):
    return run("C09", "c09", tier, seed, replay, "Props.C09", "corr:canonical-bytes (the model's single output vs every encoding in every process)")
