import rootmode
from codecmode import run


def main(tier, seed, replay):
    return run("C01", "c01", tier, seed, replay, ["Props.C01", "Props.C01_ror2", "Props.C01_json"],
               "corr:codec-roundtrip (model encoder bytes and model decoder value vs the generated bindings, 5 wire formats)",
               assume=["JSON cannot carry strings that are not valid UTF-8: the JSON round trip is claimed for valid UTF-8 strings and keys "
                       "(bytes and fixed: arbitrary); ROR2: arbitrary byte strings"],
               post=rootmode.post("c01"))
