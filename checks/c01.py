import codec
from generic import run_check


def build(work):
    exe, schema = codec.build_driver(work)
    return exe, dict(VERIF_SCHEMA=schema, VERIF_MODE="c01")


def main(tier, seed, replay):
    codec.write_fam_env()
    return run_check(
        "C01", tier, seed, replay,
        tables=["TablesCodec"],
        model_targets=["Corr/CodecCorr.vo"],
        prop_module="Props.C01",
        driver="codecdrv", build=build,
        corr_name="corr:codec (model encoder bytes / decoder value vs the generated bindings, 5 wire formats)",
        trusted=[],
        assume=[],
        coqchk_modules=["GR.Props.C01"],
    )
