"""Shared pipeline for the schema-quantified codec checks: family manifest -> REAL generator (current tree) -> scratch Go module
with the freshly generated bindings -> driver (harness/codecdrv) built against them."""
import json, os, shutil
import family
from lib import *


def write_fam_env():
    """coq/Gen/FamEnv.v: the family as a Coq env (regenerated; the source of truth is checks/family.py)"""
    body = ("(* the schema family (checks/family.py) as a Coq environment - regenerated, do not edit *)\n"
            "From Coq Require Import List. Import ListNotations.\nFrom Coq.Strings Require Import Byte.\n"
            "From GR Require Import Base.Bytes Codec.Schema.\n\nDefinition fam_env : env :=\n %s.\n" % family.coq_env())
    p = os.path.join(COQ, "Gen", "FamEnv.v")
    os.makedirs(os.path.dirname(p), exist_ok=True)
    if not os.path.exists(p) or open(p).read() != body:
        with Lock("coq"):
            open(p, "w").write(body)


def build_driver(work):
    """returns (driver exe, schema.json path); raises Broken when the generator or the generated code no longer builds"""
    mod = os.path.join(work, "verifgen")
    os.makedirs(mod)
    famgen = go_build("famgen", os.path.join(BUILD, "famgen"), tags="verif")
    open(os.path.join(mod, "go.mod"), "w").write(
        "module verifgen\n\ngo 1.18\n\nrequire github.com/PapaCharlie/go-restli/v2 v2.0.0\n\n"
        "replace github.com/PapaCharlie/go-restli/v2 => %s/v2\n" % REPO)
    shutil.copy(os.path.join(REPO, "v2", "go.sum"), os.path.join(mod, "go.sum"))
    json.dump(family.manifest("verifgen/gen"), open(os.path.join(mod, "fam.json"), "w"))
    json.dump(family.go_schema(), open(os.path.join(mod, "schema.json"), "w"))
    dep = os.path.join(REPO, "v2", "restlidata", "generated", "go-restli-manifest.gr.json")
    rc, o = sh([famgen, dep, "fam.json", "gen"], cwd=mod, env=env_go(), timeout=300)
    if rc != 0:
        raise Broken("correspondence", "the real generator fails on the family manifest", o[-4000:])
    shutil.copytree(os.path.join(HARNESS, "hx"), os.path.join(mod, "hx"))
    shutil.copytree(os.path.join(HARNESS, "codecdrv"), os.path.join(mod, "drv"))
    exe = os.path.join(mod, "drv.exe")
    rc, o = sh(["go", "build", "-tags", "verif", "-o", exe, "./drv"], cwd=mod, env=env_go(), timeout=900)
    if rc != 0:
        raise Broken("correspondence", "the generated bindings / driver do not build", o[-6000:])
    return exe, os.path.join(mod, "schema.json")
