"""C03 - wire-format conformance against an independent Rest.li 2.0 reference.
Same flow as codecmode.run (mode "c03" of harness/codecdrv, Props.C03), with one more regenerated table (TablesConform: the
envelope member names and protocol headers of the current tree, compared with the protocol's names by Props/C03.v)."""
import codec
from codecmode import MODELLED
from generic import run_check

TRUSTED = [
    "the reference coq/Spec/RestliSpec.v (inductive relations json_denotes / ror2_denotes written from the Rest.li 2.0 protocol "
    "description) is the specification: it is trusted to say what the protocol says.  It shares with the model only the types "
    "bytes/value/ty/env/jdoc, Utf8.utf8_encode (code point -> UTF-8) and the decimal printer Base/Dec.print_dec",
    "shared lexical layer: the byte-level JSON statements go through Codec/Json.parse_json (strict RFC 8259 parser, modelled, "
    "not verified); the driver grounds it outside Coq: every emitted document is parsed by Go's encoding/json (UseNumber) plus "
    "a duplicate-key / UTF-8 validator, and by an independent ROR2 reference parser written from the grammar (harness/codecdrv/c03.go)",
    "float text: the theorems are stated for an abstract relation float_text (decimal text denotes these bits); premises printed "
    "with the theorems: Go's formatter prints a non-empty text that denotes the finite float it formats (output theorems); Go's "
    "parser accepts every text that denotes a float and reads NaN / Infinity / -Infinity as Go's NaN and the two infinities "
    "(acceptance theorems) - strconv oracle premises, DESIGN 3.5",
    "what is PROVED vs only CHECKED: proved for all schemas/values - soundness of the JSON tree and of the ROR2 bytes of every "
    "emitted document (side condition: no nullable union with its null member selected - refuted otherwise), ROR2 grammar "
    "membership of every rendering, reserved characters never raw, emitted keys, acceptance (converse) at JSON tree level for "
    "all types over plain schemas (no included record, no default) and for leaf/array/map types over any schema, ROR2 acceptance "
    "of leaf values under any percent-encoding (cursor-level reader).  NOT proved, "
    "covered by the differential check only: JSON bytes <-> tree (json_parse_render_full), acceptance with included records and "
    "defaults (json_accepts_all_conforming_full), ROR2 acceptance of containers (ror2_accepts_all_conforming_full), envelope SHAPES (only the "
    "member and header NAMES are proved equal to the protocol's through the regenerated table TablesConform)",
    "decision D11: ROR2 bytes/fixed values are the percent-encoded OCTETS (byte 0x80 -> %80); the reference accepts this form "
    "(Java Rest.li would emit the UTF-8 of the code point, %C2%80); recorded as a documented deviation, not a violation",
]


def main(tier, seed, replay):
    def build(work):
        exe, schema = codec.build_driver(work)
        return exe, dict(VERIF_SCHEMA=schema, VERIF_MODE="c03")
    codec.write_fam_env()
    return run_check(
        "C03", tier, seed, replay,
        tables=["TablesCodec", "TablesConform"],
        model_targets=["Corr/CodecCorr.vo"],
        prop_module="Props.C03",
        driver="codecdrv", build=build,
        corr_name="corr:conformance (model decoders vs the library's readers on reference-rendered conforming variants; "
                  "model encoder bytes vs the writers)",
        trusted=MODELLED + TRUSTED,
        assume=["JSON cannot carry strings that are not valid UTF-8: JSON conformance is claimed for valid UTF-8 strings and keys "
                "(bytes and fixed: arbitrary); ROR2: arbitrary byte strings",
                "a nullable union with no member set has no Rest.li wire form other than null: the output theorems carry the side "
                "condition that the value holds no such union (see json_output_conforms_refuted)"],
        coqchk_modules=["GR.Props.C03"],
        driver_timeout=3000,
    )
