"""The schema family on which the schema-quantified theorems are instantiated for the correspondence check.
Single source of truth: emits (a) a go-restli v2 manifest for the REAL generator, (b) the same schemas as a Coq `env`
term, (c) a JSON description read by the Go driver (reflection over the generated bindings)."""
import json

NS = "fam"


def P(p): return {"primitive": p}
def R(n): return {"reference": {"name": n, "namespace": NS}}
def A(t): return {"array": t}
def M(t): return {"map": t}


def F(name, ty, opt=False, default=None):
    f = {"name": name, "doc": "", "type": ty, "isOptional": opt}
    if default is not None:
        f["defaultValue"] = default
    return f


def named(name):
    return {"name": name, "namespace": NS, "sourceFile": "family", "doc": ""}


def record(name, fields, includes=()):
    d = named(name)
    d["includes"] = [{"name": i, "namespace": NS} for i in includes]
    d["fields"] = fields
    return {"record": d}


def enum(name, symbols):
    d = named(name)
    d["Symbols"] = symbols
    d["SymbolToDoc"] = {}
    return {"enum": d}


def fixed(name, size):
    d = named(name)
    d["Size"] = size
    return {"fixed": d}


def typeref(name, prim):
    d = named(name)
    d["type"] = prim
    d["isCustom"] = False
    return {"typeref": d}


def union(name, members, has_null=False):
    d = named(name)
    d["Union"] = {"HasNull": has_null, "Members": [{"Type": t, "Alias": a} for a, t in members]}
    return {"standaloneUnion": d}


def complexkey(name, key, params):
    d = named(name)
    d["Key"] = {"name": key, "namespace": NS}
    d["Params"] = {"name": params, "namespace": NS}
    return {"complexKey": d}


PRIMS = ["int32", "int64", "float32", "float64", "bool", "string", "bytes"]

TYPES = [
    enum("Color", ["RED", "GREEN", "BLUE"]),
    fixed("Fx4", 4),
    typeref("Tlong", "int64"),
    typeref("Tstr", "string"),
    record("Inner", [F("a", P("int32")), F("s", P("string"), opt=True)]),
    record("Prims", [F("i", P("int32")), F("l", P("int64")), F("f", P("float32")), F("d", P("float64")),
                     F("b", P("bool")), F("s", P("string")), F("y", P("bytes"))]),
    record("Opts", [F("i", P("int32"), True), F("l", P("int64"), True), F("f", P("float32"), True),
                    F("d", P("float64"), True), F("b", P("bool"), True), F("s", P("string"), True),
                    F("y", P("bytes"), True), F("e", R("Color"), True), F("fx", R("Fx4"), True),
                    F("tl", R("Tlong"), True), F("ts", R("Tstr"), True)]),
    record("Dflt", [F("d", P("int32"), default="42"), F("ds", P("string"), default='"x\\"y"'),
                    F("da", A(P("int32")), default="[1,2]"), F("dm", M(P("int32")), default="{}"),
                    F("de", R("Color"), default='"GREEN"'), F("dr", R("Inner"), default='{"a":7}'),
                    F("db", P("bool"), default="true"), F("dd", P("float64"), default="2.5"),
                    F("r", P("int32"))]),
    record("Coll", [F("arr", A(P("string"))), F("m", M(P("string"))), F("marr", M(A(R("Inner")))),
                    F("am", A(M(P("int64")))), F("ab", A(P("bytes")), True), F("mf", M(P("float64")), True)]),
    union("U", [("int", P("int32")), ("string", P("string")), ("fam.Inner", R("Inner")), ("array", A(P("string"))),
                ("fam.Color", R("Color"))]),
    union("UN", [("long", P("int64")), ("fam.Inner", R("Inner"))], has_null=True),
    record("WithU", [F("u", R("U")), F("ou", R("U"), True), F("un", R("UN"), True), F("au", A(R("U")), True)]),
    record("DOuter", [F("dn", R("Dflt")), F("dx", P("int32"), default="5"), F("dopt", R("Dflt"), True),
                      F("dl", P("int64"), default="-9007199254740993"), F("dy", P("bytes"), default='"a\\u00ffb"'),
                      F("dfx", R("Fx4"), default='"\\u0000\\u0001\\u00fe\\u00ff"'), F("du", R("U"), default='{"string":"u"}')]),
    record("Incl", [F("z", P("string"))], includes=["Inner", "Dflt"]),
    record("Incl2", [F("w", P("int32"), True)], includes=["Incl"]),
    record("Rec", [F("v", P("int32")), F("next", R("Rec"), True), F("kids", A(R("Rec")), True)]),
    record("Big", [F("p", R("Prims")), F("o", R("Opts"), True), F("c", R("Coll"), True), F("wu", R("WithU"), True),
                   F("inc", R("Incl2"), True), F("e", R("Color")), F("fx", R("Fx4")), F("tl", R("Tlong")),
                   F("dflt", R("Dflt"), True), F("rec", R("Rec"), True)]),
    complexkey("CK", "Inner", "Inner"),
    # include chain with two siblings (required-field lists built by NewRequiredFields(included...).Add(...) share prefixes)
    record("IBase", [F("b1", P("int32")), F("b2", P("string"))]),
    record("IMid", [F("m1", P("int32"))], includes=["IBase"]),
    record("IX", [F("x1", P("string"))], includes=["IMid"]),
    record("IY", [F("y1", P("string")), F("y2", P("int32"), True)], includes=["IMid"]),
    # defaults whose elements are records / nested collections (freshness of default-populated values across instances)
    record("DElems", [F("ar", A(R("Inner")), default='[{"a":1},{"a":2,"s":"x"}]'),
                      F("mr", M(R("Inner")), default='{"k":{"a":3}}'),
                      F("ma", M(A(P("int32"))), default='{"k":[1,2]}'),
                      F("e", R("Color"))]),
    # APPENDED (not in TOP: only the modes that name them exercise them - c06, c13, cany):
    # a record made of defaulted fields only (every primitive kind with a NON-ZERO default, non-empty collection defaults) ...
    record("DIn", [F("b", P("string"), default='"bee"'), F("n", P("int32"), default="7"), F("tags", A(P("string")), default='["t"]'),
                   F("c", P("string"), True), F("m", M(P("int32")), True), F("k", P("bool"), default="true"),
                   F("x", P("float64"), default="0.5"), F("l", P("int64"), default="3600"), F("w", M(P("int32")), default='{"a":1}')]),
    # ... and record-typed defaults whose literal is the EMPTY object (with / without white space), a partial literal, and a literal
    # that contains an empty object: the default-populated field must carry DIn's own defaults
    record("DEmp", [F("de", R("DIn"), default="{}"), F("dsp", R("DIn"), default="{ }"), F("dp", R("DIn"), default='{"c":"x","n":8}'),
                    F("dq", R("DIn"), default='{"c":"y","m":{}}'), F("dz", P("int32"), default="3"),
                    F("dms", M(P("string")), default='{"k":"v"}'), F("dai", A(P("int32")), default="[4]"),
                    F("on", R("DIn"), True), F("ol", A(R("DIn")), True),
                    # collection defaults that CONTAIN an empty collection (not the empty collection), and spaced empty literals
                    F("aa", A(A(P("int32"))), default="[[]]"), F("mm", M(M(P("int32"))), default='{"a":{}}'),
                    F("aas", A(A(P("int32"))), default="[ ]"), F("mms", M(M(P("int32"))), default="{ }"),
                    F("am", A(M(P("int32"))), default="[{}]"), F("ma", M(A(P("string"))), default='{"k":[]}')]),
    # a WIDE record: 70 required fields, 36 of them through an include (required-field bookkeeping must not depend on the count)
    record("WBase", [F("a%02d" % i, P("string") if i % 9 == 4 else P("int32")) for i in range(36)]),
    record("Wide", [F("f%02d" % i, P("bool") if i % 8 == 5 else P("int32")) for i in range(34)] +
           [F("wo", P("int32"), True), F("wi", R("Inner"), True), F("wl", A(R("Inner")), True)], includes=["WBase"]),
    # a chain of three REQUIRED record fields, each record with defaults of its own (a fresh default instance must carry the defaults at
    # every depth, not only one level down)
    record("D3", [F("x", P("int32"), default="5"), F("tags", A(P("string")), default='["t"]'), F("o", P("string"), True)]),
    record("D2", [F("deep", R("D3")), F("k", P("int32"), default="2")]),
    record("D1", [F("rRec", R("D2")), F("j", P("int32"), default="1")]),
    # ... and the same chain with a middle record that declares NO default of its own (G2): the defaults of G3 are two levels down
    record("G3", [F("x", P("int32"), default="5"), F("o", P("string"), True)]),
    record("G2", [F("deep", R("G3"))]),
    record("G1", [F("mid", R("G2")), F("j", P("int32"), default="1")]),
    # a record with NO required field of its own whose optional members hold records that have required fields
    record("ONest", [F("oi", R("Inner"), True), F("al", A(R("Inner")), True), F("mi", M(R("Inner")), True), F("n", P("int32"), True)]),
    # an enum whose symbols are not all upper case (symbols are case-sensitive identifiers), held in every position
    enum("Unit", ["kg", "Lb", "metricTon", "UP", "up"]),
    record("UHold", [F("u", R("Unit")), F("ou", R("Unit"), True), F("au", A(R("Unit")), True), F("mu", M(R("Unit")), True)]),
    # records with includes and NO own fields (and a record including such a record)
    record("Alias", [], includes=["IBase"]),
    record("Alias2", [F("q", P("int32"), True)], includes=["Alias"]),
]

# top-level types the drivers exercise
TOP = ["Inner", "Prims", "Opts", "Dflt", "DOuter", "Coll", "U", "UN", "WithU", "Incl", "Incl2", "Rec", "Big", "Color", "Fx4", "IX", "IY", "DElems", "UHold"]


def manifest(package_root):
    return {"packageRoot": package_root, "inputDataTypes": TYPES, "dependencyDataTypes": [], "resources": []}


def type_names():
    out = []
    for t in TYPES:
        (kind, d), = t.items()
        out.append(d["name"])
    return out


if __name__ == "__main__":
    import sys
    json.dump(manifest(sys.argv[1] if len(sys.argv) > 1 else "verifgen/gen"), sys.stdout, indent=1)


# ------------------------------------------------------------------------------------------------ Coq / Go views

def env_defs():
    """records and unions, in TYPES order: these are the entries of the Coq env (TRef n = index here)"""
    out = []
    for t in TYPES:
        (kind, d), = t.items()
        if kind in ("record", "standaloneUnion"):
            out.append((kind, d))
    return out


def env_index():
    return {d["name"]: i for i, (k, d) in enumerate(env_defs())}


def named_kind():
    m = {}
    for t in TYPES:
        (kind, d), = t.items()
        m[d["name"]] = (kind, d)
    return m


def cb(s):
    if isinstance(s, str):
        s = s.encode("utf-8")
    return "[" + ";".join("x%02x" % c for c in s) + "]"


PRIM_COQ = {"int32": "PInt", "int64": "PLong", "float32": "PFloat", "float64": "PDouble", "bool": "PBool",
            "string": "PString", "bytes": "PBytes"}


def coq_ty(t):
    if "primitive" in t:
        return "(TPrim %s)" % PRIM_COQ[t["primitive"]]
    if "array" in t:
        return "(TArray %s)" % coq_ty(t["array"])
    if "map" in t:
        return "(TMap %s)" % coq_ty(t["map"])
    name = t["reference"]["name"]
    kind, d = named_kind()[name]
    if kind == "enum":
        return "(TEnum [%s])" % ";".join(cb(s) for s in d["Symbols"])
    if kind == "fixed":
        return "(TFixed %d)" % d["Size"]
    if kind == "typeref":
        return "(TPrim %s)" % PRIM_COQ[d["type"]]
    return "(TRef %d)" % env_index()[name]


def coq_env():
    idx = env_index()
    items = []
    for kind, d in env_defs():
        if kind == "record":
            fs = []
            for f in d["fields"]:
                if "defaultValue" in f:
                    o = "(Default %s)" % cb(f["defaultValue"])
                elif f["isOptional"]:
                    o = "Optional"
                else:
                    o = "Required"
                fs.append("{| f_name := %s; f_ty := %s; f_opt := %s |}" % (cb(f["name"]), coq_ty(f["type"]), o))
            items.append("DRecord [%s] [%s]" % (";".join(str(idx[i["name"]]) for i in d["includes"]), ";\n   ".join(fs)))
        else:
            ms = ["(%s, %s)" % (cb(m["Alias"]), coq_ty(m["Type"])) for m in d["Union"]["Members"]]
            items.append("DUnion %s [%s]" % ("true" if d["Union"]["HasNull"] else "false", "; ".join(ms)))
    return "[" + ";\n ".join(items) + "]"


def top_ty(name):
    return coq_ty(R(name))


def go_schema():
    """JSON description read by the Go driver"""
    return {"types": TYPES, "top": TOP, "envIndex": env_index(), "ns": NS}


# ------------------------------------------------------------------------------------------------ resource family (C02 / C08)
# Additive: nothing above depends on this section.  RES_TYPES are extra schema types used only by the resource family.

RES_TYPES = [
    record("Ent", [F("id", P("int64"), True), F("name", P("string")), F("note", P("string"), True), F("inner", R("Inner"), True)]),
    record("Meta", [F("total", P("int32")), F("tag", P("string"), True)]),
    # annotated fields whose NAMES are prefixes of each other (id / idType, owner / ownerUrn), a read-only record field and a
    # nested create-only path (info/s) next to them, and an unannotated field whose name extends an annotated one (idTypeNote)
    record("Own", [F("id", P("int64"), True), F("idType", P("string"), True), F("idTypeNote", P("string"), True),
                   F("owner", P("string"), True), F("ownerUrn", P("string"), True), F("title", P("string")),
                   F("stamp", R("Inner"), True), F("info", R("Inner"), True)]),
]


def _m(kind, name, on_entity=False, params=(), paging=False, ret=None, metadata=None, return_entity=False):
    d = {"methodType": kind, "name": name, "doc": "", "onEntity": on_entity, "params": list(params),
         "isPagingSupported": paging, "returnEntity": return_entity}
    if ret is not None:
        d["return"] = ret
    if metadata is not None:
        d["metadata"] = metadata
    return d


_ENTITY_METHODS = ("get", "update", "partial_update", "delete")


def rest(name, schema, simple=False, params=(), paging=False, return_entity=False):
    return _m("REST_METHOD", name, on_entity=(not simple and name in _ENTITY_METHODS), params=params, paging=paging,
              ret=schema, return_entity=return_entity)


def finder(name, schema, params=(), paging=False, metadata=None):
    return _m("FINDER", name, params=params, paging=paging, ret=schema, metadata=metadata)


def action(name, on_entity=False, params=(), ret=None):
    return _m("ACTION", name, on_entity=on_entity, params=params, ret=ret)


def seg(name, key=None):
    return {"resourceName": name, "pathKey": None if key is None else {"name": name + "Id", "type": key}}


def resource(segs, schema, methods, read_only=(), create_only=()):
    d = {"namespace": NS + "." + ".".join(s["resourceName"] for s in segs), "doc": "", "sourceFile": "family",
         "resourcePathSegments": segs, "methods": methods, "readOnlyFields": list(read_only),
         "createOnlyFields": list(create_only)}
    if schema is not None:
        d["resourceSchema"] = schema
    return d


_ALL = ("get", "create", "update", "partial_update", "delete", "get_all", "batch_get", "batch_create", "batch_update",
        "batch_partial_update", "batch_delete")
_INNER, _ENT, _META = R("Inner"), R("Ent"), R("Meta")
_QP = [F("flag", P("bool"), True), F("names", A(P("string")))]


def _rests(schema, names, simple=False, with_params=(), paging=("get_all",), return_entity=()):
    return [rest(n, schema, simple=simple, params=_QP if n in with_params else (), paging=n in paging,
                 return_entity=n in return_entity) for n in names]


RESOURCES = [
    # collection keyed by int64: all REST methods, finders (params / paging / metadata), actions on collection and entity
    resource([seg("ints", P("int64"))], _INNER,
             _rests(_INNER, _ALL, with_params=("get", "create", "batch_get", "delete", "batch_update")) + [
                 finder("byName", _INNER, [F("name", P("string")), F("limit", P("int32"), True)], paging=True),
                 finder("plain", _INNER),
                 finder("paged", _INNER, paging=True, metadata=_META),
                 finder("byThings", _INNER, [F("inner", R("Inner")), F("ids", A(P("int64"))), F("color", R("Color"), True),
                                             F("ts", R("Tstr"), True), F("m", M(P("string")), True), F("u", R("U"), True)],
                        metadata=_META),
                 action("ping"),
                 action("count", params=[F("since", P("int64"))], ret=P("int32")),
                 action("touch", on_entity=True, params=[F("inner", R("Inner"), True), F("list", A(R("Inner")))], ret=_INNER),
                 action("names", on_entity=True, ret=A(P("string"))),
                 action("echo", params=[F("s", P("string")), F("y", P("bytes"), True)], ret=P("string")),
             ]),
    # return-entity variants
    resource([seg("rets", P("int64"))], _INNER,
             _rests(_INNER, ("get", "create", "partial_update", "batch_create"),
                    return_entity=("create", "partial_update", "batch_create"))),
    # collection keyed by string (keys with reserved characters)
    resource([seg("strs", P("string"))], _INNER,
             _rests(_INNER, _ALL, with_params=("get_all",)) + [
                 finder("byKey", _INNER, [F("k", P("string"))]),
                 action("poke", on_entity=True, params=[F("s", P("string"), True)], ret=P("string")),
             ]),
    # typeref key, enum key
    resource([seg("trefs", R("Tlong"))], _INNER, _rests(_INNER, ("get", "create", "delete", "batch_get", "batch_delete"))),
    resource([seg("enums", R("Color"))], _INNER, _rests(_INNER, ("get", "create", "update", "batch_get", "batch_update"))),
    # complex key
    resource([seg("cks", R("CK"))], _INNER,
             _rests(_INNER, _ALL) + [finder("near", _INNER, [F("k", R("Inner"), True)], paging=True),
                                      action("mark", on_entity=True, ret=P("bool"))]),
    # simple resource
    resource([seg("single")], _INNER,
             _rests(_INNER, ("get", "update", "partial_update", "delete"), simple=True, with_params=("get",)) + [
                 action("reset"), action("bump", params=[F("by", P("int32"))], ret=P("int64"))]),
    # action set
    resource([seg("tools")], None, [
        action("echo", params=[F("msg", P("string"))], ret=P("string")),
        action("noop"),
        action("sum", params=[F("xs", A(P("int64"))), F("w", M(P("int32")), True)], ret=P("int64")),
        action("make", params=[F("color", R("Color")), F("fx", R("Fx4"))], ret=_INNER),
        action("maybe", params=[F("u", R("UN"), True)], ret=R("U")),
    ]),
    # sub-resource under a parent (string) key, and a sub-sub-resource
    resource([seg("strs", P("string")), seg("subs", P("int64"))], _INNER,
             _rests(_INNER, ("get", "create", "update", "delete", "get_all", "batch_get", "batch_update", "batch_delete")) + [
                 finder("search", _INNER, [F("text", P("string"))], paging=True),
                 action("promote", on_entity=True), action("purge", ret=P("int32"))]),
    resource([seg("strs", P("string")), seg("subs", P("int64")), seg("leaves", P("string"))], _INNER,
             _rests(_INNER, ("get", "update", "delete", "batch_get", "partial_update")) + [
                 action("rustle", on_entity=True, params=[F("n", P("int32"))], ret=P("string"))]),
    resource([seg("strs", P("string")), seg("profile")], _INNER,
             _rests(_INNER, ("get", "update"), simple=True) + [action("refresh")]),
    # read-only / create-only fields
    resource([seg("ros", P("int64"))], _ENT,
             _rests(_ENT, ("get", "create", "update", "partial_update", "batch_create", "batch_update", "batch_partial_update")),
             read_only=("id",), create_only=("note",)),
    # ... every shape of the excluded-field sets over the same record: create-only only, read-only only, none (control), and a
    # simple resource with create-only fields only (mode c07http of harness/httpdrv derives the expected set per method)
    resource([seg("cos", P("int64"))], _ENT,
             _rests(_ENT, ("get", "create", "update", "partial_update", "batch_create", "batch_update", "batch_partial_update")),
             create_only=("note",)),
    resource([seg("rds", P("int64"))], _ENT,
             _rests(_ENT, ("get", "create", "update", "partial_update", "batch_create", "batch_update", "batch_partial_update")),
             read_only=("id",)),
    resource([seg("nos", P("int64"))], _ENT,
             _rests(_ENT, ("get", "create", "update", "partial_update", "batch_create", "batch_update", "batch_partial_update"))),
    resource([seg("conf")], _ENT, _rests(_ENT, ("get", "update", "partial_update"), simple=True), create_only=("note", "inner")),
    # keyed segments below keyless ones (the generated UnmarshalResourcePath must index the KEYED segments only): a collection
    # below a simple parent, a simple resource below that collection, a collection below collection / simple
    resource([seg("single"), seg("kids", P("int64"))], _INNER,
             _rests(_INNER, ("get", "create", "update", "delete", "get_all", "batch_get")) + [
                 finder("byAge", _INNER, [F("age", P("int32"))]),
                 action("hug", on_entity=True, ret=P("string")), action("count", ret=P("int32"))]),
    resource([seg("single"), seg("kids", P("int64")), seg("toy")], _INNER,
             _rests(_INNER, ("get", "update", "delete"), simple=True) + [action("wind")]),
    resource([seg("strs", P("string")), seg("profile"), seg("items", P("int64"))], _INNER,
             _rests(_INNER, ("get", "update", "delete", "batch_get")) + [
                 finder("recent", _INNER, paging=True), action("flag", on_entity=True, params=[F("why", P("string"))])]),
    # read-only + create-only fields on methods that take query parameters (long queries are tunnelled by a client with a
    # QueryTunnellingThreshold: the exclusion must hold on that path too - mode c07http)
    resource([seg("rqs", P("int64"))], _ENT,
             _rests(_ENT, ("get", "create", "update", "partial_update", "batch_create", "batch_update", "batch_partial_update"),
                    with_params=("create", "update", "partial_update", "batch_create", "batch_update", "batch_partial_update")),
             read_only=("id",), create_only=("note",)),
    resource([seg("owns", P("int64"))], R("Own"),
             _rests(R("Own"), ("get", "create", "update", "partial_update", "batch_create", "batch_update", "batch_partial_update")),
             read_only=("id", "idType", "stamp"), create_only=("owner", "ownerUrn", "info/s")),
]


def manifest_with_resources(package_root):
    return {"packageRoot": package_root, "inputDataTypes": TYPES + RES_TYPES, "dependencyDataTypes": [], "resources": RESOURCES}


def go_schema_with_resources():
    """JSON description read by the http driver: the schema types plus the resource specifications"""
    types = TYPES + RES_TYPES
    idx = {}
    for t in types:
        (kind, d), = t.items()
        if kind in ("record", "standaloneUnion"):
            idx[d["name"]] = len(idx)
    return {"types": types, "top": TOP + ["Ent", "Meta"], "envIndex": idx, "ns": NS, "resources": RESOURCES}
