from codecmode import run


def main(tier, seed, replay):
    return run("C11", "c11", tier, seed, replay, "Props.C11", "corr:validity (model encoder/decoder outcome on invalid values and documents vs the generated bindings)")
