import patchmode, rootmode


def main(tier, seed, replay):
    return patchmode.run("C11", tier, seed, replay,
                         base=dict(mode="c11", prop="Props.C11",
                                   corr="corr:validity (model encoder/decoder outcome on invalid values and documents vs the generated bindings)"),
                         post=rootmode.post("c11"))
