"""One check = one mode of the codec driver (harness/codecdrv) + one Props file."""
import codec
from generic import run_check

MODELLED = [
    "modelled, not verified: strconv float formatting/parsing (the driver records Go's text / parse result for every float involved: "
    "the oracle IS strconv), easyjson's jlexer (stood for by the strict RFC 8259 parser Codec/Json.v on well-formed documents only), "
    "net/url PathUnescape/QueryUnescape (Codec/Escape.v unescape)",
    "schema-quantified theorems are instantiated, for the correspondence, on the family of checks/family.py pushed through the REAL "
    "generator of the current tree (v2 module); the root module generation is not exercised by this check",
    "the model ignores: duplicate keys merging into an already decoded required record field; custom typerefs",
]


def run(pid, mode, tier, seed, replay, prop_module, corr, extra_trusted=(), assume=(), coqchk=None, timeout=3000, post=None):
    def build(work):
        exe, schema = codec.build_driver(work)
        return exe, dict(VERIF_SCHEMA=schema, VERIF_MODE=mode)
    codec.write_fam_env()
    return run_check(
        pid, tier, seed, replay,
        tables=["TablesCodec"],
        model_targets=["Corr/CodecCorr.vo"],
        prop_module=prop_module,
        driver="codecdrv", build=build,
        corr_name=corr,
        trusted=MODELLED + list(extra_trusted),
        assume=list(assume),
        coqchk_modules=coqchk or ["GR." + m for m in ([prop_module] if isinstance(prop_module, str) else prop_module)],
        driver_timeout=timeout,
        post=post,
    )
