from generic import run_check

SIGS = {
    "root-duplicated", "context-wrong", "path-reencoded", "path-normalised", "path-wrong", "query-lost", "query-changed",
    "query-invented", "scheme-changed", "host-changed", "string-wrong", "error", "panic",
}


def classify(c):
    """A model/implementation disagreement on a case INSIDE the grammar is a failing input of the property itself when
    the implementation's observable violates the oracle; those were already reported by the driver.  Here: only name the
    disagreement so that the replay says which relation broke."""
    return None


def main(tier, seed, replay):
    return run_check(
        "C15", tier, seed, replay,
        tables=["TablesUrl", "TablesTunnel"],
        model_targets=["Http/UrlModel.vo", "Http/Url.vo", "Http/UrlEnc.vo", "Corr/C15Corr.vo"],
        prop_module="Props.C15",
        driver="c15",
        corr_name="corr:request-url (model new_request_url_t - formatQueryUrl + the URL part of newRequest, tunnelling branch included - vs "
                  "the URL of the *http.Request built by the real client: String(), EscapedPath(), RawQuery, ForceQuery, Scheme, Host, "
                  "Path; requests are issued in histories on long-lived clients and EVERY request of a history is compared with the "
                  "model's URL for that request alone; plus the oracle's grammar predicate, context specification and tunnelling test "
                  "re-evaluated in Coq)",
        trusted=[
            "modelled, not verified: net/url of the installed toolchain (go1.23: Parse, setPath, EscapedPath, validEncoded, "
            "shouldEscape, unescape, escape, String, RequestURI) and the URL handling of net/http.NewRequestWithContext "
            "(re-Parse of URL.String(), removeEmptyPort) - Http/UrlModel.v; userinfo, IP-literal hosts, %-escapes in hosts, "
            "opaque URLs and fragments are outside the model (answered as an explicit 'unmodelled' error, never guessed)",
            "the ROR2 path / query writers are represented by their output alphabets (tables re-read by the translator + the "
            "structural bytes they emit); that the writers emit nothing else is C03/C01's concern",
            "the hostname resolver returns a *url.URL as url.Parse produces it (mk_base: Path/RawPath as setPath stores them, no "
            "userinfo, no opaque part); driven: the real SimpleHostnameResolver (one *url.URL for the client's lifetime), a table "
            "resolver (one long-lived *url.URL per base, several bases behind one client), a resolver answering a fresh "
            "*url.URL per request, and the client's HostnameResolver field replaced between requests",
            "the client of the model is its configuration (tunnelling threshold) - Http/Url.v client_urls: that newRequest / "
            "formatQueryUrl keep nothing between requests is a reading of the source, validated on every run by issuing every "
            "request after a history AND on a brand-new client (oracle signature history-dependent) and by the per-request "
            "correspondence; histories are finite (quick: up to 5 earlier requests in the sweeps, ~20 in the foreign-input block)",
            "tunnelled requests: method, headers and body are C14's; C15 checks and models the URL only (u.RawQuery = \"\" on the "
            "joined URL; the threshold test is the translator's transcription in Gen/TablesTunnel.v, one per module generation)",
        ],
        assume=[
            "base URL in the context grammar: lower-case scheme or none, reg-name[:port] host or none, context path "
            "/seg1/.../segn[/] of non-empty pchar segments with well-formed %XX, root name as a complete segment at most in "
            "the last position (earlier: unspecified by the property)",
            "resource path = /root[/...] over the ROR2 path writer's output alphabet with well-formed %XX; query over the ROR2 "
            "query writer's output alphabet; root name non-empty, without '/'",
        ],
        classify=classify,
        coqchk_modules=["GR.Props.C15"],
    )
