"""C05 - routing and Rest.li method inference.

harness/cmd/c05/impl_root.go is impl_v2.go for the root module; regenerate it after editing impl_v2.go with
  sed -e 's#go-restli/v2/#go-restli/#g' \
      -e 's#common "github.com/PapaCharlie/go-restli/restlidata/generated/com/linkedin/restli/common"#"github.com/PapaCharlie/go-restli/restlidata"#' \
      -e 's/common\\./restlidata./g' -e 's/v2/root/g' -e 's/implV2/implRoot/' impl_v2.go > impl_root.go && gofmt -w impl_root.go
(then restore the three-line header comment of impl_root.go)
"""
from generic import run_check


def main(tier, seed, replay):
    return run_check(
        "C05", tier, seed, replay,
        tables=["TablesRouter"],
        model_targets=["Http/Router.vo", "Http/RouterSpec.vo", "Http/RouterHeap.vo", "Corr/C05Corr.vo"],
        prop_module="Props.C05",
        driver="c05",
        corr_name="corr:route (model run_ops + serve vs the real servers of both modules: status class, error header, "
                  "filter/method trace with visible context values, which stub ran, routing facts seen in the context)",
        trusted=[
            "modelled, not verified: net/http ServeMux (Go 1.22+ matching of the two literal patterns AddToMux registers per root "
            "resource, 301 for a path that is not cleanPath-clean), net/url EscapedPath, strings.Split/HasPrefix/TrimPrefix/Cut "
            "(Base/Bytes.v split_on / has_prefix), httptest as the transport (no sockets)",
            "mutable state: the correspondence runs the persistent-value model (Handler() yields the value clone() computes); "
            "Http/RouterHeap.v models the same operations on a heap where aliasing is expressible (subNode mutating in place, "
            "clone copying every node) and heap_refines proves it denotes the persistent model; that the REAL clone() is as deep "
            "as RouterHeap.h_clone is tied by reading + the correspondence (late registrations must not show through a handler "
            "obtained earlier; the three handler maps are modelled as owned by their node)",
            "query parsing (ParseQueryParams / ValidateRor2Input) is transcribed in Http/Router.v and shared by model and "
            "declarative side; its own correctness is C04/C14",
            "the translator transcribes the `if p.isCollection {...} else {...}` statement of receive (both modules) into "
            "Gen/TablesRouter.v mechanically and fails on any statement outside its subset",
            "the Go-side oracle (decision table by method NAME written from the property text) is evaluated on every request; the "
            "Coq model on a stratified subset (every behaviour class of every tree/configuration plus a stride)",
        ],
        assume=[
            "the two combinations the property leaves unspecified (a method header contradicting the verb on a collection-like "
            "resource; a non-GET/POST/PUT/DELETE verb with a method header on a simple resource) are excluded by `specified_for` "
            "(theorem header_wins documents what the code does in the first)",
            "an X-RestLi-Method value that is none of the 13 names is treated like an absent header (theorem unknown_header_is_absent)",
            "an empty path segment after a collection is a (present, empty) entity key, so a trailing slash on a collection routes to "
            "the entity-level method and the key then fails to decode (400 after the filters ran)",
            "through a ServeMux only paths that ServeMux does not redirect are covered (no empty, '.' or '..' segment: mux_clean); "
            "resource names are plain identifiers (a name containing '{', ' ' or '/' changes the meaning of the ServeMux pattern)",
            "tunnelled requests are well formed (DecodeTunnelledQuery succeeds); malformed tunnelling is C14",
            "trees are those registration through the exported Register* functions can build (registration_wf)",
        ],
        coqchk_modules=["GR.Props.C05"],
        driver_timeout=3000,
    )
