from codecmode import run


def main(tier, seed, replay):
    return run("C04", "c04", tier, seed, replay, "Props.C04", "corr:hostile-input (cursor-level ROR2 model vs the readers: outcome class and value on every hostile string)")
