import json, os
import codec, httpdrv, rootmode, roothttp, anymode
from codecmode import MODELLED
from generic import run_check
from lib import sh, env_go, Broken


def main(tier, seed, replay):
    state = {}

    def build(work):
        exe, schema = codec.build_driver(work)
        state["exe"] = exe
        state["env"] = dict(VERIF_SCHEMA=schema)
        return exe, dict(VERIF_SCHEMA=schema, VERIF_MODE="c04")

    def post(run, rep, out):
        # HTTP level (oracle on the implementation only): malformed requests -> 4xx, no 5xx / panic / hang / resource invocation;
        # malformed responses -> the generated client returns an error
        hwork = os.path.join(run.work, "http")
        os.makedirs(hwork, exist_ok=True)
        exe, schema = httpdrv.build_driver(hwork)
        hout = os.path.join(hwork, "out")
        rc, o = sh([exe, "--out", hout, "--tier", tier, "--seed", str(seed)], cwd=hwork,
                   env=env_go(dict(VERIF_SCHEMA=schema, VERIF_MODE="c04http")), timeout=1500)
        if rc != 0:
            raise Broken("correspondence", "HTTP-level hostile-input driver failed (exit %s)" % rc, o[-4000:])
        hrep = json.load(open(os.path.join(hout, "report.json")))
        for f in hrep["failures"]:
            run.fail_input(f["sig"], f["what"], f["case"], site=f.get("site"), impl=f.get("impl"))
        run.cov["http_level"] = dict(evaluations=hrep["evaluations"], distinct_nontrivial=hrep["distinct_nontrivial"],
                                     rule=hrep["rule"], input_distribution=hrep["distribution"],
                                     samples=hrep["samples"][:3])
        run.log("HTTP level: %d evaluations, %d oracle failures" % (hrep["evaluations"], len(hrep["failures"])))
        # the UNTYPED reader on hostile Go values (decA_never_panics; mode cany)
        anymode.any_post(state)(run, rep, out)
        # ROOT module generation: the same hostile streams against the root readers / root bindings
        rootmode.run_root(run, "c04", tier, seed)
        # ... and the HTTP level against the root runtime and the bindings of the root generator
        roothttp.run_root(run, "c04http", tier, seed)

    codec.write_fam_env()
    return run_check(
        "C04", tier, seed, replay,
        tables=["TablesCodec"],
        model_targets=["Corr/CodecCorr.vo", "Corr/AnyCorr.vo"],
        prop_module=["Props.C04", anymode.ANY_PROP],
        driver="codecdrv", build=build, post=post,
        corr_name="corr:hostile-input (cursor-level ROR2 model vs the readers: outcome class and value on every hostile string)",
        trusted=MODELLED + anymode.ANY_TRUSTED + ["HTTP level (malformed requests / responses through the generated server and client) and JSON bodies are decided by the "
                            "property oracle on the implementation only: net/http and easyjson's lexer are external"],
        assume=[],
        coqchk_modules=["GR.Props.C04", "GR." + anymode.ANY_PROP],
    )
