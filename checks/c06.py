import json, os
import codec, httpdrv, rootmode, roothttp, anymode
from codecmode import MODELLED
from generic import run_check
from lib import sh, env_go, Broken


def main(tier, seed, replay):
    state = {}

    def build(work):
        exe, schema = codec.build_driver(work)
        state["exe"] = exe
        state["env"] = dict(VERIF_SCHEMA=schema)
        return exe, dict(VERIF_SCHEMA=schema, VERIF_MODE="c06")

    def post(run, rep, out):
        # the lenient / strict generated CLIENT (oracle on the implementation only): a lenient client receives the partially
        # filled value with no error; a strict one the exact set of missing fields together with the value
        hwork = os.path.join(run.work, "http")
        os.makedirs(hwork, exist_ok=True)
        exe, schema = httpdrv.build_driver(hwork)
        hout = os.path.join(hwork, "out")
        rc, o = sh([exe, "--out", hout, "--tier", tier, "--seed", str(seed)], cwd=hwork,
                   env=env_go(dict(VERIF_SCHEMA=schema, VERIF_MODE="c06http")), timeout=1800)
        if rc != 0:
            raise Broken("correspondence", "client-level missing-field driver failed (exit %s)" % rc, o[-4000:])
        hrep = json.load(open(os.path.join(hout, "report.json")))
        for f in hrep["failures"]:
            run.fail_input(f["sig"], f["what"], f["case"], site=f.get("site"), impl=f.get("impl"))
        run.cov["client_level"] = dict(evaluations=hrep["evaluations"], distinct_nontrivial=hrep["distinct_nontrivial"],
                                       rule=hrep["rule"], input_distribution=hrep["distribution"], samples=hrep["samples"][:3])
        run.log("client level: %d evaluations, %d oracle failures" % (hrep["evaluations"], len(hrep["failures"])))
        # the UNTYPED reader (NewInterfaceReader): model Codec/AnyReader.v, Corr/AnyCorr.v, Props/C06_any.v
        anymode.any_post(state)(run, rep, out)
        # ROOT module generation: the same mutated documents against the root readers / root bindings
        rootmode.run_root(run, "c06", tier, seed)
        # ... and the lenient / strict generated client of the root generator
        roothttp.run_root(run, "c06http", tier, seed)

    codec.write_fam_env()
    mods = ["Props.C06"]
    if os.path.exists(os.path.join(os.path.dirname(os.path.dirname(os.path.abspath(__file__))), "coq", "Props", "C06_ror2.v")):
        mods.append("Props.C06_ror2")
    mods.append(anymode.ANY_PROP)
    return run_check(
        "C06", tier, seed, replay,
        tables=["TablesCodec"],
        model_targets=["Corr/CodecCorr.vo", "Corr/AnyCorr.vo"],
        prop_module=mods,
        driver="codecdrv", build=build, post=post,
        corr_name="corr:missing-fields (model decoders vs the readers on mutated documents: error class, field set, partial value)",
        trusted=MODELLED + anymode.ANY_TRUSTED + ["the generated client (lenient / strict) is decided by the property oracle on the implementation",
            "readers WITH excluded fields (exclusion stream of mode c06): the expected missing set is computed by an independent oracle (missingUnder) and the "
            "cases are evaluated with the model's excl / ignore parameters; the untyped reader with excluded fields is decided by the oracle only. (Default literals are "
            "decoded without the exclusion spec by both the generated code - a fresh NewJsonReader - and the model's lit_value.)"],
        assume=anymode.ANY_ASSUME,
        coqchk_modules=["GR." + m for m in mods],
    )
