from codecmode import run


def main(tier, seed, replay):
    return run("C06", "c06", tier, seed, replay, "Props.C06", "corr:missing-fields (model decoders vs the readers on mutated documents: error class, field set, partial value)")
