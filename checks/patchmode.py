"""Partial-update (patch) part of C11 and C07: Props/C11_patch.v + mode c11p of the codec driver + Corr/PatchCorr.v (v2 generation);
Props/C11_rootpatch.v (model Codec/RootPatch.v of the ROOT generator's X_PartialUpdate code) is an obligation of the same checks, its
correspondence run is mode c11p of the root driver, evaluated with Corr/RootPatchCorr.v by checks/rootmode.py (post= callback).

Two ways to use it:

  patchmode.run(pid, tier, seed, replay)
      the patch check alone, as a complete check under property id `pid` (evidence/<pid>.json, known findings of `pid`).

  patchmode.run(pid, tier, seed, replay, base=dict(mode="c11", prop="Props.C11", corr="corr:validity ..."))
      ONE check = the existing codec mode `base` AND the patch check: one lib.Run, so one evidence file, one verdict, one set of
      replays.  The theorems of both Props files are obligations; the driver is built once and run twice (VERIF_MODE=<base mode>,
      then VERIF_MODE=c11p); the cases of the first run are evaluated with Corr/CodecCorr.v, those of the second with
      Corr/PatchCorr.v.  The patch coverage is stored under coverage["patch"].

      checks/c11.py:  return patchmode.run("C11", tier, seed, replay, base=dict(mode="c11", prop="Props.C11", corr="corr:validity (...)"))
      checks/c07.py:  return patchmode.run("C07", tier, seed, replay, base=dict(mode="c07", prop="Props.C07", corr="corr:exclusion (...)"))
"""
import json, os
import codec, rootmode
from codecmode import MODELLED
from generic import run_check
from lib import *

PATCH_PROP = "Props.C11_patch"
# the ROOT generator's X_PartialUpdate code has its own model and theorems (Codec/RootPatch.v, Props/C11_rootpatch.v); its correspondence
# run is mode c11p of the root driver (checks/rootmode.py EXTRA_MODES / EXTRA_CORR), started by the check's post= callback
ROOT_PATCH_PROP = "Props.C11_rootpatch"
PATCH_CORR = "corr:partial-update (model check_patch / enc_patch / dec_patch vs the generated X_PartialUpdate bindings)"
PATCH_TRUSTED = [
    "partial updates: the model Codec/Patch.v transcribes the generated CheckFields / MarshalRestLiPatch / UnmarshalRestLiPatch / "
    "UnmarshalDeleteField function by function; it is compared with the generated bindings of the family on every run (mode c11p); "
    "the theorems of Props/C11_patch.v are stated for records without included records (with includes the statement is false: "
    "see the *_refuted theorems); set values are encoded / decoded by the codec model (enc / decJ)",
]


def patch_post(state, timeout=3000):
    """returns a run_check post= callback that runs mode c11p with the driver built by `state['exe']`"""
    def post(run, rep0, out0):
        exe, benv = state["exe"], state["env"]
        out = os.path.join(run.work, "cases_patch")
        cmd = [exe, "--out", out, "--tier", run.tier, "--seed", str(run.seed)]
        rc, o = sh(cmd, cwd=run.work, env=env_go(dict(benv, VERIF_MODE="c11p")), timeout=timeout)
        if rc != 0:
            raise Broken("correspondence", "driver codecdrv (mode c11p) failed (exit %s)" % rc, o[-6000:])
        rep = json.load(open(os.path.join(out, "report.json")))
        run.log("patch driver: %d evaluations, %d distinct non-trivial, %d oracle failures" %
                (rep["evaluations"], rep["distinct_nontrivial"], len(rep["failures"])))
        for f in rep["failures"]:
            run.fail_input(f["sig"], f["what"], f["case"], site=f.get("site"), impl=f.get("impl"))
        nmis = 0
        if not any(b.kind in ("translator", "model") for b in run.broken) and rep.get("shards"):
            cases = json.load(open(os.path.join(out, "cases.json")))
            res = coq_eval_cases(out, [os.path.join(out, s) for s in rep["shards"]])
            for k, s in enumerate(rep["shards"]):
                idx, rtxt = res[os.path.join(out, s)]
                for i in idx:
                    nmis += 1
                    if nmis <= 3:
                        c = cases["cases"][k * cases["per"] + i]
                        run.broken.append(Broken("correspondence", PATCH_CORR,
                                                 json.dumps(dict(first_disagreeing_case=c, model_results_for_shard=rtxt[:2000]),
                                                            default=str)))
            run.log("patch model evaluated on %d cases: %d mismatches" % (len(cases["cases"]), nmis))
        run.cov["patch"] = dict(evaluations=rep["evaluations"], distinct_nontrivial=rep["distinct_nontrivial"], rule=rep["rule"],
                                samples=rep["samples"][:3] or ["(none)"], input_distribution=rep["distribution"],
                                correspondence_mismatches=nmis)
    return post


def run(pid, tier, seed, replay, base=None, timeout=3000, post=None):
    state = {}

    def build(work):
        exe, schema = codec.build_driver(work)
        state["exe"] = exe
        state["env"] = dict(VERIF_SCHEMA=schema)
        return exe, dict(VERIF_SCHEMA=schema, VERIF_MODE=base["mode"] if base else "c11p")

    codec.write_fam_env()
    if base is None:
        # the patch check alone: the generic flow with PatchCorr
        return run_check(
            pid, tier, seed, replay,
            tables=["TablesCodec"],
            model_targets=["Corr/PatchCorr.vo"],
            prop_module=[PATCH_PROP, ROOT_PATCH_PROP],
            driver="codecdrv", build=build,
            corr_name=PATCH_CORR,
            trusted=MODELLED + PATCH_TRUSTED,
            assume=[],
            coqchk_modules=["GR." + PATCH_PROP, "GR." + ROOT_PATCH_PROP],
            driver_timeout=timeout,
            post=post,
        )
    props = [base["prop"]] if isinstance(base["prop"], str) else list(base["prop"])
    return run_check(
        pid, tier, seed, replay,
        tables=["TablesCodec"],
        model_targets=["Corr/CodecCorr.vo", "Corr/PatchCorr.vo"],
        prop_module=props + [PATCH_PROP, ROOT_PATCH_PROP],
        driver="codecdrv", build=build,
        corr_name=base["corr"],
        trusted=MODELLED + PATCH_TRUSTED + list(base.get("extra_trusted", ())),
        assume=list(base.get("assume", ())),
        coqchk_modules=base.get("coqchk") or ["GR." + m for m in props + [PATCH_PROP, ROOT_PATCH_PROP]],
        driver_timeout=timeout,
        post=rootmode.post_chain(patch_post(state, timeout), post),
    )
